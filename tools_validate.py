#!/usr/bin/env python3
"""validate MANIFEST.json and evidence/*.json against the schemas (run with python3-vt)"""
import json, sys, glob, jsonschema
ok = True
m = json.load(open('/verif/MANIFEST.json'))
try:
    jsonschema.validate(m, json.load(open('/root/.vp/MANIFEST.schema.json')))
    print('MANIFEST ok;', len(m['checks']), 'checks,', len(m.get('not_applicable', [])), 'not_applicable')
except Exception as e:
    ok = False; print('MANIFEST INVALID', e)
ids = {json.loads(l)['id'] for l in open('/verif/properties.jsonl')}
claimed = {c['property_id'] for c in m['checks']}
na = {c['property_id'] for c in m.get('not_applicable', [])}
if claimed | na != ids or claimed & na:
    ok = False; print('property coverage mismatch', sorted(ids - claimed - na), sorted(claimed & na))
es = json.load(open('/root/.vp/EVIDENCE.schema.json'))
for f in sorted(glob.glob('/verif/evidence/*.json')):
    try:
        jsonschema.validate(json.load(open(f)), es); print(f, 'ok')
    except Exception as e:
        ok = False; print(f, 'INVALID', str(e)[:300])
sys.exit(0 if ok else 1)
