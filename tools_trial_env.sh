#!/bin/sh
# tools_trial_env.sh — (re)creates an isolated copy of the framework and of the repository for
# seeded-change trials, so that development in /verif and /repo is not disturbed:
#   /tmp/verif_trial  = rsync of /verif (committed or not), harness go.mod pointing at /tmp/repo_trial
#   /tmp/repo_trial   = detached git worktree of /repo HEAD
set -e
git -C /repo worktree remove --force /tmp/repo_trial 2>/dev/null || true
rm -rf /tmp/repo_trial /tmp/verif_trial
git -C /repo worktree add -q --detach /tmp/repo_trial HEAD
rsync -a --exclude .git --exclude .work --exclude replays /verif/ /tmp/verif_trial/
sed -i 's#=> /repo#=> /tmp/repo_trial#' /tmp/verif_trial/harness/go.mod
echo "trial env ready: TRIAL_VERIF=/tmp/verif_trial TRIAL_REPO=/tmp/repo_trial"
