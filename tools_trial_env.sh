#!/bin/sh
# tools_trial_env.sh [suffix] — (re)creates an isolated copy of the framework and of the repository
# for seeded-change trials, so that development in /verif and /repo is not disturbed:
#   /tmp/verif_trial<suffix>  = rsync of /verif (committed or not), harness go.mod pointing at the repo copy
#   /tmp/repo_trial<suffix>   = detached git worktree of /repo HEAD
set -e
S="$1"
git -C /repo worktree remove --force /tmp/repo_trial$S 2>/dev/null || true
rm -rf /tmp/repo_trial$S /tmp/verif_trial$S
git -C /repo worktree add -q --detach /tmp/repo_trial$S HEAD
rsync -a --exclude .git --exclude .work --exclude replays /verif/ /tmp/verif_trial$S/
sed -i "s#=> /repo#=> /tmp/repo_trial$S#" /tmp/verif_trial$S/harness/go.mod
echo "trial env ready: TRIAL_VERIF=/tmp/verif_trial$S TRIAL_REPO=/tmp/repo_trial$S"
