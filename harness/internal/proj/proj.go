// Package proj generates multi-package Go projects with an old and a new revision, writes them
// to disk, drives git and writes goat.yaml. All choices derive from the given PRNG.
package proj

import (
	"bytes"
	"context"
	"fmt"
	"math/rand"
	"os"
	"os/exec"
	"path/filepath"
	"sort"
	"strings"
	"time"

	"verifharness/internal/gen"
)

const Module = "example.com/m"

type Pkg struct {
	Dir     string // "." for the root
	Name    string
	IsMain  bool
	Files   []*gen.File
	Imports []int // indices into Project.Pkgs (library packages only)
	// ExtraDirs: directories of hand-written leaf packages (ExtraOld/ExtraNew) that file 0 imports
	ExtraDirs []string
}

type Project struct {
	Pkgs []*Pkg
	// GoVersion: the go directive of the project's go.mod ("" = 1.23); the generated package and the
	// instrumented sources are compiled at this language version
	GoVersion string
	// Extra files: path -> content per revision ("" = absent in that revision)
	ExtraOld map[string]string
	ExtraNew map[string]string
	Dist     map[string]int
}

type Opts struct {
	Mains        int  // number of main packages (1..4); 0 = random
	RootMain     bool // one of the mains lives in the module root
	Libs         int  // number of library packages; 0 = random 2..5
	IgnoreMidLib bool // (scenario level) one configuration in six ignores a library that lies on an import path
	GoVersions   bool // draw the go directive of go.mod from 1.20 … 1.23 (language version of the build)
	InScope      bool // avoid the recorded defect classes
	Decoys       bool // add test files, testdata, vendor, nested module, non-Go files, look-alike dirs
	Asm          bool // allow a body-less declaration with an assembly file
	ChangeP      float64
	FuncsPer     int
	SmallBody    bool
	NoNestedMain bool
	NoSameBase   bool // no two main packages with the same directory base name (binaries are named by it)
	NoLookAlikes bool // no packages whose path extends a tracking package path
	InnerMain    bool // always nest a main package below another main's directory, in hack/gen (sorts before the entry file)
	Twins        bool // always add the byte-identical twin files and the point-free changed files (threads e2e)
	PkgDirNotes  bool // always put the hand-written NOTES.md into internal/cov (a possible tracking package path)
}

// Entry is the name of the file that declares func main (main packages only).
func (pk *Pkg) Entry() string { return pk.Files[0].Name }

func pkgImportPath(dir string) string {
	if dir == "." {
		return Module
	}
	return Module + "/" + dir
}

// Generate builds a project.
func Generate(r *rand.Rand, o Opts) *Project {
	g := gen.New(r)
	if o.InScope {
		g.InScope()
	}
	if o.ChangeP > 0 {
		g.ChangeP = o.ChangeP
	}
	if o.SmallBody {
		g.MaxDepth = 2
	}
	p := &Project{ExtraOld: map[string]string{}, ExtraNew: map[string]string{}}
	if o.GoVersions {
		p.GoVersion = []string{"1.20", "1.21", "1.22", "1.23"}[r.Intn(4)]
	}
	nLibs := o.Libs
	if nLibs == 0 {
		nLibs = 2 + r.Intn(4)
	}
	nMains := o.Mains
	if nMains == 0 {
		nMains = 1 + r.Intn(4)
	}
	funcsPer := o.FuncsPer
	if funcsPer == 0 {
		funcsPer = 3
	}
	// libraries: lib i may import libs j > i (acyclic)
	// library 1 lives in the module root (import path == module path) when no main does
	rootLib := !o.RootMain && nLibs >= 2 && r.Intn(3) == 0
	for i := 0; i < nLibs; i++ {
		dir := fmt.Sprintf("pkg/l%d", i)
		if i%3 == 2 {
			dir = fmt.Sprintf("internal/deep/l%d", i)
		}
		// sibling directories whose names extend another one with a byte below '/': the byte-wise
		// path order (pkg/l0-util/… < pkg/l0/…) differs from the segment-wise one
		if i == 3 {
			dir = "pkg/l0-util"
		}
		if i == 4 {
			dir = "pkg/l1.v2"
		}
		if i == 1 && rootLib {
			dir = "."
		}
		pk := &Pkg{Dir: dir, Name: fmt.Sprintf("l%d", i)}
		p.Pkgs = append(p.Pkgs, pk)
	}
	for i := 0; i < nLibs; i++ {
		for j := i + 1; j < nLibs; j++ {
			if r.Intn(100) < 35 {
				p.Pkgs[i].Imports = append(p.Pkgs[i].Imports, j)
			}
		}
	}
	// the last library is imported by nobody when there are at least 3
	orphan := -1
	if nLibs >= 3 {
		orphan = nLibs - 1
		for i := 0; i < nLibs; i++ {
			var keep []int
			for _, j := range p.Pkgs[i].Imports {
				if j != orphan {
					keep = append(keep, j)
				}
			}
			p.Pkgs[i].Imports = keep
		}
	}
	for i := 0; i < nMains; i++ {
		dir := fmt.Sprintf("cmd/m%d", i)
		if i == 0 && o.RootMain {
			dir = "."
		}
		pk := &Pkg{Dir: dir, Name: "main", IsMain: true}
		for j := 0; j < nLibs; j++ {
			if j != orphan && r.Intn(100) < 50 {
				pk.Imports = append(pk.Imports, j)
			}
		}
		p.Pkgs = append(p.Pkgs, pk)
	}
	// a sibling main whose directory name extends another main's (cmd/m0 / cmd/m0x): a
	// mainEntries selection of the shorter one must not select it
	if !o.NoNestedMain && r.Intn(3) == 0 {
		for _, pk := range p.Pkgs {
			if pk.IsMain && pk.Dir != "." {
				sm := &Pkg{Dir: pk.Dir + "x", Name: "main", IsMain: true}
				for j := 0; j < nLibs; j++ {
					if j != orphan && r.Intn(100) < 50 {
						sm.Imports = append(sm.Imports, j)
					}
				}
				p.Pkgs = append(p.Pkgs, sm)
				break
			}
		}
	}
	// two main packages whose directories have the same base name (svc/a/cmd/app, svc/b/cmd/app)
	if !o.NoNestedMain && !o.NoSameBase && r.Intn(3) == 0 {
		for _, d := range []string{"svc/a/cmd/app", "svc/b/cmd/app"} {
			sm := &Pkg{Dir: d, Name: "main", IsMain: true}
			for j := 0; j < nLibs; j++ {
				if j != orphan && r.Intn(100) < 50 {
					sm.Imports = append(sm.Imports, j)
				}
			}
			p.Pkgs = append(p.Pkgs, sm)
		}
	}
	// a main package nested below another main's directory (mainEntries selections must not
	// match it by prefix)
	if !o.NoNestedMain && (o.InnerMain || r.Intn(3) == 0) {
		for _, pk := range p.Pkgs {
			if pk.IsMain && pk.Dir != "." {
				// "hack" sorts before the entry file of the outer package, "tools" after it
				sub := []string{"/tools/dump", "/hack/gen"}[r.Intn(2)]
				if o.InnerMain {
					sub = "/hack/gen"
				}
				nm := &Pkg{Dir: pk.Dir + sub, Name: "main", IsMain: true}
				for j := 0; j < nLibs; j++ {
					if j != orphan && r.Intn(100) < 50 {
						nm.Imports = append(nm.Imports, j)
					}
				}
				p.Pkgs = append(p.Pkgs, nm)
				break
			}
		}
	}
	// files
	for pi, pk := range p.Pkgs {
		nFiles := 1 + r.Intn(3)
		if pk.IsMain {
			nFiles = 1 + r.Intn(2)
		}
		for fi := 0; fi < nFiles; fi++ {
			f := &gen.File{Pkg: pk.Name, Name: fmt.Sprintf("f%d.go", fi), Helpers: fi == 0, IsMain: pk.IsMain && fi == 0}
			if pk.IsMain && fi == 0 {
				f.Name = "main.go"
				f.MainMethod = r.Intn(4) == 0
				f.OneLineMain = r.Intn(5) == 0
				f.MainSkeleton = r.Intn(4) == 0
				f.AlignedTable = r.Intn(3) == 0
				f.DefaultMux = r.Intn(3) == 0
			}
			if fi == 0 && r.Intn(3) == 0 {
				f.InitK = 2 + r.Intn(90)
			}
			if fi == 0 && !pk.IsMain && o.Asm && r.Intn(100) < 40 {
				f.Asm = true
			}
			if fi > 0 && r.Intn(100) < 25 {
				f.Status = gen.Added
			}
			f.Globals = g.GenGlobals()
			n := 1 + r.Intn(funcsPer)
			for k := 0; k < n; k++ {
				fn := g.GenFunc(fmt.Sprintf("F%d_%d", fi, k))
				if f.Status == gen.Added {
					fn.Status = gen.Same // the whole file is new anyway
				}
				f.Funcs = append(f.Funcs, fn)
			}
			pk.Files = append(pk.Files, f)
		}
		// one two-file main package in four keeps func main in run.go next to a main.go that holds
		// helpers only (the entry file is the file that declares func main, whatever its name)
		if pk.IsMain && len(pk.Files) == 2 && r.Intn(4) == 0 {
			pk.Files[0].Name, pk.Files[1].Name = "run.go", "main.go"
		}
		// one main package in three has an entry file without any change of its own (it is then
		// rewritten only for the service-start block and the import)
		if pk.IsMain && r.Intn(3) == 0 {
			pk.Files[0].Freeze()
		}
		// the entry file of a main package nested below another main's directory never changes: it may
		// be rewritten only when that very package is selected
		if pk.IsMain && (strings.HasSuffix(pk.Dir, "/hack/gen") || strings.HasSuffix(pk.Dir, "/tools/dump")) {
			pk.Files[0].Freeze()
		}
		_ = pi
	}
	// cross-package calls: file 0 of each package calls one stable function of each import
	for _, pk := range p.Pkgs {
		f0 := pk.Files[0]
		blank := map[int]bool{}
		for _, j := range pk.Imports {
			lib := p.Pkgs[j]
			// one import in six is for side effects only (`_ "path"`): still an edge of the closure
			if r.Intn(6) == 0 {
				blank[j] = true
				f0.Blank = append(f0.Blank, pkgImportPath(lib.Dir))
				continue
			}
			f0.Imports = append(f0.Imports, pkgImportPath(lib.Dir))
			for _, fn := range lib.Files[0].Funcs {
				if fn.Status != gen.Added && (fn.Kind == "multi" || fn.Kind == "single") {
					f0.Calls = append(f0.Calls, lib.Name+"."+fn.Name)
					break
				}
			}
		}
		// an import must be used: fall back to a helper every package has
		for k, j := range pk.Imports {
			if blank[j] {
				continue
			}
			lib := p.Pkgs[j]
			used := false
			for _, c := range f0.Calls {
				if strings.HasPrefix(c, lib.Name+".") {
					used = true
				}
			}
			if !used {
				f0.Calls = append(f0.Calls, lib.Name+".ApplyPair")
			}
			_ = k
		}
	}
	// look-alikes of the possible tracking package paths (goat, internal/cov, tools/goat): changed
	// leaf packages whose import path merely EXTENDS such a path, imported by the first main
	if !o.NoLookAlikes && r.Intn(2) == 0 {
		for _, pk := range p.Pkgs {
			if !pk.IsMain {
				continue
			}
			for _, la := range [][2]string{{"goatherd", "goatherd"}, {"internal/coverage", "coverage"}, {"tools/goatutil", "goatutil"}} {
				src := func(k int) string {
					return fmt.Sprintf("package %s\n\n// Look lives in a package whose path extends a tracking package path.\nfunc Look(a, b int) int {\n\ta += %d\n\treturn a + b\n}\n", la[1], k)
				}
				p.ExtraOld[la[0]+"/look.go"] = src(1)
				p.ExtraNew[la[0]+"/look.go"] = src(2)
				pk.ExtraDirs = append(pk.ExtraDirs, la[0])
				pk.Files[0].Imports = append(pk.Files[0].Imports, pkgImportPath(la[0]))
				pk.Files[0].Calls = append(pk.Files[0].Calls, la[1]+".Look")
			}
			break
		}
	}
	// a project package that a main package imports only from a file guarded by a custom build tag
	// (`go build -tags extra`): still an import of that main package, its ids belong to the component
	if r.Intn(3) == 0 {
		for _, pk := range p.Pkgs {
			if !pk.IsMain {
				continue
			}
			src := func(k int) string {
				return fmt.Sprintf("package only\n\n// Only is imported from a tag-guarded file only.\nfunc Only(a int) int {\n\ta += %d\n\treturn a\n}\n", k)
			}
			p.ExtraOld["tagged/only/only.go"] = src(1)
			p.ExtraNew["tagged/only/only.go"] = src(2)
			guard := "//go:build extra\n\npackage main\n\nimport _ \"" + pkgImportPath("tagged/only") + "\"\n"
			p.ExtraOld[filepath.Join(pk.Dir, "z_extra.go")] = guard
			p.ExtraNew[filepath.Join(pk.Dir, "z_extra.go")] = guard
			pk.ExtraDirs = append(pk.ExtraDirs, "tagged/only")
			break
		}
	}
	if o.Decoys {
		p.addDecoys(r)
	}
	p.addShapes(r, o)
	if o.PkgDirNotes {
		p.ExtraOld["internal/cov/NOTES.md"] = "notes kept next to the generated file\n"
		p.ExtraNew["internal/cov/NOTES.md"] = "notes kept next to the generated file\n"
	}
	p.Dist = g.Dist
	return p
}

// addShapes adds history shapes every project carries: a Go file that exists only in the old
// revision (deleted), per library a file whose only change is a comment and a type declaration
// (changed, but no tracking point; it sorts before the other files of its package), and changed
// Go packages in directories the go tool ignores ("_examples", ".hidden") but the property does not.
func (p *Project) addShapes(r *rand.Rand, o Opts) {
	for _, pk := range p.Pkgs {
		if pk.IsMain {
			continue
		}
		if r.Intn(2) == 0 {
			p.ExtraOld[filepath.Join(pk.Dir, "zz_old_only.go")] = fmt.Sprintf("package %s\n\n// OldOnly exists only in the old revision.\nfunc OldOnly(a int) int {\n\ta++\n\treturn a\n}\n", pk.Name)
		}
		if r.Intn(2) == 0 {
			p.ExtraOld[filepath.Join(pk.Dir, "a_types.go")] = fmt.Sprintf("package %s\n\n// Rec is a record.\ntype Rec struct {\n\tA int\n}\n", pk.Name)
			p.ExtraNew[filepath.Join(pk.Dir, "a_types.go")] = fmt.Sprintf("package %s\n\n// Rec is a record (changed comment).\ntype Rec struct {\n\tA int\n\tB string\n}\n", pk.Name)
		}
	}
	// a changed Go file the go tool ignores by its name (leading underscore) but goat does not
	if r.Intn(3) == 0 {
		parked := func(k int) string {
			return fmt.Sprintf("package l0\n\n// Parked is in a file the go tool skips.\nfunc Parked(a int) int {\n\ta += %d\n\treturn a\n}\n", k)
		}
		p.ExtraOld["pkg/l0/_parked.go"] = parked(1)
		p.ExtraNew["pkg/l0/_parked.go"] = parked(2)
	}
	// a hand-written (non-Go) file in a directory that may be configured as the tracking package
	// path (internal/cov): never to be touched or lost, and it keeps that directory alive
	if r.Intn(3) == 0 {
		p.ExtraOld["internal/cov/NOTES.md"] = "notes kept next to the generated file\n"
		p.ExtraNew["internal/cov/NOTES.md"] = "notes kept next to the generated file\n"
	}
	// a nested module two levels down whose parent directory holds a changed file that sorts first
	// (the answer for the parent must not be taken for the answer for the module)
	if r.Intn(2) == 0 {
		doc := func(k int) string {
			return fmt.Sprintf("package examples\n\n// Doc sits next to a nested module.\nfunc Doc(a int) int {\n\ta += %d\n\treturn a\n}\n", k)
		}
		qs := func(k int) string {
			return fmt.Sprintf("package main\n\nfunc main() {\n\ta := %d\n\tprintln(a)\n}\n", k)
		}
		p.ExtraOld["examples/doc.go"] = doc(1)
		p.ExtraNew["examples/doc.go"] = doc(2)
		p.ExtraOld["examples/quickstart/go.mod"] = "module example.com/quickstart\n\ngo 1.23\n"
		p.ExtraNew["examples/quickstart/go.mod"] = p.ExtraOld["examples/quickstart/go.mod"]
		p.ExtraOld["examples/quickstart/main.go"] = qs(1)
		p.ExtraNew["examples/quickstart/main.go"] = qs(2)
	}
	// a file of a main package that sorts before the entry file and only TALKS about func main
	// (a usage text in a raw string, lines starting with "func main()"): never the entry file
	if r.Intn(3) == 0 {
		for _, pk := range p.Pkgs {
			if pk.IsMain {
				doc := "package main\n\n// usage is printed by -help.\nconst usage = `example:\n\nfunc main() {\n\trun()\n}\n`\n\nvar _ = usage\n"
				p.ExtraOld[filepath.Join(pk.Dir, "a_usage.go")] = doc
				p.ExtraNew[filepath.Join(pk.Dir, "a_usage.go")] = doc
				break
			}
		}
	}
	// the user's own dot file in a directory that may be configured as the tracking package path
	// (tools/goat): the directory is not empty without the generated file and must survive clean
	if r.Intn(3) == 0 {
		p.ExtraOld["tools/goat/.gitignore"] = "goat_generated.go\n"
		p.ExtraNew["tools/goat/.gitignore"] = "goat_generated.go\n"
	}
	// a very long line (an embedded asset, > 64 KiB) after the last function of a changed file
	if r.Intn(4) == 0 {
		asset := func(k int) string {
			return fmt.Sprintf("package l0\n\n// AssetLen uses the asset below.\nfunc AssetLen(a int) int {\n\ta += %d\n\treturn a + len(asset)\n}\n\nvar asset = %q\n", k, strings.Repeat("0123456789abcdef", 4400))
		}
		p.ExtraOld["pkg/l0/zz_asset.go"] = asset(1)
		p.ExtraNew["pkg/l0/zz_asset.go"] = asset(2)
	}
	// a Go file renamed between the revisions with an edit that removes several lines and changes
	// one (similar enough for rename detection where the diff stage uses it)
	if r.Intn(2) == 0 {
		moved := func(old bool) string {
			var b strings.Builder
			b.WriteString("package l0\n\n// Moved lives in a file that is renamed between the revisions.\nfunc Moved(a int) int {\n")
			for k := 1; k <= 14; k++ {
				if !old && k >= 5 && k <= 9 {
					continue
				}
				if !old && k == 11 {
					b.WriteString("\ta -= 11\n")
					continue
				}
				fmt.Fprintf(&b, "\ta += %d\n", k)
			}
			b.WriteString("\treturn a\n}\n")
			return b.String()
		}
		p.ExtraOld["pkg/l0/moved_from.go"] = moved(true)
		p.ExtraNew["pkg/l0/moved_to.go"] = moved(false)
	}
	// an unchanged nested module and a changed sibling package whose directory name merely starts
	// with the module directory's name (string prefix, not path prefix)
	if r.Intn(2) == 0 {
		p.ExtraOld["plugin/go.mod"] = "module example.com/plugin\n\ngo 1.23\n"
		p.ExtraNew["plugin/go.mod"] = p.ExtraOld["plugin/go.mod"]
		p.ExtraOld["plugin/p.go"] = "package plugin\n\n// P is in a nested module.\nfunc P(a int) int {\n\ta++\n\treturn a\n}\n"
		p.ExtraNew["plugin/p.go"] = p.ExtraOld["plugin/p.go"]
		api := func(k int) string {
			return fmt.Sprintf("package pluginapi\n\n// API is a sibling of the nested module.\nfunc API(a int) int {\n\ta += %d\n\treturn a\n}\n", k)
		}
		p.ExtraOld["pluginapi/api.go"] = api(1)
		p.ExtraNew["pluginapi/api.go"] = api(2)
	}
	// several changed files without any tracking point that sort first in their package (constants
	// only): with threads > 1 their workers must give their slots back like any other
	if o.Twins || r.Intn(3) == 0 {
		for k := 1; k <= 5; k++ {
			c := func(v int) string {
				return fmt.Sprintf("package l0\n\n// K%d is a tuning constant.\nconst K%d = %d\n", k, k, v)
			}
			p.ExtraOld[fmt.Sprintf("pkg/l0/aa_const%d.go", k)] = c(k)
			p.ExtraNew[fmt.Sprintf("pkg/l0/aa_const%d.go", k)] = c(k + 10)
		}
	}
	// a file excluded by a build constraint, with another package clause, that sorts first in a
	// main package's directory (tool dependencies): the directory is still a main package
	if r.Intn(3) == 0 {
		for _, pk := range p.Pkgs {
			if pk.IsMain {
				deps := "//go:build tools\n\npackage tools\n\nimport _ \"fmt\"\n"
				p.ExtraOld[filepath.Join(pk.Dir, "a_deps.go")] = deps
				p.ExtraNew[filepath.Join(pk.Dir, "a_deps.go")] = deps
				break
			}
		}
	}
	// two files with byte-identical new contents: one modified in a few lines, the other new in
	// the revision (a copy); the new one is reported in full, whatever was computed for its twin
	if o.Twins || r.Intn(3) == 0 {
		twin := func(old bool) string {
			var b strings.Builder
			b.WriteString("package impl\n\n// Twin has a byte-identical copy in a sibling directory.\nfunc Twin(a int) int {\n")
			for k := 1; k <= 12; k++ {
				if old && k == 7 {
					b.WriteString("\ta -= 7\n")
					continue
				}
				fmt.Fprintf(&b, "\ta += %d\n", k)
			}
			b.WriteString("\treturn a\n}\n")
			return b.String()
		}
		p.ExtraOld["twins/a/impl/impl.go"] = twin(true)
		p.ExtraNew["twins/a/impl/impl.go"] = twin(false)
		p.ExtraNew["twins/b/impl/impl.go"] = twin(false)
	}
	// a changed file whose comments and strings mention the configuration files of every alias used
	// in the grids ("goat.yaml", "cov.yaml", "gcov.yaml"): text that looks like a use of the alias
	if r.Intn(2) == 0 {
		doc := func(k int) string {
			return fmt.Sprintf("package l0\n\n// CfgDoc reads goat.yaml (or cov.yaml, gcov.yaml): see goat.Track in the docs.\nfunc CfgDoc(a int) string {\n\ta += %d\n\tif a > 100 {\n\t\treturn \"goat.yaml\"\n\t}\n\treturn \"cov.yaml gcov.yaml\"\n}\n", k)
		}
		p.ExtraOld["pkg/l0/zz_cfgdoc.go"] = doc(1)
		p.ExtraNew["pkg/l0/zz_cfgdoc.go"] = doc(2)
	}
	// number literals in spellings go/printer would "normalise" if asked to (0X1F, 0B101, 0O17, 1E3)
	if r.Intn(2) == 0 {
		lit := func(k int) string {
			return fmt.Sprintf("package l0\n\n// Literals keeps the spelling of its constants.\nfunc Literals(a int) int {\n\ta += 0X1F + 0B101 + 0O17\n\ta += %d\n\tif float64(a) > 1E3 {\n\t\ta -= 0XFF\n\t}\n\treturn a\n}\n", k)
		}
		p.ExtraOld["pkg/l0/zz_literals.go"] = lit(1)
		p.ExtraNew["pkg/l0/zz_literals.go"] = lit(2)
	}
	hello := func(k int) string {
		return fmt.Sprintf("package hello\n\n// Hello is example code.\nfunc Hello(a int) int {\n\ta += %d\n\treturn a\n}\n", k)
	}
	if r.Intn(2) == 0 {
		p.ExtraOld["_examples/hello/hello.go"] = hello(1)
		p.ExtraNew["_examples/hello/hello.go"] = hello(2)
	}
	if r.Intn(3) == 0 {
		p.ExtraOld[".hidden/h/h.go"] = strings.Replace(hello(3), "package hello", "package h", 1)
		p.ExtraNew[".hidden/h/h.go"] = strings.Replace(hello(4), "package hello", "package h", 1)
	}
}

func (p *Project) addDecoys(r *rand.Rand) {
	both := func(path, old, new string) {
		p.ExtraOld[path] = old
		p.ExtraNew[path] = new
	}
	changedGo := func(pkg string) (string, string) {
		o := fmt.Sprintf("package %s\n\nfunc Decoy(a int) int {\n\ta++\n\treturn a\n}\n", pkg)
		n := fmt.Sprintf("package %s\n\nfunc Decoy(a int) int {\n\ta++\n\ta += 2\n\treturn a\n}\n", pkg)
		return o, n
	}
	// the paths no rule makes eligible also carry hand-written marker blocks of every kind, so
	// that a patch/clean walker that reaches them would rewrite them
	marked := func(pkg string) (string, string) {
		o, n := changedGo(pkg)
		blk := "\ta++\n\t// +goat:generate\n\t// +goat:tips: do not edit the block between the +goat comments\n\ta += 100\n\t// +goat:end\n" +
			"\t// +goat:insert\n\t// +goat:delete\n\ta += 200\n\t// +goat:end\n\t// +goat:user\n\ta += 300\n\t// +goat:end\n"
		return strings.Replace(o, "\ta++\n", blk, 1), strings.Replace(n, "\ta++\n", blk, 1)
	}
	o, n := marked("l0")
	both("pkg/l0/decoy_test.go", strings.Replace(o, "func Decoy", "func decoyT", 1), strings.Replace(n, "func Decoy", "func decoyT", 1))
	o, n = marked("td")
	both("pkg/l0/testdata/td.go", o, n)
	both("testdata/x/td.go", o, n)
	o, n = marked("v")
	both("vendor/v/v.go", o, n)
	o, n = changedGo("nested")
	both("nested/go.mod", "module example.com/nested\n\ngo 1.23\n", "module example.com/nested\n\ngo 1.23\n")
	both("nested/n.go", o, n)
	both("nested/sub/n.go", strings.Replace(o, "package nested", "package sub", 1), strings.Replace(n, "package nested", "package sub", 1))
	// a nested module cut out with a go.mod that has no module directive (comment only)
	o, n = changedGo("emptymod")
	both("emptymod/go.mod", "// cut out of the parent module\n", "// cut out of the parent module\n")
	both("emptymod/e.go", o, n)
	o, n = marked("ign")
	both("ignoredir/i.go", o, n)
	o, n = changedGo("ign")
	both("ignoredirx/i.go", strings.Replace(o, "package ign", "package ignx", 1), strings.Replace(n, "package ign", "package ignx", 1))
	o, n = changedGo("vendorx")
	both("vendorx/v.go", o, n)
	// renamed with a small edit across the eligibility boundary: out of an eligible directory into
	// an ignored one (must stay untouched) and out of testdata into an eligible one (must be considered)
	mv := func(pkg, fn string, k int) string {
		return fmt.Sprintf("package %s\n\n// %s is moved between directories.\nfunc %s(a int) int {\n\ta++\n\ta += 11\n\ta += 12\n\ta += 13\n\ta += 14\n\ta += 15\n\ta += %d\n\treturn a\n}\n", pkg, fn, fn, k)
	}
	p.ExtraOld["pkg/l0/mv_out.go"] = mv("l0", "MvOut", 1)
	p.ExtraNew["ignoredir/mv_out.go"] = mv("ign", "MvOut", 2)
	p.ExtraOld["testdata/x/mv_in.go"] = mv("td", "MvIn", 1)
	p.ExtraNew["pkg/l0/mv_in.go"] = mv("l0", "MvIn", 2)
	// main packages in excluded directories that import a changed project package: never a component
	toolMain := "package main\n\nimport \"" + Module + "/pkg/l0\"\n\nfunc main() {\n\tprintln(l0.MvIn(1))\n}\n"
	both("vendor/example.org/tool/main.go", toolMain, toolMain)
	both("ignoredir/tool/main.go", toolMain, toolMain)
	both("README.md", "old\n", "new\n")
	both("data.txt", "1\n", "2\n")
	o, n = marked("l0")
	both("pkg/l0/ignored_file.go", strings.Replace(o, "Decoy", "IgnoredFile", 1), strings.Replace(n, "Decoy", "IgnoredFile", 1))
}

const asmSrc = `#include "textflag.h"

// func AsmAdd(x int) int
TEXT ·AsmAdd(SB), NOSPLIT, $0-16
	MOVQ x+0(FP), AX
	ADDQ $1, AX
	MOVQ AX, ret+8(FP)
	RET
`

const pairSrc = `
// ApplyPair is present in every generated package.
func ApplyPair(a, b int) int { return a + b }
`

// Files returns path -> content for one revision.
func (p *Project) Files(old bool) map[string]string {
	gv := p.GoVersion
	if gv == "" {
		gv = "1.23"
	}
	out := map[string]string{"go.mod": "module " + Module + "\n\ngo " + gv + "\n"}
	for _, pk := range p.Pkgs {
		for _, f := range pk.Files {
			if old && f.Status == gen.Added {
				continue
			}
			src := f.RenderFmt(old)
			if f.Helpers {
				src += pairSrc
			}
			out[filepath.Join(pk.Dir, f.Name)] = src
			if f.Asm {
				out[filepath.Join(pk.Dir, "asm_amd64.s")] = asmSrc
			}
		}
	}
	extra := p.ExtraNew
	if old {
		extra = p.ExtraOld
	}
	for k, v := range extra {
		if v != "" {
			out[k] = v
		}
	}
	return out
}

// WriteTree writes a revision into dir (removing tracked files that are absent).
func WriteTree(dir string, files map[string]string) error {
	// remove every regular file outside .git that is not in files
	filepath.Walk(dir, func(path string, info os.FileInfo, err error) error {
		if err != nil {
			return nil
		}
		rel, _ := filepath.Rel(dir, path)
		if info.IsDir() {
			if rel == ".git" {
				return filepath.SkipDir
			}
			return nil
		}
		if _, ok := files[rel]; !ok {
			os.Remove(path)
		}
		return nil
	})
	paths := make([]string, 0, len(files))
	for p := range files {
		paths = append(paths, p)
	}
	sort.Strings(paths)
	for _, rel := range paths {
		full := filepath.Join(dir, rel)
		if err := os.MkdirAll(filepath.Dir(full), 0755); err != nil {
			return err
		}
		if err := os.WriteFile(full, []byte(files[rel]), 0644); err != nil {
			return err
		}
		// some files carry the executable bit (committed as mode 100755); a function of the path
		// only, so that a file keeps its mode over the history
		mode := os.FileMode(0644)
		if ExecutableBit(rel) {
			mode = 0755
		}
		if err := os.Chmod(full, mode); err != nil {
			return err
		}
	}
	return nil
}

// ExecutableBit: about one path in six is committed with mode 100755.
func ExecutableBit(rel string) bool {
	h := uint32(2166136261)
	for i := 0; i < len(rel); i++ {
		h = (h ^ uint32(rel[i])) * 16777619
	}
	return h%6 == 0
}

// Git runs git in dir with a fixed identity and the given commit date (unix seconds, 0 = now).
func Git(dir string, date int64, args ...string) (string, error) {
	cmd := exec.Command("git", args...)
	cmd.Dir = dir
	env := append(os.Environ(), "GIT_AUTHOR_NAME=v", "GIT_AUTHOR_EMAIL=v@example.com",
		"GIT_COMMITTER_NAME=v", "GIT_COMMITTER_EMAIL=v@example.com", "GIT_CONFIG_NOSYSTEM=1", "HOME="+dir)
	if date != 0 {
		d := fmt.Sprintf("%d +0000", date)
		env = append(env, "GIT_AUTHOR_DATE="+d, "GIT_COMMITTER_DATE="+d)
	}
	cmd.Env = env
	var out bytes.Buffer
	cmd.Stdout = &out
	cmd.Stderr = &out
	err := cmd.Run()
	if err != nil {
		return out.String(), fmt.Errorf("git %v: %v: %s", args, err, out.String())
	}
	return strings.TrimSpace(out.String()), nil
}

// InitRepo creates the repository and commits the given tree; returns the commit hash.
func InitRepo(dir string, files map[string]string, date int64) (string, error) {
	if err := os.MkdirAll(dir, 0755); err != nil {
		return "", err
	}
	if _, err := Git(dir, 0, "init", "-q", "-b", "main"); err != nil {
		return "", err
	}
	return Commit(dir, files, date, "base")
}

// Commit writes the tree and commits everything.
func Commit(dir string, files map[string]string, date int64, msg string) (string, error) {
	if err := WriteTree(dir, files); err != nil {
		return "", err
	}
	if _, err := Git(dir, 0, "add", "-A"); err != nil {
		return "", err
	}
	if _, err := Git(dir, date, "commit", "-q", "--allow-empty", "-m", msg); err != nil {
		return "", err
	}
	return Git(dir, 0, "rev-parse", "HEAD")
}

// Config is what goes into goat.yaml.
type Config struct {
	Old, New      string
	Granularity   string
	Precision     int
	Threads       int
	Race          bool
	DataType      string
	MainEntries   []string
	Ignores       []string // nil = goat's default list
	Alias         string
	PkgName       string
	PkgPath       string
	PkgPathRaw    string // what goat.yaml says when it is not the clean form of PkgPath ("./internal/cov", "tools//goat")
	PrinterModes  []string
	Tabwidth      int
	Indent        int
	SkipNested    bool
	AppName       string
	AppVersion    string
	OmitNewBranch bool
}

func DefaultConfig(old string) Config {
	return Config{Old: old, New: "HEAD", Granularity: "patch", Precision: 2, Threads: 1, DataType: "bool",
		MainEntries: []string{"*"}, Alias: "goat", PkgName: "goat", PkgPath: "goat",
		PrinterModes: []string{"useSpaces", "tabIndent"}, Tabwidth: 8, SkipNested: true, AppName: "app", AppVersion: "v1"}
}

func yamlList(key string, xs []string) string {
	if xs == nil {
		return ""
	}
	if len(xs) == 0 {
		return key + ": []\n"
	}
	s := key + ":\n"
	for _, x := range xs {
		s += fmt.Sprintf("  - %q\n", x)
	}
	return s
}

func (c Config) rawPkgPath() string {
	if c.PkgPathRaw != "" {
		return c.PkgPathRaw
	}
	return c.PkgPath
}

// YAML renders goat.yaml.
func (c Config) YAML() string {
	var b strings.Builder
	fmt.Fprintf(&b, "appName: %s\nappVersion: %s\noldBranch: %s\nnewBranch: %s\n", c.AppName, c.AppVersion, c.Old, c.New)
	b.WriteString(yamlList("ignores", c.Ignores))
	fmt.Fprintf(&b, "goatPackageName: %s\ngoatPackageAlias: %s\ngoatPackagePath: %s\n", c.PkgName, c.Alias, c.rawPkgPath())
	fmt.Fprintf(&b, "granularity: %s\ndiffPrecision: %d\nthreads: %d\nrace: %v\n", c.Granularity, c.Precision, c.Threads, c.Race)
	b.WriteString(yamlList("mainEntries", c.MainEntries))
	b.WriteString(yamlList("printerConfigMode", c.PrinterModes))
	fmt.Fprintf(&b, "printerConfigTabwidth: %d\nprinterConfigIndent: %d\ndataType: %s\nverbose: false\nskipNestedModules: %v\n",
		c.Tabwidth, c.Indent, c.DataType, c.SkipNested)
	return b.String()
}

// InitConfig lets `goat init --force` write goat.yaml from flags that express c. It returns false
// (and writes nothing) when c cannot be expressed by flags: an explicit empty list, a nil ignore list.
func InitConfig(goat, dir string, c Config) bool {
	ign := c.Ignores
	if ign == nil { // goat's default list, spelled out
		ign = []string{".git", ".gitignore", ".DS_Store", ".idea", ".vscode", ".venv", "vendor", "testdata", "node_modules"}
	}
	if len(ign) == 0 || len(c.MainEntries) == 0 || len(c.PrinterModes) == 0 {
		return false
	}
	args := []string{"init", "--force", "--old", c.Old, "--new", c.New, "--app-name", c.AppName, "--app-version", c.AppVersion,
		"--granularity", c.Granularity, "--diff-precision", fmt.Sprint(c.Precision), "--threads", fmt.Sprint(c.Threads),
		"--goat-package-name", c.PkgName, "--goat-package-alias", c.Alias, "--goat-package-path", c.rawPkgPath(),
		"--ignores", strings.Join(ign, ","), "--main-entries", strings.Join(c.MainEntries, ","),
		"--printer-config-mode", strings.Join(c.PrinterModes, ","), "--printer-config-tabwidth", fmt.Sprint(c.Tabwidth),
		"--printer-config-indent", fmt.Sprint(c.Indent), "--data-type", c.DataType, fmt.Sprintf("--skip-nested-modules=%v", c.SkipNested)}
	if c.Race {
		args = append(args, "--race")
	}
	return RunGoat(goat, dir, nil, args...).Exit == 0
}

// WriteConfig writes goat.yaml into dir.
func WriteConfig(dir string, c Config) error {
	return os.WriteFile(filepath.Join(dir, "goat.yaml"), []byte(c.YAML()), 0644)
}

// Result of one CLI run.
type Run struct {
	Exit   int
	Stdout string
	Stderr string
}

// RunGoat runs the goat binary in dir.
func RunGoat(goat, dir string, env []string, args ...string) Run {
	// a command that does not terminate is a failure of its own (exit -9): no goat command on these
	// projects needs more than a few seconds
	ctx, cancel := context.WithTimeout(context.Background(), 120*time.Second)
	defer cancel()
	cmd := exec.CommandContext(ctx, goat, args...)
	cmd.Dir = dir
	// PWD names the directory the way the caller spelled it (a shell does the same): os.Getwd in
	// the child then reports a symbolic link as such instead of the physical path
	cmd.Env = append(append(os.Environ(), env...), "PWD="+dir)
	var so, se bytes.Buffer
	cmd.Stdout = &so
	cmd.Stderr = &se
	err := cmd.Run()
	r := Run{Stdout: so.String(), Stderr: se.String()}
	if ctx.Err() == context.DeadlineExceeded {
		r.Exit = -9
		r.Stderr += "\ngoat " + strings.Join(args, " ") + " did not terminate within 120 s (killed)"
		return r
	}
	if err != nil {
		if ee, ok := err.(*exec.ExitError); ok {
			r.Exit = ee.ExitCode()
		} else {
			r.Exit = -1
			r.Stderr += err.Error()
		}
	}
	return r
}

// GoBuild runs `go build ./...` in dir (offline) and returns the compiler output on failure.
func GoBuild(dir string) (bool, string) {
	cmd := exec.Command("go", "build", "./...")
	cmd.Dir = dir
	cmd.Env = append(os.Environ(), "GOFLAGS=-mod=mod", "GOPROXY=off", "GOSUMDB=off", "GOTOOLCHAIN=local", "CGO_ENABLED=0")
	out, err := cmd.CombinedOutput()
	return err == nil, string(out)
}

// ReadTree reads every regular file under dir except .git (path -> content).
func ReadTree(dir string) map[string]string {
	out := map[string]string{}
	filepath.Walk(dir, func(path string, info os.FileInfo, err error) error {
		if err != nil {
			return nil
		}
		rel, _ := filepath.Rel(dir, path)
		if info.IsDir() {
			if rel == ".git" {
				return filepath.SkipDir
			}
			return nil
		}
		b, _ := os.ReadFile(path)
		out[rel] = string(b)
		return nil
	})
	return out
}

// Leftovers lists what a tree holds beyond the given file set: files (any kind) that are not
// keys of want, and directories that no wanted file lives in (e.g. an emptied package directory).
// .git is skipped; allow names extra files that may exist (goat.yaml); the proper ancestors of
// pkgPath (created by MkdirAll for a nested tracking package path such as tools/goat) are not
// reported: the properties name the tracking package directory itself as the artefact.
func Leftovers(dir string, want map[string]string, pkgPath string, allow ...string) (files, dirs []string) {
	ok := map[string]bool{}
	okDir := map[string]bool{".": true}
	for d := filepath.Dir(filepath.Clean(pkgPath)); d != "." && d != "/"; d = filepath.Dir(d) {
		okDir[d] = true
	}
	for p := range want {
		ok[p] = true
		for d := filepath.Dir(p); d != "." && d != "/" && !okDir[d]; d = filepath.Dir(d) {
			okDir[d] = true
		}
	}
	for _, a := range allow {
		ok[a] = true
	}
	filepath.Walk(dir, func(path string, info os.FileInfo, err error) error {
		if err != nil {
			return nil
		}
		rel, _ := filepath.Rel(dir, path)
		if info.IsDir() {
			if rel == ".git" {
				return filepath.SkipDir
			}
			if !okDir[rel] {
				dirs = append(dirs, rel)
			}
			return nil
		}
		if !ok[rel] {
			files = append(files, rel)
		}
		return nil
	})
	return files, dirs
}
