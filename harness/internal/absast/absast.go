// Package absast turns a parsed Go file into the abstract layout the Lean model takes
// (lean/GoatSpec/Ast.lean, decoder in lean/GoatSpec/Drv/Mark.lean).
//
// Rule: nothing here calls a goat function. Node kinds, child slots, children in ast.Walk
// order and line numbers are read off go/ast directly; comment-likeness of a line is reduced
// to a code of its first characters computed by this package's own scanner.
package absast

import (
	"fmt"
	"go/ast"
	"go/parser"
	"go/token"
	"strings"
	"unicode"
)

type enc struct {
	fset *token.FileSet
	b    strings.Builder
	// statistics for the evidence
	Kinds map[string]int
}

func (e *enc) w(format string, a ...any) {
	if e.b.Len() > 0 {
		e.b.WriteByte(' ')
	}
	fmt.Fprintf(&e.b, format, a...)
}

func (e *enc) line(p token.Pos) int { return e.fset.Position(p).Line }

func (e *enc) rng(n ast.Node) string {
	if n == nil || isNilNode(n) {
		return "-"
	}
	return fmt.Sprintf("%d,%d", e.line(n.Pos()), e.line(n.End()))
}

func isNilNode(n ast.Node) bool {
	switch v := n.(type) {
	case ast.Expr:
		return v == nil
	case ast.Stmt:
		return v == nil
	}
	return n == nil
}

// hasLit reports whether a function literal occurs under n.
func hasLit(n ast.Node) bool {
	found := false
	ast.Inspect(n, func(m ast.Node) bool {
		if _, ok := m.(*ast.FuncLit); ok {
			found = true
		}
		return !found
	})
	return found
}

// children returns the direct children of n in ast.Walk order.
func children(n ast.Node) []ast.Node {
	var out []ast.Node
	root := true
	ast.Inspect(n, func(m ast.Node) bool {
		if m == nil {
			return false
		}
		if root {
			root = false
			return true
		}
		out = append(out, m)
		return false
	})
	return out
}

// exprs encodes a list of nodes in expression position, pruning literal-free subtrees.
func (e *enc) exprs(ns []ast.Node) {
	kept := ns[:0:0]
	for _, n := range ns {
		if n != nil && !isNilNode(n) && hasLit(n) {
			kept = append(kept, n)
		}
	}
	e.w("%d", len(kept))
	for _, n := range kept {
		e.expr(n)
	}
}

func exprNodes(xs []ast.Expr) []ast.Node {
	out := make([]ast.Node, 0, len(xs))
	for _, x := range xs {
		out = append(out, x)
	}
	return out
}

func one(x ast.Node) []ast.Node {
	if x == nil || isNilNode(x) {
		return nil
	}
	return []ast.Node{x}
}

func (e *enc) first(list []ast.Stmt) string {
	if len(list) == 0 {
		return "-"
	}
	p := e.fset.Position(list[0].Pos())
	return fmt.Sprintf("%d,%d", p.Line, p.Column)
}

func (e *enc) expr(n ast.Node) {
	switch x := n.(type) {
	case *ast.FuncLit:
		e.Kinds["FuncLit"]++
		e.w("L %d %d %d %d %s", e.line(x.Pos()), e.line(x.End()), e.line(x.Body.Lbrace), e.line(x.Body.Rbrace), e.first(x.Body.List))
		e.stmts(x.Body.List)
	case *ast.CallExpr:
		e.w("C")
		e.exprs(one(x.Fun))
		e.exprs(exprNodes(x.Args))
	case *ast.CompositeLit:
		e.w("K")
		e.exprs(one(x.Type))
		e.exprs(exprNodes(x.Elts))
	case *ast.KeyValueExpr:
		e.w("V")
		e.exprs(one(x.Key))
		e.exprs(one(x.Value))
	case *ast.UnaryExpr:
		e.w("U")
		e.exprs(one(x.X))
	case *ast.StructType:
		// analyzeAndModifyExpr looks at Fields.List[i].Type; Walk order is the same sequence
		e.w("T")
		var ts []ast.Node
		if x.Fields != nil {
			for _, f := range x.Fields.List {
				if f.Type != nil {
					ts = append(ts, f.Type)
				}
			}
		}
		e.exprs(ts)
	default:
		e.w("O")
		e.exprs(children(n))
	}
}

func (e *enc) stmts(list []ast.Stmt) {
	e.w("%d", len(list))
	for _, s := range list {
		e.stmt(s)
	}
}

func (e *enc) optStmt(s ast.Stmt) {
	if s == nil {
		e.w("0")
		return
	}
	e.w("1")
	e.stmt(s)
}

func (e *enc) simple(kind string, s ast.Stmt, pre, ent, post []ast.Node) {
	e.w("s %s %d %d", kind, e.line(s.Pos()), e.line(s.End()))
	e.exprs(pre)
	e.exprs(ent)
	e.exprs(post)
}

func (e *enc) stmt(s ast.Stmt) {
	e.Kinds[fmt.Sprintf("%T", s)[5:]]++
	switch x := s.(type) {
	case *ast.AssignStmt:
		e.simple("m", s, exprNodes(x.Lhs), exprNodes(x.Rhs), nil)
	case *ast.ReturnStmt:
		e.simple("m", s, nil, exprNodes(x.Results), nil)
	case *ast.DeferStmt:
		e.simple("m", s, nil, one(x.Call.Fun), exprNodes(x.Call.Args))
	case *ast.GoStmt:
		e.simple("m", s, nil, one(x.Call.Fun), exprNodes(x.Call.Args))
	case *ast.ExprStmt:
		if c, ok := x.X.(*ast.CallExpr); ok {
			e.simple("m", s, nil, append(one(c.Fun), exprNodes(c.Args)...), nil)
		} else {
			e.Kinds["ExprStmt-noncall"]++
			e.simple("n", s, one(x.X), nil, nil)
		}
	case *ast.DeclStmt:
		n := 0
		if gd, ok := x.Decl.(*ast.GenDecl); ok {
			for _, sp := range gd.Specs {
				if vs, ok := sp.(*ast.ValueSpec); ok && len(vs.Values) > 0 {
					n++
				}
			}
		}
		e.simple(fmt.Sprintf("d%d", n), s, children(s), nil, nil)
	case *ast.BlockStmt:
		e.w("b %d %d", e.line(x.Pos()), e.line(x.End()))
		e.stmts(x.List)
	case *ast.LabeledStmt:
		e.w("l %d %d", e.line(x.Pos()), e.line(x.End()))
		e.stmt(x.Stmt)
	case *ast.IfStmt:
		e.w("i %d %d", e.line(x.If), e.line(x.End()))
		e.optStmt(x.Init)
		e.w("%s %s", e.rng(nodeOrNil(x.Init)), e.rng(nodeOrNilE(x.Cond)))
		e.exprs(one(x.Cond))
		e.w("%d %d", e.line(x.Body.Lbrace), e.line(x.Body.Rbrace))
		e.stmts(x.Body.List)
		e.optStmt(x.Else)
	case *ast.ForStmt:
		e.w("f %d %d", e.line(x.For), e.line(x.End()))
		e.optStmt(x.Init)
		e.w("%s %s %s", e.rng(nodeOrNil(x.Init)), e.rng(nodeOrNilE(x.Cond)), e.rng(nodeOrNil(x.Post)))
		e.exprs(one(x.Cond))
		e.optStmt(x.Post)
		e.w("%d %d", e.line(x.Body.Lbrace), e.line(x.Body.Rbrace))
		e.stmts(x.Body.List)
	case *ast.RangeStmt:
		e.w("r %d %d %s %s %s", e.line(x.For), e.line(x.End()), e.rng(nodeOrNilE(x.Key)), e.rng(nodeOrNilE(x.Value)), e.rng(nodeOrNilE(x.X)))
		e.exprs(append(append(one(x.Key), one(x.Value)...), one(x.X)...))
		e.w("%d %d", e.line(x.Body.Lbrace), e.line(x.Body.Rbrace))
		e.stmts(x.Body.List)
	case *ast.SwitchStmt:
		e.w("w %d %d", e.line(x.Switch), e.line(x.End()))
		e.optStmt(x.Init)
		e.w("%s %s", e.rng(nodeOrNil(x.Init)), e.rng(nodeOrNilE(x.Tag)))
		e.exprs(one(x.Tag))
		e.w("%d %d", e.line(x.Body.Lbrace), e.line(x.Body.Rbrace))
		e.stmts(x.Body.List)
	case *ast.TypeSwitchStmt:
		e.w("y %d %d", e.line(x.Switch), e.line(x.End()))
		e.optStmt(x.Init)
		e.w("%s %s", e.rng(nodeOrNil(x.Init)), e.rng(nodeOrNil(x.Assign)))
		e.optStmt(x.Assign)
		e.w("%d %d", e.line(x.Body.Lbrace), e.line(x.Body.Rbrace))
		e.stmts(x.Body.List)
	case *ast.SelectStmt:
		e.w("e %d %d %d %d", e.line(x.Select), e.line(x.End()), e.line(x.Body.Lbrace), e.line(x.Body.Rbrace))
		e.stmts(x.Body.List)
	case *ast.CaseClause:
		e.w("c %d %d %d", e.line(x.Case), e.line(x.End()), len(x.List))
		for _, le := range x.List {
			e.w("%d,%d", e.line(le.Pos()), e.line(le.End()))
		}
		e.exprs(exprNodes(x.List))
		e.w("%d", e.line(x.Colon))
		e.stmts(x.Body)
	case *ast.CommClause:
		e.w("m %d %d %s", e.line(x.Case), e.line(x.End()), e.rng(nodeOrNil(x.Comm)))
		e.optStmt(x.Comm)
		e.w("%d", e.line(x.Colon))
		e.stmts(x.Body)
	default:
		// IncDecStmt, SendStmt, BranchStmt, EmptyStmt, BadStmt: the `default:` arm
		e.simple("m", s, children(s), nil, nil)
	}
}

func nodeOrNil(s ast.Stmt) ast.Node {
	if s == nil {
		return nil
	}
	return s
}

func nodeOrNilE(x ast.Expr) ast.Node {
	if x == nil {
		return nil
	}
	return x
}

// LineCode classifies the first characters of a line after strings.TrimSpace:
// 0 other, 1 blank, 2 "//", 3 "/*", 4 "*/". EncodeFile adds 5 when the line begins inside a
// multi-line comment (per go/parser's comment positions).
func LineCode(line string) int {
	t := strings.TrimFunc(line, unicode.IsSpace)
	switch {
	case t == "":
		return 1
	case strings.HasPrefix(t, "//"):
		return 2
	case strings.HasPrefix(t, "/*"):
		return 3
	case strings.HasPrefix(t, "*/"):
		return 4
	}
	return 0
}

// Result of encoding one file.
type Result struct {
	Tokens string
	Kinds  map[string]int
	Lines  int
}

// Encode parses content and encodes it. An error means the file does not parse.
func Encode(content []byte) (*Result, error) {
	fset := token.NewFileSet()
	f, err := parser.ParseFile(fset, "", content, parser.ParseComments)
	if err != nil {
		return nil, err
	}
	return EncodeFile(fset, f, content), nil
}

func EncodeFile(fset *token.FileSet, f *ast.File, content []byte) *Result {
	e := &enc{fset: fset, Kinds: map[string]int{}}
	lines := strings.Split(string(content), "\n")
	// lines that begin inside a multi-line comment (every line after the comment's first)
	inside := make([]bool, len(lines)+2)
	for _, cg := range f.Comments {
		for _, c := range cg.List {
			from, to := fset.Position(c.Pos()).Line, fset.Position(c.End()).Line
			for l := from + 1; l <= to && l < len(inside); l++ {
				inside[l] = true
			}
		}
	}
	var codes strings.Builder
	lens := make([]string, len(lines))
	for i, l := range lines {
		c := LineCode(l)
		if inside[i+1] {
			c += 5
		}
		codes.WriteByte(byte('0' + c))
		lens[i] = fmt.Sprint(len(l))
	}
	cs := codes.String()
	if cs == "" {
		cs = "~"
	}
	e.w("%d %d %s %s %d", e.line(f.Pos()), e.line(f.End()), cs, strings.Join(lens, ","), len(f.Decls))
	for _, d := range f.Decls {
		switch x := d.(type) {
		case *ast.FuncDecl:
			e.Kinds["FuncDecl"]++
			if x.Body == nil {
				e.Kinds["FuncDecl-bodyless"]++
				e.w("F -")
				continue
			}
			e.w("F %d %d %s", e.line(x.Body.Lbrace), e.line(x.Body.Rbrace), e.first(x.Body.List))
			e.stmts(x.Body.List)
		case *ast.GenDecl:
			e.w("G")
			var vals []ast.Node
			for _, sp := range x.Specs {
				if vs, ok := sp.(*ast.ValueSpec); ok {
					vals = append(vals, exprNodes(vs.Values)...)
				}
			}
			e.exprs(vals)
		default:
			e.w("G 0")
		}
	}
	return &Result{Tokens: e.b.String(), Kinds: e.Kinds, Lines: len(lines)}
}
