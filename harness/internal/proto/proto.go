// Package proto is the Go side of the line protocol spoken by the Lean driver (goatspec).
package proto

import (
	"fmt"
	"strconv"
	"strings"
)

func isSafe(r rune) bool {
	if r >= 'a' && r <= 'z' || r >= 'A' && r <= 'Z' || r >= '0' && r <= '9' {
		return true
	}
	return strings.ContainsRune("_-./:+,(){}=*<>[];!&|\"'", r)
}

// Enc encodes a string as one token (no spaces; "~" is the empty string).
func Enc(s string) string {
	if s == "" {
		return "~"
	}
	var b strings.Builder
	for _, r := range s {
		switch {
		case isSafe(r):
			b.WriteRune(r)
		case r < 256:
			fmt.Fprintf(&b, "%%%02x", r)
		default:
			fmt.Fprintf(&b, "%%u%x;", r)
		}
	}
	return b.String()
}

// Dec decodes a token.
func Dec(t string) string {
	if t == "~" {
		return ""
	}
	var b strings.Builder
	rs := []rune(t)
	for i := 0; i < len(rs); i++ {
		if rs[i] != '%' {
			b.WriteRune(rs[i])
			continue
		}
		if i+1 < len(rs) && rs[i+1] == 'u' {
			j := i + 2
			for j < len(rs) && rs[j] != ';' {
				j++
			}
			v, _ := strconv.ParseInt(string(rs[i+2:j]), 16, 32)
			b.WriteRune(rune(v))
			i = j
			continue
		}
		if i+2 < len(rs) {
			v, _ := strconv.ParseInt(string(rs[i+1:i+3]), 16, 32)
			b.WriteRune(rune(v))
			i += 2
		}
	}
	return b.String()
}

// EncLines encodes lines as space separated tokens.
func EncLines(ls []string) string {
	ts := make([]string, len(ls))
	for i, l := range ls {
		ts[i] = Enc(l)
	}
	return strings.Join(ts, " ")
}

// Ints formats integers space separated.
func Ints(xs []int) string {
	ts := make([]string, len(xs))
	for i, x := range xs {
		ts[i] = strconv.Itoa(x)
	}
	return strings.Join(ts, " ")
}

// B formats a bool as 1/0.
func B(b bool) string {
	if b {
		return "1"
	}
	return "0"
}
