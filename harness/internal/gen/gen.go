// Package gen generates Go programs (and their previous revision) for the correspondence
// streams and the end-to-end oracles. Programs compile by construction: every statement unit
// is self-contained (it only touches `acc`, the parameters and names it declares itself), so
// any subset of units can be absent in the old revision. All choices derive from one PRNG.
package gen

import (
	"fmt"
	"go/format"
	"math/rand"
	"strings"
)

// RenderFmt renders and gofmt-formats the file (the raw rendering when it does not parse).
func (f *File) RenderFmt(old bool) string {
	src := f.Render(old)
	out, err := format.Source([]byte(src))
	if err != nil {
		return src
	}
	return string(out)
}

// Status of a unit between the old and the new revision.
type Status int

const (
	Same Status = iota
	Added
	Modified
)

// Node is one statement unit (possibly compound).
type Node struct {
	Kind     string
	K        int // constant shown in the code (old revision shows K+1000 when Modified)
	ID       int // unique number for names / labels
	Status   Status
	Children [][]*Node // bodies (if/else-if/else branches, case bodies, loop body, …)
}

// Func is one top-level function.
type Func struct {
	Name   string
	Kind   string // "multi", "single", "empty", "method", "generic"
	Status Status
	K      int
	Body   []*Node
}

// File is one generated source file.
type File struct {
	Pkg     string
	Name    string
	Imports []string // import paths of other project packages whose F-functions are called
	Calls   []string // qualified functions to call, e.g. "libb.F0"
	Blank   []string // import paths of project packages imported for side effects only (`_ "path"`)
	Funcs   []*Func
	Globals []*Node // global closures
	IsMain  bool
	Status  Status // Added = file new in the new revision
	Helpers bool   // this file carries the package helpers
	Asm     bool   // declares a body-less function (needs the .s file)
	// MainMethod: the entry file declares, before func main, a method that is also called main
	MainMethod bool
	// OneLineMain: `func main() { mainBody() }` on one line; the usual body lives in mainBody
	OneLineMain bool
	// MainSkeleton: the entry file holds, before func main, a raw string with the text of a main
	// function (a scaffolding template): lines that read `func main() {` but are not the declaration
	MainSkeleton bool
	// AlignedTable: the entry file declares a struct with many fields whose trailing comments gofmt
	// aligns with spaces (a printer configuration that aligns with tabs prints the file SHORTER)
	AlignedTable bool
	// DefaultMux: the program registers its own /metrics and /track handlers on http.DefaultServeMux
	// (the usual Prometheus set-up); the tracking service must not collide with them
	DefaultMux bool
	// InitK > 0: the file (one that carries the helpers) has a func init whose statement changes
	// between the revisions (code that runs before main only)
	InitK int
}

// Gen carries generator state.
type Gen struct {
	R        *rand.Rand
	id       int
	Dist     map[string]int
	MaxDepth int
	// ChangeP is the probability that a unit is Added / Modified in the new revision.
	ChangeP float64
	// Exclude lists unit kinds that must not be generated (known-finding classes for the
	// in-scope end-to-end generators).
	Exclude map[string]bool
}

// FindingKinds are the unit kinds that fall into a recorded defect class of the unchanged tree
// (DESIGN.md §7); in-scope generators exclude them, witness generators use them.
var FindingKinds = map[string]string{
	"blockComment":              "D-C01-6",
	"twoSingles":                "D-C01-2",
	"closureSigMultiBodySingle": "D-C01-5",
	"deferArg":                  "D-C03-3",
	"goArg":                     "D-C03-3",
	"varFunc":                   "D-C03-3",
	"ifCondClosure":             "D-C03-3",
	"recvStmt":                  "D-C03-1",
	"caseComment":               "D-C03-4",
	"labeledIfElse":             "D-C03-5",
	"multilineExpr":             "D-C03-2",
	"multilineCall":             "D-C03-2",
}

// InScope makes the generator avoid every recorded defect class.
func (g *Gen) InScope() *Gen {
	g.Exclude = map[string]bool{}
	for k := range FindingKinds {
		g.Exclude[k] = true
	}
	return g
}

func (g *Gen) pick(kinds []string) string {
	for {
		k := kinds[g.R.Intn(len(kinds))]
		if !g.Exclude[k] {
			return k
		}
	}
}

func New(r *rand.Rand) *Gen {
	return &Gen{R: r, Dist: map[string]int{}, MaxDepth: 3, ChangeP: 0.25}
}

func (g *Gen) next() int { g.id++; return g.id }

func (g *Gen) status() Status {
	x := g.R.Float64()
	switch {
	case x < g.ChangeP*0.6:
		return Added
	case x < g.ChangeP:
		return Modified
	}
	return Same
}

var leafKinds = []string{
	"assign", "opassign", "incdec", "shortdecl", "vardecl", "call", "closure1", "closureAssign", "closureAssign1",
	"deferClosure", "deferArg", "goWait", "sendrecv", "recvStmt", "composite", "structLit", "applyMulti", "panicRecover",
	"varFunc", "method", "generic", "multilineCall", "multilineExpr", "comment", "blockComment", "returnEarly", "goArg",
	"ifCondClosure", "labeledIfElse", "closureMultiSig", "twoSingles", "closureSigMultiBodySingle", "selectRecv", "lineComment2",
	"derefAssign", "derefMulti", "closure1Unicode", "returnThenLabel", "ifchainInitReturns", "ifHeaderComment",
}

var compoundKinds = []string{"if", "ifelse", "ifchain", "ifinit", "for", "range", "switch", "switchinit", "typeswitch", "select",
	"block", "closureCall", "labeled", "caseComment"}

// Stmts generates a statement list.
func (g *Gen) Stmts(depth, n int) []*Node {
	var out []*Node
	for i := 0; i < n; i++ {
		out = append(out, g.Stmt(depth))
	}
	return out
}

func (g *Gen) Stmt(depth int) *Node {
	n := &Node{ID: g.next(), K: 2 + g.R.Intn(97), Status: g.status()}
	if depth < g.MaxDepth && g.R.Intn(100) < 38 {
		n.Kind = g.pick(compoundKinds)
		body := func() []*Node { return g.Stmts(depth+1, g.R.Intn(4)) }
		switch n.Kind {
		case "if", "for", "range", "block", "closureCall", "labeled", "ifinit":
			n.Children = [][]*Node{body()}
		case "ifelse":
			n.Children = [][]*Node{body(), body()}
		case "ifchain":
			n.Children = [][]*Node{body(), body(), body()}
		case "switch", "switchinit", "caseComment":
			n.Children = [][]*Node{body(), body(), body()}
		case "typeswitch", "select":
			n.Children = [][]*Node{body(), body()}
		}
	} else {
		n.Kind = g.pick(leafKinds)
	}
	g.Dist[n.Kind]++
	return n
}

// Freeze makes a file identical in both revisions (every unit Same).
func (f *File) Freeze() {
	var nodes func(ns []*Node)
	nodes = func(ns []*Node) {
		for _, n := range ns {
			n.Status = Same
			for _, c := range n.Children {
				nodes(c)
			}
		}
	}
	f.Status = Same
	nodes(f.Globals)
	for _, fn := range f.Funcs {
		fn.Status = Same
		nodes(fn.Body)
	}
}

// GenFunc generates one function.
func (g *Gen) GenFunc(name string) *Func {
	f := &Func{Name: name, Status: Same, K: 2 + g.R.Intn(97)}
	switch x := g.R.Intn(100); {
	case x < 70:
		f.Kind = "multi"
		f.Body = g.Stmts(0, 2+g.R.Intn(7))
	case x < 82:
		f.Kind = "single"
		f.Status = g.status()
	case x < 88:
		f.Kind = "empty"
	case x < 94:
		f.Kind = "method"
		f.Body = g.Stmts(1, 1+g.R.Intn(3))
	default:
		f.Kind = "generic"
		f.Body = g.Stmts(1, 1+g.R.Intn(3))
	}
	if g.R.Intn(100) < 12 {
		f.Status = Added
	}
	g.Dist["func:"+f.Kind]++
	return f
}

// Render prints the file for the given revision (old=true: Added units absent, Modified
// units with a different constant).
func (f *File) Render(old bool) string {
	w := &writer{old: old}
	w.line(0, "package %s", f.Pkg)
	w.line(0, "")
	imps := []string{}
	if f.Helpers || f.IsMain {
		imps = append(imps, `"fmt"`)
	}
	if f.IsMain && f.DefaultMux {
		imps = append(imps, `"net/http"`)
	}
	needSync := f.Helpers
	for _, fn := range f.Funcs {
		if (fn.Kind == "multi" || fn.Kind == "method" || fn.Kind == "generic") && !(old && fn.Status == Added) {
			needSync = true
		}
	}
	if needSync {
		imps = append(imps, `"sync"`)
	}
	for _, i := range f.Imports {
		imps = append(imps, fmt.Sprintf("%q", i))
	}
	for _, i := range f.Blank {
		imps = append(imps, fmt.Sprintf("_ %q", i))
	}
	if len(imps) == 1 {
		w.line(0, "import %s", imps[0])
		w.line(0, "")
	} else if len(imps) > 1 {
		w.line(0, "import (")
		for _, i := range imps {
			w.line(1, "%s", i)
		}
		w.line(0, ")")
		w.line(0, "")
	}
	if f.Helpers {
		w.raw(helpersSrc)
		if f.Asm {
			w.line(0, "// AsmAdd is implemented in assembly.")
			w.line(0, "func AsmAdd(x int) int")
			w.line(0, "")
		}
	}
	for _, gl := range f.Globals {
		if old && gl.Status == Added {
			continue
		}
		w.global(gl)
	}
	for _, fn := range f.Funcs {
		if old && fn.Status == Added {
			continue
		}
		w.fn(fn)
	}
	if !f.IsMain && len(f.Calls) > 0 {
		w.line(0, "// Deps calls into the imported project packages.")
		w.line(0, "func Deps() int {")
		w.line(1, "total := 0")
		for _, c := range f.Calls {
			w.line(1, "total += %s(3, 4)", c)
		}
		w.line(1, "return total")
		w.line(0, "}")
		w.line(0, "")
	}
	if f.InitK > 0 && f.Helpers {
		k := f.InitK
		if old {
			k += 1000
		}
		w.line(0, "func init() {")
		w.line(1, "Note(%d)", k)
		w.line(0, "}")
		w.line(0, "")
	}
	if f.IsMain && f.AlignedTable {
		w.line(0, "// settings documents every knob of the program.")
		w.line(0, "type settings struct {")
		for i := 0; i < 70; i++ {
			name := fmt.Sprintf("F%d%s", i, strings.Repeat("x", (i*7)%13))
			w.line(1, "%s int // knob number %d of the program, documented at length for the reader", name, i)
		}
		w.line(0, "}")
		w.line(0, "")
		w.line(0, "var _ = settings{}")
		w.line(0, "")
	}
	if f.IsMain && f.MainSkeleton {
		w.line(0, "// skeleton is what the scaffolding command writes into a new project.")
		w.line(0, "const skeleton = `package main")
		w.raw("\nfunc main() {\n\tprintln(\"hello\")\n}\n`\n\n")
		w.line(0, "var _ = skeleton")
		w.line(0, "")
	}
	if f.IsMain && f.MainMethod {
		w.line(0, "type app struct{ n int }")
		w.line(0, "")
		w.line(0, "// main is a method that happens to be called main; it is not the entry point.")
		w.line(0, "func (a app) main() int {")
		w.line(1, "a.n++")
		w.line(1, "return a.n")
		w.line(0, "}")
		w.line(0, "")
	}
	if f.IsMain {
		if f.OneLineMain {
			w.line(0, "func main() { mainBody() }")
			w.line(0, "")
			w.line(0, "func mainBody() {")
		} else {
			w.line(0, "func main() {")
		}
		w.line(1, "total := 0")
		if f.DefaultMux {
			w.line(1, `http.HandleFunc("/metrics", func(w http.ResponseWriter, r *http.Request) { w.WriteHeader(204) })`)
			w.line(1, `http.HandleFunc("/track", func(w http.ResponseWriter, r *http.Request) { w.WriteHeader(204) })`)
		}
		for _, fn := range f.Funcs {
			if old && fn.Status == Added {
				continue
			}
			if c := fn.callExpr(""); c != "" {
				w.line(1, "total += %s", c)
			}
		}
		for _, c := range f.Calls {
			w.line(1, "total += %s(3, 4)", c)
		}
		if f.MainMethod {
			w.line(1, "total += app{n: 1}.main() + app{n: 2}.main()")
		}
		w.line(1, `fmt.Println("total", total, "notes", NoteSum())`)
		w.line(0, "}")
	}
	return w.b.String()
}

func (fn *Func) callExpr(q string) string {
	switch fn.Kind {
	case "multi", "single":
		return fmt.Sprintf("%s%s(3, 4)", q, fn.Name)
	case "method":
		return fmt.Sprintf("%sT{V: 5}.%s(3, 4)", q, fn.Name)
	case "generic":
		return fmt.Sprintf("%s%s[int](3, 4)", q, fn.Name)
	}
	return ""
}

const helpersSrc = `// T is a receiver type for generated methods.
type T struct{ V int }

// With applies f to the receiver's value (used to hide a literal in a method chain).
func (t T) With(f func(int) int) T { return T{V: f(t.V)} }

var (
	noteMu  sync.Mutex
	noteSum int
)

// Note records a value (goroutine safe, order independent).
func Note(xs ...int) {
	noteMu.Lock()
	for _, x := range xs {
		noteSum += x
	}
	noteMu.Unlock()
}

// NoteSum returns what was recorded.
func NoteSum() int {
	noteMu.Lock()
	defer noteMu.Unlock()
	return noteSum
}

// Apply calls f.
func Apply(f func(int) int, x int) int { return f(x) }

// Runf calls f.
func Runf(f func()) { f() }

// ApplyS calls f; the string is only there to be written in front of it.
func ApplyS(s string, f func(int) int, x int) int { return f(x) + len(s)*0 }

// Ident is generic.
func Ident[E any](x E) E { return x }

var _ = fmt.Sprint

`

type writer struct {
	b       strings.Builder
	old     bool
	closure int // >0 while printing the body of a function literal
}

func (w *writer) line(ind int, format string, a ...any) {
	w.b.WriteString(strings.Repeat("\t", ind))
	fmt.Fprintf(&w.b, format, a...)
	w.b.WriteByte('\n')
}

func (w *writer) raw(s string) { w.b.WriteString(s) }

func (w *writer) k(n *Node) int {
	if w.old && n.Status == Modified {
		return n.K + 1000
	}
	return n.K
}

func (w *writer) global(n *Node) {
	k := w.k(n)
	switch n.Kind {
	case "globalMulti":
		w.line(0, "var gf%d = func(x int) int {", n.ID)
		w.line(1, "x += %d", k)
		w.body(1, n.Children[0])
		w.line(1, "return x")
		w.line(0, "}")
	case "globalSingle":
		w.line(0, "var gs%d = func(x int) int { return x * %d }", n.ID, k)
	case "globalParen": // an immediately called, parenthesised literal
		w.line(0, "var gp%d = (func() int {", n.ID)
		w.line(1, "x := %d", k)
		w.line(1, "return x * 2")
		w.line(0, "})()")
	case "globalChain": // a literal passed along a method chain on a call result
		w.line(0, "var gc%d = Ident(T{V: 1}).With(func(x int) int {", n.ID)
		w.line(1, "x -= %d", k)
		w.line(1, "return x")
		w.line(0, "}).V")
	case "globalBinary": // a literal call as operand of a binary expression
		w.line(0, "var gb%d = 1 + func() int {", n.ID)
		w.line(1, "y := %d", k)
		w.line(1, "return y")
		w.line(0, "}()")
	case "globalRaw": // a raw string whose lines end in blanks and tabs (they are part of the value)
		w.raw(fmt.Sprintf("var gr%d = `banner %d   \n\tsecond line\t \nthird  \n\n`\n", n.ID, k))
	case "globalTable":
		w.line(0, "var gt%d = map[string]func(int) int{", n.ID)
		w.line(1, `"a": func(x int) int { return x + %d },`, k)
		w.line(1, `"b": func(x int) int {`)
		w.line(2, "x -= %d", k)
		w.line(2, "return x")
		w.line(1, "},")
		w.line(0, "}")
	}
	w.line(0, "")
}

// body prints statements that use a variable named acc; inside global closures acc is x.
func (w *writer) fn(fn *Func) {
	k := fn.K
	if w.old && fn.Status == Modified {
		k += 1000
	}
	switch fn.Kind {
	case "multi":
		w.line(0, "func %s(a, b int) int {", fn.Name)
		w.prologue()
		w.stmts(1, fn.Body)
		w.epilogue()
		w.line(0, "}")
	case "single":
		if fn.K%3 == 0 { // wrapped signature, body on one line (valid Go; gofmt would expand the body)
			w.line(0, "func %s(a int,", fn.Name)
			w.line(1, "b int) int { return a*%d + b }", k)
		} else {
			w.line(0, "func %s(a, b int) int { return a*%d + b }", fn.Name, k)
		}
	case "empty":
		w.line(0, "func %s() {}", fn.Name)
	case "method":
		w.line(0, "func (t T) %s(a, b int) int {", fn.Name)
		w.prologue()
		w.line(1, "acc += t.V")
		w.stmts(1, fn.Body)
		w.epilogue()
		w.line(0, "}")
	case "generic":
		w.line(0, "func %s[E any](a, b int) int {", fn.Name)
		w.prologue()
		w.line(1, "var zero E")
		w.line(1, "_ = zero")
		w.stmts(1, fn.Body)
		w.epilogue()
		w.line(0, "}")
	}
	w.line(0, "")
}

func (w *writer) prologue() {
	w.line(1, "acc := a*7 + b")
	w.line(1, "ch := make(chan int, 4096)")
	w.line(1, "var wg sync.WaitGroup")
}

func (w *writer) epilogue() {
	w.line(1, "wg.Wait()")
	w.line(1, "_ = ch")
	w.line(1, "return acc")
}

// body is used inside global closures (variable x instead of acc, no ch/wg).
func (w *writer) body(ind int, ns []*Node) {
	for _, n := range ns {
		if w.old && n.Status == Added {
			continue
		}
		w.line(ind, "x += %d", w.k(n))
	}
}

func (w *writer) stmts(ind int, ns []*Node) {
	for _, n := range ns {
		if w.old && n.Status == Added {
			continue
		}
		w.stmt(ind, n)
	}
}

func (w *writer) stmt(ind int, n *Node) {
	k, id := w.k(n), n.ID
	ch := func(i int) []*Node {
		if i < len(n.Children) {
			return n.Children[i]
		}
		return nil
	}
	switch n.Kind {
	case "assign":
		w.line(ind, "acc = acc*3 + %d", k)
	case "opassign":
		w.line(ind, "acc += %d", k)
	case "incdec":
		if k%2 == 0 {
			w.line(ind, "acc++")
		} else {
			w.line(ind, "acc--")
		}
	case "shortdecl":
		w.line(ind, "t%d := acc + %d", id, k)
		w.line(ind, "acc += t%d %% 11", id)
	case "vardecl":
		w.line(ind, "var w%d = acc + %d", id, k)
		w.line(ind, "acc -= w%d %% 13", id)
	case "closure1Unicode": // multi-byte characters before a one-line function body on the same line
		w.line(ind, "acc = ApplyS(\"é→日本\", func(x int) int { return x + %d }, acc)", k)
	case "derefAssign": // a statement whose line starts with `*` (not a comment)
		w.line(ind, "p%d := &acc", id)
		w.line(ind, "*p%d = *p%d + %d", id, id, k)
	case "derefMulti": // … spread over two lines, the changed constant on the first
		w.line(ind, "q%d := &T{}", id)
		w.line(ind, "*q%d = T{V: %d +", id, k)
		w.line(ind+1, "acc%%7}")
		w.line(ind, "acc += q%d.V", id)
	case "call":
		w.line(ind, "Note(acc %% %d)", k)
	case "closure1":
		w.line(ind, "func() { acc += %d }()", k)
	case "closureAssign":
		w.line(ind, "f%d := func(x int) int {", id)
		w.line(ind+1, "return x + %d", k)
		w.line(ind, "}")
		w.line(ind, "acc = f%d(acc)", id)
	case "closureAssign1":
		w.line(ind, "g%d := func(x int) int { return x ^ %d }", id, k)
		w.line(ind, "acc = g%d(acc)", id)
	case "deferClosure":
		w.line(ind, "defer func() {")
		w.line(ind+1, "Note(%d)", k)
		w.line(ind, "}()")
	case "deferArg":
		w.line(ind, "defer Runf(func() { Note(%d) })", k)
	case "goArg":
		w.line(ind, "wg.Add(1)")
		w.line(ind, "go Runf(func() {")
		w.line(ind+1, "defer wg.Done()")
		w.line(ind+1, "Note(%d)", k)
		w.line(ind, "})")
		w.line(ind, "wg.Wait()")
	case "goWait":
		w.line(ind, "wg.Add(1)")
		w.line(ind, "go func() {")
		w.line(ind+1, "defer wg.Done()")
		w.line(ind+1, "Note(%d)", k)
		w.line(ind, "}()")
		w.line(ind, "wg.Wait()")
	case "sendrecv":
		w.line(ind, "ch <- acc %% %d", k)
		w.line(ind, "acc += <-ch")
	case "recvStmt":
		w.line(ind, "ch <- %d", k)
		w.line(ind, "<-ch")
	case "composite":
		w.line(ind, "fs%d := []func() int{", id)
		w.line(ind+1, "func() int { return %d },", k)
		w.line(ind+1, "func() int {")
		w.line(ind+2, "return acc %% 5")
		w.line(ind+1, "},")
		w.line(ind, "}")
		w.line(ind, "acc += fs%d[0]() + fs%d[1]()", id, id)
	case "structLit":
		w.line(ind, "st%d := &struct{ f func() int }{f: func() int { return %d }}", id, k)
		w.line(ind, "acc += st%d.f()", id)
	case "applyMulti":
		w.line(ind, "acc = Apply(func(x int) int {")
		w.line(ind+1, "return x + %d", k)
		w.line(ind, "}, acc)")
	case "panicRecover":
		w.line(ind, "func() {")
		w.line(ind+1, "defer func() {")
		w.line(ind+2, "if r := recover(); r != nil {")
		w.line(ind+3, "acc += %d", k)
		w.line(ind+2, "}")
		w.line(ind+1, "}()")
		w.line(ind+1, `panic("p")`)
		w.line(ind, "}()")
	case "varFunc":
		w.line(ind, "var vf%d = func(x int) int {", id)
		w.line(ind+1, "return x - %d", k)
		w.line(ind, "}")
		w.line(ind, "acc = vf%d(acc)", id)
	case "method":
		w.line(ind, "acc += T{V: %d}.V", k)
	case "generic":
		w.line(ind, "acc = Ident[int](acc) + %d", k)
	case "multilineCall":
		w.line(ind, "Note(")
		w.line(ind+1, "acc%%7,")
		w.line(ind+1, "%d,", k)
		w.line(ind, ")")
	case "multilineExpr":
		w.line(ind, "acc = acc +")
		w.line(ind+1, "%d", k)
	case "comment":
		w.line(ind, "// note %d", k)
		w.line(ind, "acc ^= %d", k)
	case "blockComment":
		w.line(ind, "/* block %d", k)
		w.line(ind, "   still comment */")
		w.line(ind, "acc |= %d", k)
	case "returnEarly":
		w.line(ind, "if acc > 1<<%d {", 40+k%10)
		if w.closure > 0 {
			w.line(ind+1, "return")
		} else {
			w.line(ind+1, "wg.Wait()")
			w.line(ind+1, "return acc")
		}
		w.line(ind, "}")
	case "ifchainInitReturns": // an else-if with an init statement in a chain whose branches all return
		w.line(ind, "acc = func(x int) int {")
		w.closure++
		w.line(ind+1, "if x > %d {", 1000+k)
		w.line(ind+2, "return x - 1")
		w.line(ind+1, "} else if y := x * 2; y < %d {", k)
		w.line(ind+2, "return y")
		w.line(ind+1, "} else {")
		w.line(ind+2, "return x + %d", k)
		w.line(ind+1, "}")
		w.closure--
		w.line(ind, "}(acc)")
	case "ifHeaderComment": // a condition that spans lines, with a comment-only line and a blank-free gap inside the header
		w.line(ind, "if acc > %d && // lower bound", k)
		w.line(ind+1, "// the header goes on after this comment line")
		w.line(ind+1, "1000000 > acc {") // not a line the marker inserters (stmtLineRe) take for a statement
		w.line(ind+1, "acc += %d", k)
		w.line(ind, "}")
	case "returnThenLabel": // statements behind an unconditional return, reached through goto
		w.line(ind, "acc = func(x int) int {")
		w.closure++
		w.line(ind+1, "if x%%7 == %d {", k%7)
		w.line(ind+2, "goto fail%d", id)
		w.line(ind+1, "}")
		w.line(ind+1, "return x + %d", k)
		w.line(ind, "fail%d:", id)
		w.line(ind+1, "x -= %d", k)
		w.line(ind+1, "return x")
		w.closure--
		w.line(ind, "}(acc)")
	case "twoSingles":
		w.line(ind, "p%d, q%d := func() int { return 1 }, func() int { return %d }", id, id, k)
		w.line(ind, "acc += p%d() + q%d()", id, id)
	case "closureSigMultiBodySingle":
		w.line(ind, "acc = func(")
		w.line(ind+1, "x int,")
		w.line(ind, ") int { return x + %d }(acc)", k)
	case "selectRecv":
		w.line(ind, "select {")
		w.line(ind, "case v%d := <-ch:", id)
		w.line(ind+1, "acc += v%d", id)
		w.line(ind, "default:")
		w.line(ind+1, "acc += %d", k)
		w.line(ind, "}")
	case "lineComment2":
		w.line(ind, "/* one-line block comment %d */", k)
		w.line(ind, "// and a line comment")
		w.line(ind, "acc += %d", k)
	case "ifCondClosure":
		w.line(ind, "if func() bool {")
		w.line(ind+1, "Note(%d)", k)
		w.line(ind+1, "return acc%%2 == 0")
		w.line(ind, "}() {")
		w.line(ind+1, "acc += %d", k)
		w.line(ind, "}")
	case "labeledIfElse":
		w.line(ind, "n%d := 0", id)
		w.line(ind, "L%d:", id)
		w.line(ind, "if n%d < 2 {", id)
		w.line(ind+1, "n%d++", id)
		w.line(ind+1, "acc += %d", k)
		w.line(ind+1, "goto L%d", id)
		w.line(ind, "} else {")
		w.line(ind+1, "acc++")
		w.line(ind, "}")
		w.line(ind, "acc += %d", k+1)
	case "closureMultiSig":
		// multi-line signature, multi-line body (the single-line-body variant is finding D-C01-5)
		w.line(ind, "acc = func(")
		w.line(ind+1, "x int,")
		w.line(ind, ") int {")
		w.line(ind+1, "return x + %d", k)
		w.line(ind, "}(acc)")
	// compound
	case "if":
		w.line(ind, "if acc%%%d != 1 {", k)
		w.stmts(ind+1, ch(0))
		w.line(ind, "}")
	case "ifinit":
		w.line(ind, "if v%d := acc %% %d; v%d > 1 {", id, k, id)
		w.stmts(ind+1, ch(0))
		w.line(ind, "}")
	case "ifelse":
		w.line(ind, "if acc%%%d == 0 {", k)
		w.stmts(ind+1, ch(0))
		w.line(ind, "} else {")
		w.stmts(ind+1, ch(1))
		w.line(ind, "}")
	case "ifchain":
		w.line(ind, "if acc%%%d == 0 {", k)
		w.stmts(ind+1, ch(0))
		w.line(ind, "} else if acc%%%d == 1 {", k)
		w.stmts(ind+1, ch(1))
		w.line(ind, "} else {")
		w.stmts(ind+1, ch(2))
		w.line(ind, "}")
	case "for":
		w.line(ind, "for i%d := 0; i%d < %d; i%d++ {", id, id, 1+k%3, id)
		w.stmts(ind+1, ch(0))
		w.line(ind, "}")
	case "range":
		w.line(ind, "for _, x%d := range []int{1, %d} {", id, k)
		w.line(ind+1, "acc += x%d", id)
		w.stmts(ind+1, ch(0))
		w.line(ind, "}")
	case "switch":
		w.line(ind, "switch acc %% %d {", 3+k%3)
		w.line(ind, "case 0:")
		w.stmts(ind+1, ch(0))
		w.line(ind, "case 1, 2:")
		w.stmts(ind+1, ch(1))
		w.line(ind, "default:")
		w.stmts(ind+1, ch(2))
		w.line(ind, "}")
	case "caseComment":
		w.line(ind, "switch {")
		w.line(ind, "case acc%%%d == 0:", k)
		w.line(ind+1, "// first clause")
		w.line(ind+1, "acc += 1")
		w.stmts(ind+1, ch(0))
		w.line(ind, "case acc%%%d == 1:", k)
		w.line(ind+1, "// second clause")
		w.line(ind+1, "acc += 2")
		w.stmts(ind+1, ch(1))
		w.line(ind, "}")
	case "switchinit":
		w.line(ind, "switch v%d := acc %% %d; v%d {", id, 2+k%4, id)
		w.line(ind, "case 0:")
		w.stmts(ind+1, ch(0))
		w.line(ind, "case 1:")
		w.stmts(ind+1, ch(1))
		w.line(ind, "default:")
		w.stmts(ind+1, ch(2))
		w.line(ind, "}")
	case "typeswitch":
		w.line(ind, "switch v%d := any(acc %% %d).(type) {", id, k)
		w.line(ind, "case int:")
		w.line(ind+1, "acc += v%d", id)
		w.stmts(ind+1, ch(0))
		w.line(ind, "case string:")
		w.line(ind+1, "acc += len(v%d)", id)
		w.stmts(ind+1, ch(1))
		w.line(ind, "}")
	case "select":
		w.line(ind, "select {")
		w.line(ind, "case ch <- acc %% %d:", k)
		w.stmts(ind+1, ch(0))
		w.line(ind, "default:")
		w.line(ind+1, "acc--")
		w.stmts(ind+1, ch(1))
		w.line(ind, "}")
	case "block":
		w.line(ind, "{")
		w.line(ind+1, "acc += %d", k)
		w.stmts(ind+1, ch(0))
		w.line(ind, "}")
	case "closureCall":
		w.line(ind, "func() {")
		w.line(ind+1, "acc -= %d", k)
		w.closure++
		w.stmts(ind+1, ch(0))
		w.closure--
		w.line(ind, "}()")
	case "labeled":
		w.line(ind, "L%d:", id)
		w.line(ind, "for i%d := 0; i%d < 3; i%d++ {", id, id, id)
		w.line(ind+1, "for j%d := 0; j%d < 3; j%d++ {", id, id, id)
		w.line(ind+2, "if j%d == %d {", id, k%3)
		w.line(ind+3, "continue L%d", id)
		w.line(ind+2, "}")
		w.line(ind+2, "acc += i%d * j%d", id, id)
		w.stmts(ind+2, ch(0))
		w.line(ind+1, "}")
		w.line(ind, "}")
	default:
		w.line(ind, "acc += %d // %s", k, n.Kind)
	}
}

// GenGlobals generates global closure declarations.
func (g *Gen) GenGlobals() []*Node {
	var out []*Node
	for _, kind := range []string{"globalRaw", "globalMulti", "globalSingle", "globalTable", "globalParen", "globalChain", "globalBinary"} {
		p := 50
		if strings.HasPrefix(kind, "global") && (kind == "globalParen" || kind == "globalChain" || kind == "globalBinary" || kind == "globalRaw") {
			p = 20
		}
		if g.R.Intn(100) < p {
			n := &Node{Kind: kind, ID: g.next(), K: 2 + g.R.Intn(97), Status: g.status()}
			if kind == "globalMulti" {
				n.Children = [][]*Node{{{Kind: "x", ID: g.next(), K: 3, Status: g.status()}, {Kind: "x", ID: g.next(), K: 4, Status: g.status()}}}
			}
			g.Dist[kind]++
			out = append(out, n)
		}
	}
	return out
}

// StandaloneFile generates one self-contained file (helpers included) with nFuncs functions.
func (g *Gen) StandaloneFile(pkg string, nFuncs int) *File {
	f := &File{Pkg: pkg, Name: "gen.go", Helpers: true, Asm: g.R.Intn(100) < 30}
	f.Globals = g.GenGlobals()
	for i := 0; i < nFuncs; i++ {
		f.Funcs = append(f.Funcs, g.GenFunc(fmt.Sprintf("F%d", i)))
	}
	return f
}
