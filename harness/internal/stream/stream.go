// Package stream collects one correspondence stream: per case a request line for the Lean
// driver, the implementation's canonical answer, and (optionally) a judge request that makes
// the driver evaluate the property predicate on the implementation's answer.
package stream

import (
	"bufio"
	"encoding/json"
	"fmt"
	"os"
	"path/filepath"
	"sort"
)

type Stream struct {
	Name       string
	dir        string
	req, impl  *bufio.Writer
	judge      *bufio.Writer
	files      []*os.File
	N          int
	NonTrivial int
	Distinct   map[string]struct{}
	Dist       map[string]int
	Samples    []string
	Notes      map[string]any
	Rule       string
	Exhaustive bool
	maxSamples int
}

func New(dir, name string) (*Stream, error) {
	if err := os.MkdirAll(dir, 0755); err != nil {
		return nil, err
	}
	s := &Stream{Name: name, dir: dir, Distinct: map[string]struct{}{}, Dist: map[string]int{}, Notes: map[string]any{}, maxSamples: 6}
	for _, ext := range []string{"req", "impl", "judge"} {
		f, err := os.Create(filepath.Join(dir, name+"."+ext))
		if err != nil {
			return nil, err
		}
		s.files = append(s.files, f)
	}
	s.req = bufio.NewWriterSize(s.files[0], 1<<20)
	s.impl = bufio.NewWriterSize(s.files[1], 1<<20)
	s.judge = bufio.NewWriterSize(s.files[2], 1<<20)
	return s, nil
}

// Case adds one case. judge may be "" (no property judgement for this case).
// nontrivial says whether the case counts as non-trivial by the stream's rule.
func (s *Stream) Case(req, impl, judge string, nontrivial bool) {
	s.N++
	fmt.Fprintln(s.req, req)
	fmt.Fprintln(s.impl, impl)
	if judge == "" {
		judge = "ping"
	}
	fmt.Fprintln(s.judge, judge)
	if nontrivial {
		if _, ok := s.Distinct[req]; !ok {
			if len(s.Distinct) < 2_000_000 {
				s.Distinct[req] = struct{}{}
			}
			s.NonTrivial++
		}
	}
	if len(s.Samples) < s.maxSamples && (nontrivial || s.N%97 == 1) {
		s.Samples = append(s.Samples, req+"  =>  "+impl)
	}
}

func (s *Stream) Count(key string) { s.Dist[key]++ }

type Meta struct {
	Name        string         `json:"name"`
	Evaluations int            `json:"evaluations"`
	NonTrivial  int            `json:"distinct_nontrivial"`
	Rule        string         `json:"rule"`
	Exhaustive  bool           `json:"exhaustive"`
	Dist        map[string]int `json:"distribution"`
	Samples     []string       `json:"samples"`
	Notes       map[string]any `json:"notes,omitempty"`
}

func (s *Stream) Close() error {
	s.req.Flush()
	s.impl.Flush()
	s.judge.Flush()
	for _, f := range s.files {
		f.Close()
	}
	keys := make([]string, 0, len(s.Dist))
	for k := range s.Dist {
		keys = append(keys, k)
	}
	sort.Strings(keys)
	m := Meta{Name: s.Name, Evaluations: s.N, NonTrivial: s.NonTrivial, Rule: s.Rule, Exhaustive: s.Exhaustive,
		Dist: s.Dist, Samples: s.Samples, Notes: s.Notes}
	b, _ := json.MarshalIndent(m, "", " ")
	return os.WriteFile(filepath.Join(s.dir, s.Name+".meta.json"), b, 0644)
}
