// Package oracle holds the Go-side oracles for what Lean cannot evaluate: syntax-tree equality
// modulo positions, the tracking calls and generated tables of an instrumented tree.
package oracle

import (
	"bytes"
	"fmt"
	"go/ast"
	"go/parser"
	"go/token"
	"os"
	"path/filepath"
	"reflect"
	"sort"
	"strconv"
	"strings"
)

var posType = reflect.TypeOf(token.Pos(0))

func fieldFilter(name string, v reflect.Value) bool {
	if v.Type() == posType {
		return false
	}
	switch name {
	case "Obj", "Scope", "Unresolved", "Comments", "Doc", "Comment", "Imports", "FileStart", "FileEnd", "GoVersion":
		return false
	}
	return true
}

// isArtefactCall reports whether stmt is `alias.Track(...)` or `alias.ServeHTTP(...)`.
func isArtefactCall(s ast.Stmt, alias string) bool {
	es, ok := s.(*ast.ExprStmt)
	if !ok {
		return false
	}
	call, ok := es.X.(*ast.CallExpr)
	if !ok {
		return false
	}
	sel, ok := call.Fun.(*ast.SelectorExpr)
	if !ok {
		return false
	}
	id, ok := sel.X.(*ast.Ident)
	return ok && id.Name == alias && (sel.Sel.Name == "Track" || sel.Sel.Name == "ServeHTTP")
}

func stripList(list []ast.Stmt, alias string) []ast.Stmt {
	out := list[:0:0]
	for i := 0; i < len(list); i++ {
		s := list[i]
		// a tracking block written between a label and its statement: the label labels the
		// tracking call now; without the call it labels the statement that follows
		if ls, ok := s.(*ast.LabeledStmt); ok {
			inner := ls
			for {
				n, ok := inner.Stmt.(*ast.LabeledStmt)
				if !ok {
					break
				}
				inner = n
			}
			if isArtefactCall(inner.Stmt, alias) {
				j := i + 1
				for j < len(list) && isArtefactCall(list[j], alias) {
					j++
				}
				if j < len(list) {
					inner.Stmt = list[j]
					i = j
				}
			}
			out = append(out, s)
			continue
		}
		if !isArtefactCall(s, alias) {
			out = append(out, s)
		}
	}
	if len(out) == 0 {
		return nil
	}
	return out
}

// Canon parses src, removes tracking / service-start calls, the tracking import and the marker
// comments, and returns a position-free dump of the syntax tree plus the remaining comment texts.
func Canon(src []byte, alias, importPath string) (tree string, comments []string, err error) {
	fset := token.NewFileSet()
	f, err := parser.ParseFile(fset, "", src, parser.ParseComments)
	if err != nil {
		return "", nil, err
	}
	ast.Inspect(f, func(n ast.Node) bool {
		switch x := n.(type) {
		case *ast.BlockStmt:
			x.List = stripList(x.List, alias)
		case *ast.CaseClause:
			x.Body = stripList(x.Body, alias)
		case *ast.CommClause:
			x.Body = stripList(x.Body, alias)
		}
		return true
	})
	var decls []ast.Decl
	for _, d := range f.Decls {
		gd, ok := d.(*ast.GenDecl)
		if !ok || gd.Tok != token.IMPORT {
			decls = append(decls, d)
			continue
		}
		var specs []ast.Spec
		for _, sp := range gd.Specs {
			is := sp.(*ast.ImportSpec)
			if p, _ := strconv.Unquote(is.Path.Value); p == importPath {
				continue
			}
			// blank-line grouping of imports is formatting: compare sorted by path
			specs = append(specs, sp)
		}
		if len(specs) > 0 {
			gd.Specs = specs
			decls = append(decls, gd)
		}
	}
	f.Decls = decls
	var buf bytes.Buffer
	if err := ast.Fprint(&buf, nil, f, fieldFilter); err != nil {
		return "", nil, err
	}
	// ast.Fprint numbers its lines; strip the numbering so that deletions do not shift it
	var tb strings.Builder
	for _, l := range strings.Split(buf.String(), "\n") {
		t := strings.TrimLeft(l, " ")
		j := 0
		for j < len(t) && t[j] >= '0' && t[j] <= '9' {
			j++
		}
		tb.WriteString(strings.TrimLeft(t[j:], " "))
		tb.WriteByte('\n')
	}
	for _, cg := range f.Comments {
		for _, c := range cg.List {
			t := strings.TrimSpace(c.Text)
			if strings.HasPrefix(t, "// +goat:") {
				continue
			}
			comments = append(comments, t)
		}
	}
	return tb.String(), comments, nil
}

// SameProgram compares two sources with Canon. The returned string is "" when equal.
func SameProgram(orig, now []byte, alias, importPath string) string {
	t1, c1, err := Canon(orig, alias, importPath)
	if err != nil {
		return "original does not parse: " + err.Error()
	}
	t2, c2, err := Canon(now, alias, importPath)
	if err != nil {
		return "result does not parse: " + err.Error()
	}
	if t1 != t2 {
		l1, l2 := strings.Split(t1, "\n"), strings.Split(t2, "\n")
		for i := 0; i < len(l1) && i < len(l2); i++ {
			if l1[i] != l2[i] {
				return fmt.Sprintf("syntax trees differ at dump line %d: %q vs %q", i, l1[i], l2[i])
			}
		}
		return fmt.Sprintf("syntax trees differ in length: %d vs %d dump lines", len(l1), len(l2))
	}
	if strings.Join(c1, "\x00") != strings.Join(c2, "\x00") {
		return fmt.Sprintf("comment sequences differ: %d vs %d comments", len(c1), len(c2))
	}
	return ""
}

// TrackCall is one tracking call found in the tree.
type TrackCall struct {
	Path string
	ID   int
	Line int
	// InBlock: preceded by generate marker + tips and followed by end marker
	InBlock bool
	// FirstInFunc etc. are filled by callers that need them
}

// Instrumentation describes the artefacts found in a working tree.
type Instrumentation struct {
	Calls      []TrackCall      // in (path, source) order
	Serve      map[string][]int // file -> component ids passed to ServeHTTP
	ServeFirst map[string]bool  // file -> the ServeHTTP call is the first statement of main
	Markers    map[string]int   // file -> number of "// +goat:" comment lines
	Imports    map[string]bool  // file -> imports the tracking package
	BadBlocks  []string         // calls that are not enclosed in a well-formed marker block
}

// Scan walks dir (skipping .git and the tracking package directory) and collects artefacts.
func Scan(dir, alias, importPath, pkgDir string) (*Instrumentation, error) {
	in := &Instrumentation{Serve: map[string][]int{}, ServeFirst: map[string]bool{}, Markers: map[string]int{}, Imports: map[string]bool{}}
	var files []string
	filepath.Walk(dir, func(path string, info os.FileInfo, err error) error {
		if err != nil {
			return nil
		}
		rel, _ := filepath.Rel(dir, path)
		if info.IsDir() {
			if rel == ".git" || rel == pkgDir {
				return filepath.SkipDir
			}
			return nil
		}
		if strings.HasSuffix(rel, ".go") {
			files = append(files, rel)
		}
		return nil
	})
	sort.Strings(files)
	for _, rel := range files {
		src, err := os.ReadFile(filepath.Join(dir, rel))
		if err != nil {
			return nil, err
		}
		lines := strings.Split(string(src), "\n")
		for _, l := range lines {
			if strings.HasPrefix(strings.TrimSpace(l), "// +goat:") {
				in.Markers[rel]++
			}
		}
		fset := token.NewFileSet()
		f, err := parser.ParseFile(fset, rel, src, parser.ParseComments)
		if err != nil {
			if in.Markers[rel] > 0 || strings.Contains(string(src), alias+".Track(") {
				return nil, fmt.Errorf("%s does not parse: %v", rel, err)
			}
			continue
		}
		for _, is := range f.Imports {
			if p, _ := strconv.Unquote(is.Path.Value); p == importPath {
				in.Imports[rel] = true
			}
		}
		lineOf := func(p token.Pos) int { return fset.Position(p).Line }
		trim := func(n int) string {
			if n-1 >= 0 && n-1 < len(lines) {
				return strings.TrimSpace(lines[n-1])
			}
			return ""
		}
		ast.Inspect(f, func(n ast.Node) bool {
			es, ok := n.(*ast.ExprStmt)
			if !ok || !isArtefactCall(es, alias) {
				return true
			}
			call := es.X.(*ast.CallExpr)
			name := call.Fun.(*ast.SelectorExpr).Sel.Name
			arg := ""
			if len(call.Args) == 1 {
				if se, ok := call.Args[0].(*ast.SelectorExpr); ok {
					arg = se.Sel.Name
				}
			}
			ln := lineOf(es.Pos())
			wellFormed := func(start string) bool {
				return strings.HasPrefix(trim(ln-2), start) && strings.HasPrefix(trim(ln-1), "// +goat:tips") &&
					strings.HasPrefix(trim(ln+1), "// +goat:end") && trim(ln) == strings.TrimSpace(lines[ln-1])
			}
			switch name {
			case "Track":
				id, err := strconv.Atoi(strings.TrimPrefix(arg, "TRACK_ID_"))
				if err != nil {
					id = -1
				}
				ok := wellFormed("// +goat:generate")
				if !ok {
					in.BadBlocks = append(in.BadBlocks, fmt.Sprintf("%s:%d", rel, ln))
				}
				in.Calls = append(in.Calls, TrackCall{Path: rel, ID: id, Line: ln, InBlock: ok})
			case "ServeHTTP":
				id, err := strconv.Atoi(strings.TrimPrefix(arg, "COMPONENT_"))
				if err != nil {
					id = -1
				}
				in.Serve[rel] = append(in.Serve[rel], id)
				if !wellFormed("// +goat:main") {
					in.BadBlocks = append(in.BadBlocks, fmt.Sprintf("%s:%d", rel, ln))
				}
				for _, d := range f.Decls {
					if fd, ok := d.(*ast.FuncDecl); ok && fd.Name.Name == "main" && fd.Recv == nil && fd.Body != nil && len(fd.Body.List) > 0 {
						if fd.Body.List[0] == ast.Stmt(es) {
							in.ServeFirst[rel] = true
						}
					}
				}
			}
			return true
		})
	}
	return in, nil
}

// Generated is what the generated tracking package declares.
type Generated struct {
	Exists     bool
	IDs        map[string]int // TRACK_ID_n -> value
	End        int
	Components [][]int // per component: the ids of COMPONENT_i_TRACK_IDS
	Names      []string
}

// ParseGenerated reads the generated file.
func ParseGenerated(path string) (*Generated, error) {
	src, err := os.ReadFile(path)
	if os.IsNotExist(err) {
		return &Generated{}, nil
	}
	if err != nil {
		return nil, err
	}
	fset := token.NewFileSet()
	f, err := parser.ParseFile(fset, path, src, 0)
	if err != nil {
		return nil, err
	}
	g := &Generated{Exists: true, IDs: map[string]int{}}
	comp := map[int][]int{}
	for _, d := range f.Decls {
		gd, ok := d.(*ast.GenDecl)
		if !ok {
			continue
		}
		if gd.Tok == token.CONST {
			isTrack := false
			for i, sp := range gd.Specs {
				vs := sp.(*ast.ValueSpec)
				if i == 0 && len(vs.Names) == 1 && vs.Names[0].Name == "TRACK_ID_START" {
					isTrack = true
				}
				if !isTrack {
					break
				}
				n := vs.Names[0].Name
				if n == "TRACK_ID_END" {
					g.End = i
				} else if strings.HasPrefix(n, "TRACK_ID_") && n != "TRACK_ID_START" {
					g.IDs[n] = i
				}
			}
		}
		if gd.Tok == token.VAR {
			for _, sp := range gd.Specs {
				vs := sp.(*ast.ValueSpec)
				if len(vs.Names) != 1 || len(vs.Values) != 1 {
					continue
				}
				n := vs.Names[0].Name
				cl, ok := vs.Values[0].(*ast.CompositeLit)
				if !ok {
					continue
				}
				if strings.HasPrefix(n, "COMPONENT_") && strings.HasSuffix(n, "_TRACK_IDS") && n != "COMPONENT_TRACK_IDS" {
					ci, err := strconv.Atoi(strings.TrimSuffix(strings.TrimPrefix(n, "COMPONENT_"), "_TRACK_IDS"))
					if err != nil {
						continue
					}
					ids := []int{}
					for _, e := range cl.Elts {
						if id, ok := e.(*ast.Ident); ok {
							v, _ := strconv.Atoi(strings.TrimPrefix(id.Name, "TRACK_ID_"))
							ids = append(ids, v)
						}
					}
					comp[ci] = ids
				}
				if n == "componentNames" {
					for _, e := range cl.Elts {
						if kv, ok := e.(*ast.KeyValueExpr); ok {
							if bl, ok := kv.Value.(*ast.BasicLit); ok {
								s, _ := strconv.Unquote(bl.Value)
								g.Names = append(g.Names, s)
							}
						}
					}
				}
			}
		}
	}
	for i := 0; i < len(comp); i++ {
		g.Components = append(g.Components, comp[i])
	}
	return g, nil
}
