module verifharness

go 1.23.0

require (
	github.com/go-git/go-git/v5 v5.16.0
	github.com/monshunter/goat v0.0.0
	golang.org/x/tools v0.32.0
)

require (
	dario.cat/mergo v1.0.0 // indirect
	github.com/ProtonMail/go-crypto v1.1.6 // indirect
	github.com/cloudflare/circl v1.6.1 // indirect
	github.com/cyphar/filepath-securejoin v0.4.1 // indirect
	github.com/emirpasic/gods v1.18.1 // indirect
	github.com/go-git/gcfg v1.5.1-0.20230307220236-3a3c6141e376 // indirect
	github.com/go-git/go-billy/v5 v5.6.2 // indirect
	github.com/golang/groupcache v0.0.0-20241129210726-2c02b8208cf8 // indirect
	github.com/jbenet/go-context v0.0.0-20150711004518-d14ea06fba99 // indirect
	github.com/kevinburke/ssh_config v1.2.0 // indirect
	github.com/pjbgf/sha1cd v0.3.2 // indirect
	github.com/sergi/go-diff v1.3.2-0.20230802210424-5b0b94c5c0d3 // indirect
	github.com/skeema/knownhosts v1.3.1 // indirect
	github.com/xanzy/ssh-agent v0.3.3 // indirect
	golang.org/x/crypto v0.37.0 // indirect
	golang.org/x/mod v0.24.0 // indirect
	golang.org/x/net v0.39.0 // indirect
	golang.org/x/sync v0.13.0 // indirect
	golang.org/x/sys v0.32.0 // indirect
	gopkg.in/warnings.v0 v0.1.2 // indirect
	gopkg.in/yaml.v3 v3.0.1 // indirect
)

replace github.com/monshunter/goat => /repo

replace golang.org/x/sync => golang.org/x/sync v0.10.0
