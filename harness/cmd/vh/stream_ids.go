package main

import (
	"fmt"
	"os"
	"path/filepath"
	"sort"
	"strings"

	"github.com/monshunter/goat/pkg/config"
	"github.com/monshunter/goat/pkg/goat"
	"github.com/monshunter/goat/pkg/maininfo"
	"github.com/monshunter/goat/pkg/tracking/increment"
	"verifharness/internal/proto"
	"verifharness/internal/stream"
)

func init() {
	streams["ids"] = streamIds
}

func streamIds(s *stream.Stream, c *streamCtx) error {
	n := 400
	if c.thorough() {
		n = 6000
	}
	s.Rule = fmt.Sprintf("%d random instrumented-file sets (1-12 files in 1-5 directories incl. the root, 0-6 placeholders each, file names that sort differently from their directories) through the real "+
		"PatchExecutor.replaceTracks, getTotalTrackIdxs and getComponentTrackIdxs (hooks) and %d random import graphs (2-8 packages on disk, cycles and self-imports allowed, test files and external imports as decoys) "+
		"through the real maininfo.NewMainInfoWithConfig; non-trivial = at least one id / one imported package", n, n/4)
	cfg := &config.Config{DiffPrecision: 2, AppVersion: "t", AppName: "a", Threads: 1}
	root := filepath.Join(c.work, "ids-root")
	os.MkdirAll(root, 0755)
	os.WriteFile(filepath.Join(root, "go.mod"), []byte("module example.com/m\n\ngo 1.23\n"), 0644)
	cwd, _ := os.Getwd()
	os.Chdir(root)
	defer os.Chdir(cwd)
	if err := cfg.Validate(); err != nil {
		return err
	}
	dirsAll := []string{".", "a", "a/b", "ab", "a-b", "cmd/x", "z"}
	for i := 0; i < n; i++ {
		nf := 1 + c.rng.Intn(12)
		contents := map[string]string{}
		counts := map[string]int{}
		for len(contents) < nf {
			d := dirsAll[c.rng.Intn(len(dirsAll))]
			name := fmt.Sprintf("f%d.go", c.rng.Intn(6))
			p := filepath.Join(d, name)
			if _, ok := contents[p]; ok {
				continue
			}
			k := c.rng.Intn(7)
			if c.rng.Intn(4) == 0 {
				k = 0
			}
			counts[p] = k
			contents[p] = "package p\n" + strings.Repeat("\t"+increment.TrackStmtPlaceHolder+"\n", k)
		}
		paths := make([]string, 0, len(contents))
		for p := range contents {
			paths = append(paths, p)
		}
		sort.Strings(paths)
		total, ivs, _, err := goat.VerifPatchReplaceTracks(cfg, "example.com/m", contents)
		if err != nil {
			return err
		}
		var reqFiles, implIv []string
		for _, p := range paths {
			reqFiles = append(reqFiles, fmt.Sprintf("%s:%d", p, counts[p]))
			iv := ivs[p]
			e := fmt.Sprint(iv[1])
			if iv[1]+1 == iv[0] {
				e = "e"
			}
			implIv = append(implIv, fmt.Sprintf("%s:%d:%s", p, iv[0], e))
		}
		tot := goat.VerifTotalTrackIdxs(ivs)
		ans := strings.TrimRight(strings.Join(implIv, " ")+" | "+proto.Ints(tot), " ")
		s.Case("number "+strings.Join(reqFiles, " "), ans, "judge:number "+strings.Join(reqFiles, " ")+" | "+ans, total > 0)
		s.Count("number")
		// components: random import lists per main
		nm := 1 + c.rng.Intn(4)
		var mains []maininfo.MainPackageInfo
		var mtoks []string
		for m := 0; m < nm; m++ {
			var imps []string
			for _, d := range dirsAll {
				if c.rng.Intn(3) == 0 {
					imps = append(imps, d)
				}
			}
			c.rng.Shuffle(len(imps), func(a, b int) { imps[a], imps[b] = imps[b], imps[a] })
			mains = append(mains, maininfo.MainPackageInfo{MainDir: "cmd/x", Imports: imps})
			if len(imps) == 0 {
				mtoks = append(mtoks, "-")
			} else {
				mtoks = append(mtoks, strings.Join(imps, ","))
			}
		}
		comps := goat.VerifComponentTrackIdxs(ivs, mains)
		var implC []string
		for _, ids := range comps {
			if len(ids) == 0 {
				implC = append(implC, "-")
			} else {
				implC = append(implC, proto.Ints(ids))
			}
		}
		s.Case("comp "+strings.Join(reqFiles, " ")+" | "+strings.Join(mtoks, " "), strings.TrimSpace(strings.Join(implC, " ; ")), "", total > 0)
		s.Count("components")
	}
	// import closure on real directories
	for g := 0; g < n/4; g++ {
		groot := filepath.Join(c.work, fmt.Sprintf("graph%d", g))
		np := 2 + c.rng.Intn(7)
		adj := make([][]int, np)
		for i := 0; i < np; i++ {
			dir := filepath.Join(groot, fmt.Sprintf("p%d", i))
			os.MkdirAll(dir, 0755)
			nfiles := 1 + c.rng.Intn(2)
			for f := 0; f < nfiles; f++ {
				var imps []string
				for j := 0; j < np; j++ {
					if c.rng.Intn(100) < 30 && j != 0 { // nobody imports the main package p0
						// every form of import declaration is an edge: plain, blank, dot, renamed
						form := []string{"", "", "_ ", ". ", fmt.Sprintf("q%d ", j)}[c.rng.Intn(5)]
						imps = append(imps, fmt.Sprintf("\t%s\"example.com/m/p%d\"\n", form, j))
						adj[i] = append(adj[i], j)
						s.Count("import-form:" + strings.TrimSpace(strings.TrimRight(form, "0123456789 ")+" "))
					}
				}
				imps = append(imps, "\t\"fmt\"\n", "\t\"other.org/x/p1\"\n")
				pkg := fmt.Sprintf("p%d", i)
				if i == 0 {
					pkg = "main"
				}
				src := fmt.Sprintf("package %s\n\nimport (\n%s)\n\nfunc main() {}\n", pkg, strings.Join(imps, ""))
				os.WriteFile(filepath.Join(dir, fmt.Sprintf("f%d.go", f)), []byte(src), 0644)
			}
			// decoy: a test file importing everything must be ignored
			os.WriteFile(filepath.Join(dir, "x_test.go"), []byte(fmt.Sprintf("package p%d\n\nimport \"example.com/m/p%d\"\n", i, (i+1)%np)), 0644)
		}
		os.WriteFile(filepath.Join(groot, "go.mod"), []byte("module example.com/m\n\ngo 1.23\n"), 0644)
		os.Chdir(groot)
		gcfg := &config.Config{DiffPrecision: 2, AppVersion: "t", AppName: "a", Threads: 1}
		gcfg.Validate()
		infos, err := goat.VerifMainPackageInfos(gcfg, ".", "example.com/m")
		os.Chdir(root)
		if err != nil {
			return fmt.Errorf("graph %d: %v", g, err)
		}
		var visited []int
		for _, mi := range infos {
			if mi.MainDir != "p0" {
				continue
			}
			for _, im := range mi.Imports {
				var k int
				if _, err := fmt.Sscanf(im, "p%d", &k); err == nil && im != "p0" {
					visited = append(visited, k)
				}
			}
		}
		sort.Ints(visited)
		var gt []string
		for i := 0; i < np; i++ {
			gt = append(gt, fmt.Sprint(len(adj[i])))
			for _, j := range adj[i] {
				gt = append(gt, fmt.Sprint(j))
			}
		}
		graph := fmt.Sprintf("%d 0 %d %s", np+2, np, strings.Join(gt, " "))
		s.Case("closure "+graph, proto.Ints(visited), "judge:closure "+graph+" | "+proto.Ints(visited), len(visited) > 0)
		s.Count("closure")
		os.RemoveAll(groot)
	}
	// which main packages start the service: the loop of applyMainEntries over the real Config.IsMainEntry
	entryPool := []string{"*", "cmd/m0", "cmd/m0x", "cmd/m0/", "./cmd/m0", ".", "cmd", "cmd/m0/tools/dump", "**", "cmd/*", "svc/a/cmd/app", "CMD/m0", "cmd/m1"}
	dirPool := []string{".", "cmd/m0", "cmd/m0x", "cmd/m0/tools/dump", "cmd/m1", "svc/a/cmd/app", "svc/b/cmd/app", "cmd"}
	for i := 0; i < n; i++ {
		var entries []string
		for k := c.rng.Intn(4); k > 0; k-- {
			entries = append(entries, entryPool[c.rng.Intn(len(entryPool))])
		}
		mcfg := &config.Config{MainEntries: entries}
		var mains, got []string
		perm := c.rng.Perm(len(dirPool))
		nm := 1 + c.rng.Intn(5)
		for k := 0; k < nm; k++ {
			d := dirPool[perm[k]]
			cnt := c.rng.Intn(3)
			mains = append(mains, fmt.Sprintf("%s:%d", proto.Enc(d), cnt))
			if mcfg.IsMainEntry(d) && cnt > 0 {
				got = append(got, fmt.Sprint(k))
			}
		}
		var encE []string
		for _, e := range entries {
			encE = append(encE, proto.Enc(e))
		}
		ans := strings.Join(got, " ")
		if ans == "" {
			ans = "-"
		}
		req := strings.TrimSpace("serve " + strings.Join(encE, " ") + " | " + strings.Join(mains, " "))
		jans := strings.Join(got, " ")
		s.Case(req, ans, strings.TrimSpace("judge:"+req+" | "+jans), len(got) > 0)
		s.Count("serve")
		if len(entries) == 0 {
			s.Count("serve:empty-selection")
		}
	}
	return nil
}
