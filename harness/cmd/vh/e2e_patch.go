package main

import (
	"fmt"
	"math/rand"
	"os"
	"path/filepath"
	"regexp"
	"sort"
	"strings"

	"verifharness/internal/oracle"
	"verifharness/internal/proj"
)

func init() {
	e2es["patch"] = e2ePatch
}

var wsRe = regexp.MustCompile(`\s+`)

func collapse(s string) string { return strings.TrimSpace(wsRe.ReplaceAllString(s, " ")) }

func isGoatLine(t string) bool { return strings.HasPrefix(strings.TrimSpace(t), "// +goat:") }

// blocksOf returns, per tracking block / insert marker of a file in source order, its kind
// ("generate", "delete", "insert", "main") and its anchor: the first following line that is
// neither part of a marker block nor blank (whitespace collapsed).
type blockInfo struct {
	kind   string
	line   int // 0-based line of the start marker
	end    int // 0-based line of the end marker (== line for insert)
	anchor string
}

func blocksOf(src string) []blockInfo {
	lines := strings.Split(src, "\n")
	var out []blockInfo
	for i := 0; i < len(lines); i++ {
		t := strings.TrimSpace(lines[i])
		kind := ""
		switch {
		case strings.HasPrefix(t, "// +goat:generate"):
			kind = "generate"
		case strings.HasPrefix(t, "// +goat:delete"):
			kind = "delete"
		case strings.HasPrefix(t, "// +goat:main"):
			kind = "main"
		case strings.HasPrefix(t, "// +goat:insert"):
			kind = "insert"
		}
		if kind == "" {
			continue
		}
		end := i
		if kind != "insert" {
			for end < len(lines) && !strings.HasPrefix(strings.TrimSpace(lines[end]), "// +goat:end") {
				end++
			}
		}
		out = append(out, blockInfo{kind: kind, line: i, end: end})
		i = end
	}
	// anchors
	inBlock := make([]bool, len(lines))
	for _, b := range out {
		for j := b.line; j <= b.end && j < len(lines); j++ {
			inBlock[j] = true
		}
	}
	for k := range out {
		for j := out[k].end + 1; j < len(lines); j++ {
			if !inBlock[j] && strings.TrimSpace(lines[j]) != "" {
				out[k].anchor = collapse(lines[j])
				break
			}
		}
	}
	return out
}

// flipDeletes turns the start marker of `k` random tracking blocks of the tree into +goat:delete.
func flipDeletes(tree map[string]string, files []string, r *rand.Rand, k int, all bool) int {
	type ref struct {
		path string
		line int
	}
	var refs []ref
	for _, p := range files {
		for _, b := range blocksOf(tree[p]) {
			if b.kind == "generate" {
				refs = append(refs, ref{p, b.line})
			}
		}
	}
	r.Shuffle(len(refs), func(i, j int) { refs[i], refs[j] = refs[j], refs[i] })
	if all || k > len(refs) {
		k = len(refs)
	}
	for _, rf := range refs[:k] {
		lines := strings.Split(tree[rf.path], "\n")
		lines[rf.line] = strings.Replace(lines[rf.line], "// +goat:generate", "// +goat:delete", 1)
		tree[rf.path] = strings.Join(lines, "\n")
	}
	return k
}

var stmtLineRe = regexp.MustCompile(`^\t+(acc |acc\+\+|acc--|Note\(acc)`)

// addInserts puts `k` insert markers before random simple statements of function bodies.
func addInserts(tree map[string]string, files []string, r *rand.Rand, k int) int {
	n := 0
	for tries := 0; tries < 20*k && n < k; tries++ {
		p := files[r.Intn(len(files))]
		lines := strings.Split(tree[p], "\n")
		var cands []int
		for i, l := range lines {
			if stmtLineRe.MatchString(l) && i > 0 && !isGoatLine(lines[i-1]) && !strings.HasSuffix(strings.TrimSpace(lines[i-1]), ",") &&
				!strings.HasSuffix(strings.TrimSpace(lines[i-1]), "(") {
				cands = append(cands, i)
			}
		}
		if len(cands) == 0 {
			continue
		}
		i := cands[r.Intn(len(cands))]
		indent := lines[i][:len(lines[i])-len(strings.TrimLeft(lines[i], "\t"))]
		marker := indent + "// +goat:insert"
		if r.Intn(2) == 0 {
			marker += " by hand"
		}
		lines = append(lines[:i], append([]string{marker}, lines[i:]...)...)
		tree[p] = strings.Join(lines, "\n")
		n++
	}
	return n
}

func goFilesOf(tree map[string]string, cfg proj.Config) []string {
	var out []string
	for p := range tree {
		if eligible(p, cfg) {
			out = append(out, p)
		}
	}
	sort.Strings(out)
	return out
}

func writeFiles(dir string, tree map[string]string, paths []string) {
	for _, p := range paths {
		os.WriteFile(filepath.Join(dir, p), []byte(tree[p]), 0644)
	}
}

// expectedAnchors: what must carry a tracking block after patch, per file, in source order.
func expectedAnchors(src string) []string {
	var out []string
	for _, b := range blocksOf(src) {
		if b.kind == "generate" || b.kind == "insert" {
			out = append(out, b.anchor)
		}
	}
	return out
}

func actualAnchors(src string) []string {
	var out []string
	for _, b := range blocksOf(src) {
		if b.kind == "generate" {
			out = append(out, b.anchor)
		}
	}
	return out
}

// e2ePatch: instrumented project → random delete flips and insert markers → goat patch → oracles
// of C10 (markers applied exactly, blocks preserved, user code preserved, renumbering, builds)
// and C05 (tables), repeated rounds; patch without markers changes nothing.
func e2ePatch(c *e2eCtx) error {
	n := 24
	if c.thorough() {
		n = 240
	}
	c.res.Rule = fmt.Sprintf("%d generated in-scope projects: track, then 1-3 patch rounds with random subsets of blocks flipped to +goat:delete (incl. all blocks of the project in some rounds) and "+
		"+goat:insert markers before random statements of instrumented and not yet instrumented files; oracles after every round: exit status, anchors of the surviving and inserted blocks in source order, "+
		"user code (syntax tree + comments) unchanged, ids 1..N and tables (C05), go build, generated file and service-start blocks removed when N=0, a patch without markers writes nothing; "+
		"non-trivial = the round applied at least one marker", n)
	c.parallel(n, func(i int, r *rand.Rand) {
		s, err := c.newScenario(i, r, proj.Opts{InScope: true, RootMain: r.Intn(3) == 0}, randomConfig)
		if err != nil {
			c.violate("", "harness: "+err.Error(), nil)
			return
		}
		defer os.RemoveAll(s.dir)
		// one project in three selects only its LAST main package (an earlier one is left out: the
		// selected component's number is not its position among the selected ones)
		if i%3 == 2 {
			var mains []string
			for _, pk := range s.p.Pkgs {
				if pk.IsMain {
					mains = append(mains, pk.Dir)
				}
			}
			if len(mains) >= 2 {
				s.cfg.MainEntries = []string{mains[len(mains)-1]}
				proj.WriteConfig(s.dir, s.cfg)
				s.desc = cfgDesc(s.cfg)
			}
		}
		run := proj.RunGoat(c.goat, s.dir, nil, "track")
		if run.Exit != 0 {
			return // C01's business
		}
		rounds := 1 + r.Intn(3)
		for rd := 0; rd < rounds; rd++ {
			if !c.patchRound(s, r, rd, nil) {
				return
			}
		}
		// configuration change between the commands (one project in four with several main packages):
		// `mainEntries` is narrowed to one main package after track, then a patch round with an insert
		// marker — the other main packages must lose their service-start call, the tables stay whole
		if i%4 == 1 {
			var mains []*proj.Pkg
			for _, pk := range s.p.Pkgs {
				if pk.IsMain {
					mains = append(mains, pk)
				}
			}
			if len(mains) >= 2 {
				keep := mains[r.Intn(len(mains))]
				s.cfg.MainEntries = []string{keep.Dir}
				proj.WriteConfig(s.dir, s.cfg)
				s.desc = cfgDesc(s.cfg)
				c.count("directed:mainEntries-narrowed-before-patch")
				all := map[string]bool{}
				for _, pk := range mains {
					for d := range s.closureDirs(pk) {
						all[d] = true
					}
				}
				c.patchRound(s, r, rounds+3, &patchDirective{dirs: all, inserts: 1 + r.Intn(2)}) // the other mains still carry their block from track
			}
		}
		// directed pair (one in two projects): a component loses its last tracking point through
		// delete markers, then receives its first one again through an insert marker
		if r.Intn(2) == 0 {
			var mains []*proj.Pkg
			for _, pk := range s.p.Pkgs {
				if pk.IsMain {
					mains = append(mains, pk)
				}
			}
			dirs := s.closureDirs(mains[r.Intn(len(mains))])
			if !c.patchRound(s, r, rounds, &patchDirective{dirs: dirs, deleteAll: true}) {
				return
			}
			c.patchRound(s, r, rounds+1, &patchDirective{dirs: dirs, inserts: 1 + r.Intn(2)})
		}
		// directed round (one in two projects): every tracking point that belongs to a component is
		// deleted; what is left lives in packages no main package imports
		if r.Intn(2) == 0 {
			all := map[string]bool{}
			for _, pk := range s.p.Pkgs {
				if pk.IsMain {
					for d := range s.closureDirs(pk) {
						all[d] = true
					}
				}
			}
			c.patchRound(s, r, rounds+2, &patchDirective{dirs: all, deleteAll: true})
		}
		// directed pair (one project in four): EVERY tracking point is deleted (N becomes 0: the generated
		// file, the service starts and the package directory go), then insert markers — the project is
		// "not tracked" at that moment, patch must still turn the markers into tracking points
		if i%4 == 3 {
			if c.patchRound(s, r, rounds+4, &patchDirective{everything: true, deleteAll: true}) {
				c.count("directed:all-points-deleted-then-inserts")
				c.patchRound(s, r, rounds+5, &patchDirective{everything: true, inserts: 1 + r.Intn(3)})
			}
		}
	})
	return nil
}

// patchDirective restricts a round to the files of some directories (a component's import closure)
type patchDirective struct {
	dirs       map[string]bool
	deleteAll  bool
	inserts    int
	everything bool // every file of the project, not only those of dirs
}

func (c *e2eCtx) patchRound(s *scenario, r *rand.Rand, rd int, dv *patchDirective) bool {
	c.mu.Lock()
	c.res.Evaluations++
	c.mu.Unlock()
	alias, ip := s.cfg.Alias, s.importPath()
	before := proj.ReadTree(s.dir)
	files := goFilesOf(before, s.cfg)
	edited := map[string]string{}
	for k, v := range before {
		edited[k] = v
	}
	mode := r.Intn(8)
	nd, ni := 0, 0
	var sub []string
	if dv != nil {
		mode = 8
		if !dv.deleteAll {
			mode = 9
		}
		for _, p := range files {
			if dv.everything || dv.dirs[filepath.Dir(p)] {
				sub = append(sub, p)
			}
		}
	}
	switch {
	case mode == 8: // every block of one component
		nd = flipDeletes(edited, sub, r, 0, true)
	case mode == 9: // insert markers into the files of one component only
		if len(sub) > 0 {
			ni = addInserts(edited, sub, r, dv.inserts)
		}
	case mode == 0: // no markers at all
	case mode == 1: // everything deleted
		nd = flipDeletes(edited, files, r, 0, true)
	default:
		nd = flipDeletes(edited, files, r, r.Intn(6), false)
		// every block of the file that talks about "goat.yaml" (its tracking import must go with them)
		if _, ok := edited["pkg/l0/zz_cfgdoc.go"]; ok && r.Intn(2) == 0 {
			nd += flipDeletes(edited, []string{"pkg/l0/zz_cfgdoc.go"}, r, 0, true)
		}
		ni = addInserts(edited, files, r, r.Intn(5))
	}
	c.count(fmt.Sprintf("round-mode:%d", mode))
	var changed []string
	for _, p := range files {
		if edited[p] != before[p] {
			changed = append(changed, p)
		}
	}
	writeFiles(s.dir, edited, changed)
	wl := filepath.Join(s.dir, ".git", "verif-writelog")
	os.Remove(wl)
	run := proj.RunGoat(c.goat, s.dir, []string{"GOAT_VERIF_WRITELOG=" + wl}, "patch")
	rp := func(extra map[string]any) map[string]any {
		e := map[string]any{"config_desc": s.desc, "round": rd, "deleted": nd, "inserted": ni, "stderr": tail(run.Stderr, 1200), "edited_files": changed}
		for k, v := range extra {
			e[k] = v
		}
		return s.replay(e)
	}
	if run.Exit != 0 || isPanic(run.Stderr) {
		c.violate("C10", fmt.Sprintf("goat patch exited %d: %s", run.Exit, lastLine(run.Stderr)), rp(nil))
		return false
	}
	after := proj.ReadTree(s.dir)
	if nd+ni == 0 {
		// without markers nothing may change
		for _, p := range unionKeys(edited, after) {
			if edited[p] != after[p] {
				c.violate("C10", "patch without delete/insert markers changed "+p, rp(nil))
			}
		}
		if b, err := os.ReadFile(wl); err == nil && strings.Contains(string(b), " write ") {
			c.violate("C10", "patch without delete/insert markers wrote files: "+collapse(string(b)), rp(nil))
		}
		return true
	}
	c.mu.Lock()
	c.res.NonTrivial++
	c.mu.Unlock()
	c.sample(fmt.Sprintf("round %d: %d blocks flipped to delete, %d insert markers (%s)", rd, nd, ni, s.desc))
	total := 0
	for _, p := range files {
		want := expectedAnchors(edited[p])
		got := actualAnchors(after[p])
		total += len(got)
		if fmt.Sprint(want) != fmt.Sprint(got) {
			c.violate("C10", fmt.Sprintf("%s: tracking blocks after patch do not match the markers: want blocks before %q, got %q", p, want, got),
				rp(map[string]any{"file": p, "before_patch": edited[p], "after_patch": after[p]}))
			continue
		}
		for _, b := range blocksOf(after[p]) {
			if b.kind == "delete" || b.kind == "insert" {
				c.violate("C10", fmt.Sprintf("%s: a %s marker survived patch", p, b.kind), rp(map[string]any{"file": p}))
			}
		}
		if orig, ok := s.newTree[p]; ok {
			if d := oracle.SameProgram([]byte(orig), []byte(after[p]), alias, ip); d != "" {
				c.violate("C10", fmt.Sprintf("%s: user code changed by patch: %s", p, d), rp(map[string]any{"file": p}))
			}
		}
	}
	in, err := oracle.Scan(s.dir, alias, ip, s.cfg.PkgPath)
	if err != nil {
		c.violate("C10", "tree does not parse after patch: "+err.Error(), rp(nil))
		return false
	}
	if len(in.BadBlocks) > 0 {
		c.violate("C10", "tracking call outside a well-formed block after patch: "+strings.Join(in.BadBlocks, ", "), rp(nil))
	}
	c.judgeC05As("C05,C10", s, in, rp)
	if total == 0 {
		if _, err := os.Stat(filepath.Join(s.dir, s.cfg.PkgPath, "goat_generated.go")); err == nil {
			c.violate("C10", "no tracking point left but the generated file still exists", rp(nil))
		}
		if len(in.Serve) > 0 {
			c.violate("C10", "no tracking point left but a service-start call remains", rp(nil))
		}
		if lf, ld := proj.Leftovers(s.dir, s.newTree, s.cfg.PkgPath, "goat.yaml"); len(lf)+len(ld) > 0 {
			c.violate("C10", fmt.Sprintf("no tracking point left but the tree holds files %v and directories %v the project never had (generated package not removed)", lf, ld), rp(nil))
		}
		// the project must compile: no dangling import of the removed package
	}
	if ok, out := proj.GoBuild(s.dir); !ok {
		c.violate("C10", "project does not build after patch: "+firstLine(out, ""), rp(map[string]any{"build": tail(out, 1200)}))
	}
	return total > 0 || dv != nil
}
