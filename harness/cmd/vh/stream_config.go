package main

// Correspondence streams for C16 (goat init writes a configuration that loads back unchanged).
//
// Both streams drive the REAL code: the `goat` CLI binary (`goat init`, built from /repo with
// -tags verif) in throw-away git projects, and the real config.LoadConfig through the
// `vh config-load` subcommand executed inside the project directory.
//
//   config-init : request  cfg:init <env> <exists> <force> <flags>      impl = bytes of goat.yaml | reject <reason>
//                 judge    judge:cfg-roundtrip … | <real LoadConfig of the real file>   (the PROPERTY)
//   config-load : request  cfg:load <env> <file lines>                  impl = real LoadConfig | reject <reason>
//                 on every file written by the real init and on mutated copies (invalid enum
//                 values, out-of-range numbers, null values, deleted keys); judge:cfg-invalid on the
//                 mutations the property says must be rejected.

import (
	"bytes"
	"fmt"
	"math/rand"
	"os"
	"os/exec"
	"path/filepath"
	"runtime"
	"strconv"
	"strings"
	"sync"

	"github.com/monshunter/goat/pkg/config"
	"verifharness/internal/proto"
	"verifharness/internal/stream"
)

func init() {
	streams["config-init"] = streamConfigInit
	streams["config-load"] = streamConfigLoad
	register("config-load", "config-load FILE : config.LoadConfig(FILE) in the current directory, canonical one-line answer", runConfigLoad)
}

// ---------------------------------------------------------------- vh config-load

func cfgTokens(c *config.Config) []string {
	lst := func(l []string) []string {
		t := []string{strconv.Itoa(len(l))}
		for _, s := range l {
			t = append(t, proto.Enc(s))
		}
		return t
	}
	modes := make([]string, len(c.PrinterConfigMode))
	for i, m := range c.PrinterConfigMode {
		modes[i] = string(m)
	}
	t := []string{proto.Enc(c.AppName), proto.Enc(c.AppVersion), proto.Enc(c.OldBranch), proto.Enc(c.NewBranch)}
	t = append(t, lst(c.Ignores)...)
	t = append(t, proto.Enc(c.GoatPackageName), proto.Enc(c.GoatPackageAlias), proto.Enc(c.GoatPackagePath), proto.Enc(c.Granularity),
		strconv.Itoa(c.DiffPrecision), strconv.Itoa(c.Threads), proto.B(c.Race))
	t = append(t, lst(c.MainEntries)...)
	t = append(t, lst(modes)...)
	t = append(t, strconv.Itoa(c.PrinterConfigTabwidth), strconv.Itoa(c.PrinterConfigIndent), proto.Enc(c.DataType),
		proto.B(c.Verbose), proto.B(c.SkipNestedModules))
	return t
}

// rejectReason maps error texts of init / LoadConfig to the model's enum.
func rejectReason(msg string) string {
	switch {
	case strings.Contains(msg, "already exists"):
		return "exists"
	case strings.Contains(msg, "invalid granularity"):
		return "granularity"
	case strings.Contains(msg, "invalid diff precision"):
		return "precision"
	case strings.Contains(msg, "failed to get short commit hash"):
		return "hash"
	case strings.Contains(msg, "invalid printer config mode"):
		return "printer-mode"
	case strings.Contains(msg, "invalid data type"):
		return "data-type"
	case strings.Contains(msg, "failed to parse config file"):
		return "parse"
	}
	return "other:" + proto.Enc(strings.TrimSpace(msg))
}

func runConfigLoad(args []string) error {
	if len(args) != 1 {
		return fmt.Errorf("usage: vh config-load FILE")
	}
	c, err := config.LoadConfig(args[0])
	if err != nil {
		fmt.Println("reject " + rejectReason(err.Error()))
		return nil
	}
	fmt.Println("ok " + strings.Join(cfgTokens(c), " "))
	return nil
}

// ---------------------------------------------------------------- generator

var cfgFlagOrder = []string{"old", "new", "app-name", "app-version", "granularity", "diff-precision", "threads", "race",
	"goat-package-name", "goat-package-alias", "goat-package-path", "ignores", "main-entries",
	"printer-config-mode", "printer-config-tabwidth", "printer-config-indent", "data-type", "skip-nested-modules"}

// project directory base names (appName default = base name; goes through the template too)
var cfgBaseNames = []string{"proj", "my-app", "app+1", "a&b", "x<y>", "it's", "two words", `q"uote`}

// refs that exist in every generated project (all at the single commit)
// "20240915" (a date tag) and "deadbee" (a branch) are ref names made of hex digits only
// "init" (a branch) and "Init" (a tag) are spelled like the new-repository keyword INIT but are ordinary refs
var cfgRefs = []string{"HEAD", "main", "feature/c++", "v1.0.0+build", "20240915", "deadbee", "init", "Init"}

const (
	cfgFirst    = "abcdefghijklmnopqrstuvwxyzABCDEFGHIJKLMNOPQRSTUVWXYZ0123456789_./"
	cfgPlain    = "abcdefghijklmnopqrstuvwxyzABCDEFGHIJKLMNOPQRSTUVWXYZ0123456789_-./"
	cfgSpecials = "+&<>'\""
)

// text that looks escaped already: a value must come back verbatim, never "repaired"
var cfgEntities = []string{"&amp;", "&lt;", "&gt;", "&#39;", "&#34;", "&quot;", "&amp;lt", "&amp;gt", "&amp;reg", "&amp;amp",
	"&amp;not", "&copy", "&#x26;", "&amp;#43;", "%2B", "%26", "\\u0026", "\\n"}

var cfgCurated = []string{"login&amp;registration", "2.0&amp;lt+rc1", "R&amp;D", "a&lt;b", "docs/q&amp;amp", "1.0.0+build", "feature/c++", "a&b<c>", "it's", `say "hi"`, "release-1.32", "R&D <dev>", "x y z",
	"v2.0.0-rc.1+exp.sha.5114f85", "a  b", "true", "123", "1.5", "0x1F", "1e3", "2001-12-14", "no", ".inf", "null", "~", "NULL"}

type cfgCase struct {
	base   int  // index into cfgBaseNames
	exists bool // goat.yaml present before the run
	force  bool
	flags  map[string]string // given flags only
	// mutation applied to the written file for the config-load stream
	mut int
}

func safeString(r *rand.Rand) string {
	n := 1 + r.Intn(10)
	var b strings.Builder
	b.WriteByte(cfgFirst[r.Intn(len(cfgFirst))])
	for i := 1; i < n; i++ {
		switch x := r.Intn(10); {
		case x < 3:
			b.WriteByte(cfgSpecials[r.Intn(len(cfgSpecials))])
		case x == 3 && i < n-1:
			b.WriteByte(' ')
		case x == 4 && r.Intn(3) == 0:
			b.WriteString(cfgEntities[r.Intn(len(cfgEntities))])
		default:
			b.WriteByte(cfgPlain[r.Intn(len(cfgPlain))])
		}
	}
	return b.String()
}

func genString(r *rand.Rand) (string, bool) {
	switch x := r.Intn(100); {
	case x < 35:
		return "", false
	case x < 43:
		return "", true
	case x < 55:
		return cfgCurated[r.Intn(len(cfgCurated))], true
	default:
		return safeString(r), true
	}
}

func pickStr(r *rand.Rand, xs ...string) string { return xs[r.Intn(len(xs))] }

func genCase(r *rand.Rand) cfgCase {
	c := cfgCase{base: r.Intn(len(cfgBaseNames)), flags: map[string]string{}}
	c.exists = r.Intn(100) < 10
	c.force = r.Intn(100) < 20
	c.mut = r.Intn(16)
	set := func(name string, v string, given bool) {
		if given {
			c.flags[name] = v
		}
	}
	for _, f := range []string{"old", "app-name", "app-version", "goat-package-name", "goat-package-alias", "goat-package-path"} {
		v, g := genString(r)
		set(f, v, g)
	}
	if r.Intn(100) < 20 { // the old revision named by a ref of the project (among them `init` and `Init`: ordinary refs)
		c.flags["old"] = cfgRefs[r.Intn(len(cfgRefs))]
	}
	if r.Intn(100) < 8 { // paths that filepath.Join cleans
		c.flags["goat-package-path"] = pickStr(r, "./x//y/../z", "a/./b/", "../up", "/abs/p", "a/b/../../..", "internal/goat")
	}
	switch x := r.Intn(100); {
	case x < 40:
	case x < 50:
		c.flags["new"] = ""
	case x < 75:
		c.flags["new"] = cfgRefs[r.Intn(len(cfgRefs))]
	default:
		c.flags["new"] = safeString(r)
	}
	switch x := r.Intn(100); {
	case x < 30:
	case x < 86:
		c.flags["granularity"] = pickStr(r, "line", "patch", "scope", "func")
	case x < 94:
		c.flags["granularity"] = ""
	default:
		c.flags["granularity"] = pickStr(r, "bad", "Line", "block", "patch ", "funcs")
	}
	switch x := r.Intn(100); {
	case x < 40:
	case x < 94:
		c.flags["diff-precision"] = strconv.Itoa(1 + r.Intn(3))
	default:
		c.flags["diff-precision"] = pickStr(r, "0", "4", "-1", "7", "100")
		if r.Intn(2) == 0 { // the range is checked whatever the base is
			c.flags["old"] = "INIT"
		}
	}
	switch x := r.Intn(100); {
	case x < 40:
	case x < 85:
		c.flags["threads"] = strconv.Itoa(1 + r.Intn(64))
	default:
		c.flags["threads"] = pickStr(r, "0", "-3", "-128")
	}
	for _, f := range []string{"race", "skip-nested-modules"} {
		if x := r.Intn(3); x > 0 {
			c.flags[f] = pickStr(r, "true", "false")
		}
	}
	listOf := func(n int, extra ...string) string {
		items := make([]string, n)
		for i := range items {
			switch x := r.Intn(20); {
			case x == 0:
				items[i] = ""
			case x == 1:
				items[i] = " " + safeString(r) // leading space inside an entry (not preserved by YAML)
			case x < 5 && len(extra) > 0:
				items[i] = extra[r.Intn(len(extra))]
			default:
				items[i] = safeString(r)
			}
		}
		return strings.Join(items, ",")
	}
	switch x := r.Intn(100); {
	case x < 25:
	case x < 32:
		c.flags["ignores"] = ""
	case x < 37:
		c.flags["ignores"] = pickStr(r, " ", "  \t")
	default:
		v := listOf(r.Intn(6), "goat/goat_generated.go", ".git", "vendor", "x/z/goat_generated.go", "third_party/a+b")
		if r.Intn(6) == 0 {
			v = " " + v + " "
		}
		c.flags["ignores"] = v
	}
	switch x := r.Intn(100); {
	case x < 30:
	case x < 38:
		c.flags["main-entries"] = ""
	default:
		c.flags["main-entries"] = listOf(r.Intn(6), "*", "cmd/server", "cmd/a\"b", "cmd/it's")
	}
	switch x := r.Intn(100); {
	case x < 35:
	case x < 43:
		c.flags["printer-config-mode"] = ""
	case x < 94:
		n := 1 + r.Intn(3)
		ms := make([]string, n)
		for i := range ms {
			ms[i] = pickStr(r, "useSpaces", "tabIndent", "sourcePos", "rawFormat", "useSpaces", "tabIndent", "")
		}
		c.flags["printer-config-mode"] = strings.Join(ms, ",")
	default:
		c.flags["printer-config-mode"] = pickStr(r, "none", "bogus", "usespaces", "useSpaces,bogus", "tabIndent, useSpaces")
	}
	switch x := r.Intn(100); {
	case x < 40:
	case x < 85:
		c.flags["printer-config-tabwidth"] = strconv.Itoa(1 + r.Intn(16))
	default:
		c.flags["printer-config-tabwidth"] = pickStr(r, "0", "-2")
	}
	switch x := r.Intn(100); {
	case x < 40:
	case x < 85:
		c.flags["printer-config-indent"] = strconv.Itoa(r.Intn(9))
	default:
		c.flags["printer-config-indent"] = pickStr(r, "-1", "-5")
	}
	switch x := r.Intn(100); {
	case x < 35:
	case x < 86:
		c.flags["data-type"] = pickStr(r, "bool", "count")
	case x < 94:
		c.flags["data-type"] = ""
	default:
		c.flags["data-type"] = pickStr(r, "int", "Bool", "counter")
	}
	return c
}

func (c *cfgCase) flagTokens() string {
	ts := make([]string, len(cfgFlagOrder))
	for i, f := range cfgFlagOrder {
		if v, ok := c.flags[f]; ok {
			ts[i] = "=" + proto.Enc(v)
		} else {
			ts[i] = "-"
		}
	}
	return strings.Join(ts, " ")
}

func (c *cfgCase) args() []string {
	a := []string{"init"}
	for _, f := range cfgFlagOrder {
		if v, ok := c.flags[f]; ok {
			a = append(a, "--"+f+"="+v)
		}
	}
	if c.force {
		a = append(a, "--force")
	}
	return a
}

// ---------------------------------------------------------------- running the real code

type cfgResult struct {
	env      string // "<numCPU> <base> <hash|!>" (hash of the effective --new)
	loadEnv  string // same with the hash of the newBranch value written in the file
	initImpl string // ok <lines> | reject <reason>[ file-written]
	loadImpl string // real LoadConfig of the real file | init-reject <reason>
	text     string // goat.yaml as written ("" if rejected)
	mutText  string // mutated file ("" = no mutation case)
	mutKind  string
	mutImpl  string
	mustRej  bool
}

type cfgRunner struct {
	goat, vh string
	root     string
	hash     string
	fullHash string
	mu       sync.Mutex
	resolves map[string]bool
}

func cleanEnv(home string) []string {
	return []string{"PATH=" + os.Getenv("PATH"), "HOME=" + home, "GIT_CONFIG_NOSYSTEM=1", "LC_ALL=C", "TZ=UTC",
		"GIT_AUTHOR_NAME=v", "GIT_AUTHOR_EMAIL=v@v", "GIT_COMMITTER_NAME=v", "GIT_COMMITTER_EMAIL=v@v",
		"GIT_AUTHOR_DATE=2024-01-01T00:00:00Z", "GIT_COMMITTER_DATE=2024-01-01T00:00:00Z"}
}

func (r *cfgRunner) sh(dir string, name string, args ...string) (string, error) {
	cmd := exec.Command(name, args...)
	cmd.Dir = dir
	cmd.Env = cleanEnv(r.root)
	var out bytes.Buffer
	cmd.Stdout = &out
	cmd.Stderr = &out
	err := cmd.Run()
	return out.String(), err
}

// mkProject creates a git project with go.mod, one commit, and the refs of cfgRefs.
func (r *cfgRunner) mkProject(dir string) error {
	os.RemoveAll(dir)
	if err := os.MkdirAll(dir, 0755); err != nil {
		return err
	}
	if err := os.WriteFile(filepath.Join(dir, "go.mod"), []byte("module example.com/m\n\ngo 1.23\n"), 0644); err != nil {
		return err
	}
	if err := os.WriteFile(filepath.Join(dir, "main.go"), []byte("package main\n\nfunc main() {}\n"), 0644); err != nil {
		return err
	}
	for _, a := range [][]string{{"init", "-q", "-b", "main", "."}, {"add", "go.mod", "main.go"}, {"commit", "-q", "-m", "init"},
		{"branch", "feature/c++"}, {"tag", "v1.0.0+build"}, {"tag", "20240915"}, {"branch", "deadbee"}, {"branch", "init"}, {"tag", "Init"}} {
		if out, err := r.sh(dir, "git", a...); err != nil {
			return fmt.Errorf("git %v: %v: %s", a, err, out)
		}
	}
	return nil
}

// resolvable asks the git CLI (not go-git) whether a revision names a commit. go-git
// additionally accepts any non-empty prefix of the commit hash (git needs 4 digits).
func (r *cfgRunner) resolvable(probeDir, rev string) bool {
	if rev != "" && strings.HasPrefix(r.fullHash, rev) {
		return true
	}
	r.mu.Lock()
	v, ok := r.resolves[rev]
	r.mu.Unlock()
	if ok {
		return v
	}
	_, err := r.sh(probeDir, "git", "rev-parse", "--verify", "--quiet", "--end-of-options", rev+"^{commit}")
	v = err == nil
	r.mu.Lock()
	r.resolves[rev] = v
	r.mu.Unlock()
	return v
}

func (r *cfgRunner) envFor(base, newB string) string {
	hash := "!"
	if r.resolvable(filepath.Join(r.root, "w00", cfgBaseNames[0]), newB) {
		hash = r.hash
	}
	return fmt.Sprintf("%d %s %s", runtime.NumCPU(), proto.Enc(base), hash)
}

// fileNewBranch reads the newBranch value of a written file the simple way (harness-side
// environment only: which revision the short-hash default would be taken from).
func fileNewBranch(text string) string {
	for _, l := range strings.Split(text, "\n") {
		if strings.HasPrefix(l, "newBranch:") {
			v := strings.TrimSpace(strings.TrimPrefix(l, "newBranch:"))
			if v == "" || v == "~" || strings.EqualFold(v, "null") {
				return "HEAD"
			}
			return v
		}
	}
	return "HEAD"
}

// longer than any rendered configuration, and its tail is not valid YAML: an init --force that
// does not truncate leaves it behind
var preExisting = "# pre-existing file\nappName: keep-me\n" + strings.Repeat("# filler line of a previous, longer configuration\n", 400) + "threads: 3\nzzz: [unterminated\n"

// preValid: a complete, loadable previous configuration (a re-initialisation must not take
// anything over from it)
var preValid = "# pre-existing file\nappName: keep-me\nappVersion: previous-1.0\noldBranch: main\nnewBranch: HEAD\ngoatPackageName: oldgoat\ngoatPackageAlias: oldgoat\n" +
	"goatPackagePath: old/goat\ngranularity: func\ndiffPrecision: 2\nthreads: 3\nrace: true\ndataType: count\nskipNestedModules: false\n" +
	strings.Repeat("# filler line of a previous, longer configuration\n", 400)

func (c *cfgCase) pre() string {
	if c.mut%2 == 1 {
		return preValid
	}
	return preExisting
}

func splitLinesNL(s string) []string { return strings.Split(s, "\n") }

func (r *cfgRunner) run(worker int, c *cfgCase) (cfgResult, error) {
	var res cfgResult
	base := cfgBaseNames[c.base]
	dir := filepath.Join(r.root, fmt.Sprintf("w%02d", worker), base)
	file := filepath.Join(dir, "goat.yaml")
	os.Remove(file)
	if c.exists {
		if err := os.WriteFile(file, []byte(c.pre()), 0644); err != nil {
			return res, err
		}
	}
	// environment parameters of the model
	newB, ok := c.flags["new"]
	if !ok || newB == "" {
		newB = "HEAD"
	}
	res.env = r.envFor(base, newB)
	// the real CLI
	cmd := exec.Command(r.goat, c.args()...)
	cmd.Dir = dir
	cmd.Env = cleanEnv(r.root)
	var out bytes.Buffer
	cmd.Stdout = &out
	cmd.Stderr = &out
	err := cmd.Run()
	data, rerr := os.ReadFile(file)
	if err == nil {
		if rerr != nil {
			res.initImpl = "ok-but-no-file"
			res.loadImpl = "init-reject none"
			return res, nil
		}
		res.text = string(data)
		res.loadEnv = r.envFor(base, fileNewBranch(res.text))
		res.initImpl = "ok " + proto.EncLines(splitLinesNL(res.text))
		lo, lerr := r.sh(dir, r.vh, "config-load", "goat.yaml")
		if lerr != nil {
			return res, fmt.Errorf("vh config-load: %v: %s", lerr, lo)
		}
		res.loadImpl = strings.TrimSpace(lo)
		// mutated copy for the load stream
		res.mutText, res.mutKind, res.mustRej = mutate(res.text, c.mut)
		if res.mutText != "" {
			if err := os.WriteFile(file, []byte(res.mutText), 0644); err != nil {
				return res, err
			}
			lo, lerr := r.sh(dir, r.vh, "config-load", "goat.yaml")
			if lerr != nil {
				return res, fmt.Errorf("vh config-load: %v: %s", lerr, lo)
			}
			res.mutImpl = strings.TrimSpace(lo)
		}
		return res, nil
	}
	if _, isExit := err.(*exec.ExitError); !isExit {
		return res, fmt.Errorf("goat init: %v", err)
	}
	reason := rejectReason(lastErrorLine(out.String()))
	res.initImpl = "reject " + reason
	// rejected ⇒ nothing written, a pre-existing file untouched
	if c.exists {
		if rerr != nil || string(data) != c.pre() {
			res.initImpl += " file-written"
		}
	} else if rerr == nil {
		res.initImpl += " file-written"
	}
	res.loadImpl = "init-reject " + reason
	return res, nil
}

func lastErrorLine(out string) string {
	for _, l := range strings.Split(out, "\n") {
		if strings.HasPrefix(l, "Error: ") {
			return l
		}
	}
	return out
}

// mutate edits one value of a file written by the real init. mustReject = the property says
// LoadConfig has to refuse the result.
func mutate(text string, kind int) (string, string, bool) {
	lines := strings.Split(text, "\n")
	setKey := func(key, val string) bool {
		for i, l := range lines {
			if strings.HasPrefix(l, key+":") {
				lines[i] = key + ":" + val
				return true
			}
		}
		return false
	}
	dropItems := func(key string) {
		out := []string{}
		in := false
		for _, l := range lines {
			if strings.HasPrefix(l, key+":") {
				in = true
				out = append(out, l)
				continue
			}
			if in && strings.HasPrefix(l, "  - ") {
				continue
			}
			in = false
			out = append(out, l)
		}
		lines = out
	}
	name, must := "", false
	switch kind {
	case 0:
		name, must = "granularity=bad", true
		setKey("granularity", " bad")
	case 1:
		name, must = "diffPrecision=0", true
		setKey("diffPrecision", " 0")
	case 2:
		name, must = "diffPrecision=4", true
		setKey("diffPrecision", " 4")
		if len(lines)%2 == 0 { // … also when the base is INIT
			name = "diffPrecision=4,oldBranch=INIT"
			setKey("oldBranch", " INIT")
		}
	case 3:
		name, must = "dataType=int", true
		setKey("dataType", " int")
	case 4:
		name, must = "printerConfigMode+bogus", true
		for i, l := range lines {
			if strings.HasPrefix(l, "printerConfigMode:") {
				lines = append(lines[:i+1], append([]string{`  - "bogus"`}, lines[i+1:]...)...)
				break
			}
		}
	case 5:
		name = "threads=0"
		setKey("threads", " 0")
	case 6:
		name = "indent=-1,tabwidth=0"
		setKey("printerConfigIndent", " -1")
		setKey("printerConfigTabwidth", " 0")
	case 7:
		name = "ignores-emptied"
		dropItems("ignores")
	case 8:
		name = "lists-emptied"
		dropItems("mainEntries")
		dropItems("printerConfigMode")
	case 9:
		name = "granularity,dataType=null"
		setKey("granularity", " null")
		setKey("dataType", "")
	case 10:
		name = "keys-deleted"
		out := []string{}
		for _, l := range lines {
			if strings.HasPrefix(l, "oldBranch:") || strings.HasPrefix(l, "goatPackagePath:") || strings.HasPrefix(l, "threads:") {
				continue
			}
			out = append(out, l)
		}
		lines = out
	case 11:
		name, must = "diffPrecision=null", true
		setKey("diffPrecision", " ~")
	default:
		return "", "", false
	}
	return strings.Join(lines, "\n"), name, must
}

func runConfigCases(ctx *streamCtx, n int) ([]cfgCase, []cfgResult, error) {
	root := ctx.work
	if root == "" {
		d, err := os.MkdirTemp("", "vh-config")
		if err != nil {
			return nil, nil, err
		}
		root = d
		defer os.RemoveAll(d)
	} else if err := os.MkdirAll(root, 0755); err != nil {
		return nil, nil, err
	}
	root, _ = filepath.Abs(root)
	self, err := os.Executable()
	if err != nil {
		return nil, nil, err
	}
	goat := os.Getenv("VERIF_GOAT")
	if goat == "" {
		goat = filepath.Join(filepath.Dir(self), "goat")
	}
	if _, err := os.Stat(goat); err != nil {
		return nil, nil, fmt.Errorf("goat binary: %w (set VERIF_GOAT)", err)
	}
	r := &cfgRunner{goat: goat, vh: self, root: root, resolves: map[string]bool{}}
	cases := make([]cfgCase, n)
	for i := range cases {
		cases[i] = genCase(ctx.rng)
	}
	workers := runtime.NumCPU()
	if workers > 16 {
		workers = 16
	}
	// projects
	var wg sync.WaitGroup
	errs := make([]error, workers)
	for w := 0; w < workers; w++ {
		wg.Add(1)
		go func(w int) {
			defer wg.Done()
			for _, b := range cfgBaseNames {
				if err := r.mkProject(filepath.Join(root, fmt.Sprintf("w%02d", w), b)); err != nil {
					errs[w] = err
					return
				}
			}
		}(w)
	}
	wg.Wait()
	for _, e := range errs {
		if e != nil {
			return nil, nil, e
		}
	}
	h, err := r.sh(filepath.Join(root, "w00", cfgBaseNames[0]), "git", "rev-parse", "HEAD")
	if err != nil {
		return nil, nil, fmt.Errorf("git rev-parse: %v", err)
	}
	r.fullHash = strings.TrimSpace(h)
	r.hash = r.fullHash[:7]
	results := make([]cfgResult, n)
	next := make(chan int, n)
	for i := 0; i < n; i++ {
		next <- i
	}
	close(next)
	for w := 0; w < workers; w++ {
		wg.Add(1)
		go func(w int) {
			defer wg.Done()
			for i := range next {
				res, err := r.run(w, &cases[i])
				if err != nil {
					errs[w] = err
					return
				}
				results[i] = res
			}
		}(w)
	}
	wg.Wait()
	for _, e := range errs {
		if e != nil {
			return nil, nil, e
		}
	}
	return cases, results, nil
}

func cfgCount(ctx *streamCtx) int {
	if ctx.thorough() {
		return 100000
	}
	return 10000
}

const cfgRule = "random `goat init` flag combinations run through the real CLI in throw-away git projects (go.mod, one commit, refs HEAD/main/feature/c++/v1.0.0+build; " +
	"directory base names incl. `app+1`, `a&b`, `x<y>`, `it's`, `two words`, `q\"uote`): each of 18 flags unset / explicit empty / valid / invalid; strings from " +
	"[A-Za-z0-9_./][A-Za-z0-9_-./+&<>'\" and inner spaces]* plus curated values (1.0.0+build, feature/c++, a&b<c>, YAML look-alikes true/123/1.5/null/~); " +
	"ignore and main-entry lists of 0..5 entries (empty entries, leading-space entries, surrounding spaces, generated-file path already present); all enum values, " +
	"invalid enums, out-of-range numbers; goat.yaml pre-existing with/without --force; non-trivial = at least one flag given"

func hasSpecial(s string) bool { return strings.ContainsAny(s, cfgSpecials) }

func streamConfigInit(s *stream.Stream, ctx *streamCtx) error {
	cases, results, err := runConfigCases(ctx, cfgCount(ctx))
	if err != nil {
		return err
	}
	s.Rule = cfgRule + "; compared: exact bytes of goat.yaml (or reject reason, and that nothing was written / a pre-existing file is untouched); " +
		"judged: config.LoadConfig of the written file equals the given values after defaulting"
	for i := range cases {
		c, r := &cases[i], &results[i]
		pre := fmt.Sprintf("%s %s %s %s", r.env, proto.B(c.exists), proto.B(c.force), c.flagTokens())
		s.Case("cfg:init "+pre, r.initImpl, "judge:cfg-roundtrip "+pre+" | "+r.loadImpl, len(c.flags) > 0)
		if strings.HasPrefix(r.initImpl, "ok") {
			s.Count("init:accepted")
		} else {
			s.Count("init:" + strings.Fields(r.initImpl)[1])
		}
		special := false
		for f, v := range c.flags {
			s.Count("flag-given:" + f)
			if hasSpecial(v) {
				special = true
			}
		}
		if special {
			s.Count("has-html-special-char")
		}
		if hasSpecial(cfgBaseNames[c.base]) {
			s.Count("dir-name-has-html-special-char")
		}
		if c.exists {
			s.Count("pre-existing-file")
		}
		if c.force {
			s.Count("force")
		}
		for _, f := range []string{"ignores", "main-entries"} {
			if v, ok := c.flags[f]; ok && strings.TrimSpace(v) != "" {
				s.Count(fmt.Sprintf("%s-len:%d", f, len(strings.Split(v, ","))))
			} else {
				s.Count(f + "-len:0")
			}
		}
	}
	return nil
}

func streamConfigLoad(s *stream.Stream, ctx *streamCtx) error {
	cases, results, err := runConfigCases(ctx, cfgCount(ctx))
	if err != nil {
		return err
	}
	s.Rule = cfgRule + "; every file written by the real init is loaded by the real config.LoadConfig (in the project directory) and by the model's line-level loader; " +
		"3 of 4 files additionally in a mutated copy (invalid granularity / precision / data type / printer mode, null and out-of-range numbers, emptied lists, deleted keys); " +
		"judged on mutations the property names: LoadConfig rejects"
	for i := range cases {
		r := &results[i]
		if r.text == "" {
			continue
		}
		s.Case("cfg:load "+r.loadEnv+" "+proto.EncLines(splitLinesNL(r.text)), r.loadImpl, "", true)
		s.Count("file-as-written")
		if r.mutText != "" {
			judge := ""
			if r.mustRej {
				judge = "judge:cfg-invalid | " + r.mutImpl
			}
			s.Case("cfg:load "+r.loadEnv+" "+proto.EncLines(splitLinesNL(r.mutText)), r.mutImpl, judge, true)
			s.Count("mutated:" + r.mutKind)
		}
	}
	return nil
}
