package main

import (
	"bufio"
	"bytes"
	"fmt"
	"hash/fnv"
	"io"
	"math/rand"
	"os"
	"os/exec"
	"path/filepath"
	"runtime"
	"sort"
	"strconv"
	"strings"
	"sync"
	"time"

	git "github.com/go-git/go-git/v5"
	"github.com/go-git/go-git/v5/plumbing"
	fdiff "github.com/go-git/go-git/v5/plumbing/format/diff"
	"github.com/go-git/go-git/v5/plumbing/object"
	"github.com/go-git/go-git/v5/utils/merkletrie"
	"github.com/monshunter/goat/pkg/config"
	gdiff "github.com/monshunter/goat/pkg/diff"
	"github.com/monshunter/goat/pkg/goat"
	"verifharness/internal/proj"
	"verifharness/internal/proto"
	"verifharness/internal/stream"
)

// Streams of C04 / C17 (diff stage). The implementation side is always the real getDiff
// (hook VerifGetDiff) run inside a real git repository built with the git CLI; the model is fed
// go-git's own chunks / blame for the same repository (computed here by calling go-git directly,
// never through goat), and the property predicate (judge:diff) is evaluated on every
// implementation answer against the contents `git cat-file` reports for the two revisions.

func init() {
	streams["diff-pairs"] = streamDiffPairs
	streams["diff-histories"] = streamDiffHistories
	streams["diff-filter"] = streamDiffFilter
	streams["diff-exact"] = streamDiffExact
}

// blameRule: "a" = ancestry (fixed tree), "t" = committer timestamp (unchanged tree; phase 1
// replay with VERIF_C04_MODEL=prefix).
func blameRule() string {
	if os.Getenv("VERIF_C04_MODEL") == "prefix" {
		return "t"
	}
	return "a"
}

var chdirMu sync.Mutex

// realDiff runs the real diff stage in dir. order = paths in the order getDiff returned them.
func realDiff(dir, old string, prec int, threads int) (map[string][]gdiff.LineChange, []string, error) {
	chdirMu.Lock()
	defer chdirMu.Unlock()
	cwd, _ := os.Getwd()
	if err := os.Chdir(dir); err != nil {
		return nil, nil, err
	}
	defer os.Chdir(cwd)
	p := prec
	if p < 1 || p > 3 {
		p = 2
	}
	cfg := &config.Config{OldBranch: old, NewBranch: "HEAD", DiffPrecision: p, Threads: threads, AppName: "a", AppVersion: "v", SkipNestedModules: true}
	if err := cfg.Validate(); err != nil {
		return nil, nil, err
	}
	cfg.DiffPrecision = prec
	// getDiff and go-git log to stdout; keep the stream's stdout clean
	fcs, err := goat.VerifGetDiff(cfg)
	if err != nil {
		return nil, nil, err
	}
	res := map[string][]gdiff.LineChange{}
	var order []string
	for _, fc := range fcs {
		if _, dup := res[fc.Path]; dup {
			return nil, nil, fmt.Errorf("path %s reported twice", fc.Path)
		}
		res[fc.Path] = fc.LineChanges
		order = append(order, fc.Path)
	}
	return res, order, nil
}

func rangesTok(lc []gdiff.LineChange, present bool) string {
	if !present {
		return "-"
	}
	if len(lc) == 0 {
		return "[]"
	}
	ts := make([]string, len(lc))
	for i, r := range lc {
		ts[i] = fmt.Sprintf("%d:%d", r.Start, r.Lines)
	}
	return strings.Join(ts, " ")
}

// realLines: the lines of a file and whether the content ends with a newline ("" counts as
// terminated: no line, strings.Split gives one empty element).
func realLines(content string) ([]string, bool) {
	ls := strings.Split(content, "\n")
	if ls[len(ls)-1] == "" {
		return ls[:len(ls)-1], true
	}
	return ls, false
}

func linesTok(content string) (string, string) {
	ls, term := realLines(content)
	s := strconv.Itoa(len(ls))
	if len(ls) > 0 {
		s += " " + proto.EncLines(ls)
	}
	return s, proto.B(term)
}

// judgeDiff builds the judge request for one file.
func judgeDiff(mode string, hasOld bool, old, new string, ans string) string {
	ot, otm := linesTok(old)
	nt, ntm := linesTok(new)
	return fmt.Sprintf("judge:diff %s %s %s %s %s %s | %s", mode, proto.B(hasOld), otm, ntm, ot, nt, ans)
}

// gitTree reads every blob of a revision with the git CLI (ls-tree + cat-file --batch).
func gitTree(dir, rev string) (map[string]string, error) {
	out, err := proj.Git(dir, 0, "ls-tree", "-r", "-z", "--name-only", rev)
	if err != nil {
		return nil, err
	}
	res := map[string]string{}
	var paths []string
	for _, p := range strings.Split(out, "\x00") {
		if p != "" {
			paths = append(paths, p)
		}
	}
	if len(paths) == 0 {
		return res, nil
	}
	cmd := exec.Command("git", "cat-file", "--batch")
	cmd.Dir = dir
	var in bytes.Buffer
	for _, p := range paths {
		fmt.Fprintf(&in, "%s:%s\n", rev, p)
	}
	cmd.Stdin = &in
	var ob bytes.Buffer
	cmd.Stdout = &ob
	if err := cmd.Run(); err != nil {
		return nil, fmt.Errorf("git cat-file: %v", err)
	}
	rd := bufio.NewReader(&ob)
	for _, p := range paths {
		hdr, err := rd.ReadString('\n')
		if err != nil {
			return nil, fmt.Errorf("cat-file header for %s: %v", p, err)
		}
		f := strings.Fields(hdr)
		if len(f) != 3 {
			return nil, fmt.Errorf("cat-file: %q", hdr)
		}
		n, _ := strconv.Atoi(f[2])
		buf := make([]byte, n+1)
		if _, err := io.ReadFull(rd, buf); err != nil {
			return nil, err
		}
		res[p] = string(buf[:n])
	}
	return res, nil
}

// ---------------------------------------------------------------------------------------------
// go-git's view of a repository (computed without goat): chunks per file for precision 2 and 3,
// blame per file and the commit table for precision 1.

type fileDiff struct {
	from, to string // "" = nil
	chunks   []string
	hasFrom  bool
	hasTo    bool
	slot     int // index in go-git's result list (the slot of goat's result array)
}

func chunkToks(cs []fdiff.Chunk) []string {
	var ts []string
	for _, c := range cs {
		k := "e"
		switch c.Type() {
		case fdiff.Add:
			k = "a"
		case fdiff.Delete:
			k = "d"
		}
		ts = append(ts, fmt.Sprintf("%s%d", k, strings.Count(c.Content(), "\n")))
	}
	return ts
}

func fpToDiff(fp fdiff.FilePatch, slot int) fileDiff {
	from, to := fp.Files()
	d := fileDiff{slot: slot, chunks: chunkToks(fp.Chunks())}
	if from != nil {
		d.hasFrom, d.from = true, from.Path()
	}
	if to != nil {
		d.hasTo, d.to = true, to.Path()
	}
	return d
}

type gitView struct {
	repo     *git.Repository
	oldC     *object.Commit
	newC     *object.Commit
	v2       []fileDiff // Commit.Patch (rename detection on), in go-git's order
	v3       []fileDiff // DiffTree without rename detection + Change.Patch
	v3action []string   // i / m / d
	ids      map[plumbing.Hash]int
	table    string
	first    int64
	oldAnc   map[string]bool // `git rev-list <old>`: the old revision and its ancestors (git CLI, not go-git)
}

func openView(dir, oldRev string) (*gitView, error) {
	repo, err := git.PlainOpen(dir)
	if err != nil {
		return nil, err
	}
	v := &gitView{repo: repo}
	head, err := repo.Head()
	if err != nil {
		return nil, err
	}
	if v.newC, err = repo.CommitObject(head.Hash()); err != nil {
		return nil, err
	}
	if oldRev == "" {
		return v, nil
	}
	oh, err := repo.ResolveRevision(plumbing.Revision(oldRev))
	if err != nil {
		return nil, err
	}
	if v.oldC, err = repo.CommitObject(*oh); err != nil {
		return nil, err
	}
	patch, err := v.oldC.Patch(v.newC)
	if err != nil {
		return nil, err
	}
	for i, fp := range patch.FilePatches() {
		v.v2 = append(v.v2, fpToDiff(fp, i))
	}
	ot, _ := v.oldC.Tree()
	nt, _ := v.newC.Tree()
	changes, err := object.DiffTree(ot, nt)
	if err != nil {
		return nil, err
	}
	for i, ch := range changes {
		act, err := ch.Action()
		if err != nil {
			return nil, err
		}
		a := "m"
		switch act {
		case merkletrie.Insert:
			a = "i"
		case merkletrie.Delete:
			a = "d"
		}
		p, err := ch.Patch()
		if err != nil {
			return nil, err
		}
		fps := p.FilePatches()
		if len(fps) != 1 {
			return nil, fmt.Errorf("change with %d file patches", len(fps))
		}
		v.v3 = append(v.v3, fpToDiff(fps[0], i))
		v.v3action = append(v.v3action, a)
	}
	return v, nil
}

// commitTable numbers all commit objects (sorted by committer time, then hash, so the numbering
// does not depend on map order) and renders `<k> (<id> <time> <np> <parents…>)×k`.
func (v *gitView) commitTable() error {
	if v.ids != nil {
		return nil
	}
	wt, _ := v.repo.Worktree()
	out, err := proj.Git(wt.Filesystem.Root(), 0, "rev-list", v.oldC.Hash.String())
	if err != nil {
		return err
	}
	v.oldAnc = map[string]bool{}
	for _, h := range strings.Fields(out) {
		v.oldAnc[h] = true
	}
	it, err := v.repo.CommitObjects()
	if err != nil {
		return err
	}
	var cs []*object.Commit
	it.ForEach(func(c *object.Commit) error { cs = append(cs, c); return nil })
	sort.Slice(cs, func(i, j int) bool {
		if !cs[i].Committer.When.Equal(cs[j].Committer.When) {
			return cs[i].Committer.When.Before(cs[j].Committer.When)
		}
		return cs[i].Hash.String() < cs[j].Hash.String()
	})
	id := map[plumbing.Hash]int{}
	for i, c := range cs {
		id[c.Hash] = i
	}
	toks := []string{strconv.Itoa(len(cs))}
	for i, c := range cs {
		// times relative to the earliest commit (absolute timestamps never enter a compared line)
		toks = append(toks, strconv.Itoa(i), strconv.FormatInt(c.Committer.When.Unix()-cs[0].Committer.When.Unix(), 10), strconv.Itoa(len(c.ParentHashes)))
		for _, p := range c.ParentHashes {
			pid, ok := id[p]
			if !ok {
				pid = 1_000_000 // parent object missing (never with the generated repositories)
			}
			toks = append(toks, strconv.Itoa(pid))
		}
	}
	v.ids, v.table, v.first = id, strings.Join(toks, " "), cs[0].Committer.When.Unix()
	return nil
}

// blameReqs renders the dblame requests of the given files of the new revision (parallel, one
// go-git repository handle per worker).
type blameJob struct {
	elig      bool
	act, path string
	req       string
	a6        string // per line of the new file: 1 = blamed to the old revision or one of its ancestors (git rev-list)
	err       error
}

func (v *gitView) blameReqs(dir string, jobs []*blameJob) {
	nw := runtime.NumCPU()
	if nw > len(jobs) {
		nw = len(jobs)
	}
	ch := make(chan *blameJob)
	var wg sync.WaitGroup
	for w := 0; w < nw; w++ {
		wg.Add(1)
		go func() {
			defer wg.Done()
			repo, err := git.PlainOpen(dir)
			var newC *object.Commit
			if err == nil {
				newC, err = repo.CommitObject(v.newC.Hash)
			}
			for j := range ch {
				if err != nil {
					j.err = err
					continue
				}
				j.req, j.a6, j.err = v.blameReq(newC, j.elig, j.act, j.path)
			}
		}()
	}
	for _, j := range jobs {
		ch <- j
	}
	close(ch)
	wg.Wait()
}

func (v *gitView) blameReq(newC *object.Commit, elig bool, act, path string) (string, string, error) {
	ids, table, first := v.ids, v.table, v.first
	f, err := newC.File(path)
	if err != nil {
		return "", "", err
	}
	lines, err := f.Lines()
	if err != nil {
		return "", "", err
	}
	bl, err := git.Blame(newC, path)
	if err != nil {
		return "", "", err
	}
	hs := make([]string, len(bl.Lines))
	a6 := make([]string, len(bl.Lines))
	for i, l := range bl.Lines {
		n, ok := ids[l.Hash]
		if !ok {
			n = 2_000_000
		}
		hs[i] = strconv.Itoa(n)
		a6[i] = proto.B(v.oldAnc[l.Hash.String()])
	}
	a6s := strings.Join(a6, " ")
	return strings.TrimSpace(fmt.Sprintf("dblame %s %s %s %d %d %d %s | %s", blameRule(), proto.B(elig), act, len(lines), ids[v.oldC.Hash],
		v.oldC.Committer.When.Unix()-first, table, strings.Join(hs, " "))), a6s, nil
}

// ---------------------------------------------------------------------------------------------
// emitRepo: all cases of one repository and one mode.

type repoCase struct {
	dir      string
	oldRev   string // "" with INIT
	oldTree  map[string]string
	newTree  map[string]string
	view     *gitView
	ancestor bool // old is an ancestor of new (precision 1 is only quantified over these)
	tag      string
	exact    bool // judge with judge:exact (C17 exactness clause) instead of judge:diff
}

func judgeExact(old, new, ans string) string {
	ot, _ := linesTok(old)
	nt, _ := linesTok(new)
	return fmt.Sprintf("judge:exact %s %s | %s", ot, nt, ans)
}

var diffCfg = proj.DefaultConfig("x")

func diffEligible(path string) bool { return eligible(path, diffCfg) }

// emit compares one mode ("1","2","3","I") of one repository. Returns an error only for harness failures.
func (rc *repoCase) emit(s *stream.Stream, mode string, threads int) error {
	old := rc.oldRev
	prec := 2
	switch mode {
	case "I":
		old = "INIT"
	default:
		prec, _ = strconv.Atoi(mode)
	}
	t0 := time.Now()
	impl, order, err := realDiff(rc.dir, old, prec, threads)
	dtime("[diff] %s mode %s: getDiff %.1fs\n", rc.tag, mode, time.Since(t0).Seconds())
	defer func() { dtime("[diff] %s mode %s: total %.1fs\n", rc.tag, mode, time.Since(t0).Seconds()) }()
	if err != nil {
		return fmt.Errorf("%s mode %s: getDiff failed: %v", rc.tag, mode, err)
	}
	ans := func(p string) string {
		lc, ok := impl[p]
		return rangesTok(lc, ok)
	}
	seen := map[string]bool{}
	s.Count("mode:" + mode)
	if mode == "I" {
		for _, p := range sortedKeys(rc.newTree) {
			if !strings.HasSuffix(p, ".go") {
				continue
			}
			seen[p] = true
			if diffEligible(p) {
				s.Case("dinit "+proto.Enc(rc.newTree[p]), ans(p), judgeDiff("I", false, "", rc.newTree[p], ans(p)), true)
				s.Count("init:eligible")
			} else {
				s.Case("ping", "pong", judgeDiff("X", false, "", rc.newTree[p], ans(p)), false)
				s.Count("init:ineligible")
			}
		}
	} else {
		var diffs []fileDiff
		switch mode {
		case "2":
			diffs = rc.view.v2
		default:
			diffs = rc.view.v3
		}
		if mode == "1" {
			if err = rc.view.commitTable(); err != nil {
				return err
			}
		}
		blameOf := map[int]*blameJob{}
		if mode == "1" {
			var jobs []*blameJob
			for i, d := range diffs {
				if d.hasTo {
					j := &blameJob{elig: diffEligible(d.to), act: rc.view.v3action[i], path: d.to}
					blameOf[i] = j
					jobs = append(jobs, j)
				}
			}
			rc.view.blameReqs(rc.dir, jobs)
		}
		slots := make([]string, len(diffs))
		for i, d := range diffs {
			slots[i] = "-"
			key := d.to
			if !d.hasTo {
				key = d.from
				// a deleted path may be present again as a rename target etc.; judge only absence of a report
				if _, stillThere := rc.newTree[key]; !stillThere {
					if !seen[key] {
						seen[key] = true
						req, want := strings.TrimSpace(fmt.Sprintf("dwalk %s 1 1 0 %s", mode, strings.Join(d.chunks, " "))), ans(key)
						if mode == "1" {
							req, want = "ping", "pong"
						}
						s.Case(req, want, judgeDiff("X", false, "", "", ans(key)), false)
						s.Count("file:deleted")
					}
				}
				continue
			}
			seen[key] = true
			elig := diffEligible(key)
			oldContent, hasOld := "", false
			if mode == "2" {
				if d.hasFrom {
					oldContent, hasOld = rc.oldTree[d.from], true
				}
			} else {
				oldContent, hasOld = rc.oldTree[key]
			}
			if mode == "1" && !hasOld {
				// go-git's blame follows renames commit by commit: the "from side go-git pairs with the
				// file" is then a file of the old revision that no longer exists under its path. The
				// harness only proposes the candidate; the predicate is evaluated by the Lean judge.
				if lc, ok := impl[key]; !ok || !coversAll(lc, rc.newTree[key]) {
					if src, ok := rc.renameSource(key, lc); ok {
						oldContent, hasOld = rc.oldTree[src], true
						s.Count("file:renamed-followed-by-blame")
					}
				}
			}
			var req string
			if mode == "1" {
				if req, err = blameOf[i].req, blameOf[i].err; err != nil {
					return fmt.Errorf("%s: blame %s: %v", rc.tag, key, err)
				}
			} else {
				req = strings.TrimSpace(fmt.Sprintf("dwalk %s %s %s 1 %s", mode, proto.B(elig), proto.B(d.hasFrom), strings.Join(d.chunks, " ")))
			}
			a := ans(key)
			if a != "-" {
				slots[i] = key
			}
			jm := mode
			if !elig {
				jm = "X"
				s.Count("file:ineligible-changed")
			} else if !hasOld {
				s.Count("file:new")
			} else if mode == "2" && d.from != d.to {
				s.Count("file:renamed-paired")
			} else {
				s.Count("file:modified")
			}
			judge := judgeDiff(jm, hasOld, oldContent, rc.newTree[key], a)
			if mode == "1" && jm == "1" {
				judge += " | " + blameOf[i].a6
			}
			if rc.exact && elig {
				judge = judgeExact(oldContent, rc.newTree[key], a)
			}
			if mode == "1" && !rc.ancestor {
				judge = "" // precision 1 is quantified over ancestor histories only
			}
			if mode == "1" && blameOf[i] != nil && blameOf[i].act == "i" {
				// a path new to the revision whose lines go-git's blame attributes to older commits (it followed
				// a rename): whether blame finds the rename is not the same in every run of go-git; when it does
				// not, goat reports the whole file (the new-file rule). Both answers satisfy the property (judged
				// below); the exact answer is not compared in that case.
				if lc, ok := impl[key]; ok && coversAll(lc, rc.newTree[key]) {
					s.Case("ping", "pong", judge, false)
					s.Count("file:new-path-reported-in-full(blame-did-not-follow-the-rename)")
					continue
				}
			}
			s.Case(req+caseKey(mode, oldContent, rc.newTree[key]), a, judge, elig && a != "-")
			if strings.HasSuffix(rc.newTree[key], "\n") || rc.newTree[key] == "" {
				s.Count("newfile:terminated")
			} else {
				s.Count("newfile:unterminated")
			}
		}
		// the compaction: slots (nil or path) in go-git's order → order of getDiff's result
		// with rename pairs in the list (precision 2) the order of go-git's file patches is not the same
		// in every call (its rename detector iterates over maps), so the harness's view and goat's own
		// call may list them differently; the compaction itself is covered by the diff-filter stream
		renames := false
		if mode == "2" {
			for _, d := range diffs {
				if d.hasFrom && d.hasTo && d.from != d.to {
					renames = true
				}
			}
		}
		if renames {
			s.Count("compaction:skipped(rename-pairs)")
		}
		if len(slots) > 0 && len(slots) <= 400 && !renames {
			want := strings.Join(order, " ")
			sorted := append([]string{}, order...)
			sort.Strings(sorted)
			s.Case("dfilter "+strings.Join(slots, " "), strings.TrimSpace(want+" | "+strings.Join(sorted, " ")), "", len(order) > 1)
			s.Count("compaction")
		}
		// files of the new revision that go-git does not list as changed: nothing may be missed there either
		for _, p := range sortedKeys(rc.newTree) {
			if seen[p] || !strings.HasSuffix(p, ".go") {
				continue
			}
			seen[p] = true
			oc, hasOld := rc.oldTree[p]
			if !hasOld && mode == "2" {
				// go-git's rename detection can consume an added path without listing it: an EXACT rename
				// (identical blob) whose source shares its hash with another file of the old revision comes
				// out as the deletion of the source alone (seen with byte-identical twin files). git itself
				// reports R100. The rename source is then the old revision of the file; the harness only
				// proposes it when the bytes are identical, the predicate is evaluated by the Lean judge.
				for _, d := range diffs {
					if d.hasFrom && !d.hasTo {
						if c, ok := rc.oldTree[d.from]; ok && c == rc.newTree[p] {
							oc, hasOld = c, true
							s.Count("file:exact-rename-not-listed-by-go-git")
							break
						}
					}
				}
			}
			jm := mode
			if !diffEligible(p) {
				jm = "X"
			}
			judge := judgeDiff(jm, hasOld, oc, rc.newTree[p], ans(p))
			if mode == "1" && !rc.ancestor {
				judge = ""
			}
			if rc.exact && jm != "X" {
				judge = judgeExact(oc, rc.newTree[p], ans(p))
			}
			s.Case("ping", "pong", judge, false)
			s.Count("file:unchanged")
		}
	}
	// nothing outside the new revision's Go files may be reported
	for _, p := range order {
		if !seen[p] {
			s.Case("ping", "pong", judgeDiff("X", false, "", "", ans(p)), false)
			s.Count("file:reported-but-unknown")
		}
	}
	return nil
}

// caseKey makes requests of different inputs distinct (the driver ignores everything from `#`):
// the model's input is the chunk signature / blame vector, the case is the (mode, old, new) triple.
func caseKey(mode, old, new string) string {
	h := fnv.New64a()
	h.Write([]byte(mode + "\x00" + old + "\x00" + new))
	return fmt.Sprintf(" # %016x", h.Sum64())
}

func coversAll(lc []gdiff.LineChange, content string) bool {
	ls, _ := realLines(content)
	cov := make([]bool, len(ls)+2)
	for _, r := range lc {
		for i := r.Start; i < r.Start+r.Lines && i <= len(ls); i++ {
			if i >= 1 {
				cov[i] = true
			}
		}
	}
	for i := 1; i <= len(ls); i++ {
		if !cov[i] {
			return false
		}
	}
	return true
}

// renameSource proposes the file of the old revision that blame may have followed to: first the
// rename source of go-git's old→new tree diff, then a Go file of the old revision whose path is
// gone in the new revision, then any Go file of the old revision (a file renamed on both sides of
// a merge survives under both names) — each only if it contains the unreported lines in order.
func (rc *repoCase) renameSource(path string, lc []gdiff.LineChange) (string, bool) {
	ls, _ := realLines(rc.newTree[path])
	var unrep []string
	for i, l := range ls {
		in := false
		for _, r := range lc {
			if i+1 >= r.Start && i+1 < r.Start+r.Lines {
				in = true
			}
		}
		if !in {
			unrep = append(unrep, l)
		}
	}
	subseq := func(cand string) bool {
		cl, _ := realLines(cand)
		j := 0
		for _, l := range cl {
			if j < len(unrep) && unrep[j] == l {
				j++
			}
		}
		return j == len(unrep)
	}
	for _, d := range rc.view.v2 {
		if d.hasFrom && d.hasTo && d.to == path && d.from != path && subseq(rc.oldTree[d.from]) {
			return d.from, true
		}
	}
	for _, gone := range []bool{true, false} {
		for _, p := range sortedKeys(rc.oldTree) {
			if _, still := rc.newTree[p]; still != gone && strings.HasSuffix(p, ".go") && subseq(rc.oldTree[p]) {
				return p, true
			}
		}
	}
	return "", false
}

// ---------------------------------------------------------------------------------------------
// diff-pairs

// allFiles enumerates every file of ≤ maxLines lines over the alphabet, terminated and
// (for ≥ 1 line) unterminated.
func allFiles(alpha []string, maxLines int) []string {
	var res []string
	var rec func(prefix []string)
	rec = func(prefix []string) {
		if len(prefix) == 0 {
			res = append(res, "")
		} else {
			j := strings.Join(prefix, "\n")
			res = append(res, j+"\n", j)
		}
		if len(prefix) == maxLines {
			return
		}
		for _, a := range alpha {
			rec(append(append([]string{}, prefix...), a))
		}
	}
	rec(nil)
	return res
}

func streamDiffPairs(s *stream.Stream, c *streamCtx) error {
	maxLines := 3
	if c.thorough() {
		maxLines = 4
	}
	alpha := []string{"a", "b", ""} // the third letter is the blank line
	files := allFiles(alpha, maxLines)
	s.Exhaustive = true
	s.Rule = fmt.Sprintf("ALL ordered (old,new) pairs of the %d files of ≤%d lines over the 3-line alphabet {a,b,blank line} (repeated lines; each non-empty file with and without trailing newline; identical pairs included), "+
		"every file as a new file, plus a second repository with every file deleted and changed test / vendor / testdata files; one directory per pair, two commits, ONE real git repository; "+
		"precision 2, 3 and INIT (and precision 1 on the complete ≤3-line space: blame costs ~5 ms per file; the ≤4-line space × precision 1 was run once, findings/C04_thorough_full_pairs_run.txt) through the real getDiff (hook) with 16 worker threads; "+
		"model fed with go-git's own chunks / blame; judge:diff against git cat-file contents on every answer; "+
		"non-trivial = an eligible file that the implementation reports, distinct = distinct (mode, old content, new content)", len(files), maxLines)
	buildA := func(dir string, files []string) (string, error) {
		oldT, newT := map[string]string{"README.md": "old\n"}, map[string]string{"README.md": "new\n"}
		k := 0
		for _, o := range files {
			for _, n := range files {
				p := fmt.Sprintf("m/s%03d/p%05d/f.go", k/64, k)
				k++
				oldT[p], newT[p] = o, n
			}
		}
		for i, n := range files {
			newT[fmt.Sprintf("n/s%03d/p%05d/f.go", i/64, i)] = n
		}
		oldRev, err := proj.InitRepo(dir, oldT, 1700000000)
		if err != nil {
			return "", err
		}
		_, err = proj.Commit(dir, newT, 1700000100, "new")
		return oldRev, err
	}
	dirA := filepath.Join(c.work, "pairsA")
	oldRev, err := buildA(dirA, files)
	if err != nil {
		return err
	}
	modesA := []string{"2", "3", "1", "I"}
	if maxLines > 3 {
		// go-git's blame costs ~5 ms per file: precision 1 runs on the complete ≤3-line space (own repository)
		modesA = []string{"2", "3", "I"}
	}
	if err := emitRepoAllModes(s, dirA, oldRev, true, "pairsA", modesA, 16); err != nil {
		return err
	}
	os.RemoveAll(dirA)
	if maxLines > 3 {
		dirA1 := filepath.Join(c.work, "pairsA1")
		if oldRev, err = buildA(dirA1, allFiles(alpha, 3)); err != nil {
			return err
		}
		if err := emitRepoAllModes(s, dirA1, oldRev, true, "pairsA1", []string{"1"}, 16); err != nil {
			return err
		}
		os.RemoveAll(dirA1)
	}
	// repository B: deletions and ineligible paths
	dirB := filepath.Join(c.work, "pairsB")
	oldT, newT := map[string]string{"keep.go": "a\n"}, map[string]string{"keep.go": "a\nb\n"}
	for i, o := range files {
		oldT[fmt.Sprintf("d/p%05d/f.go", i)] = o
		n := files[(i*7+3)%len(files)]
		for _, pat := range []string{"t/p%05d/f_test.go", "vendor/p%05d/f.go", "x/testdata/p%05d/f.go", "x/p%05d/notgo.txt"} {
			p := fmt.Sprintf(pat, i)
			oldT[p], newT[p] = o, n
		}
	}
	if oldRev, err = proj.InitRepo(dirB, oldT, 1700000000); err != nil {
		return err
	}
	if _, err := proj.Commit(dirB, newT, 1700000100, "new"); err != nil {
		return err
	}
	if err := emitRepoAllModes(s, dirB, oldRev, true, "pairsB", []string{"2", "3", "1", "I"}, 16); err != nil {
		return err
	}
	os.RemoveAll(dirB)
	// dispatch: invalid precisions are refused, INIT wins over any precision
	for _, pr := range []int{-1, 0, 4, 7} {
		dirC := filepath.Join(c.work, "pairsC")
		if _, err := os.Stat(dirC); err != nil {
			if _, err := proj.InitRepo(dirC, map[string]string{"a.go": "a\n"}, 1700000000); err != nil {
				return err
			}
			if _, err := proj.Commit(dirC, map[string]string{"a.go": "b\n"}, 1700000100, "new"); err != nil {
				return err
			}
		}
		for _, old := range []string{"HEAD~1", "INIT", "init", "Init"} { // `init` / `Init`: not the keyword (no such ref here: resolving fails, "other")
			_, _, err := realDiff(dirC, old, pr, 1)
			got := "other"
			switch {
			case err != nil && strings.Contains(err.Error(), "invalid diff precision"):
				got = "invalid"
			case err == nil && old == "INIT":
				got = "init"
			}
			s.Case(fmt.Sprintf("ddispatch %s %d", old, pr), got, "", false)
			s.Count("dispatch")
		}
	}
	return nil
}

func emitRepoAllModes(s *stream.Stream, dir, oldRev string, ancestor bool, tag string, modes []string, threads int) error {
	return emitRepoModes(s, dir, oldRev, ancestor, false, tag, modes, threads)
}

func emitRepoModes(s *stream.Stream, dir, oldRev string, ancestor, exact bool, tag string, modes []string, threads int) error {
	oldTree, err := gitTree(dir, oldRev)
	if err != nil {
		return err
	}
	newTree, err := gitTree(dir, "HEAD")
	if err != nil {
		return err
	}
	t0 := time.Now()
	view, err := openView(dir, oldRev)
	dtime("[diff] %s: trees+view %.1fs\n", tag, time.Since(t0).Seconds())
	if err != nil {
		return err
	}
	rc := &repoCase{dir: dir, oldRev: oldRev, oldTree: oldTree, newTree: newTree, view: view, ancestor: ancestor, tag: tag, exact: exact}
	for _, m := range modes {
		if err := rc.emit(s, m, threads); err != nil {
			return err
		}
	}
	return nil
}

// ---------------------------------------------------------------------------------------------
// diff-filter: filterValidFileChanges + the executor's sort on random slot vectors

func streamDiffFilter(s *stream.Stream, c *streamCtx) error {
	n := 3000
	if c.thorough() {
		n = 40000
	}
	s.Rule = fmt.Sprintf("every nil/non-nil pattern of ≤10 slots (2047 vectors) and %d random slot vectors of ≤40 entries with distinct random paths through the real filterValidFileChanges (hook) followed by sort by path; "+
		"non-trivial = at least one nil and two survivors", n)
	run := func(slots []string) {
		fcs := make([]*gdiff.FileChange, len(slots))
		nils, live := 0, 0
		for i, p := range slots {
			if p != "-" {
				fcs[i] = &gdiff.FileChange{Path: p}
				live++
			} else {
				nils++
			}
		}
		out := gdiff.VerifFilterValid(fcs)
		var got []string
		for _, fc := range out {
			if fc == nil {
				got = append(got, "NIL")
			} else {
				got = append(got, fc.Path)
			}
		}
		sorted := append([]string{}, got...)
		sort.Strings(sorted)
		s.Case(strings.TrimSpace("dfilter "+strings.Join(slots, " ")), strings.TrimSpace(strings.Join(got, " ")+" | "+strings.Join(sorted, " ")), "", nils > 0 && live > 1)
		s.Count(fmt.Sprintf("len:%02d", len(slots)/5*5))
	}
	for l := 0; l <= 10; l++ {
		for m := 0; m < 1<<l; m++ {
			slots := make([]string, l)
			for i := range slots {
				if m>>i&1 == 1 {
					slots[i] = fmt.Sprintf("d%d/f%d.go", (i*7)%4, i)
				} else {
					slots[i] = "-"
				}
			}
			run(slots)
		}
	}
	for i := 0; i < n; i++ {
		l := c.rng.Intn(41)
		slots := make([]string, l)
		perm := c.rng.Perm(l)
		pn := c.rng.Intn(101)
		for j := range slots {
			if c.rng.Intn(100) < pn {
				slots[j] = "-"
			} else {
				slots[j] = fmt.Sprintf("%s/f%02d.go", []string{"a", "a/b", "ab", "z", "cmd/x"}[c.rng.Intn(5)], perm[j])
			}
		}
		run(slots)
	}
	return nil
}

// ---------------------------------------------------------------------------------------------
// diff-histories: random multi-commit histories

// textGen produces line-oriented files: lines from a small alphabet (repeated lines) mixed with
// unique lines. The diff stage never parses Go, so the lines need not be Go code.
type textGen struct {
	r    *rand.Rand
	uniq int
}

var histAlpha = []string{"}", "\tx++", "", "\treturn x", "\tif x > 0 {", "// note"}

func (g *textGen) line() string {
	if g.r.Intn(100) < 45 {
		return histAlpha[g.r.Intn(len(histAlpha))]
	}
	g.uniq++
	return fmt.Sprintf("\tv%d := %d", g.uniq, g.r.Intn(100))
}

func (g *textGen) file(n int) string {
	ls := make([]string, n)
	for i := range ls {
		ls[i] = g.line()
	}
	s := strings.Join(ls, "\n")
	if n > 0 && g.r.Intn(100) >= 4 {
		s += "\n"
	}
	return s
}

// edit applies 1-3 line edits inside a region of the file (0 anywhere, 1 first third, 2 last third).
func (g *textGen) edit(content string, region int) string {
	ls, term := realLines(content)
	for k := 1 + g.r.Intn(3); k > 0; k-- {
		lo, hi := 0, len(ls)
		switch region {
		case 1:
			hi = len(ls) / 3
		case 2:
			lo = len(ls) - len(ls)/3
		}
		if hi < lo {
			hi = lo
		}
		pos := lo
		if hi > lo {
			pos = lo + g.r.Intn(hi-lo+1)
		}
		if pos > len(ls) {
			pos = len(ls)
		}
		switch op := g.r.Intn(10); {
		case op < 4 && pos < len(ls): // modify
			ls[pos] = g.line()
		case op < 8 || len(ls) == 0: // insert 1-3 lines
			var ins []string
			for j := 1 + g.r.Intn(3); j > 0; j-- {
				ins = append(ins, g.line())
			}
			ls = append(ls[:pos:pos], append(ins, ls[pos:]...)...)
		default: // delete 1-2 lines
			n := 1 + g.r.Intn(2)
			if pos+n > len(ls) {
				n = len(ls) - pos
			}
			ls = append(ls[:pos:pos], ls[pos+n:]...)
		}
	}
	s := strings.Join(ls, "\n")
	if len(ls) > 0 && term {
		s += "\n"
	}
	return s
}

func cloneTree(t map[string]string) map[string]string {
	n := make(map[string]string, len(t))
	for k, v := range t {
		n[k] = v
	}
	return n
}

// "git" and "idea/x": eligible directories whose names are default ignore entries without the dot
var histDirs = []string{".", "pkg/a", "pkg/b", "cmd/x", "internal/deep/c", "git", "idea/x", "pkg/loadtestdata/gen"}

// mutate applies one commit's worth of edits to the tree. own restricts the files touched
// (so that the two sides of a pull request rarely conflict); region as in edit.
func (g *textGen) mutate(t map[string]string, own func(string) bool, region int, count func(string)) {
	var goFiles, others []string
	for _, p := range sortedKeys(t) {
		if !own(p) {
			continue
		}
		if diffEligible(p) {
			goFiles = append(goFiles, p)
		} else {
			others = append(others, p)
		}
	}
	// a file below an excluded directory and an eligible sibling whose name merely starts with that
	// directory's name change in the same commit (the sibling must still be reported)
	if g.r.Intn(4) == 0 {
		for _, pair := range [][2]string{{"pkg/b/testdata/t.go", "pkg/b/testdata_loader.go"}, {"vendor/v/v.go", "vendorutil/u.go"}, {"plugin/p.go", "pluginapi/api.go"}} {
			c0, ok0 := t[pair[0]]
			c1, ok1 := t[pair[1]]
			if ok0 && ok1 && own(pair[0]) && own(pair[1]) {
				t[pair[0]] = g.edit(c0, region)
				t[pair[1]] = g.edit(c1, region)
				count("edit:excluded+look-alike-sibling")
			}
		}
	}
	// a file is edited and, in the same commit, copied byte for byte to a new path: two paths with
	// identical new contents, one modified, one new (reported in full)
	if g.r.Intn(5) == 0 && len(goFiles) > 0 {
		p := goFiles[g.r.Intn(len(goFiles))]
		if c, ok := t[p]; ok {
			t[p] = g.edit(c, region)
			g.uniq++
			t[filepath.Join(histDirs[g.r.Intn(len(histDirs))], fmt.Sprintf("twin%d.go", g.uniq))] = t[p]
			count("edit:modified+byte-identical-copy")
		}
	}
	for k := 1 + g.r.Intn(3); k > 0; k-- {
		op := g.r.Intn(100)
		switch {
		case op < 50 && len(goFiles) > 0:
			p := goFiles[g.r.Intn(len(goFiles))]
			if _, ok := t[p]; ok {
				t[p] = g.edit(t[p], region)
				count("edit:modify")
			}
		case op < 58 && len(goFiles) > 0: // rename without edit
			p := goFiles[g.r.Intn(len(goFiles))]
			if c, ok := t[p]; ok {
				g.uniq++
				delete(t, p)
				t[filepath.Join(histDirs[g.r.Intn(len(histDirs))], fmt.Sprintf("r%d.go", g.uniq))] = c
				count("edit:rename")
			}
		case op < 68 && len(goFiles) > 0: // rename with edit
			p := goFiles[g.r.Intn(len(goFiles))]
			if c, ok := t[p]; ok {
				g.uniq++
				delete(t, p)
				t[filepath.Join(histDirs[g.r.Intn(len(histDirs))], fmt.Sprintf("r%d.go", g.uniq))] = g.edit(c, region)
				count("edit:rename+edit")
			}
		case op < 80: // new file (Go, test, ignored directory)
			g.uniq++
			name := []string{"n%d.go", "n%d.go", "n%d.go", "n%d_test.go", "vendor/v/n%d.go", "testdata/n%d.go", "n%d.txt"}[g.r.Intn(7)]
			dir := histDirs[g.r.Intn(len(histDirs))]
			if strings.HasPrefix(name, "vendor") {
				dir = "."
			}
			t[filepath.Join(dir, fmt.Sprintf(name, g.uniq))] = g.file(g.r.Intn(12))
			count("edit:new-file")
		case op < 86 && len(goFiles) > 1: // delete
			p := goFiles[g.r.Intn(len(goFiles))]
			delete(t, p)
			count("edit:delete")
		case len(others) > 0: // test / vendor / non-Go file
			p := others[g.r.Intn(len(others))]
			if _, ok := t[p]; ok {
				t[p] = g.edit(t[p], 0)
				count("edit:ineligible")
			}
		}
	}
}

type histRepo struct {
	dir      string
	oldRev   string
	ancestor bool
	packed   bool
	topo     string
	err      error
}

// buildHistory creates one repository. All choices come from r.
func buildHistory(dir string, r *rand.Rand, count func(string)) *histRepo {
	h := &histRepo{dir: dir, ancestor: true}
	g := &textGen{r: r}
	fail := func(err error) *histRepo { h.err = err; return h }
	tree := map[string]string{"README.md": "readme\n", "go.mod": "module example.com/m\n"}
	for i, n := 0, 3+r.Intn(5); i < n; i++ {
		tree[filepath.Join(histDirs[r.Intn(len(histDirs))], fmt.Sprintf("f%d.go", i))] = g.file(3 + r.Intn(18))
	}
	tree["pkg/a/a_test.go"] = g.file(6)
	tree["vendor/v/v.go"] = g.file(6)
	tree["pkg/b/testdata/t.go"] = g.file(5)
	tree["pkg/b/testdata_loader.go"] = g.file(7)
	tree["vendorutil/u.go"] = g.file(6)
	// a nested module (skipped) and an eligible sibling whose directory name starts with the module's
	tree["plugin/go.mod"] = "module example.com/plugin\n"
	tree["plugin/p.go"] = g.file(6)
	tree["pluginapi/api.go"] = g.file(8)
	// a generated asset: one source line longer than 64 KiB above lines that get edited
	tree["pkg/a/asset.go"] = "var asset = \"" + strings.Repeat("0123456789abcdef", 4400) + "\"\n" + g.file(9)
	all := func(string) bool { return true }
	const t0 = 1700000000
	topos := []string{"linear", "linear-skew", "linear-same-second", "pr-feature-older", "pr-feature-older", "pr-feature-newer", "pr-same-second", "pr-forked-after-old", "diverged"}
	h.topo = topos[r.Intn(len(topos))]
	count("topology:" + h.topo)
	same := strings.HasSuffix(h.topo, "same-second")
	date := func(step int64) int64 {
		if same {
			return t0
		}
		return t0 + step
	}
	if _, err := proj.InitRepo(dir, tree, date(0)); err != nil {
		return fail(err)
	}
	step := int64(0)
	commitN := func(n int, own func(string) bool, region int, dates func() int64) (string, error) {
		var rev string
		var err error
		for i := 0; i < n; i++ {
			g.mutate(tree, own, region, count)
			if rev, err = proj.Commit(dir, tree, dates(), "c"); err != nil {
				return "", err
			}
		}
		return rev, nil
	}
	next := func() int64 { step += 100; return date(step) }
	if h.topo == "linear-skew" { // committer dates run backwards: every ancestor of the old revision is dated after it
		next = func() int64 { step -= 100; return date(step) }
	}
	var err error
	switch {
	case strings.HasPrefix(h.topo, "linear"):
		if h.oldRev, err = commitN(r.Intn(3), all, 0, next); err != nil {
			return fail(err)
		}
		if h.oldRev == "" {
			h.oldRev, _ = proj.Git(dir, 0, "rev-parse", "HEAD")
		}
		if _, err = commitN(1+r.Intn(5), all, 0, next); err != nil {
			return fail(err)
		}
	default:
		// fork point
		if _, err = commitN(r.Intn(2), all, 0, next); err != nil {
			return fail(err)
		}
		fork, _ := proj.Git(dir, 0, "rev-parse", "HEAD")
		forkTree := cloneTree(tree)
		forkStep := step
		// split ownership: feature owns paths with odd checksum; sometimes both sides edit the
		// same file in different regions
		shared := r.Intn(100) < 35
		sum := func(p string) int {
			n := 0
			for _, c := range p {
				n += int(c)
			}
			return n
		}
		ownMain := func(p string) bool { return shared || sum(p)%2 == 0 }
		ownFeat := func(p string) bool { return shared || sum(p)%2 == 1 }
		regM, regF := 0, 0
		if shared {
			regM, regF = 1, 2
		}
		nMain, nFeat := 1+r.Intn(3), 1+r.Intn(3)
		// dates: feature older = feature commits before the main commits; newer = after
		var mainDates, featDates func() int64
		switch h.topo {
		case "pr-feature-older":
			featDates = func() int64 { forkStep += 10; return date(forkStep) }
			mainDates = func() int64 { step += 100; return date(step + 1000) }
		default:
			mainDates = func() int64 { forkStep += 10; return date(forkStep) }
			featDates = func() int64 { step += 100; return date(step + 1000) }
		}
		if h.topo == "pr-forked-after-old" {
			h.oldRev = fork
		}
		// main side
		if rev, err := commitN(nMain, ownMain, regM, mainDates); err != nil {
			return fail(err)
		} else if h.topo != "pr-forked-after-old" {
			h.oldRev = rev
		}
		// feature side
		if _, err = proj.Git(dir, 0, "checkout", "-q", "-b", "feature", fork); err != nil {
			return fail(err)
		}
		tree = forkTree
		if _, err = commitN(nFeat, ownFeat, regF, featDates); err != nil {
			return fail(err)
		}
		if h.topo == "diverged" {
			h.ancestor = false // new = feature tip, old = main tip
			break
		}
		if _, err = proj.Git(dir, 0, "checkout", "-q", "main"); err != nil {
			return fail(err)
		}
		if _, err = proj.Git(dir, date(step+5000), "merge", "-q", "--no-ff", "-X", "theirs", "-m", "merge", "feature"); err != nil {
			// conflict that -X theirs does not settle (rename/delete): conclude the merge with whatever is there
			count("merge:conflict-concluded")
			if _, err = proj.Git(dir, 0, "add", "-A"); err != nil {
				return fail(err)
			}
			if _, err = proj.Git(dir, date(step+5000), "commit", "-q", "--no-edit", "--allow-empty", "-m", "merge"); err != nil {
				return fail(err)
			}
		}
		if r.Intn(3) == 0 { // commits after the merge
			tr, err := gitTree(dir, "HEAD")
			if err != nil {
				return fail(err)
			}
			tree = tr
			step += 6000
			if r.Intn(2) == 0 { // … and the old revision is the merge commit itself
				h.oldRev, _ = proj.Git(dir, 0, "rev-parse", "HEAD")
				count("topology:+old-is-the-merge-commit")
			}
			if _, err = commitN(1+r.Intn(2), all, 0, next); err != nil {
				return fail(err)
			}
			count("topology:+commits-after-merge")
		}
	}
	if r.Intn(2) == 0 {
		h.packed = true
		if _, err := proj.Git(dir, 0, "gc", "-q"); err != nil {
			return fail(err)
		}
		count("store:packed")
	} else {
		count("store:loose")
	}
	return h
}

func streamDiffHistories(s *stream.Stream, c *streamCtx) error {
	n := 160
	if c.thorough() {
		n = 2500
	}
	s.Rule = fmt.Sprintf("%d random histories in real git repositories (git CLI, explicit commit dates): 3-7 line-oriented .go files of 3-20 lines over a 6-line alphabet with repeated lines mixed with unique lines (4%% without trailing newline), "+
		"test / vendor / testdata / non-Go decoys; 1-3 edits per commit drawn from modify/insert/delete lines, rename, rename+edit, new file, delete file, decoy edits; topologies linear, linear with all commits in the same second, "+
		"pull request (feature branch merged with --no-ff) with feature commits older / newer than the stable tip / same second / forked after the old revision, commits after the merge, diverged branches (old not an ancestor; precision 1 only compared, not judged); "+
		"loose and `git gc`-packed stores × precision 1, 2, 3, INIT through the real getDiff (hook); model fed with go-git's chunks / blame + commit table; "+
		"judge:diff against git cat-file contents for every .go file of the new revision; non-trivial = an eligible file that the implementation reports", n)
	seeds := make([]int64, n)
	for i := range seeds {
		seeds[i] = c.rng.Int63()
	}
	repos := make([]*histRepo, n)
	var mu sync.Mutex
	count := func(k string) { mu.Lock(); s.Dist[k]++; mu.Unlock() }
	batch := 64
	for lo := 0; lo < n; lo += batch {
		hi := lo + batch
		if hi > n {
			hi = n
		}
		var wg sync.WaitGroup
		sem := make(chan struct{}, runtime.NumCPU())
		for i := lo; i < hi; i++ {
			wg.Add(1)
			sem <- struct{}{}
			go func(i int) {
				defer func() { <-sem; wg.Done() }()
				repos[i] = buildHistory(filepath.Join(c.work, fmt.Sprintf("h%05d", i)), rand.New(rand.NewSource(seeds[i])), count)
			}(i)
		}
		wg.Wait()
		for i := lo; i < hi; i++ {
			h := repos[i]
			if h.err != nil {
				return fmt.Errorf("history %d (%s): %v", i, h.topo, h.err)
			}
			threads := 1
			if i%2 == 0 { // loose and packed alike: object reads are serialised since fix 11c0d4a
				threads = 4
			}
			if err := emitRepoAllModes(s, h.dir, h.oldRev, h.ancestor, fmt.Sprintf("h%05d/%s", i, h.topo), []string{"1", "2", "3", "I"}, threads); err != nil {
				return err
			}
			os.RemoveAll(h.dir)
			repos[i] = nil
		}
	}
	return nil
}

func dtime(format string, a ...any) {
	if os.Getenv("VERIF_DIFF_TIMING") != "" {
		fmt.Fprintf(os.Stderr, format, a...)
	}
}

// ---------------------------------------------------------------------------------------------
// diff-exact: the exactness clause of C17 — unique lines, edits only insert / modify / delete lines

// buildExactHistory: every line of every file is unique in the repository; a commit replaces lines
// by fresh lines, inserts fresh lines, deletes lines, or adds a file. Linear histories and
// pull-request histories with disjoint files (clean merges); committer times strictly increase
// from parent to child; in "pr-older" the feature commits are older than the stable tip.
func buildExactHistory(dir string, r *rand.Rand, count func(string)) *histRepo {
	h := &histRepo{dir: dir, ancestor: true}
	fail := func(err error) *histRepo { h.err = err; return h }
	uniq := 0
	fresh := func() string {
		uniq++
		// one fresh line in six is made of white space only (unique by its length): an added "blank"
		// line is an added line like any other
		if r.Intn(6) == 0 {
			return strings.Repeat(" ", uniq)
		}
		return fmt.Sprintf("\tu%d := %d", uniq, uniq*7%100)
	}
	file := func(n int) string {
		var b strings.Builder
		for i := 0; i < n; i++ {
			b.WriteString(fresh() + "\n")
		}
		return b.String()
	}
	insertOnly := false
	edit := func(c string) string {
		ls, _ := realLines(c)
		for k := 1 + r.Intn(4); k > 0; k-- {
			pos := 0
			if len(ls) > 0 {
				pos = r.Intn(len(ls) + 1)
			}
			op := r.Intn(3)
			if insertOnly {
				op = 2
			}
			switch {
			case op == 0 && pos < len(ls):
				ls[pos] = fresh()
			case op == 1 && pos < len(ls) && len(ls) > 1:
				ls = append(ls[:pos:pos], ls[pos+1:]...)
			default:
				ins := []string{fresh()}
				if r.Intn(2) == 0 {
					ins = append(ins, fresh())
				}
				ls = append(ls[:pos:pos], append(ins, ls[pos:]...)...)
			}
		}
		return strings.Join(ls, "\n") + "\n"
	}
	tree := map[string]string{"go.mod": "module example.com/m\n"}
	nf := 2 + r.Intn(5)
	for i := 0; i < nf; i++ {
		tree[filepath.Join(histDirs[r.Intn(len(histDirs))], fmt.Sprintf("f%d.go", i))] = file(1 + r.Intn(15))
	}
	// one repository in two holds a file whose first line is longer than 64 KiB (an embedded asset)
	// above lines that get edited: every line below it keeps its number
	if r.Intn(2) == 0 {
		tree["pkg/a/asset.go"] = "var asset = \"" + strings.Repeat("0123456789abcdef", 4400) + "\"\n" + file(4+r.Intn(6))
		count("shape:line-longer-than-64KiB")
	}
	mutate := func(own func(string) bool) {
		var ps []string
		for _, p := range sortedKeys(tree) {
			if strings.HasSuffix(p, ".go") && own(p) {
				ps = append(ps, p)
			}
		}
		for k := 1 + r.Intn(3); k > 0 && len(ps) > 0; k-- {
			p := ps[r.Intn(len(ps))]
			tree[p] = edit(tree[p])
			count("edit:lines")
		}
		if r.Intn(5) == 0 {
			uniq++
			name := filepath.Join(histDirs[r.Intn(len(histDirs))], fmt.Sprintf("n%d.go", uniq))
			if own(name) {
				tree[name] = file(1 + r.Intn(8))
				count("edit:new-file")
			}
		}
	}
	const t0 = 1700000000
	step := int64(0)
	next := func() int64 { step += 60; return t0 + step }
	all := func(string) bool { return true }
	if _, err := proj.InitRepo(dir, tree, t0); err != nil {
		return fail(err)
	}
	commit := func(own func(string) bool, date int64) (string, error) {
		mutate(own)
		return proj.Commit(dir, tree, date, "c")
	}
	var err error
	h.topo = []string{"linear", "linear", "linear-skew", "pr-older", "pr-newer", "merged-old", "merged-old", "pr-conflict", "diverged"}[r.Intn(9)]
	count("topology:" + h.topo)
	if h.topo == "linear-skew" {
		// committer dates run backwards (clock skew, rebased history): ancestors of the old revision
		// carry later dates than the old revision itself
		next = func() int64 { step -= 60; return t0 + step }
	}
	const conflictFile = "pkg/a/conflict.go"
	if h.topo == "pr-conflict" {
		// both sides rewrite the first line of this file; the merge is concluded by hand with a
		// line of its own (blamed on the merge commit, absent from the old revision)
		tree[conflictFile] = file(4)
		if _, err := proj.Commit(dir, tree, t0+1, "conflict file"); err != nil {
			return fail(err)
		}
	}
	setFirst := func(c string) string {
		ls, _ := realLines(c)
		ls[0] = fresh()
		return strings.Join(ls, "\n") + "\n"
	}
	if strings.HasPrefix(h.topo, "linear") {
		h.oldRev, _ = proj.Git(dir, 0, "rev-parse", "HEAD")
		for i := r.Intn(3); i > 0; i-- {
			if h.oldRev, err = commit(all, next()); err != nil {
				return fail(err)
			}
		}
		for i := 1 + r.Intn(6); i > 0; i-- {
			if _, err = commit(all, next()); err != nil {
				return fail(err)
			}
		}
	} else {
		fork, _ := proj.Git(dir, 0, "rev-parse", "HEAD")
		forkTree := cloneTree(tree)
		sum := func(p string) int {
			n := 0
			for _, c := range p {
				n += int(c)
			}
			return n
		}
		ownMain := func(p string) bool { return sum(p)%2 == 0 }
		ownFeat := func(p string) bool { return sum(p)%2 == 1 }
		nMain, nFeat := 1+r.Intn(3), 1+r.Intn(3)
		mainBase, featBase := int64(1000), int64(10)
		if h.topo == "pr-newer" {
			mainBase, featBase = 10, 1000
		}
		// diverged: the old revision (tip of main) is not an ancestor of the new one (tip of the
		// feature branch). Main only INSERTS lines, so every line of the fork point is still in the
		// old revision and "new" = exactly the lines the feature side wrote
		insertOnly = h.topo == "diverged"
		for i := 0; i < nMain; i++ {
			if h.topo == "pr-conflict" && i == nMain-1 {
				tree[conflictFile] = setFirst(tree[conflictFile])
			}
			if h.oldRev, err = commit(ownMain, t0+mainBase+int64(i)*10); err != nil {
				return fail(err)
			}
		}
		insertOnly = false
		mainTree := tree
		if _, err = proj.Git(dir, 0, "checkout", "-q", "-b", "feature", fork); err != nil {
			return fail(err)
		}
		tree = forkTree
		for i := 0; i < nFeat; i++ {
			if h.topo == "pr-conflict" && i == 0 {
				tree[conflictFile] = setFirst(tree[conflictFile])
			}
			if _, err = commit(ownFeat, t0+featBase+int64(i)*10); err != nil {
				return fail(err)
			}
		}
		_ = mainTree
		if h.topo == "diverged" {
			// HEAD stays on the feature branch: no merge
		} else if _, err = proj.Git(dir, 0, "checkout", "-q", "main"); err != nil {
			return fail(err)
		}
		if h.topo == "diverged" {
		} else if h.topo == "pr-conflict" {
			if _, err = proj.Git(dir, t0+5000, "merge", "-q", "--no-ff", "-m", "merge", "feature"); err == nil {
				return fail(fmt.Errorf("the merge was expected to conflict"))
			}
			// conclude the merge by hand: every file as git left it, the conflict file with a new first line
			b, rerr := os.ReadFile(filepath.Join(dir, conflictFile))
			if rerr != nil {
				return fail(rerr)
			}
			var keep []string
			for _, l := range strings.Split(strings.TrimSuffix(string(b), "\n"), "\n") {
				if strings.HasPrefix(l, "<<<<<<<") || strings.HasPrefix(l, "=======") || strings.HasPrefix(l, ">>>>>>>") {
					continue
				}
				keep = append(keep, l)
			}
			// the two competing first lines are dropped, a line of the resolver's own takes their place
			if len(keep) >= 2 {
				keep = keep[2:]
			}
			keep = append([]string{fresh()}, keep...)
			if werr := os.WriteFile(filepath.Join(dir, conflictFile), []byte(strings.Join(keep, "\n")+"\n"), 0644); werr != nil {
				return fail(werr)
			}
			if _, err = proj.Git(dir, 0, "add", "-A"); err != nil {
				return fail(err)
			}
			if _, err = proj.Git(dir, t0+5000, "commit", "-q", "-m", "merge (conflict concluded by hand)"); err != nil {
				return fail(err)
			}
		} else if _, err = proj.Git(dir, t0+5000, "merge", "-q", "--no-ff", "-m", "merge", "feature"); err != nil {
			return fail(err)
		}
		if h.topo == "merged-old" {
			// the old revision is the merge commit (or a descendant of it): the lines written on the
			// merged side branch reach it through the second parent and are old, not new
			tr, err := gitTree(dir, "HEAD")
			if err != nil {
				return fail(err)
			}
			tree = tr
			step = 6000
			h.oldRev, _ = proj.Git(dir, 0, "rev-parse", "HEAD")
			for i := r.Intn(2); i > 0; i-- {
				if h.oldRev, err = commit(all, next()); err != nil {
					return fail(err)
				}
			}
			for i := 1 + r.Intn(3); i > 0; i-- {
				if _, err = commit(all, next()); err != nil {
					return fail(err)
				}
			}
		}
	}
	if r.Intn(2) == 0 {
		h.packed = true
		if _, err := proj.Git(dir, 0, "gc", "-q"); err != nil {
			return fail(err)
		}
		count("store:packed")
	} else {
		count("store:loose")
	}
	return h
}

func streamDiffExact(s *stream.Stream, c *streamCtx) error {
	n := 120
	if c.thorough() {
		n = 1500
	}
	s.Rule = fmt.Sprintf("%d histories in real git repositories in which every line of every file is unique: 2-6 .go files of 1-15 lines, 1-9 commits each replacing lines by fresh lines, inserting fresh lines, deleting lines or adding a file "+
		"(no moves, no renames, newline-terminated); linear histories and pull-request histories with disjoint files and clean merges, feature commits older / newer than the stable tip, committer times increasing from parent to child; "+
		"loose and packed stores × precision 1, 2, 3 through the real getDiff (hook); model fed with go-git's chunks / blame; judge:exact (reported lines = exactly the lines of the new file that do not occur in the old file) "+
		"on every eligible file of the new revision; non-trivial = an eligible file that the implementation reports", n)
	seeds := make([]int64, n)
	for i := range seeds {
		seeds[i] = c.rng.Int63()
	}
	var mu sync.Mutex
	count := func(k string) { mu.Lock(); s.Dist[k]++; mu.Unlock() }
	batch := 64
	for lo := 0; lo < n; lo += batch {
		hi := lo + batch
		if hi > n {
			hi = n
		}
		repos := make([]*histRepo, hi-lo)
		var wg sync.WaitGroup
		sem := make(chan struct{}, runtime.NumCPU())
		for i := lo; i < hi; i++ {
			wg.Add(1)
			sem <- struct{}{}
			go func(i int) {
				defer func() { <-sem; wg.Done() }()
				repos[i-lo] = buildExactHistory(filepath.Join(c.work, fmt.Sprintf("x%05d", i)), rand.New(rand.NewSource(seeds[i])), count)
			}(i)
		}
		wg.Wait()
		for i, h := range repos {
			if h.err != nil {
				return fmt.Errorf("exact history %d (%s): %v", lo+i, h.topo, h.err)
			}
			threads := 1
			if i%2 == 0 { // loose and packed alike: object reads are serialised since fix 11c0d4a
				threads = 4
			}
			if err := emitRepoModes(s, h.dir, h.oldRev, true, true, fmt.Sprintf("x%05d/%s", lo+i, h.topo), []string{"1", "2", "3"}, threads); err != nil {
				return err
			}
			os.RemoveAll(h.dir)
		}
	}
	return nil
}
