package main

import (
	"fmt"
	"math/rand"
	"os"
	"os/exec"
	"path/filepath"
	"regexp"
	"sort"
	"strings"
	"sync"
	"time"

	"verifharness/internal/proj"
)

func init() {
	e2es["threads"] = e2eThreads
}

// e2eThreads — C08 (assumption monitor, DESIGN.md §6 C08): the working tree produced by
// `goat track`, `goat patch` and `goat clean` must not depend on `threads`, on GOMAXPROCS or on
// repetition, and no execution of a `-race` build may report a data race.
//
// unit = generated project (30-80 changed Go files) × object store (loose | git gc packed) × precision.
// Every run starts from an identical copy (cp -a) of the prepared repository; the tree after the
// run (every file outside .git except goat.yaml, which carries the `threads:` value itself) is
// compared byte for byte with the threads=1 GOMAXPROCS=1 run of the same command.
type thrCell struct{ threads, gmp int }

var thrGrid = func() []thrCell {
	var g []thrCell
	for _, t := range []int{1, 2, 4, 16} {
		for _, m := range []int{1, 2, 16} {
			g = append(g, thrCell{t, m})
		}
	}
	return g
}()

type thrUnit struct {
	id        int
	dir       string // unit scratch directory
	p         *proj.Project
	libs      int
	changed   int
	packed    bool
	cfg       proj.Config
	oldRev    string
	projSeed  int64
	newTree   map[string]string
	oldTree   map[string]string
	trackRef  string // directory holding the reference result of track
	patchBase string
	patchOne  string
	cleanBase string
}

func (u *thrUnit) desc() string {
	store := "loose"
	if u.packed {
		store = "packed"
	}
	return fmt.Sprintf("project seed=%d libs=%d changed_go_files=%d store=%s precision=%d gran=%s race=%v dt=%s",
		u.projSeed, u.libs, u.changed, store, u.cfg.Precision, u.cfg.Granularity, u.cfg.Race, u.cfg.DataType)
}

func cpA(src, dst string) error {
	os.RemoveAll(dst)
	out, err := exec.Command("cp", "-a", src, dst).CombinedOutput()
	if err != nil {
		return fmt.Errorf("cp -a %s %s: %v: %s", src, dst, err, out)
	}
	return nil
}

// genLargeProject draws projects until 30..80 Go files differ between the two revisions.
func genLargeProject(seed int64) (*proj.Project, int, int) {
	r := rand.New(rand.NewSource(seed))
	for try := 0; ; try++ {
		libs := 16 + r.Intn(20)
		p := proj.Generate(r, proj.Opts{InScope: true, Twins: true, Libs: libs, Mains: 2 + r.Intn(2), RootMain: r.Intn(3) == 0,
			ChangeP: 0.45, FuncsPer: 3, SmallBody: true})
		// changed files that receive no tracking point and are not in go/printer layout: the
		// sequential and the parallel save path must treat them alike (both re-print them)
		for _, pk := range p.Pkgs {
			if !pk.IsMain && r.Intn(3) == 0 {
				path := filepath.Join(pk.Dir, "a_unfmt.go")
				p.ExtraOld[path] = fmt.Sprintf("package %s\n\ntype Unfmt struct {\n\tA int\n}\n", pk.Name)
				p.ExtraNew[path] = fmt.Sprintf("package %s\n\ntype Unfmt struct {\n\tA int\n\tLongFieldName   string // new\n\tB []int\n}\n\nconst   UnfmtK = 3\n", pk.Name)
			}
		}
		// a nested Go module with changed files in a directory and in descendants of it (the
		// nested-module cache is filled from the workers), and changed files that share a stem
		// (f.go / f.gen.go / f.pb.go) in one directory (whatever a worker derives from the name
		// must not collide)
		dec := func(pkg, fn string, k int) string {
			return fmt.Sprintf("package %s\n\nfunc %s(a int) int {\n\ta++\n\ta += %d\n\treturn a\n}\n", pkg, fn, k)
		}
		// files that exist only in the new revision and sort before everything else: the first
		// tasks the diff workers pick up all read fresh objects (first use of the pack index)
		for d := 0; d < 12; d++ {
			p.ExtraNew[fmt.Sprintf(".added/a%02d/a.go", d)] = dec("a", "Added", d)
		}
		p.ExtraOld["tools/gen/go.mod"] = "module example.com/gen\n\ngo 1.23\n"
		p.ExtraNew["tools/gen/go.mod"] = p.ExtraOld["tools/gen/go.mod"]
		for d := 0; d < 4; d++ {
			for _, sub := range []string{"", "/sub", "/sub/deep"} {
				path := fmt.Sprintf("tools/gen/d%02d%s/a.go", d, sub)
				p.ExtraOld[path], p.ExtraNew[path] = dec("a", "A", 1), dec("a", "A", 2)
			}
		}
		for _, pk := range p.Pkgs {
			if !pk.IsMain && r.Intn(3) == 0 {
				for _, suf := range []string{".gen.go", ".pb.go"} {
					path := filepath.Join(pk.Dir, "f0"+suf)
					fn := "Stem" + strings.ToUpper(suf[1:2]) + suf[2:strings.LastIndex(suf, ".")]
					p.ExtraOld[path], p.ExtraNew[path] = dec(pk.Name, fn, 1), dec(pk.Name, fn, 2)
				}
			}
		}
		// changed files whose paths differ only in case (an order that ignores case leaves their
		// relative order to chance)
		for _, pk := range p.Pkgs {
			if !pk.IsMain && r.Intn(2) == 0 {
				lo, up := filepath.Join(pk.Dir, "zcase.go"), filepath.Join(pk.Dir, "Zcase.go")
				p.ExtraOld[lo], p.ExtraNew[lo] = dec(pk.Name, "CaseLower", 1), dec(pk.Name, "CaseLower", 2)
				p.ExtraOld[up], p.ExtraNew[up] = dec(pk.Name, "CaseUpper", 1), dec(pk.Name, "CaseUpper", 2)
			}
		}
		o, n := p.Files(true), p.Files(false)
		ch := 0
		for path, v := range n {
			if strings.HasSuffix(path, ".go") && o[path] != v {
				ch++
			}
		}
		if (ch >= 30 && ch <= 80) || try > 40 {
			return p, libs, ch
		}
	}
}

var (
	reRaceBlock = regexp.MustCompile(`(?s)WARNING: DATA RACE.*?==================`)
)

// raceSignature summarises one race report: the first goat frame (or the top frame) of the two
// conflicting accesses.
func raceSignature(block string) string {
	var tops []string
	for _, sec := range regexp.MustCompile(`(?m)^(?:Previous )?(?:[Rr]ead|[Ww]rite|atomic [a-z]+) (?:at|of) [^\n]*\n((?:  [^\n]*\n)+)`).FindAllStringSubmatch(block, 2) {
		var fns []string
		for _, l := range strings.Split(sec[1], "\n") {
			l = strings.TrimSpace(l)
			if l == "" || strings.HasPrefix(l, "/") {
				continue
			}
			if i := strings.LastIndex(l, "("); i > 0 {
				l = l[:i]
			}
			fns = append(fns, l)
		}
		pickf := ""
		for _, f := range fns {
			if strings.Contains(f, "monshunter/goat") {
				pickf = f
				break
			}
		}
		if pickf == "" && len(fns) > 0 {
			pickf = fns[0]
		}
		if len(fns) > 0 && fns[0] != pickf {
			pickf = fns[0] + " <- " + pickf
		}
		tops = append(tops, pickf)
	}
	sort.Strings(tops)
	return strings.Join(tops, "  ||  ")
}

// c08Sink keeps one violation per distinct cause (first occurrence + count) so that the report
// names every cause once instead of the same crash forty times.
type c08Sink struct {
	mu sync.Mutex
	m  map[string]*c08Entry
}

type c08Entry struct {
	prio   int
	count  int
	what   string
	replay map[string]any
}

func (k *c08Sink) add(key string, prio int, what string, replay map[string]any) {
	k.mu.Lock()
	defer k.mu.Unlock()
	if e, ok := k.m[key]; ok {
		e.count++
		return
	}
	k.m[key] = &c08Entry{prio: prio, count: 1, what: what, replay: replay}
}

func (k *c08Sink) flush(c *e2eCtx) {
	var keys []string
	for key := range k.m {
		keys = append(keys, key)
	}
	sort.Slice(keys, func(i, j int) bool {
		a, b := k.m[keys[i]], k.m[keys[j]]
		if a.prio != b.prio {
			return a.prio < b.prio
		}
		return keys[i] < keys[j]
	})
	for _, key := range keys {
		e := k.m[key]
		c.violate("C08", fmt.Sprintf("%s [cause %q: %d occurrence(s) in this run]", e.what, key, e.count), e.replay)
	}
}

// raceClass names the shared state a race signature is about.
func raceClass(sig string) string {
	switch {
	case strings.Contains(sig, "PrinterConfig"):
		return "race: lazily initialised Config.printerConfig (D-C08-2)"
	case strings.Contains(sig, "PatchExecutor).prepareContent"):
		return "race: PatchExecutor.changed read-modify-write (D-C08-1)"
	case strings.Contains(sig, "idxfile") || (strings.Contains(sig, "runtime.map") && strings.Contains(sig, "pkg/diff")):
		return "race: shared go-git repository handle, pack index maps (D-C08-3)"
	}
	return "race: " + sig
}

func e2eThreads(c *e2eCtx) error {
	c.threadsSingleFile()
	sink := &c08Sink{m: map[string]*c08Entry{}}
	nProj := 2
	if c.thorough() {
		nProj = 24
	}
	repo := os.Getenv("VERIF_REPO")
	if repo == "" {
		repo = "/repo"
	}
	c.res.Rule = fmt.Sprintf("assumption_monitor (not proof): %d generated projects with 30-80 changed Go files × {loose, git-gc packed} × precision {1,2,3} "+
		"× commands {track, patch after flipping generate→delete markers and adding insert markers (many files / exactly one file), clean} "+
		"× threads {1,2,4,16} × GOMAXPROCS {1,2,16} + repeated runs; each run from an identical copy; tree (all files outside .git, goat.yaml excepted) "+
		"byte-identical to the threads=1 GOMAXPROCS=1 run, exit status 0; plus `go build -race` goat on every unit with threads 8/16, GORACE=halt_on_error=0: "+
		"stderr must contain neither DATA RACE nor concurrent map; evaluation = one compared execution; non-trivial = the command changed the tree, distinct = distinct (unit, command, marker variant, threads, GOMAXPROCS) - repetitions counted once", nProj)

	// ---- race-enabled binary, built while the grid runs
	raceBin := filepath.Join(c.work, "goat-race")
	var raceErr error
	var raceWG sync.WaitGroup
	raceWG.Add(1)
	go func() {
		defer raceWG.Done()
		t0 := time.Now()
		cmd := exec.Command("go", "build", "-race", "-tags", "verif", "-o", raceBin, "./cmd/goat")
		cmd.Dir = repo
		cmd.Env = append(os.Environ(), "GOFLAGS=-mod=mod", "GOPROXY=off", "GOSUMDB=off", "GOTOOLCHAIN=local", "CGO_ENABLED=1")
		out, err := cmd.CombinedOutput()
		if err != nil {
			raceErr = fmt.Errorf("%v: %s", err, tail(string(out), 600))
		}
		c.mu.Lock()
		c.res.Notes["race_build_s"] = fmt.Sprintf("%.1f", time.Since(t0).Seconds())
		c.mu.Unlock()
	}()

	// ---- units
	type unitSpec struct {
		proj   int
		packed bool
		prec   int
	}
	var specs []unitSpec
	for pi := 0; pi < nProj; pi++ {
		for _, packed := range []bool{false, true} {
			for _, prec := range []int{1, 2, 3} {
				specs = append(specs, unitSpec{pi, packed, prec})
			}
		}
	}
	projSeeds := make([]int64, nProj)
	for i := range projSeeds {
		projSeeds[i] = c.rng.Int63()
	}
	units := make([]*thrUnit, len(specs))
	c.parallel(len(specs), func(i int, r *rand.Rand) {
		sp := specs[i]
		u := &thrUnit{id: i, dir: filepath.Join(c.work, fmt.Sprintf("u%03d", i)), packed: sp.packed, projSeed: projSeeds[sp.proj]}
		u.p, u.libs, u.changed = genLargeProject(u.projSeed)
		if err := c.prepareThrUnit(u, r, sp.prec); err != nil {
			c.violate("", "harness: "+err.Error(), nil)
			return
		}
		units[i] = u
		c.runThrGrid(u, r, sink)
	})

	// ---- race detector
	raceWG.Wait()
	if raceErr != nil {
		c.res.Notes["race"] = "SKIPPED: `go build -race` of goat is impossible here (" + raceErr.Error() + "); race-detector clause not monitored in this run"
	} else {
		sigs := map[string]int{}
		first := map[string]map[string]any{}
		var mu sync.Mutex
		var live []*thrUnit
		for _, u := range units {
			if u != nil && u.trackRef != "" {
				live = append(live, u)
			}
		}
		raceRuns := 0
		c.parallel(len(live), func(i int, r *rand.Rand) {
			u := live[i]
			type rr struct {
				cmd, base string
				threads   int
			}
			runs := []rr{{"track", filepath.Join(u.dir, "base"), 8}, {"track", filepath.Join(u.dir, "base"), 16}}
			if u.patchBase != "" {
				runs = append(runs, rr{"patch", u.patchBase, 16}, rr{"patch", u.patchOne, 8})
			}
			if u.cleanBase != "" {
				runs = append(runs, rr{"clean", u.cleanBase, 16})
			}
			for k, x := range runs {
				d := filepath.Join(u.dir, fmt.Sprintf("race%d", k))
				if err := cpA(x.base, d); err != nil {
					c.violate("", "harness: "+err.Error(), nil)
					return
				}
				cfg := u.cfg
				cfg.Threads = x.threads
				proj.WriteConfig(d, cfg)
				args := []string{x.cmd}
				if k%2 == 1 { // verbose: the workers log too
					args = []string{"-v", x.cmd}
				}
				run := proj.RunGoat(raceBin, d, []string{"GORACE=halt_on_error=0", "GOMAXPROCS=16"}, args...)
				os.RemoveAll(d)
				mu.Lock()
				raceRuns++
				mu.Unlock()
				c.mu.Lock()
				c.res.Evaluations++
				c.res.NonTrivial++
				c.mu.Unlock()
				c.count("race-run:" + x.cmd)
				rp := map[string]any{"unit": u.desc(), "command": x.cmd, "threads": x.threads, "GOMAXPROCS": 16, "config": cfg,
					"binary": "go build -race -tags verif ./cmd/goat", "exit": run.Exit}
				if strings.Contains(run.Stderr, "concurrent map") {
					rp["stderr_tail"] = tail(run.Stderr, 3000)
					sink.add("crash(race build):"+x.cmd, 1, fmt.Sprintf("goat %s threads=%d (%s) crashed: %s", x.cmd, x.threads, u.desc(), firstLine(run.Stderr, "concurrent map")), rp)
					continue
				}
				blocks := reRaceBlock.FindAllString(run.Stderr, -1)
				for _, b := range blocks {
					sig := raceSignature(b)
					mu.Lock()
					sigs[sig]++
					if _, ok := first[sig]; !ok {
						m := map[string]any{}
						for k, v := range rp {
							m[k] = v
						}
						m["race_report"] = b
						m["reports_in_this_run"] = len(blocks)
						first[sig] = m
					}
					mu.Unlock()
				}
				if len(blocks) == 0 && (run.Exit != 0 || isPanic(run.Stderr)) {
					rp["stderr_tail"] = tail(run.Stderr, 2000)
					sink.add("exit(race build):"+x.cmd, 3, fmt.Sprintf("race build: goat %s threads=%d exited %d (%s): %s", x.cmd, x.threads, run.Exit, u.desc(), lastLine(run.Stderr)), rp)
				}
			}
		})
		var keys []string
		for k := range sigs {
			keys = append(keys, k)
		}
		sort.Strings(keys)
		sum := map[string]int{}
		classN, classSigs := map[string]int{}, map[string]int{}
		for _, k := range keys {
			classN[raceClass(k)] += sigs[k]
			classSigs[raceClass(k)]++
		}
		for _, k := range keys {
			sum[k] = sigs[k]
			cl := raceClass(k)
			sink.add(cl, 0, fmt.Sprintf("race detector: DATA RACE between worker goroutines - %s: %d reports with %d distinct access pairs over %d race-build executions, e.g. %s",
				cl, classN[cl], classSigs[cl], raceRuns, k), first[k])
		}
		c.res.Notes["race"] = fmt.Sprintf("%d executions of the -race build (threads 8/16, GOMAXPROCS 16), %d distinct race signatures", raceRuns, len(keys))
		if len(sum) > 0 {
			c.res.Notes["race_signatures"] = sum
		}
	}
	sink.flush(c)
	for _, u := range units {
		if u != nil {
			os.RemoveAll(u.dir)
		}
	}
	return nil
}

func (c *e2eCtx) prepareThrUnit(u *thrUnit, r *rand.Rand, prec int) error {
	base := filepath.Join(u.dir, "base")
	u.oldTree, u.newTree = u.p.Files(true), u.p.Files(false)
	var err error
	if u.oldRev, err = proj.InitRepo(base, u.oldTree, 1700000000); err != nil {
		return err
	}
	if _, err = proj.Commit(base, u.newTree, 1700000100, "new"); err != nil {
		return err
	}
	if u.packed {
		if _, err := proj.Git(base, 0, "gc", "-q"); err != nil {
			return err
		}
		packs, _ := filepath.Glob(filepath.Join(base, ".git", "objects", "pack", "*.pack"))
		if len(packs) == 0 {
			return fmt.Errorf("git gc left no pack file")
		}
	}
	cfg := proj.DefaultConfig(u.oldRev)
	cfg.Precision = prec
	cfg.Granularity = pick(r, []string{"line", "patch", "scope", "func"})
	cfg.Race = r.Intn(2) == 0
	cfg.DataType = pick(r, []string{"bool", "count"})
	cfg.SkipNested = r.Intn(4) != 0
	switch r.Intn(4) { // printer settings other than the defaults
	case 1:
		cfg.PrinterModes, cfg.Tabwidth, cfg.Indent = []string{"tabIndent"}, 8, 1
	case 2:
		cfg.PrinterModes, cfg.Tabwidth, cfg.Indent = []string{"useSpaces"}, 4, 2
	}
	u.cfg = cfg
	return nil
}

// treeOf reads the tree without goat.yaml (it contains the thread count itself).
func treeOf(dir string) map[string]string {
	t := proj.ReadTree(dir)
	delete(t, "goat.yaml")
	return t
}

func firstDiff(a, b map[string]string) (string, string) {
	for _, p := range unionKeys(a, b) {
		if a[p] != b[p] {
			la, lb := strings.Split(a[p], "\n"), strings.Split(b[p], "\n")
			for i := 0; i < len(la) || i < len(lb); i++ {
				var x, y string
				if i < len(la) {
					x = la[i]
				}
				if i < len(lb) {
					y = lb[i]
				}
				if x != y {
					_, ina := a[p]
					_, inb := b[p]
					return p, fmt.Sprintf("line %d: threads=1 has %q (file present=%v), this run has %q (file present=%v)", i+1, x, ina, y, inb)
				}
			}
			return p, "contents differ"
		}
	}
	return "", ""
}

// flipMarkers rewrites an instrumented tree in place: some `// +goat:generate` blocks become
// `// +goat:delete` blocks and `// +goat:insert` lines are added after some block ends.
// mode "many": about a third of the blocks in every file; mode "one": exactly one marker in
// exactly one file (the situation in which a lost update of PatchExecutor.changed is visible).
func flipMarkers(dir string, cfg proj.Config, r *rand.Rand, one bool) (files, deletes, inserts int) {
	tree := proj.ReadTree(dir)
	var paths []string
	for p, v := range tree {
		if strings.HasSuffix(p, ".go") && !strings.HasPrefix(p, cfg.PkgPath+"/") && strings.Contains(v, "// +goat:generate") {
			paths = append(paths, p)
		}
	}
	sort.Strings(paths)
	if one && len(paths) > 0 {
		paths = []string{paths[r.Intn(len(paths))]}
	}
	for _, p := range paths {
		lines := strings.Split(tree[p], "\n")
		var out []string
		inGen, touched, didOne := false, false, false
		for _, l := range lines {
			t := strings.TrimSpace(l)
			ind := l[:len(l)-len(strings.TrimLeft(l, " \t"))]
			switch {
			case t == "// +goat:generate":
				inGen = true
				if (!one && r.Intn(3) == 0) || (one && !didOne) {
					l = ind + "// +goat:delete"
					deletes++
					touched, didOne = true, true
				}
			case t == "// +goat:end" && inGen:
				inGen = false
				out = append(out, l)
				if !one && r.Intn(4) == 0 {
					out = append(out, ind+"// +goat:insert")
					inserts++
					touched = true
				}
				continue
			}
			out = append(out, l)
		}
		if touched {
			files++
			os.WriteFile(filepath.Join(dir, p), []byte(strings.Join(out, "\n")), 0644)
		}
	}
	return
}

// runThrGrid runs the three commands of one unit over the grid.
func (c *e2eCtx) runThrGrid(u *thrUnit, r *rand.Rand, sink *c08Sink) {
	base := filepath.Join(u.dir, "base")
	// runStage runs `cmd` from copies of `from` over the grid; returns the directory of the
	// reference result ("" when the reference run itself failed).
	runStage := func(cmd, variant, from string) string {
		refDir := filepath.Join(u.dir, "ref-"+cmd+variant)
		var ref map[string]string
		input := treeOf(from)
		cells := append([]thrCell{}, thrGrid...)
		cells = append(cells, thrCell{1, 1}, thrCell{16, 16}, thrCell{16, 2}) // repetitions
		if variant == "-one" {
			cells = []thrCell{{1, 1}, {16, 16}, {16, 2}, {4, 16}, {16, 16}, {16, 16}}
		}
		for k, cell := range cells {
			d := filepath.Join(u.dir, "run")
			if k == 0 {
				d = refDir
			}
			if err := cpA(from, d); err != nil {
				c.violate("", "harness: "+err.Error(), nil)
				return ""
			}
			cfg := u.cfg
			cfg.Threads = cell.threads
			proj.WriteConfig(d, cfg)
			run := proj.RunGoat(c.goat, d, []string{fmt.Sprintf("GOMAXPROCS=%d", cell.gmp)}, cmd)
			got := treeOf(d)
			rp := map[string]any{"unit": u.desc(), "command": cmd + variant, "threads": cell.threads, "GOMAXPROCS": cell.gmp, "config": cfg,
				"reference": "threads=1 GOMAXPROCS=1", "exit": run.Exit, "stderr_tail": tail(run.Stderr, 1500), "run_index": k,
				"regenerate": fmt.Sprintf("vh e2e threads -seed %d -tier %s (unit %d)", c.seed, c.tier, u.id)}
			c.mu.Lock()
			c.res.Evaluations++
			c.mu.Unlock()
			c.count(fmt.Sprintf("%s%s threads=%d", cmd, variant, cell.threads))
			if strings.Contains(run.Stderr, "concurrent map") || isPanic(run.Stderr) {
				sink.add("crash:"+cmd+variant, 1, fmt.Sprintf("goat %s threads=%d GOMAXPROCS=%d crashed (%s): %s", cmd+variant, cell.threads, cell.gmp, u.desc(),
					firstLine(run.Stderr, "")), rp)
				if k == 0 {
					return ""
				}
				continue
			}
			if run.Exit != 0 {
				if k == 0 {
					// a failure of the sequential run is not a scheduling matter (C01/C10); recorded, stage skipped
					c.count("reference-failed:" + cmd + variant)
					c.mu.Lock()
					c.res.Notes[fmt.Sprintf("unit%d-%s%s", u.id, cmd, variant)] = "threads=1 run exited " + fmt.Sprint(run.Exit) + ": " + lastLine(run.Stderr)
					c.mu.Unlock()
					return ""
				}
				sink.add("exit status:"+cmd+variant, 2, fmt.Sprintf("goat %s exits %d with threads=%d GOMAXPROCS=%d but 0 with threads=1 (%s): %s", cmd+variant, run.Exit,
					cell.threads, cell.gmp, u.desc(), lastLine(run.Stderr)), rp)
				continue
			}
			if k == 0 {
				ref = got
				if p, _ := firstDiff(input, ref); p != "" {
					// distinct = distinct (threads, GOMAXPROCS) cells of this stage; repetitions are not counted again
					seen := map[thrCell]bool{}
					for _, x := range cells {
						seen[x] = true
					}
					c.mu.Lock()
					c.res.NonTrivial += len(seen)
					c.mu.Unlock()
				}
				if cmd == "track" && variant == "" {
					n := 0
					for p, v := range ref {
						if strings.HasSuffix(p, ".go") && strings.Contains(v, "// +goat:generate") {
							n++
						}
					}
					c.sample(fmt.Sprintf("%s -> track instruments %d files", u.desc(), n))
					c.count(fmt.Sprintf("instrumented-files>=30:%v", n >= 30))
				}
				continue
			}
			if p, how := firstDiff(ref, got); p != "" {
				rp["differing_path"] = p
				rp["difference"] = how
				rp["reference_content"] = tail(ref[p], 3000)
				rp["this_content"] = tail(got[p], 3000)
				what := "differs from the threads=1 result"
				if cell.threads == 1 {
					what = "differs between two runs with threads=1 (repetition)"
				}
				sink.add("tree differs:"+cmd+variant, 1, fmt.Sprintf("goat %s threads=%d GOMAXPROCS=%d: working tree %s at %s (%s; %s)", cmd+variant, cell.threads, cell.gmp,
					what, p, how, u.desc()), rp)
			}
		}
		os.RemoveAll(filepath.Join(u.dir, "run"))
		return refDir
	}

	u.trackRef = runStage("track", "", base)
	if u.trackRef == "" {
		u.trackRef = ""
		return
	}
	// patch inputs
	u.patchBase = filepath.Join(u.dir, "patchbase")
	u.patchOne = filepath.Join(u.dir, "patchone")
	if cpA(u.trackRef, u.patchBase) != nil || cpA(u.trackRef, u.patchOne) != nil {
		u.patchBase, u.patchOne = "", ""
		return
	}
	f, d, i := flipMarkers(u.patchBase, u.cfg, r, false)
	c.count(fmt.Sprintf("patch-input: files with flipped markers>=10:%v", f >= 10))
	_, _ = d, i
	if f1, _, _ := flipMarkers(u.patchOne, u.cfg, r, true); f1 != 1 {
		u.patchOne = u.patchBase
	}
	patchRef := runStage("patch", "", u.patchBase)
	if u.patchOne != u.patchBase {
		runStage("patch", "-one", u.patchOne)
	}
	u.cleanBase = patchRef
	if u.cleanBase == "" {
		u.cleanBase = u.trackRef
	}
	runStage("clean", "", u.cleanBase)
}

// threadsSingleFile: the smallest pool there is — exactly ONE changed file (a large entry file).
// With one task the pools' bookkeeping (wait groups, result channels, early exits) has no other
// worker to hide behind: the tree of every thread count must equal the tree of threads = 1.
func (c *e2eCtx) threadsSingleFile() {
	var b strings.Builder
	b.WriteString("package main\n\nimport \"fmt\"\n\nfunc main() {\n\ttotal := 0\n")
	for i := 0; i < 400; i++ {
		fmt.Fprintf(&b, "\ttotal += step%d(total)\n", i%7)
	}
	b.WriteString("\tfmt.Println(total)\n}\n")
	for i := 0; i < 7; i++ {
		fmt.Fprintf(&b, "\nfunc step%d(x int) int {\n\tx += %d\n\treturn x %% 1000\n}\n", i, i+1)
	}
	newMain := b.String()
	oldMain := strings.Replace(newMain, "x += 3", "x += 30", 1)
	base := filepath.Join(c.work, "single")
	defer os.RemoveAll(base)
	tree := func(m string) map[string]string {
		return map[string]string{"go.mod": "module " + proj.Module + "\n\ngo 1.23\n", "main.go": m}
	}
	oldRev, err := proj.InitRepo(base, tree(oldMain), 1700000000)
	if err != nil {
		c.violate("", "harness: "+err.Error(), nil)
		return
	}
	if _, err := proj.Commit(base, tree(newMain), 1700000100, "new"); err != nil {
		c.violate("", "harness: "+err.Error(), nil)
		return
	}
	var ref map[string]string
	for _, prec := range []int{1, 2, 3} {
		for _, th := range []int{1, 2, 4, 16} {
			for rep := 0; rep < 3; rep++ {
				if th == 1 && rep > 0 {
					continue
				}
				d := filepath.Join(c.work, fmt.Sprintf("single-%d-%d-%d", prec, th, rep))
				if err := cpA(base, d); err != nil {
					c.violate("", "harness: "+err.Error(), nil)
					return
				}
				cfg := proj.DefaultConfig(oldRev)
				cfg.Precision, cfg.Threads, cfg.Granularity = prec, th, "line"
				proj.WriteConfig(d, cfg)
				run := proj.RunGoat(c.goat, d, nil, "track")
				t := proj.ReadTree(d)
				delete(t, "goat.yaml")
				os.RemoveAll(d)
				c.mu.Lock()
				c.res.Evaluations++
				c.mu.Unlock()
				c.count("single-file:track")
				if run.Exit != 0 {
					c.violate("C08", fmt.Sprintf("single changed file: goat track threads=%d precision=%d exits %d: %s", th, prec, run.Exit, lastLine(run.Stderr)), map[string]any{"threads": th, "precision": prec})
					return
				}
				if th == 1 {
					ref = t
					continue
				}
				if dd := diffTrees(ref, t); len(dd) > 0 {
					c.violate("C08", fmt.Sprintf("single changed file: goat track threads=%d precision=%d leaves a tree that differs from the threads=1 tree at %v", th, prec, dd[:min(3, len(dd))]),
						map[string]any{"threads": th, "precision": prec, "main_go": t["main.go"]})
					return
				}
			}
		}
	}
}
