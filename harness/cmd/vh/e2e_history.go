package main

import (
	"fmt"
	"math/rand"
	"os"
	"path/filepath"
	"sort"
	"strings"

	"verifharness/internal/proj"
)

// history-pairs (C17): two different histories with identical old-revision tree and identical
// new-revision tree; the real `goat track` must leave byte-identical working trees for precision
// 2, 3 and INIT at every granularity. Plus the exactness clause on unique-line histories through the
// real getDiff.

func init() {
	e2es["history-pairs"] = e2eHistoryPairs
}

// histPlan describes how one repository reaches (oldTree, newTree).
type histPlan struct {
	preSplit  int    // commits before the old revision (1 = the old tree in one commit)
	shape     string // squashed | split | split-reordered | branch-merge
	groups    int    // number of commits the change is split into
	revert    bool   // an added-then-reverted change in between
	nonGo     bool   // extra commits touching only non-Go files (added, edited, removed again)
	timeMode  string // increasing | same-second | feature-older
	packed    bool
	shuffleBy int64
}

func (p histPlan) String() string {
	return fmt.Sprintf("pre=%d %s/%d revert=%v nonGo=%v time=%s packed=%v", p.preSplit, p.shape, p.groups, p.revert, p.nonGo, p.timeMode, p.packed)
}

func changedPaths(o, n map[string]string) []string {
	set := map[string]bool{}
	for p, c := range o {
		if nc, ok := n[p]; !ok || nc != c {
			set[p] = true
		}
	}
	for p := range n {
		if _, ok := o[p]; !ok {
			set[p] = true
		}
	}
	ps := make([]string, 0, len(set))
	for p := range set {
		ps = append(ps, p)
	}
	sort.Strings(ps)
	return ps
}

func applyPaths(base, target map[string]string, paths []string) map[string]string {
	t := cloneTree(base)
	for _, p := range paths {
		if c, ok := target[p]; ok {
			t[p] = c
		} else {
			delete(t, p)
		}
	}
	return t
}

// buildPlanned creates the repository; returns the name usable as oldBranch (tag "vold").
func buildPlanned(dir string, oldTree, newTree map[string]string, pl histPlan) error {
	const t0 = 1700000000
	step := int64(0)
	date := func() int64 {
		if pl.timeMode == "same-second" {
			return t0
		}
		step += 50
		if pl.timeMode == "decreasing" { // every commit is older than its parent
			return t0 + 500000 - step
		}
		return t0 + step
	}
	r := rand.New(rand.NewSource(pl.shuffleBy))
	// --- up to the old revision
	oldPaths := sortedKeys(oldTree)
	pre := pl.preSplit
	if pre > len(oldPaths) {
		pre = len(oldPaths)
	}
	if pre < 1 {
		pre = 1
	}
	if pl.shape == "diverged" && len(oldPaths) >= 2 {
		pre = 2 + r.Intn(2) // the fork point (first commit) must differ from the old revision
		if pre > len(oldPaths) {
			pre = len(oldPaths)
		}
	}
	firstRev := ""
	r.Shuffle(len(oldPaths), func(i, j int) { oldPaths[i], oldPaths[j] = oldPaths[j], oldPaths[i] })
	cur := map[string]string{}
	for i := 0; i < pre; i++ {
		lo, hi := i*len(oldPaths)/pre, (i+1)*len(oldPaths)/pre
		cur = applyPaths(cur, oldTree, oldPaths[lo:hi])
		var err error
		if i == 0 {
			firstRev, err = proj.InitRepo(dir, cur, date())
		} else {
			_, err = proj.Commit(dir, cur, date(), "pre")
		}
		if err != nil {
			return err
		}
	}
	proj.Git(dir, 0, "tag", "init") // a second name of the old revision, spelled like the INIT keyword in lower case
	if _, err := proj.Git(dir, 0, "tag", "vold"); err != nil {
		return err
	}
	// --- from old to new
	ch := changedPaths(oldTree, newTree)
	k := pl.groups
	if k > len(ch) {
		k = len(ch)
	}
	if k < 1 {
		k = 1
	}
	order := append([]string{}, ch...)
	if pl.shape == "split-reordered" || pl.shape == "branch-merge" {
		r.Shuffle(len(order), func(i, j int) { order[i], order[j] = order[j], order[i] })
	}
	group := func(i int) []string { return order[i*len(order)/k : (i+1)*len(order)/k] }
	junk := func(t map[string]string, i int) map[string]string {
		j := cloneTree(t)
		j[fmt.Sprintf("pkg/l0/junk%d.go", i)] = "package l0\n\nfunc Junk() int {\n\treturn 1\n}\n"
		for _, p := range sortedKeys(t) {
			if strings.HasSuffix(p, ".go") && !strings.HasSuffix(p, "_test.go") && strings.HasPrefix(p, "pkg/") {
				j[p] = t[p] + "\nfunc JunkTail() int {\n\treturn 2\n}\n"
				break
			}
		}
		return j
	}
	extras := func(t map[string]string, i int) error {
		if pl.revert && i == 0 {
			if _, err := proj.Commit(dir, junk(t, i), date(), "experiment"); err != nil {
				return err
			}
			if _, err := proj.Commit(dir, t, date(), "revert experiment"); err != nil {
				return err
			}
		}
		if pl.nonGo {
			n := cloneTree(t)
			n["docs/notes.txt"] = fmt.Sprintf("note %d\n", i)
			n["Makefile.inc"] = "all:\n"
			if _, err := proj.Commit(dir, n, date(), "docs"); err != nil {
				return err
			}
			if _, err := proj.Commit(dir, t, date(), "docs removed"); err != nil {
				return err
			}
		}
		return nil
	}
	cur = cloneTree(oldTree)
	switch pl.shape {
	case "squashed":
		if err := extras(cur, 0); err != nil {
			return err
		}
		if _, err := proj.Commit(dir, newTree, date(), "new"); err != nil {
			return err
		}
	case "split", "split-reordered":
		for i := 0; i < k; i++ {
			if err := extras(cur, i); err != nil {
				return err
			}
			cur = applyPaths(cur, newTree, group(i))
			if _, err := proj.Commit(dir, cur, date(), "part"); err != nil {
				return err
			}
		}
	case "diverged":
		// the old revision is NOT an ancestor of the new one: old = tip of main, new = tip of a
		// branch forked from the first commit (whose tree is a strict part of the old tree);
		// with feature-older / decreasing dates the new commit is older than the old one
		if _, err := proj.Git(dir, 0, "checkout", "-q", "-b", "feature", firstRev); err != nil {
			return err
		}
		fdate := date
		if pl.timeMode == "feature-older" {
			fs := int64(0)
			fdate = func() int64 { fs++; return t0 + fs }
		}
		if k >= 3 { // the old tree once more, as a different commit
			if _, err := proj.Commit(dir, oldTree, fdate(), "catch up by hand"); err != nil {
				return err
			}
			if err := extras(cloneTree(oldTree), 0); err != nil {
				return err
			}
		}
		if _, err := proj.Commit(dir, newTree, fdate(), "new"); err != nil {
			return err
		}
	case "branch-merge":
		// feature gets the first half of the groups, main the second half; disjoint files
		if k < 2 {
			k = 2
			if len(order) < 2 {
				// nothing to split: fall back to a feature branch carrying everything and an empty main commit
				k = 1
			}
		}
		half := k / 2
		var featPaths, mainPaths []string
		for i := 0; i < k; i++ {
			if i < half || k == 1 {
				featPaths = append(featPaths, group(i)...)
			} else {
				mainPaths = append(mainPaths, group(i)...)
			}
		}
		fdate, mdate := date, date
		if pl.timeMode == "feature-older" {
			fs, ms := int64(10), int64(3000)
			fdate = func() int64 { fs += 5; return t0 + step + fs }
			mdate = func() int64 { ms += 5; return t0 + step + ms }
		}
		if _, err := proj.Git(dir, 0, "checkout", "-q", "-b", "feature"); err != nil {
			return err
		}
		ft := cloneTree(oldTree)
		for i, p := range featPaths {
			ft = applyPaths(ft, newTree, []string{p})
			if i%2 == 1 || i == len(featPaths)-1 {
				if _, err := proj.Commit(dir, ft, fdate(), "feature"); err != nil {
					return err
				}
			}
		}
		if _, err := proj.Git(dir, 0, "checkout", "-q", "main"); err != nil {
			return err
		}
		if err := extras(cur, 0); err != nil {
			return err
		}
		mt := applyPaths(cur, newTree, mainPaths)
		if _, err := proj.Commit(dir, mt, mdate(), "main work"); err != nil {
			return err
		}
		step += 6000
		if _, err := proj.Git(dir, date(), "merge", "-q", "--no-ff", "-m", "merge feature", "feature"); err != nil {
			return err
		}
	}
	if pl.packed {
		if _, err := proj.Git(dir, 0, "gc", "-q"); err != nil {
			return err
		}
	}
	return nil
}

func randomPlan(r *rand.Rand) histPlan {
	return histPlan{
		preSplit:  1 + r.Intn(3),
		shape:     pick(r, []string{"squashed", "split", "split-reordered", "branch-merge", "diverged"}),
		groups:    2 + r.Intn(5),
		revert:    r.Intn(3) == 0,
		nonGo:     r.Intn(3) == 0,
		timeMode:  pick(r, []string{"increasing", "same-second", "feature-older", "decreasing"}),
		packed:    r.Intn(2) == 0,
		shuffleBy: r.Int63(),
	}
}

func treeHash(dir, rev string) string {
	h, _ := proj.Git(dir, 0, "rev-parse", rev+"^{tree}")
	return h
}

func diffTrees(a, b map[string]string) []string {
	var d []string
	for p, c := range a {
		if bc, ok := b[p]; !ok {
			d = append(d, p+" (only in first)")
		} else if bc != c {
			d = append(d, p+" (content differs)")
		}
	}
	for p := range b {
		if _, ok := a[p]; !ok {
			d = append(d, p+" (only in second)")
		}
	}
	sort.Strings(d)
	return d
}

func e2eHistoryPairs(c *e2eCtx) error {
	n := 20
	if c.thorough() {
		n = 220
	}
	c.res.Rule = fmt.Sprintf("%d generated in-scope multi-package Go projects (old tree, new tree); for each, TWO git histories with identical old-revision tree and identical new-revision tree "+
		"(tree hashes checked with git rev-parse): history A is always the squashed one (old tree in one commit, new tree in one commit, increasing dates, loose store), history B is drawn from "+
		"old tree reached in 1-3 commits × {squashed, split into 2-6 commits, split and reordered, feature branch + main work merged with --no-ff, diverged (old = tip of main is not an ancestor of new = tip of a branch forked before it)} × added-then-reverted change × extra commits touching only non-Go files "+
		"× timestamps {increasing, all in the same second, feature older than main, every commit older than its parent} × {loose, git gc packed}; × precision {2, 3, INIT} (each pair runs all three) × granularity (rotating line/patch/scope/func) × threads {1,4} × appVersion/appName {plain, 7 hex digits}: "+
		"the real `goat track` binary in both, exit status and every file of the work tree outside .git must be byte-identical; non-trivial = the instrumented tree differs from the new revision. "+
		"Exactness clause: %d unique-line histories × precision 1,2,3 through the real getDiff: reported lines = exactly the lines of the new file absent from the old file", n, n*2)
	c.parallel(n, func(i int, r *rand.Rand) {
		p := proj.Generate(r, proj.Opts{InScope: true, RootMain: r.Intn(3) == 0, Decoys: r.Intn(2) == 0})
		oldTree, newTree := p.Files(true), p.Files(false)
		planA := histPlan{preSplit: 1, shape: "squashed", groups: 1, timeMode: "increasing"}
		planB := randomPlan(r)
		if i%4 == 3 { // one pair in four: the old revision is not an ancestor of the new one
			planB.shape = "diverged"
		}
		if r.Intn(5) == 0 { // sometimes compare two non-trivial histories with each other
			planA = randomPlan(r)
		}
		dirA := filepath.Join(c.work, fmt.Sprintf("hp%04da", i))
		dirB := filepath.Join(c.work, fmt.Sprintf("hp%04db", i))
		defer os.RemoveAll(dirA)
		defer os.RemoveAll(dirB)
		if i%5 == 4 {
			// equal trees: in A old and new are the SAME commit, in B a change and its revert lie
			// between them (different commits, identical trees)
			newTree = oldTree
			planA = histPlan{shape: "same-commit"}
			planB = histPlan{shape: "change-then-revert"}
			build := func(dir string, revert bool) error {
				if _, err := proj.InitRepo(dir, oldTree, 1700000000); err != nil {
					return err
				}
				proj.Git(dir, 0, "tag", "init")
				if _, err := proj.Git(dir, 0, "tag", "vold"); err != nil {
					return err
				}
				if !revert {
					return nil
				}
				mod := cloneTree(oldTree)
				for _, k := range sortedKeys(mod) {
					if strings.HasSuffix(k, ".go") && strings.Contains(mod[k], "\nfunc ") {
						mod[k] = mod[k] + "\nfunc AddedThenReverted() int {\n\treturn 7\n}\n"
						break
					}
				}
				if _, err := proj.Commit(dir, mod, 1700000100, "change"); err != nil {
					return err
				}
				_, err := proj.Commit(dir, oldTree, 1700000200, "revert")
				return err
			}
			if err := build(dirA, false); err != nil {
				c.violate("", "harness: history A: "+err.Error(), nil)
				return
			}
			if err := build(dirB, true); err != nil {
				c.violate("", "harness: history B: "+err.Error(), nil)
				return
			}
		} else {
			if err := buildPlanned(dirA, oldTree, newTree, planA); err != nil {
				c.violate("", "harness: history A: "+err.Error(), map[string]any{"plan": planA.String()})
				return
			}
			if err := buildPlanned(dirB, oldTree, newTree, planB); err != nil {
				c.violate("", "harness: history B: "+err.Error(), map[string]any{"plan": planB.String()})
				return
			}
		}
		if treeHash(dirA, "HEAD") != treeHash(dirB, "HEAD") || treeHash(dirA, "vold") != treeHash(dirB, "vold") {
			c.violate("", "harness: the two histories do not have equal end-point trees", map[string]any{"planA": planA.String(), "planB": planB.String()})
			return
		}
		c.count("shapeB:" + planB.shape)
		c.count("timeB:" + planB.timeMode)
		if planB.packed {
			c.count("storeB:packed")
		} else {
			c.count("storeB:loose")
		}
		if planB.revert {
			c.count("B:add-then-revert")
		}
		if planB.nonGo {
			c.count("B:non-go-commits")
		}
		if planB.preSplit > 1 {
			c.count("B:old-tree-in-several-commits")
		}
		gran := []string{"line", "patch", "scope", "func"}[i%4]
		for mi, mode := range []string{"2", "3", "INIT"} {
			cfg := proj.DefaultConfig("vold")
			cfg.Granularity = gran
			cfg.Precision = 2
			switch mode {
			case "3":
				cfg.Precision = 3
			case "INIT":
				cfg.Old = "INIT"
				cfg.Precision = 2 + (i+mi)%2
			}
			if p.ExtraNew["vendor/v/v.go"] != "" {
				cfg.Ignores = []string{".git", "vendor", "testdata", "ignoredir", "pkg/l0/ignored_file.go"}
			}
			// configured values that look like commit metadata must stay what the user wrote
			switch (i + mi) % 3 {
			case 1:
				cfg.AppVersion = "cafe001"
			case 2:
				cfg.AppVersion = "2406001"
				cfg.AppName = "0123abc"
			}
			run := func(dir string, packed bool, prior bool, oldName string) (proj.Run, map[string]string) {
				proj.Git(dir, 0, "reset", "-q", "--hard")
				proj.Git(dir, 0, "clean", "-fdxq")
				if prior {
					// the repository has been used before: a track + clean round at precision 1 on the same
					// two revisions; nothing of it may leak into the measured run (work tree restored by git,
					// whatever the commands keep outside the work tree stays)
					pc := cfg
					pc.Precision = 1
					if pc.Old == "INIT" {
						pc.Old = "vold"
					}
					proj.WriteConfig(dir, pc)
					if proj.RunGoat(c.goat, dir, nil, "track").Exit == 0 {
						proj.RunGoat(c.goat, dir, nil, "clean")
						c.count("A:used-before-at-precision-1")
					}
					proj.Git(dir, 0, "reset", "-q", "--hard")
					proj.Git(dir, 0, "clean", "-fdxq")
				}
				cc := cfg
				if oldName != "" && cc.Old != "INIT" {
					cc.Old = oldName
				}
				cc.Threads = 1
				if (i+mi)%2 == 0 { // loose and packed stores alike (object reads are serialised since fix 11c0d4a)
					cc.Threads = 4
				}
				proj.WriteConfig(dir, cc)
				res := proj.RunGoat(c.goat, dir, nil, "track")
				t := proj.ReadTree(dir)
				delete(t, "goat.yaml") // differs in `threads` only
				return res, t
			}
			// one pair in four names the old revision `init` in history A (a tag spelled like the
			// new-repository keyword INIT in lower case) and `vold` in history B: same contents, other name
			nameA := ""
			if i%4 == 1 {
				nameA = "init"
				c.count("A:old-revision-named-init")
			}
			ra, ta := run(dirA, planA.packed, i%3 == 1, nameA)
			rb, tb := run(dirB, planB.packed, false, "")
			c.mu.Lock()
			c.res.Evaluations++
			c.mu.Unlock()
			c.count("mode:" + mode)
			c.count("gran:" + gran)
			rp := map[string]any{"planA": planA.String(), "planB": planB.String(), "mode": mode, "granularity": gran,
				"old_tree": oldTree, "new_tree": newTree, "exitA": ra.Exit, "exitB": rb.Exit, "stderrA": tail(ra.Stderr, 600), "stderrB": tail(rb.Stderr, 600)}
			if ra.Exit == -1 || rb.Exit == -1 {
				c.violate("", "harness: goat binary could not be started: "+tail(ra.Stderr+rb.Stderr, 200), nil)
				continue
			}
			if ra.Exit != rb.Exit {
				c.violate("C17", fmt.Sprintf("goat track exits %d on one history and %d on another with the same end-point trees (mode %s)", ra.Exit, rb.Exit, mode), rp)
				continue
			}
			if ra.Exit != 0 {
				c.count("track-failed-in-both")
				c.sample("track failed in both: " + tail(ra.Stderr, 300))
				continue
			}
			if d := diffTrees(ta, tb); len(d) > 0 {
				rp["differing_paths"] = d
				c.violate("C17", fmt.Sprintf("instrumented trees differ between two histories with equal end-point trees (mode %s, %s): %s", mode, gran, strings.Join(d[:min(3, len(d))], ", ")), rp)
				continue
			}
			changed := false
			for pth, cnt := range ta {
				if newTree[pth] != cnt {
					changed = true
					break
				}
			}
			if changed {
				c.mu.Lock()
				c.res.NonTrivial++
				c.mu.Unlock()
			}
			if i < 2 && mi == 0 {
				c.sample(fmt.Sprintf("A[%s] vs B[%s] mode=%s gran=%s: identical trees (%d files)", planA, planB, mode, gran, len(ta)))
			}
		}
	})
	// ---- exactness clause through the real getDiff (in-process, serialised by chdirMu)
	ne := n * 2
	built := make([]*histRepo, ne)
	c.parallel(ne, func(i int, r *rand.Rand) {
		built[i] = buildExactHistory(filepath.Join(c.work, fmt.Sprintf("ex%04d", i)), r, func(k string) { c.count("exact:" + k) })
	})
	for i := 0; i < ne; i++ {
		h := built[i]
		dir := h.dir
		if h.err != nil {
			c.violate("", "harness: exact history: "+h.err.Error(), nil)
			continue
		}
		oldTree, err1 := gitTree(dir, h.oldRev)
		newTree, err2 := gitTree(dir, "HEAD")
		if err1 != nil || err2 != nil {
			c.violate("", "harness: git cat-file failed", nil)
			continue
		}
		for _, prec := range []int{1, 2, 3} {
			impl, _, err := realDiff(dir, h.oldRev, prec, 1)
			if err != nil {
				c.violate("C17", fmt.Sprintf("getDiff failed at precision %d on a unique-line history: %v", prec, err), map[string]any{"topology": h.topo})
				continue
			}
			c.mu.Lock()
			c.res.Evaluations++
			c.mu.Unlock()
			c.count(fmt.Sprintf("exact:precision:%d", prec))
			nontrivial := false
			for _, p := range sortedKeys(newTree) {
				if !diffEligible(p) {
					continue
				}
				ls, _ := realLines(newTree[p])
				inOld := map[string]bool{}
				ol, _ := realLines(oldTree[p])
				for _, l := range ol {
					inOld[l] = true
				}
				var want, got []int
				for k, l := range ls {
					if !inOld[l] {
						want = append(want, k+1)
					}
				}
				for _, rg := range impl[p] {
					for k := rg.Start; k < rg.Start+rg.Lines; k++ {
						got = append(got, k)
					}
				}
				if fmt.Sprint(want) != fmt.Sprint(got) {
					c.violate("C17", fmt.Sprintf("precision %d on a unique-line history (%s): reported lines %v, inserted and modified lines %v in %s", prec, h.topo, got, want, p),
						map[string]any{"topology": h.topo, "path": p, "old": oldTree[p], "new": newTree[p], "reported": got, "expected": want})
				}
				if len(want) > 0 {
					nontrivial = true
				}
			}
			if nontrivial {
				c.mu.Lock()
				c.res.NonTrivial++
				c.mu.Unlock()
			}
		}
		os.RemoveAll(dir)
	}
	return nil
}
