package main

import (
	"bytes"
	"fmt"
	"os"
	"os/exec"
	"sort"
	"strconv"
	"strings"

	"github.com/monshunter/goat/pkg/config"
	gdiff "github.com/monshunter/goat/pkg/diff"
	"github.com/monshunter/goat/pkg/goat"
	"verifharness/internal/absast"
)

// The model-predicted instrumentation oracle (E level for the instrumenter): the REAL diff stage
// (hook VerifGetDiff, in-process, before goat track runs) gives the changed-line ranges of every
// file; the Lean model (`marks`, through the driver) predicts from the abstract layout of the
// new revision where tracking blocks must be; the tree goat track left behind is compared with
// that prediction file by file. A block the model demands and the tree lacks is a C03
// violation (a changed statement without its guard), a block the model does not know a C09 one.

type predictedMarks struct {
	diff  map[string][]gdiff.LineChange
	order []string
	err   error
}

func (c *e2eCtx) predictDiff(s *scenario) *predictedMarks {
	res, order, err := realDiffWithConfig(s.dir)
	return &predictedMarks{diff: res, order: order, err: err}
}

// realDiffWithConfig runs the real diff stage in dir under the goat.yaml found there (the same
// configuration the CLI will load: ignores, nested modules, precision, revisions).
func realDiffWithConfig(dir string) (map[string][]gdiff.LineChange, []string, error) {
	chdirMu.Lock()
	defer chdirMu.Unlock()
	cwd, _ := os.Getwd()
	if err := os.Chdir(dir); err != nil {
		return nil, nil, err
	}
	defer os.Chdir(cwd)
	cfg, err := config.LoadConfig(config.ConfigYaml)
	if err != nil {
		return nil, nil, err
	}
	cfg.Threads = 1
	fcs, err := goat.VerifGetDiff(cfg)
	if err != nil {
		return nil, nil, err
	}
	res := map[string][]gdiff.LineChange{}
	var order []string
	for _, fc := range fcs {
		res[fc.Path] = fc.LineChanges
		order = append(order, fc.Path)
	}
	return res, order, nil
}

// specAnswers feeds several request lines to one driver process.
func specAnswers(spec string, reqs []string) ([]string, error) {
	cmd := exec.Command(spec)
	cmd.Stdin = strings.NewReader(strings.Join(reqs, "\n") + "\n")
	var out bytes.Buffer
	cmd.Stdout = &out
	if err := cmd.Run(); err != nil {
		return nil, err
	}
	ls := strings.Split(strings.TrimRight(out.String(), "\n"), "\n")
	if len(ls) != len(reqs) {
		return nil, fmt.Errorf("driver answered %d lines for %d requests", len(ls), len(reqs))
	}
	return ls, nil
}

// posKeys[i] identifies line i (0-based) by what follows it: the number of top-level function
// headers (lines starting with "func " in column 0) after it, and the number of non-blank lines
// from it to the next such header (or the end of the file). Neither the added import, nor
// blank-line changes, nor the re-formatting of a later one-line function (`func main() { … }`
// becomes three lines once the service-start block is written into it) disturb these.
func posKeys(lines []string) [][2]int {
	out := make([][2]int, len(lines)+1)
	funcs, dist := 0, 0
	// the printer may indent the whole file (printerConfigIndent): top level = the indentation
	// of the package clause
	base := ""
	for _, l := range lines {
		if t := strings.TrimLeft(l, " \t"); strings.HasPrefix(t, "package ") {
			base = l[:len(l)-len(t)]
			break
		}
	}
	// lines that begin inside a raw string literal are text, not declarations (the printer does
	// not re-indent them either)
	inRaw := make([]bool, len(lines)+1)
	for i, l := range lines {
		inRaw[i+1] = inRaw[i] != (strings.Count(l, "`")%2 == 1)
	}
	for i := len(lines) - 1; i >= 0; i-- {
		if !inRaw[i] && strings.HasPrefix(lines[i], base+"func ") {
			out[i] = [2]int{funcs, dist + 1}
			funcs++
			dist = 0
			continue
		}
		if strings.TrimSpace(lines[i]) != "" {
			dist++
		}
		out[i] = [2]int{funcs, dist}
	}
	return out
}

// observedBlocks strips the marker blocks from an instrumented file and returns, per
// +goat:generate block, the number of non-blank user lines that follow it (a position that
// neither the added import nor blank-line changes disturb), in file order.
func observedBlocks(content string) (keys [][2]int, blocks int) {
	lines := strings.Split(content, "\n")
	var stripped []string
	var at []int // index into stripped where a generate block was removed
	for i := 0; i < len(lines); i++ {
		t := strings.TrimSpace(lines[i])
		if strings.HasPrefix(t, "// +goat:generate") || strings.HasPrefix(t, "// +goat:main") {
			isGen := strings.HasPrefix(t, "// +goat:generate")
			j := i
			for j < len(lines) && !strings.HasPrefix(strings.TrimSpace(lines[j]), "// +goat:end") {
				j++
			}
			if j < len(lines) {
				if isGen {
					at = append(at, len(stripped))
					blocks++
				}
				i = j
				continue
			}
		}
		stripped = append(stripped, lines[i])
	}
	suf := posKeys(stripped)
	for _, k := range at {
		keys = append(keys, suf[k])
	}
	return keys, blocks
}

func (c *e2eCtx) judgeMarks(s *scenario, pm *predictedMarks, after map[string]string, rp func(map[string]any) map[string]any) {
	if c.spec == "" {
		return
	}
	if pm.err != nil {
		c.violate("", "harness: the in-process diff stage failed before goat track: "+pm.err.Error(), nil)
		return
	}
	paths := append([]string{}, pm.order...)
	sort.Strings(paths)
	var reqs []string
	type ent struct {
		path   string
		iLoad  int
		iMarks int
		lines  []string
	}
	var ents []ent
	for _, p := range paths {
		src, ok := s.newTree[p]
		if !ok || !strings.HasSuffix(p, ".go") || len(pm.diff[p]) == 0 {
			continue
		}
		enc, err := absast.Encode([]byte(src))
		if err != nil {
			continue
		}
		parts := []string{fmt.Sprint(len(pm.diff[p]))}
		for _, lc := range pm.diff[p] {
			parts = append(parts, fmt.Sprintf("%d,%d", lc.Start, lc.Lines))
		}
		e := ent{path: p, iLoad: len(reqs), lines: strings.Split(src, "\n")}
		reqs = append(reqs, "load "+enc.Tokens)
		e.iMarks = len(reqs)
		reqs = append(reqs, fmt.Sprintf("marks %s %s", s.cfg.Granularity, strings.Join(parts, " ")))
		ents = append(ents, e)
	}
	if len(reqs) == 0 {
		return
	}
	ans, err := specAnswers(c.spec, reqs)
	if err != nil {
		c.violate("", "harness: driver failed on the marks prediction: "+err.Error(), nil)
		return
	}
	for _, e := range ents {
		a := ans[e.iMarks]
		if !strings.HasPrefix(a, "ok ") {
			c.count("predict:model-" + strings.Fields(a + " ?")[0])
			continue // the model predicts a failure of the tracker (recorded defect classes): judged elsewhere
		}
		f := strings.Split(a, "|")
		if len(f) < 3 {
			continue
		}
		count, _ := strconv.Atoi(strings.TrimSpace(strings.TrimPrefix(f[0], "ok ")))
		var multi []int
		for _, t := range strings.Fields(f[1]) {
			n, _ := strconv.Atoi(t)
			multi = append(multi, n)
		}
		singles := len(strings.Fields(f[2]))
		got, blocks := observedBlocks(after[e.path])
		c.count("predict:files")
		if blocks != count {
			tag := "C03"
			if blocks > count {
				tag = "C09"
			}
			c.violate(tag, fmt.Sprintf("%s: the model predicts %d tracking blocks for the diff's changed lines %v (granularity %s), the instrumented file has %d",
				e.path, count, pm.diff[e.path], s.cfg.Granularity, blocks), rp(map[string]any{"file": e.path, "model": a, "content": after[e.path]}))
			continue
		}
		if singles > 0 {
			c.count("predict:files-with-single-line-bodies(count only)")
			continue
		}
		suf := posKeys(e.lines)
		var want [][2]int
		sort.Ints(multi)
		for _, l := range multi {
			if l >= 1 && l <= len(e.lines) {
				want = append(want, suf[l-1])
			}
		}
		if fmt.Sprint(want) != fmt.Sprint(got) {
			c.violate("C03,C09", fmt.Sprintf("%s: tracking blocks are not where the model puts them for the diff's changed lines %v (granularity %s): model lines %v (as [functions after, non-blank lines to the next function] %v), found blocks at %v",
				e.path, pm.diff[e.path], s.cfg.Granularity, multi, want, got), rp(map[string]any{"file": e.path, "model": a, "content": after[e.path]}))
		}
	}
}
