package main

import (
	"crypto/sha256"
	"fmt"
	"io"
	"math/rand"
	"os"
	"path/filepath"
	"sort"
	"strconv"
	"strings"
	"time"

	"verifharness/internal/oracle"
	"verifharness/internal/proj"
)

func init() {
	e2es["refusals"] = e2eRefusals
	e2es["crash"] = e2eCrash
}

func copyDir(src, dst string) error {
	return filepath.Walk(src, func(path string, info os.FileInfo, err error) error {
		if err != nil {
			return err
		}
		rel, _ := filepath.Rel(src, path)
		target := filepath.Join(dst, rel)
		if info.IsDir() {
			return os.MkdirAll(target, 0755)
		}
		in, err := os.Open(path)
		if err != nil {
			return err
		}
		defer in.Close()
		out, err := os.OpenFile(target, os.O_CREATE|os.O_WRONLY|os.O_TRUNC, info.Mode().Perm())
		if err != nil {
			return err
		}
		defer out.Close()
		_, err = io.Copy(out, in)
		return err
	})
}

// snapshot hashes every file of the working tree plus the git index, HEAD, refs and packed-refs
// (objects and logs are left out: they are append-only stores, not part of the property).
func snapshot(dir string) map[string]string {
	out := map[string]string{}
	filepath.Walk(dir, func(path string, info os.FileInfo, err error) error {
		if err != nil {
			return nil
		}
		rel, _ := filepath.Rel(dir, path)
		if info.IsDir() {
			if rel == ".git/objects" || rel == ".git/logs" || rel == ".git/hooks" {
				return filepath.SkipDir
			}
			out[rel+"/"] = "dir"
			return nil
		}
		if rel == ".git/verif-writelog" {
			return nil
		}
		b, _ := os.ReadFile(path)
		out[rel] = fmt.Sprintf("%x", sha256.Sum256(b))
		return nil
	})
	return out
}

func diffSnap(a, b map[string]string) []string {
	var d []string
	for k, v := range a {
		if b[k] != v {
			d = append(d, k)
		}
	}
	for k := range b {
		if _, ok := a[k]; !ok {
			d = append(d, k)
		}
	}
	sort.Strings(d)
	return d
}

type refusal struct {
	name string
	cmd  []string
	// prepare mutates the prepared, valid project directory; returns false to skip
	prepare func(s *scenario, r *rand.Rand) bool
	// expectOK: the command must succeed (and still change nothing)
	expectOK bool
	// anyOutcome: a valid set-up; the command may succeed and write — only "non-zero exit
	// with a changed tree or a reached write boundary" is a violation (failed ⇒ untouched)
	anyOutcome bool
}

// e2eRefusals: each precondition-violation scenario × generated project × configuration, the
// violation injected into an otherwise valid set-up; oracle: non-zero exit, empty write log,
// identical hashes of every working-tree file, the git index, HEAD and every ref.
func e2eRefusals(c *e2eCtx) error {
	writeCfg := func(s *scenario, mut func(*proj.Config)) {
		cfg := s.cfg
		mut(&cfg)
		proj.WriteConfig(s.dir, cfg)
	}
	brokenGo := "package l0\n\nfunc Broken( {\n"
	kinds := []refusal{
		{"not-a-go-module", []string{"track"}, func(s *scenario, r *rand.Rand) bool { os.Remove(filepath.Join(s.dir, "go.mod")); return true }, false, false},
		{"not-a-git-repository", []string{"track"}, func(s *scenario, r *rand.Rand) bool {
			return os.Rename(filepath.Join(s.dir, ".git"), filepath.Join(s.dir, "..", filepath.Base(s.dir)+".gitmoved")) == nil
		}, false, false},
		{"missing-config-track", []string{"track"}, func(s *scenario, r *rand.Rand) bool { os.Remove(filepath.Join(s.dir, "goat.yaml")); return true }, false, false},
		{"missing-config-patch", []string{"patch"}, func(s *scenario, r *rand.Rand) bool { os.Remove(filepath.Join(s.dir, "goat.yaml")); return true }, false, false},
		{"missing-config-clean", []string{"clean"}, func(s *scenario, r *rand.Rand) bool { os.Remove(filepath.Join(s.dir, "goat.yaml")); return true }, false, false},
		{"invalid-granularity", []string{"track"}, func(s *scenario, r *rand.Rand) bool {
			writeCfg(s, func(c *proj.Config) { c.Granularity = "bogus" })
			return true
		}, false, false},
		{"invalid-precision", []string{"track"}, func(s *scenario, r *rand.Rand) bool {
			writeCfg(s, func(c *proj.Config) { c.Precision = 7 })
			return true
		}, false, false},
		{"invalid-datatype", []string{"patch"}, func(s *scenario, r *rand.Rand) bool {
			writeCfg(s, func(c *proj.Config) { c.DataType = "float" })
			return true
		}, false, false},
		{"invalid-printer-mode", []string{"clean"}, func(s *scenario, r *rand.Rand) bool {
			writeCfg(s, func(c *proj.Config) { c.PrinterModes = []string{"useSpaces", "wide"} })
			return true
		}, false, false},
		{"malformed-yaml", []string{"track"}, func(s *scenario, r *rand.Rand) bool {
			os.WriteFile(filepath.Join(s.dir, "goat.yaml"), []byte("appName: [unclosed\n  - x: {\n"), 0644)
			return true
		}, false, false},
		{"init-existing-config", []string{"init"}, func(s *scenario, r *rand.Rand) bool { return true }, false, false},
		{"init-invalid-granularity", []string{"init", "--force", "--granularity", "bogus"}, func(s *scenario, r *rand.Rand) bool { return true }, false, false},
		{"init-invalid-precision", []string{"init", "--force", "--diff-precision", "0"}, func(s *scenario, r *rand.Rand) bool { return true }, false, false},
		{"init-invalid-datatype-nofile", []string{"init", "--data-type", "x"}, func(s *scenario, r *rand.Rand) bool { os.Remove(filepath.Join(s.dir, "goat.yaml")); return true }, false, false},
		{"unresolvable-old-revision", []string{"track"}, func(s *scenario, r *rand.Rand) bool {
			if s.cfg.Old == "INIT" {
				return false
			}
			writeCfg(s, func(c *proj.Config) { c.Old = "no-such-branch" })
			return true
		}, false, false},
		{"unresolvable-new-revision", []string{"track"}, func(s *scenario, r *rand.Rand) bool {
			if s.cfg.Old == "INIT" {
				return false
			}
			writeCfg(s, func(c *proj.Config) { c.New = "no-such-branch" })
			return true
		}, false, false},
		{"new-revision-not-head", []string{"track"}, func(s *scenario, r *rand.Rand) bool {
			if s.cfg.Old == "INIT" {
				return false
			}
			writeCfg(s, func(c *proj.Config) { c.New = s.oldRev })
			return true
		}, false, false},
		{"uncommitted-change", []string{"track"}, func(s *scenario, r *rand.Rand) bool {
			for _, p := range sortedKeys(s.newTree) {
				if strings.HasSuffix(p, ".go") {
					os.WriteFile(filepath.Join(s.dir, p), []byte(s.newTree[p]+"\n// edited\n"), 0644)
					return true
				}
			}
			return false
		}, false, false},
		{"uncommitted-change-and-empty-app-version", []string{"track"}, func(s *scenario, r *rand.Rand) bool {
			// goat.yaml leaves appVersion empty (it is resolved when the configuration is loaded):
			// loading must not write anything back, the command is refused further down
			writeCfg(s, func(c *proj.Config) { c.AppVersion = "" })
			for _, p := range sortedKeys(s.newTree) {
				if strings.HasSuffix(p, ".go") {
					os.WriteFile(filepath.Join(s.dir, p), []byte(s.newTree[p]+"\n// edited\n"), 0644)
					return true
				}
			}
			return false
		}, false, false},
		{"staged-change", []string{"track"}, func(s *scenario, r *rand.Rand) bool {
			for _, p := range sortedKeys(s.newTree) {
				if strings.HasSuffix(p, ".go") {
					os.WriteFile(filepath.Join(s.dir, p), []byte(s.newTree[p]+"\n// staged\n"), 0644)
					_, err := proj.Git(s.dir, 0, "add", p)
					return err == nil
				}
			}
			return false
		}, false, false},
		{"staged-new-file", []string{"track"}, func(s *scenario, r *rand.Rand) bool {
			os.WriteFile(filepath.Join(s.dir, "staged_new.go"), []byte("package main\n"), 0644)
			_, err := proj.Git(s.dir, 0, "add", "staged_new.go")
			return err == nil
		}, false, false},
		{"already-instrumented", []string{"track"}, func(s *scenario, r *rand.Rand) bool {
			// a committed instrumented tree: the generated file exists, the work tree is clean
			if run := proj.RunGoat(c.goat, s.dir, nil, "track"); run.Exit != 0 {
				return false
			}
			if _, err := os.Stat(filepath.Join(s.dir, s.cfg.PkgPath, "goat_generated.go")); err != nil {
				return false
			}
			proj.Git(s.dir, 0, "add", "-A")
			_, err := proj.Git(s.dir, 1700000200, "commit", "-q", "-m", "instrumented")
			return err == nil
		}, false, false},
		{"changed-file-does-not-parse", []string{"track"}, func(s *scenario, r *rand.Rand) bool {
			t := map[string]string{}
			for k, v := range s.newTree {
				t[k] = v
			}
			t["pkg/l0/broken.go"] = brokenGo
			_, err := proj.Commit(s.dir, t, 1700000200, "broken")
			proj.WriteConfig(s.dir, s.cfg)
			return err == nil
		}, false, false},
		{"changed-file-broken-by-unterminated-tail", []string{"track"}, func(s *scenario, r *rand.Rand) bool {
			// the only change of one file is text after its final newline (a stray brace, no trailing
			// newline) that makes it unparsable; precision 1 (blame sees the line; at precision 2/3 the
			// unterminated last line is the recorded finding D-C04-2)
			t := map[string]string{}
			done := false
			for _, k := range sortedKeys(s.newTree) {
				v := s.newTree[k]
				t[k] = v
				if !done && strings.HasSuffix(k, ".go") && strings.HasPrefix(k, "pkg/") && !strings.HasSuffix(k, "_test.go") && strings.HasSuffix(v, "}\n") &&
					eligible(k, s.cfg) && s.oldTree[k] == v {
					t[k] = v + "}"
					done = true
				}
			}
			if !done {
				return false
			}
			if _, err := proj.Commit(s.dir, t, 1700000200, "stray brace at EOF"); err != nil {
				return false
			}
			cfg := s.cfg
			cfg.Precision = 1
			cfg.Old = s.oldRev
			s.cfg = cfg
			return proj.WriteConfig(s.dir, cfg) == nil
		}, false, false},
		{"no-main-package", []string{"track"}, func(s *scenario, r *rand.Rand) bool {
			t := map[string]string{}
			for k, v := range s.newTree {
				isMain := false
				for _, pk := range s.p.Pkgs {
					if pk.IsMain && filepath.Dir(k) == pk.Dir && strings.HasSuffix(k, ".go") {
						isMain = true
					}
				}
				if !isMain {
					t[k] = v
				}
			}
			_, err := proj.Commit(s.dir, t, 1700000200, "no mains")
			proj.WriteConfig(s.dir, s.cfg)
			return err == nil
		}, false, false},
		{"no-main-package-patch", []string{"patch"}, func(s *scenario, r *rand.Rand) bool {
			t := map[string]string{}
			for k, v := range s.newTree {
				isMain := false
				for _, pk := range s.p.Pkgs {
					if pk.IsMain && filepath.Dir(k) == pk.Dir && strings.HasSuffix(k, ".go") {
						isMain = true
					}
				}
				if !isMain {
					t[k] = v
				}
			}
			_, err := proj.Commit(s.dir, t, 1700000200, "no mains")
			proj.WriteConfig(s.dir, s.cfg)
			return err == nil
		}, false, false},
		{"clean-unparsable-marked-file", []string{"clean"}, func(s *scenario, r *rand.Rand) bool {
			if run := proj.RunGoat(c.goat, s.dir, nil, "track"); run.Exit != 0 {
				return false
			}
			// a hand-marked file that does not parse, sorted after the instrumented ones
			return os.WriteFile(filepath.Join(s.dir, "pkg", "l0", "zz_broken.go"), []byte("package l0\n\n// +goat:insert\nfunc Broken( {\n"), 0644) == nil
		}, false, false},
		{"patch-unparsable-marked-file", []string{"patch"}, func(s *scenario, r *rand.Rand) bool {
			if run := proj.RunGoat(c.goat, s.dir, nil, "track"); run.Exit != 0 {
				return false
			}
			return os.WriteFile(filepath.Join(s.dir, "pkg", "l0", "zz_broken.go"), []byte("package l0\n\n// +goat:insert\nfunc Broken( {\n"), 0644) == nil
		}, false, false},
		{"nothing-to-instrument-comments-only", []string{"track"}, func(s *scenario, r *rand.Rand) bool {
			// HEAD differs from the old revision only in comments and a type declaration; the printer
			// settings differ from gofmt's, so re-printing a file would change its bytes
			t := map[string]string{}
			n := 0
			for k, v := range s.newTree {
				t[k] = v
				if strings.HasSuffix(k, ".go") && n < 3 && strings.Contains(v, "\nfunc ") {
					t[k] = strings.Replace(v, "\nfunc ", "\n// reviewed\nfunc ", 1) + "\n// Extra is only a type.\ntype Extra" + fmt.Sprint(n) + " struct{ A int }\n"
					n++
				}
			}
			if _, err := proj.Commit(s.dir, t, 1700000200, "comments only"); err != nil {
				return false
			}
			cfg := s.cfg
			cfg.Old = s.newRev
			cfg.PrinterModes = []string{"useSpaces"}
			cfg.Tabwidth = 4
			s.cfg = cfg
			return proj.WriteConfig(s.dir, cfg) == nil
		}, true, false},
		{"nothing-to-instrument", []string{"track"}, func(s *scenario, r *rand.Rand) bool {
			writeCfg(s, func(c *proj.Config) { c.Old = "HEAD" })
			return true
		}, true, false},
		{"patch-without-markers", []string{"patch"}, func(s *scenario, r *rand.Rand) bool { return true }, true, false},
		{"clean-without-artefacts", []string{"clean"}, func(s *scenario, r *rand.Rand) bool { return true }, true, false},
		{"clean-without-artefacts-dot-file-in-package-directory", []string{"clean"}, func(s *scenario, r *rand.Rand) bool {
			// the user's own dot file is the only entry of the (never instrumented) tracking package directory
			d := filepath.Join(s.dir, s.cfg.PkgPath)
			if os.MkdirAll(d, 0o755) != nil || os.WriteFile(filepath.Join(d, ".gitignore"), []byte("goat_generated.go\n"), 0o644) != nil {
				return false
			}
			if _, err := proj.Git(s.dir, 1700000200, "add", "-A"); err != nil {
				return false
			}
			_, err := proj.Git(s.dir, 1700000200, "commit", "-q", "-m", "ignore the generated file")
			return err == nil
		}, true, false},
		{"patch-without-markers-after-unformatted-edit", []string{"patch"}, func(s *scenario, r *rand.Rand) bool {
			// instrumented tree, then a hand edit that is valid Go but not in go/printer layout, no marker
			if run := proj.RunGoat(c.goat, s.dir, nil, "track"); run.Exit != 0 {
				return false
			}
			tree := proj.ReadTree(s.dir)
			for _, k := range sortedKeys(tree) {
				if strings.HasSuffix(k, ".go") && strings.Contains(tree[k], "// +goat:generate") && eligible(k, s.cfg) {
					return os.WriteFile(filepath.Join(s.dir, k), []byte(tree[k]+"\nvar   HandEdit"+"   =   [...]int{1,2,\n3}\n"), 0644) == nil
				}
			}
			return false
		}, true, false},
		// valid but unusual set-ups: whatever the command decides, a failure must leave the tree alone
		{"valid-main-entries-with-missing-directory", []string{"track"}, func(s *scenario, r *rand.Rand) bool {
			writeCfg(s, func(c *proj.Config) { c.MainEntries = []string{"cmd/m0", "cmd/does-not-exist", "./cmd/m0/"} })
			return true
		}, false, true},
		{"valid-track", []string{"track"}, func(s *scenario, r *rand.Rand) bool { return true }, false, true},
		{"valid-track-symlinked-go-file", []string{"track"}, func(s *scenario, r *rand.Rand) bool {
			// two more main packages share one source file through a symbolic link, added in one more
			// commit together with a change: whatever goat makes of the link, it decides before it writes
			src := "package main\n\n// Version is shared by two commands through a symbolic link.\nfunc Version(a int) int {\n\ta += 7\n\treturn a\n}\n"
			mainSrc := "package main\n\nfunc main() {\n\tprintln(Version(1))\n}\n"
			for _, d := range []string{"cmd/zsrc", "cmd/zlink"} {
				if os.MkdirAll(filepath.Join(s.dir, d), 0o755) != nil || os.WriteFile(filepath.Join(s.dir, d, "main.go"), []byte(mainSrc), 0o644) != nil {
					return false
				}
			}
			if os.WriteFile(filepath.Join(s.dir, "cmd/zsrc/version.go"), []byte(src), 0o644) != nil {
				return false
			}
			if os.Symlink("../zsrc/version.go", filepath.Join(s.dir, "cmd/zlink/version.go")) != nil {
				return false
			}
			if _, err := proj.Git(s.dir, 1700000200, "add", "-A", "--", "cmd/zsrc", "cmd/zlink"); err != nil {
				return false
			}
			_, err := proj.Git(s.dir, 1700000200, "commit", "-q", "-m", "two commands sharing a file through a symbolic link")
			writeCfg(s, func(c *proj.Config) { c.New = "HEAD" })
			return err == nil
		}, false, true},
		{"valid-track-package-path-through-a-regular-file", []string{"track"}, func(s *scenario, r *rand.Rand) bool {
			// the tracking package directory cannot be created (a path segment is a committed regular
			// file): the command fails at its very first write, with nothing touched
			if os.WriteFile(filepath.Join(s.dir, "LICENSE"), []byte("MIT\n"), 0o644) != nil {
				return false
			}
			if _, err := proj.Git(s.dir, 1700000200, "add", "LICENSE"); err != nil {
				return false
			}
			if _, err := proj.Git(s.dir, 1700000200, "commit", "-q", "-m", "license"); err != nil {
				return false
			}
			writeCfg(s, func(c *proj.Config) { c.PkgPath = "LICENSE/goat"; c.New = "HEAD" })
			return true
		}, false, true},
		{"valid-track-alias-equals-an-imported-package-name", []string{"track"}, func(s *scenario, r *rand.Rand) bool {
			// the alias of the tracking package is the name under which a main package already imports
			// a library; one more commit changes only that library, so the main file itself has no
			// changed line and gets its import in the main-entry phase. Whether goat copes with the
			// clash or not, it must not find out after it has written
			for _, pk := range s.p.Pkgs {
				if !pk.IsMain || len(pk.Imports) == 0 {
					continue
				}
				lib := s.p.Pkgs[pk.Imports[0]]
				if lib.Dir == "." {
					continue
				}
				for _, rel := range sortedKeys(s.newTree) {
					if filepath.Dir(rel) != lib.Dir || !eligible(rel, s.cfg) {
						continue
					}
					src := strings.TrimRight(s.newTree[rel], "\n") + "\n\n// ZZNew is all the last commit adds.\nfunc ZZNew() int {\n\tx := 1\n\treturn x\n}\n"
					if os.WriteFile(filepath.Join(s.dir, rel), []byte(src), 0644) != nil {
						return false
					}
					if _, err := proj.Git(s.dir, 0, "add", rel); err != nil {
						return false
					}
					if _, err := proj.Git(s.dir, 1700000200, "commit", "-q", "-m", "library only"); err != nil {
						return false
					}
					old := s.newRev
					writeCfg(s, func(c *proj.Config) { c.Old, c.New, c.Alias = old, "HEAD", filepath.Base(lib.Dir) })
					return true
				}
			}
			return false
		}, false, true},
		{"valid-patch-after-delete-marker", []string{"patch"}, func(s *scenario, r *rand.Rand) bool {
			if run := proj.RunGoat(c.goat, s.dir, nil, "track"); run.Exit != 0 {
				return false
			}
			n := 0
			for rel := range s.newTree {
				if !strings.HasSuffix(rel, ".go") || n >= 2 {
					continue
				}
				b, err := os.ReadFile(filepath.Join(s.dir, rel))
				if err != nil || !strings.Contains(string(b), "// +goat:generate") {
					continue
				}
				os.WriteFile(filepath.Join(s.dir, rel), []byte(strings.Replace(string(b), "// +goat:generate", "// +goat:delete", 1)), 0644)
				n++
			}
			return n > 0
		}, false, true},
		{"valid-clean-after-track", []string{"clean"}, func(s *scenario, r *rand.Rand) bool {
			return proj.RunGoat(c.goat, s.dir, nil, "track").Exit == 0
		}, false, true},
		{"valid-patch-with-unusual-package-name", []string{"patch"}, func(s *scenario, r *rand.Rand) bool {
			// the configuration layer accepts any package name; whatever the later stages think of
			// it, a failure must not come after the sources were rewritten
			if run := proj.RunGoat(c.goat, s.dir, nil, "track"); run.Exit != 0 {
				return false
			}
			n := 0
			for rel := range s.newTree {
				if !strings.HasSuffix(rel, ".go") || n >= 1 {
					continue
				}
				b, err := os.ReadFile(filepath.Join(s.dir, rel))
				if err != nil || !strings.Contains(string(b), "// +goat:generate") {
					continue
				}
				os.WriteFile(filepath.Join(s.dir, rel), []byte(strings.Replace(string(b), "// +goat:generate", "// +goat:delete", 1)), 0644)
				n++
			}
			writeCfg(s, func(c *proj.Config) { c.PkgName = "goat-cov" })
			return n > 0
		}, false, true},
		{"valid-init-yaml-special-values", []string{"init", "--force", "--app-name", "billing: api", "--ignores", "*.pb.go,vendor"}, func(s *scenario, r *rand.Rand) bool { return true }, false, true},
		{"valid-init-force", []string{"init", "--force", "--app-name", "x y", "--granularity", "func"}, func(s *scenario, r *rand.Rand) bool { return true }, false, true},
	}
	// what the Lean plan (Cmd.plan) is told about each scenario: flag overrides of a valid
	// environment and the refusal it must predict ("" = ok without writes)
	model := map[string]struct {
		over   map[string]bool
		reason string
	}{
		"not-a-go-module":                                       {map[string]bool{"goMod": false}, "not-go-module"},
		"not-a-git-repository":                                  {map[string]bool{"dotGit": false}, "not-git-repo"},
		"missing-config-track":                                  {map[string]bool{"configExists": false}, "config-missing"},
		"missing-config-patch":                                  {map[string]bool{"configExists": false}, "config-missing"},
		"missing-config-clean":                                  {map[string]bool{"configExists": false}, "config-missing"},
		"invalid-granularity":                                   {map[string]bool{"configValid": false}, "config-invalid"},
		"invalid-precision":                                     {map[string]bool{"configValid": false}, "config-invalid"},
		"invalid-datatype":                                      {map[string]bool{"configValid": false}, "config-invalid"},
		"invalid-printer-mode":                                  {map[string]bool{"configValid": false}, "config-invalid"},
		"malformed-yaml":                                        {map[string]bool{"configParses": false}, "config-invalid"},
		"init-existing-config":                                  {map[string]bool{}, "config-exists"},
		"init-invalid-granularity":                              {map[string]bool{"force": true, "initFlagsValid": false}, "config-invalid"},
		"init-invalid-precision":                                {map[string]bool{"force": true, "initFlagsValid": false}, "config-invalid"},
		"init-invalid-datatype-nofile":                          {map[string]bool{"configExists": false, "initFlagsValid": false}, "config-invalid"},
		"unresolvable-old-revision":                             {map[string]bool{"oldResolves": false}, "old-unresolvable"},
		"unresolvable-new-revision":                             {map[string]bool{"newResolves": false}, "new-unresolvable"},
		"new-revision-not-head":                                 {map[string]bool{"newIsHead": false}, "new-not-head"},
		"uncommitted-change":                                    {map[string]bool{"worktreeClean": false}, "uncommitted"},
		"uncommitted-change-and-empty-app-version":              {map[string]bool{"worktreeClean": false}, "uncommitted"},
		"staged-change":                                         {map[string]bool{"worktreeClean": false}, "uncommitted"},
		"staged-new-file":                                       {map[string]bool{"worktreeClean": false}, "uncommitted"},
		"already-instrumented":                                  {map[string]bool{"generatedExists": true}, "already-instrumented"},
		"changed-file-does-not-parse":                           {map[string]bool{"changedFilesParse": false}, "parse-error"},
		"no-main-package":                                       {map[string]bool{"hasMain": false}, "no-main"},
		"no-main-package-patch":                                 {map[string]bool{"hasMain": false}, "no-main"},
		"nothing-to-instrument":                                 {map[string]bool{"hasPoints": false}, ""},
		"nothing-to-instrument-comments-only":                   {map[string]bool{"hasPoints": false}, ""},
		"clean-unparsable-marked-file":                          {map[string]bool{"changedFilesParse": false, "generatedExists": true}, "parse-error"},
		"patch-unparsable-marked-file":                          {map[string]bool{"changedFilesParse": false, "generatedExists": true}, "parse-error"},
		"patch-without-markers":                                 {map[string]bool{"hasMarkers": false}, ""},
		"patch-without-markers-after-unformatted-edit":          {map[string]bool{"hasMarkers": false, "generatedExists": true}, ""},
		"changed-file-broken-by-unterminated-tail":              {map[string]bool{"changedFilesParse": false}, "parse-error"},
		"clean-without-artefacts":                               {map[string]bool{"hasMarkers": false}, ""},
		"clean-without-artefacts-dot-file-in-package-directory": {map[string]bool{"hasMarkers": false}, ""},
	}
	flagOrder := []string{"goMod", "dotGit", "configExists", "configParses", "configValid", "force", "initFlagsValid", "generatedExists", "isInit",
		"worktreeClean", "oldResolves", "newResolves", "newIsHead", "changedFilesParse", "hasMain", "hasPoints", "hasMarkers"}
	per := 2
	if c.thorough() {
		per = 12
	}
	c.res.Rule = fmt.Sprintf("%d precondition-violation scenarios (and 3 'nothing to do' scenarios that must succeed) × %d generated projects/configurations each, the violation injected into an otherwise valid set-up; "+
		"oracle: exit status, empty write log (hook at every write boundary), identical sha256 of every working-tree file, .git/index, HEAD, refs, packed-refs, config before/after; non-trivial = the scenario applied", len(kinds), per)
	type job struct {
		k refusal
		j int
	}
	var jobs []job
	for _, k := range kinds {
		for j := 0; j < per; j++ {
			jobs = append(jobs, job{k, j})
		}
	}
	c.parallel(len(jobs), func(i int, r *rand.Rand) {
		k := jobs[i].k
		s, err := c.newScenario(i, r, proj.Opts{InScope: true, SmallBody: true, Libs: 2, Mains: 1 + r.Intn(2)}, randomConfig)
		if err != nil {
			c.violate("", "harness: "+err.Error(), nil)
			return
		}
		defer os.RemoveAll(s.dir)
		defer os.RemoveAll(filepath.Join(s.dir, "..", filepath.Base(s.dir)+".gitmoved"))
		if !k.prepare(s, r) {
			c.count("skipped:" + k.name)
			return
		}
		// stale stat data: tracked files re-saved with the same bytes (an editor, a formatter, goat
		// clean) — a status query must not refresh .git/index on its way to a refusal
		if r.Intn(2) == 0 {
			n := 0
			for rel := range s.newTree {
				if n < 3 {
					if b, err := os.ReadFile(filepath.Join(s.dir, rel)); err == nil {
						os.WriteFile(filepath.Join(s.dir, rel), b, 0644)
						future := time.Now().Add(time.Duration(3600+n) * time.Second)
						os.Chtimes(filepath.Join(s.dir, rel), future, future)
						n++
					}
				}
			}
			c.count("stale-stat-data")
		}
		c.mu.Lock()
		c.res.Evaluations++
		c.res.NonTrivial++
		c.mu.Unlock()
		c.count("scenario:" + k.name)
		before := snapshot(s.dir)
		wl := filepath.Join(c.work, fmt.Sprintf("wl%04d", i))
		run := proj.RunGoat(c.goat, s.dir, []string{"GOAT_VERIF_WRITELOG=" + wl}, k.cmd...)
		after := snapshot(s.dir)
		rp := func() map[string]any {
			return s.replay(map[string]any{"scenario_kind": k.name, "command": k.cmd, "exit": run.Exit, "stderr": tail(run.Stderr, 1200), "config_desc": s.desc})
		}
		c.sample(fmt.Sprintf("%s: goat %s -> exit %d", k.name, strings.Join(k.cmd, " "), run.Exit))
		if isPanic(run.Stderr) {
			c.violate("C12", k.name+": goat panicked: "+firstLine(run.Stderr, "panic"), rp())
		}
		// correspondence with the Lean plan: predicted refusal vs observed message class
		if m, ok := model[k.name]; ok && c.spec != "" {
			env := map[string]bool{"goMod": true, "dotGit": true, "configExists": true, "configParses": true, "configValid": true, "force": false,
				"initFlagsValid": true, "generatedExists": false, "isInit": s.cfg.Old == "INIT", "worktreeClean": true, "oldResolves": true,
				"newResolves": true, "newIsHead": true, "changedFilesParse": true, "hasMain": true, "hasPoints": true, "hasMarkers": true}
			for f, v := range m.over {
				env[f] = v
			}
			bits := ""
			for _, f := range flagOrder {
				bits += b01(env[f])
			}
			ans, err := specAnswer(c.spec, fmt.Sprintf("plan %s %s", k.cmd[0], bits))
			want := "ok"
			if m.reason != "" {
				want = "refuse " + m.reason
			}
			obs := "ok"
			if run.Exit != 0 {
				obs = "refuse " + classifyRefusal(run.Stderr+run.Stdout)
			}
			if err != nil || ans != want || obs != want {
				c.mu.Lock()
				c.res.Violations = append(c.res.Violations, e2eViolation{Prop: "C12", Kind: "correspondence", Found: false,
					What:   fmt.Sprintf("%s: the Lean plan answers %q, expected %q, the real command was observed as %q", k.name, ans, want, obs),
					Replay: map[string]any{"broken": "correspondence Cmd.plan", "scenario_kind": k.name, "flags": bits, "stderr": tail(run.Stderr, 800)}})
				c.mu.Unlock()
			}
		}
		if k.anyOutcome {
			// failed ⇒ untouched; a successful run may write
			if run.Exit != 0 {
				if d := diffSnap(before, after); len(d) > 0 {
					c.violate("C12", fmt.Sprintf("%s: goat %s failed (exit %d: %s) after it had created, modified or deleted %v", k.name, k.cmd[0], run.Exit, lastLine(run.Stderr), d), rp())
				}
			}
			os.Remove(wl)
			return
		}
		if k.expectOK && run.Exit != 0 {
			c.violate("C12", fmt.Sprintf("%s: goat %s must succeed without doing anything but exited %d: %s", k.name, k.cmd[0], run.Exit, lastLine(run.Stderr)), rp())
		}
		if !k.expectOK && run.Exit == 0 {
			c.violate("C12", fmt.Sprintf("%s: goat %s exited 0 although the precondition is violated", k.name, k.cmd[0]), rp())
		}
		if d := diffSnap(before, after); len(d) > 0 {
			c.violate("C12", fmt.Sprintf("%s: goat %s (exit %d) created, modified or deleted %v", k.name, k.cmd[0], run.Exit, d), rp())
		}
		if b, err := os.ReadFile(wl); err == nil {
			var hits []string
			for _, l := range strings.Split(strings.TrimSpace(string(b)), "\n") {
				f := strings.Fields(l)
				if len(f) < 3 {
					continue
				}
				// an attempted removal of a path that does not exist changes nothing
				if strings.HasPrefix(f[1], "remove") {
					if _, ok := before[f[2]]; !ok {
						if _, ok := before[f[2]+"/"]; !ok {
							continue
						}
					}
				}
				hits = append(hits, l)
			}
			if len(hits) > 0 {
				c.violate("C12", fmt.Sprintf("%s: write boundaries reached: %s", k.name, strings.Join(hits, "; ")), rp())
			}
		}
		os.Remove(wl)
	})
	return nil
}

// e2eCrash: every write boundary of track / patch / clean is enumerated (threads=1) and sampled
// (threads=4): run with GOAT_VERIF_CRASH_AT=k, then goat clean; oracles of C06 on the result.
func e2eCrash(c *e2eCtx) error {
	n := 6
	if c.thorough() {
		n = 40
	}
	c.res.Rule = fmt.Sprintf("%d generated projects × {track, patch after marker edits, clean}: the command is first run to completion with the write-log hook to learn its boundaries "+
		"(generated-file mkdir+write, each source write, both writes of each main-entry update, removals), then re-run from an identical copy with GOAT_VERIF_CRASH_AT=k for every k (threads=1) "+
		"or for sampled k (threads=4), followed by `goat clean`; oracle: clean exits 0, every file parses, no artefact left, syntax tree+comments equal to the new revision; non-trivial = a crash point was exercised", n)
	c.parallel(n, func(i int, r *rand.Rand) {
		s, err := c.newScenario(i, r, proj.Opts{InScope: true, SmallBody: true, RootMain: r.Intn(3) == 0}, func(r *rand.Rand, old string) proj.Config {
			cfg := randomConfig(r, old)
			cfg.Threads = pick(r, []int{1, 1, 2, 4}) // 2: more marked files than workers already in small projects
			return cfg
		})
		if err != nil {
			c.violate("", "harness: "+err.Error(), nil)
			return
		}
		defer os.RemoveAll(s.dir)
		// --- track
		base := s.dir + "-base"
		copyDir(s.dir, base)
		defer os.RemoveAll(base)
		c.crashPoints(s, r, base, "track", nil)
		// --- patch: instrumented + marker edits
		inst := s.dir + "-inst"
		copyDir(base, inst)
		defer os.RemoveAll(inst)
		if run := proj.RunGoat(c.goat, inst, nil, "track"); run.Exit != 0 {
			return
		}
		tree := proj.ReadTree(inst)
		files := goFilesOf(tree, s.cfg)
		edited := map[string]string{}
		for k, v := range tree {
			edited[k] = v
		}
		flipDeletes(edited, files, r, 1+r.Intn(3), r.Intn(6) == 0)
		addInserts(edited, files, r, r.Intn(3))
		writeFiles(inst, edited, files)
		c.crashPoints(s, r, inst, "patch", nil)
		// --- clean on an instrumented tree
		inst2 := s.dir + "-inst2"
		copyDir(base, inst2)
		defer os.RemoveAll(inst2)
		proj.RunGoat(c.goat, inst2, nil, "track")
		c.crashPoints(s, r, inst2, "clean", nil)
	})
	return nil
}

func (c *e2eCtx) crashPoints(s *scenario, r *rand.Rand, pre string, cmd string, _ any) {
	// learn the boundaries
	full := pre + "-full"
	copyDir(pre, full)
	wl := filepath.Join(c.work, filepath.Base(full)+".wl")
	run := proj.RunGoat(c.goat, full, []string{"GOAT_VERIF_WRITELOG=" + wl}, cmd)
	os.RemoveAll(full)
	b, _ := os.ReadFile(wl)
	os.Remove(wl)
	if run.Exit != 0 {
		return
	}
	bounds := strings.Split(strings.TrimSpace(string(b)), "\n")
	if len(bounds) == 1 && bounds[0] == "" {
		bounds = nil
	}
	nb := len(bounds)
	c.count(fmt.Sprintf("%s:boundaries:%s", cmd, bucket(nb)))
	ks := make([]int, 0, nb)
	for k := 1; k <= nb; k++ {
		ks = append(ks, k)
	}
	if s.cfg.Threads > 1 && nb > 6 {
		r.Shuffle(len(ks), func(i, j int) { ks[i], ks[j] = ks[j], ks[i] })
		ks = ks[:6]
	} else if !c.thorough() && nb > 14 {
		r.Shuffle(len(ks), func(i, j int) { ks[i], ks[j] = ks[j], ks[i] })
		ks = ks[:14]
	}
	alias, ip := s.cfg.Alias, s.importPath()
	for _, k := range ks {
		c.mu.Lock()
		c.res.Evaluations++
		c.res.NonTrivial++
		c.mu.Unlock()
		d := fmt.Sprintf("%s-k%d", pre, k)
		copyDir(pre, d)
		cr := proj.RunGoat(c.goat, d, []string{"GOAT_VERIF_CRASH_AT=" + strconv.Itoa(k)}, cmd)
		what := ""
		if k-1 < len(bounds) {
			what = bounds[k-1]
		}
		rp := func(extra map[string]any) map[string]any {
			e := map[string]any{"command": cmd, "crash_at": k, "boundary": what, "boundaries": bounds, "config_desc": s.desc, "crash_exit": cr.Exit}
			for kk, v := range extra {
				e[kk] = v
			}
			return s.replay(e)
		}
		if s.cfg.Threads == 1 && cr.Exit != 97 {
			c.violate("C15", fmt.Sprintf("%s with crash point %d/%d did not stop there (exit %d)", cmd, k, nb, cr.Exit), rp(nil))
		}
		cl := proj.RunGoat(c.goat, d, nil, "clean")
		if cl.Exit != 0 || isPanic(cl.Stderr) {
			c.violate("C15", fmt.Sprintf("after %s was killed at boundary %d (%s), goat clean exits %d: %s", cmd, k, what, cl.Exit, lastLine(cl.Stderr)), rp(map[string]any{"clean_stderr": tail(cl.Stderr, 1200)}))
			os.RemoveAll(d)
			continue
		}
		tree := proj.ReadTree(d)
		in, err := oracle.Scan(d, alias, ip, "")
		if err != nil {
			c.violate("C15", fmt.Sprintf("after %s killed at boundary %d (%s) + clean, a file does not parse: %v", cmd, k, what, err), rp(nil))
			os.RemoveAll(d)
			continue
		}
		if len(in.Calls) > 0 || len(in.Serve) > 0 || len(in.Markers) > 0 || len(in.Imports) > 0 {
			c.violate("C15", fmt.Sprintf("after %s killed at boundary %d (%s) + clean, artefacts remain: %d calls, %d service starts, markers in %v, imports in %v",
				cmd, k, what, len(in.Calls), len(in.Serve), keysOf(in.Markers), keysOfB(in.Imports)), rp(nil))
		}
		if _, err := os.Stat(filepath.Join(d, s.cfg.PkgPath, "goat_generated.go")); err == nil {
			c.violate("C15", fmt.Sprintf("after %s killed at boundary %d (%s) + clean, the generated file remains", cmd, k, what), rp(nil))
		}
		for _, p := range sortedKeys(s.newTree) {
			if !strings.HasSuffix(p, ".go") && tree[p] != s.newTree[p] {
				c.violate("C15", fmt.Sprintf("after %s killed at boundary %d (%s) + clean, %s (not a Go file) is modified or gone", cmd, k, what, p), rp(nil))
			}
		}
		// every artefact: no file of any kind and no directory beyond the new revision's (+ goat.yaml)
		if lf, ld := proj.Leftovers(d, s.newTree, s.cfg.PkgPath, "goat.yaml"); len(lf)+len(ld) > 0 {
			c.violate("C15", fmt.Sprintf("after %s killed at boundary %d (%s) + clean, the tree holds files %v and directories %v that the project did not have before instrumentation",
				cmd, k, what, lf, ld), rp(map[string]any{"left_files": lf, "left_dirs": ld}))
		}
		for _, p := range sortedKeys(s.newTree) {
			if !strings.HasSuffix(p, ".go") || tree[p] == s.newTree[p] {
				continue
			}
			if dd := oracle.SameProgram([]byte(s.newTree[p]), []byte(tree[p]), alias, ip); dd != "" {
				c.violate("C15", fmt.Sprintf("after %s killed at boundary %d (%s) + clean, %s differs from the file before instrumentation: %s", cmd, k, what, p, dd), rp(map[string]any{"file": p, "content": tree[p]}))
			}
		}
		os.RemoveAll(d)
	}
	c.sample(fmt.Sprintf("%s: %d boundaries, crash points %v, e.g. %q (%s)", cmd, nb, ks, firstOr(bounds), s.desc))
}

func firstOr(xs []string) string {
	if len(xs) == 0 {
		return ""
	}
	return xs[0]
}

func bucket(n int) string {
	switch {
	case n == 0:
		return "0"
	case n <= 4:
		return "1-4"
	case n <= 10:
		return "5-10"
	case n <= 30:
		return "11-30"
	}
	return ">30"
}

// classifyRefusal maps the CLI's error text to the model's refusal names.
func classifyRefusal(out string) string {
	switch {
	case strings.Contains(out, "not a golang project"):
		return "not-go-module"
	case strings.Contains(out, "not a git repository"):
		return "not-git-repo"
	case strings.Contains(out, "already exists"):
		return "config-exists"
	case strings.Contains(out, "not found") && strings.Contains(out, "config file"):
		return "config-missing"
	case strings.Contains(out, "already patched"):
		return "already-instrumented"
	case strings.Contains(out, "uncommitted changes"):
		return "uncommitted"
	case strings.Contains(out, "failed to resolve old branch"):
		return "old-unresolvable"
	case strings.Contains(out, "failed to resolve new branch"):
		return "new-unresolvable"
	case strings.Contains(out, "not the same as the current HEAD"):
		return "new-not-head"
	case strings.Contains(out, "no main package"):
		return "no-main"
	case strings.Contains(out, "failed to validate config") || strings.Contains(out, "failed to parse config") || strings.Contains(out, "invalid granularity") ||
		strings.Contains(out, "invalid diff precision") || strings.Contains(out, "invalid data type") || strings.Contains(out, "invalid printer"):
		return "config-invalid"
	case strings.Contains(out, "failed to analyze function scopes") || strings.Contains(out, "failed to parse file") || strings.Contains(out, "expected "):
		return "parse-error"
	}
	return "other"
}
