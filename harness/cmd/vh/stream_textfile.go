package main

import (
	"fmt"
	"go/parser"
	"go/token"
	"os"
	"path/filepath"
	"strconv"
	"strings"

	"github.com/monshunter/goat/pkg/config"
	"github.com/monshunter/goat/pkg/goat"
	"github.com/monshunter/goat/pkg/maininfo"
	"verifharness/internal/proto"
	"verifharness/internal/stream"
)

func init() {
	streams["text-clean-file"] = func(s *stream.Stream, c *streamCtx) error { return streamTextFile(s, c, "clean") }
	streams["text-patch-file"] = func(s *stream.Stream, c *streamCtx) error { return streamTextFile(s, c, "patch") }
}

const tfImportPath = "example.com/m/goat"

// tokens of the file-level streams: well-formed blocks, markers on their own and lone start /
// end lines (so that the ORDER of the passes inside the real prepareContent matters)
func fileTokens() []textToken {
	call := "\tgoat.Track(goat.TRACK_ID_7)"
	tips := "\t" + config.TrackTipsComment
	end := "\t" + config.TrackEndComment
	return []textToken{
		{"G", []string{"\t" + config.TrackGenerateComment, tips, call, end}},
		{"D", []string{"\t" + config.TrackDeleteComment, tips, call, end}},
		{"M", []string{"\t" + config.TrackMainEntryComment, tips, "\tgoat.ServeHTTP(goat.COMPONENT_0)", end}},
		{"U", []string{"\t" + config.TrackUserComment, "\tx--", end}},
		{"I", []string{"\t" + config.TrackInsertComment}},
		{"s", []string{"\tx++"}},
		{"b", []string{""}},
		{"c", []string{"\t// a comment"}},
		{"d", []string{"\t" + config.TrackDeleteComment}},
		{"g", []string{"\t" + config.TrackGenerateComment}},
		{"m", []string{"\t" + config.TrackMainEntryComment}},
		{"e", []string{end}},
	}
}

func canonGo(lines []string) []string {
	var out []string
	for _, l := range lines {
		t := strings.Trim(l, " \t\f\r")
		if t == "" || strings.HasPrefix(t, "import ") {
			continue
		}
		out = append(out, t)
	}
	return out
}

func hasImport(src string) (bool, error) {
	f, err := parser.ParseFile(token.NewFileSet(), "", src, parser.ImportsOnly)
	if err != nil {
		return false, err
	}
	for _, is := range f.Imports {
		if p, _ := strconv.Unquote(is.Path.Value); p == tfImportPath {
			return true, nil
		}
	}
	return false, nil
}

func streamTextFile(s *stream.Stream, c *streamCtx, op string) error {
	toks := fileTokens()
	maxLen, nRandom := 3, 1500
	if c.thorough() {
		maxLen, nRandom = 4, 20000
	}
	s.Rule = fmt.Sprintf("every arrangement of ≤%d tokens over %s (well-formed blocks, markers, lone start and end lines) placed in the body of a function of a real Go file "+
		"(with and without the tracking import), plus %d random arrangements of ≤10 tokens, through the REAL %s (hook) — order of the passes, changed/updated flags, import edit — "+
		"vs the model; compared modulo go/printer's re-formatting (trimmed non-blank lines, import lines apart); non-trivial = the file was changed", maxLen, tokenNames(toks), nRandom,
		map[string]string{"clean": "CleanExecutor.prepareContent", "patch": "PatchExecutor.prepareContent"}[op])
	s.Exhaustive = true
	dir := filepath.Join(c.work, "tf-"+op)
	if err := os.MkdirAll(filepath.Join(dir, "cmd", "x"), 0755); err != nil {
		return err
	}
	os.WriteFile(filepath.Join(dir, "go.mod"), []byte("module example.com/m\n\ngo 1.23\n"), 0644)
	cwd, _ := os.Getwd()
	os.Chdir(dir)
	defer os.Chdir(cwd)
	cfg := &config.Config{DiffPrecision: 2, AppVersion: "t", AppName: "a", Threads: 1}
	if err := cfg.Validate(); err != nil {
		return err
	}
	file := filepath.Join("cmd", "x", "main.go")
	mains := []maininfo.MainPackageInfo{{MainDir: "cmd/x", MainFile: file}}
	noFinalNL := false // the file on disk does not end with a newline (the arrangement is the same)
	emit := func(seq []textToken, withImport, isMain bool) error {
		lines := []string{"package main", ""}
		if withImport {
			lines = append(lines, "import goat \""+tfImportPath+"\"", "")
		}
		lines = append(lines, "func main() {", "\tx := 0")
		for _, t := range seq {
			lines = append(lines, t.lines...)
		}
		lines = append(lines, "\t_ = x", "}")
		src := strings.Join(lines, "\n") + "\n"
		if noFinalNL {
			src = strings.TrimSuffix(src, "\n")
			s.Count("file-without-final-newline")
		}
		if err := os.WriteFile(file, []byte(src), 0644); err != nil {
			return err
		}
		s.Count(fmt.Sprintf("len:%d", len(seq)))
		if op == "clean" {
			out, changed, err := goat.VerifCleanPrepareContent(cfg, tfImportPath, file)
			impl := ""
			if err != nil {
				impl = "error " + proto.Enc(err.Error())
			} else {
				ol, tl := splitText(out)
				if tl != "" { // an unterminated last line is a line of the file too
					ol = append(ol, tl)
				}
				impl = strings.TrimRight(proto.B(changed)+" "+proto.EncLines(canonGo(ol)), " ")
			}
			s.Case(strings.TrimRight("cleanfile "+proto.EncLines(lines), " "), impl,
				strings.TrimRight("judge:cleanfile "+proto.EncLines(lines), " ")+" | "+impl, changed)
			return nil
		}
		ms := mains
		if !isMain {
			ms = nil
		}
		fn, out, changed, err := goat.VerifPatchPrepareContent(cfg, tfImportPath, ms, file)
		impl := ""
		switch {
		case err != nil:
			impl = "error " + proto.Enc(err.Error())
		case fn == "":
			impl = "not-updated"
		default:
			hi, perr := hasImport(out)
			if perr != nil {
				impl = "error unparsable-output"
			} else {
				ol, _ := splitText(out)
				impl = strings.TrimRight(proto.B(changed)+" "+proto.B(hi)+" "+proto.EncLines(canonGo(ol)), " ")
			}
		}
		s.Case(strings.TrimRight(fmt.Sprintf("patchfile %s %s %s", proto.B(isMain), proto.B(withImport), proto.EncLines(lines)), " "), impl,
			strings.TrimRight(fmt.Sprintf("judge:patchfile %s %s %s", proto.B(isMain), proto.B(withImport), proto.EncLines(lines)), " ")+" | "+impl, fn != "")
		return nil
	}
	var rec func(prefix []textToken) error
	rec = func(prefix []textToken) error {
		for _, wi := range []bool{true, false} {
			if op == "clean" {
				if err := emit(prefix, wi, false); err != nil {
					return err
				}
			} else {
				for _, im := range []bool{false, true} {
					if err := emit(prefix, wi, im); err != nil {
						return err
					}
				}
			}
		}
		// the shortest arrangements also in a file whose last line is not terminated
		if len(prefix) <= 1 && op == "clean" {
			noFinalNL = true
			for _, wi := range []bool{true, false} {
				if err := emit(prefix, wi, false); err != nil {
					return err
				}
			}
			noFinalNL = false
		}
		if len(prefix) == maxLen {
			return nil
		}
		for _, t := range toks {
			if err := rec(append(append([]textToken{}, prefix...), t)); err != nil {
				return err
			}
		}
		return nil
	}
	if err := rec(nil); err != nil {
		return err
	}
	for i := 0; i < nRandom; i++ {
		n := 1 + c.rng.Intn(10)
		seq := make([]textToken, n)
		for j := range seq {
			seq[j] = toks[c.rng.Intn(len(toks))]
		}
		if err := emit(seq, c.rng.Intn(2) == 0, c.rng.Intn(2) == 0); err != nil {
			return err
		}
	}
	return nil
}
