package main

import (
	"encoding/json"
	"flag"
	"fmt"
	"math/rand"
	"os"
	"path/filepath"
	"runtime"
	"sort"
	"strings"
	"sync"

	"verifharness/internal/proj"
)

// e2e: end-to-end oracles on the real CLI. Output JSON: evaluations, distinct_nontrivial, rule,
// samples, distribution, violations[{prop, what, found, replay}], known[...].

type e2eViolation struct {
	Prop   string         `json:"prop"`
	Kind   string         `json:"kind"`
	What   string         `json:"what"`
	Found  bool           `json:"found"`
	Replay map[string]any `json:"replay"`
}

type e2eResult struct {
	Name        string         `json:"name"`
	Evaluations int            `json:"evaluations"`
	NonTrivial  int            `json:"distinct_nontrivial"`
	Rule        string         `json:"rule"`
	Samples     []string       `json:"samples"`
	Dist        map[string]int `json:"distribution"`
	Violations  []e2eViolation `json:"violations"`
	Known       []string       `json:"known"`
	Notes       map[string]any `json:"notes,omitempty"`
}

type e2eCtx struct {
	tier, goat, spec, work, known string
	seed                          int64
	rng                           *rand.Rand
	mu                            sync.Mutex
	res                           *e2eResult
}

func (c *e2eCtx) thorough() bool { return c.tier == "thorough" }

func (c *e2eCtx) violate(prop, what string, replay map[string]any) {
	c.mu.Lock()
	defer c.mu.Unlock()
	if len(c.res.Violations) < 40 {
		c.res.Violations = append(c.res.Violations, e2eViolation{Prop: prop, Kind: "property", What: what, Found: true, Replay: replay})
	}
}

func (c *e2eCtx) knownFinding(id, what string) {
	c.mu.Lock()
	defer c.mu.Unlock()
	c.res.Known = append(c.res.Known, id+" "+what)
}

func (c *e2eCtx) count(k string) {
	c.mu.Lock()
	c.res.Dist[k]++
	c.mu.Unlock()
}

func (c *e2eCtx) sample(s string) {
	c.mu.Lock()
	if len(c.res.Samples) < 6 {
		c.res.Samples = append(c.res.Samples, s)
	}
	c.mu.Unlock()
}

var e2es = map[string]func(c *e2eCtx) error{}

func init() {
	register("e2e", "e2e <name> -out FILE -goat BIN [-tier t] [-seed n] [-work dir] : end-to-end oracles on the real CLI", runE2E)
}

func runE2E(args []string) error {
	if len(args) < 1 {
		return fmt.Errorf("e2e name required")
	}
	name := args[0]
	fs := flag.NewFlagSet("e2e", flag.ContinueOnError)
	out := fs.String("out", "", "result file")
	tier := fs.String("tier", "quick", "")
	seed := fs.Int64("seed", 1, "")
	goat := fs.String("goat", "", "goat binary")
	spec := fs.String("spec", "", "goatspec binary")
	work := fs.String("work", "", "scratch dir")
	known := fs.String("known", "", "known findings file")
	if err := fs.Parse(args[1:]); err != nil {
		return err
	}
	fn, ok := e2es[name]
	if !ok {
		return fmt.Errorf("unknown e2e %q", name)
	}
	if *work == "" {
		d, err := os.MkdirTemp("", "vh-e2e")
		if err != nil {
			return err
		}
		*work = d
	}
	os.MkdirAll(*work, 0755)
	defer os.RemoveAll(*work)
	c := &e2eCtx{tier: *tier, goat: *goat, spec: *spec, work: *work, known: *known, seed: *seed,
		rng: rand.New(rand.NewSource(*seed)),
		res: &e2eResult{Name: name, Dist: map[string]int{}, Notes: map[string]any{}}}
	if err := fn(c); err != nil {
		return err
	}
	sort.Strings(c.res.Known)
	b, _ := json.MarshalIndent(c.res, "", " ")
	if *out == "" {
		fmt.Println(string(b))
		return nil
	}
	return os.WriteFile(*out, b, 0644)
}

// parallel runs fn(i, rng_i) for i in [0,n) on all cores; seeds are drawn up front.
func (c *e2eCtx) parallel(n int, fn func(i int, r *rand.Rand)) {
	seeds := make([]int64, n)
	for i := range seeds {
		seeds[i] = c.rng.Int63()
	}
	var wg sync.WaitGroup
	sem := make(chan struct{}, runtime.NumCPU())
	for i := 0; i < n; i++ {
		wg.Add(1)
		sem <- struct{}{}
		go func(i int) {
			defer func() { <-sem; wg.Done() }()
			fn(i, rand.New(rand.NewSource(seeds[i])))
		}(i)
	}
	wg.Wait()
}

// ---------------------------------------------------------------------------------------------

type scenario struct {
	id      int
	dir     string
	p       *proj.Project
	cfg     proj.Config
	oldRev  string
	newRev  string
	oldTree map[string]string
	newTree map[string]string
	desc    string
	// runDir: the directory the goat commands are started in when it is not dir itself (a symbolic
	// link to dir: the project entered through a symlinked path)
	runDir string
	// sideOnly: Go files of a diverged history that only the side branch (the old revision) edited,
	// by appending a function: every line of the new revision's file stands in the old one
	sideOnly map[string]bool
}

func (s *scenario) rdir() string {
	if s.runDir != "" {
		return s.runDir
	}
	return s.dir
}

func pick[T any](r *rand.Rand, xs []T) T { return xs[r.Intn(len(xs))] }

// randomConfig draws from the configuration grid of C01.
func randomConfig(r *rand.Rand, old string) proj.Config {
	c := proj.DefaultConfig(old)
	c.Granularity = pick(r, []string{"line", "patch", "scope", "func"})
	c.Precision = pick(r, []int{1, 2, 3})
	if r.Intn(6) == 0 {
		c.Old = "INIT"
	}
	c.Threads = pick(r, []int{1, 1, 4})
	c.Race = r.Intn(2) == 0
	c.DataType = pick(r, []string{"bool", "count"})
	switch r.Intn(5) {
	case 1:
		c.PrinterModes = []string{"useSpaces"}
		c.Tabwidth = 4
	case 2:
		c.PrinterModes = []string{"rawFormat"}
	case 3:
		c.PrinterModes = []string{"tabIndent"}
		c.Indent = 1
	case 4:
		c.PrinterModes = []string{}
	}
	switch r.Intn(3) {
	case 1:
		c.Alias, c.PkgName, c.PkgPath = "cov", "covpkg", "internal/cov"
	case 2:
		c.Alias, c.PkgName, c.PkgPath = "gcov", "goat", "tools/goat"
	}
	// the configured path need not be clean: the directory and the import path are
	if r.Intn(4) == 0 {
		segs := strings.Split(c.PkgPath, "/")
		switch r.Intn(5) {
		case 4: // ends in a dot segment (os.RemoveAll refuses such a path as it stands)
			c.PkgPathRaw = c.PkgPath + "/."
		case 0:
			c.PkgPathRaw = "./" + c.PkgPath
		case 1:
			c.PkgPathRaw = c.PkgPath + "/"
		case 2:
			c.PkgPathRaw = strings.Join(segs, "//")
		case 3:
			c.PkgPathRaw = segs[0] + "/./" + strings.Join(segs[1:], "/")
		}
		if c.PkgPathRaw == c.PkgPath || filepath.Clean(c.PkgPathRaw) != c.PkgPath {
			c.PkgPathRaw = "./" + c.PkgPath
		}
	}
	return c
}

func cfgDesc(c proj.Config) string {
	return fmt.Sprintf("gran=%s prec=%d old=%s threads=%d race=%v dt=%s printer=%v/%d/%d alias=%s path=%s mains=%v",
		c.Granularity, c.Precision, map[bool]string{true: "INIT", false: "rev"}[c.Old == "INIT"], c.Threads, c.Race, c.DataType,
		c.PrinterModes, c.Tabwidth, c.Indent, c.Alias, c.PkgPath, c.MainEntries)
}

// newScenario generates a project, commits old and new revision and writes goat.yaml.
func (c *e2eCtx) newScenario(i int, r *rand.Rand, o proj.Opts, mkcfg func(r *rand.Rand, old string) proj.Config) (*scenario, error) {
	s := &scenario{id: i, dir: filepath.Join(c.work, fmt.Sprintf("s%04d", i))}
	s.p = proj.Generate(r, o)
	s.oldTree, s.newTree = s.p.Files(true), s.p.Files(false)
	const steadyPath = "pkg/l0/zz_steady.go"
	const steadySrc = "package l0\n\n// Steady is the same at the fork point and in the new revision.\nfunc Steady(a int) int {\n\ta += 3\n\treturn a\n}\n"
	if i%5 == 3 {
		s.oldTree[steadyPath], s.newTree[steadyPath] = steadySrc, steadySrc
	}
	var err error
	if s.oldRev, err = proj.InitRepo(s.dir, s.oldTree, 1700000000); err != nil {
		return nil, err
	}
	// one history in five is DIVERGED: the old revision is the tip of a side branch (the old tree
	// plus one file of its own), not an ancestor of the new revision
	if i%5 == 3 {
		side := map[string]string{}
		for k, v := range s.oldTree {
			side[k] = v
		}
		// … and one function appended to a library file that the new revision leaves as it was at
		// the fork: the file differs between the two revisions, yet the new one has no line of its own
		side[steadyPath] = steadySrc + "\n// SideAppended was added on the side branch after the fork.\nfunc SideAppended(a int) int {\n\ta -= 2\n\treturn a\n}\n"
		s.sideOnly = map[string]bool{steadyPath: true}
		side["pkg/l0/zz_side_only.go"] = "package l0\n\n// SideOnly exists only on the side branch.\nfunc SideOnly(a int) int {\n\ta--\n\treturn a\n}\n"
		if _, err = proj.Git(s.dir, 0, "checkout", "-q", "-b", "side"); err != nil {
			return nil, err
		}
		if s.oldRev, err = proj.Commit(s.dir, side, 1700000050, "side"); err != nil {
			return nil, err
		}
		s.oldTree = side
		if _, err = proj.Git(s.dir, 0, "checkout", "-q", "-"); err != nil {
			return nil, err
		}
		c.count("history:diverged")
	}
	if s.newRev, err = proj.Commit(s.dir, s.newTree, 1700000100, "new"); err != nil {
		return nil, err
	}
	// every other repository is packed (what a clone looks like)
	if i%2 == 0 {
		if _, err = proj.Git(s.dir, 0, "gc", "-q"); err != nil {
			return nil, err
		}
		c.count("store:packed")
	}
	// one scenario in seven names the old revision by an ANNOTATED tag (a tag object, not the commit)
	oldName := s.oldRev
	if i%7 == 4 {
		if _, err := proj.Git(s.dir, 1700000060, "tag", "-a", "base-annotated", "-m", "base", s.oldRev); err == nil {
			oldName = "base-annotated"
			c.count("old-revision:annotated-tag")
		}
	}
	s.cfg = mkcfg(r, oldName)
	// one configuration in six ignores a library that lies ON an import path (imported by some
	// package, importing others): its files are not instrumented, the packages behind it still are
	// and still belong to the import closure of the mains that reach them through it
	if o.IgnoreMidLib && i%6 == 2 {
		imported := map[int]bool{}
		for _, pk := range s.p.Pkgs {
			for _, j := range pk.Imports {
				imported[j] = true
			}
		}
		for j, pk := range s.p.Pkgs {
			if !pk.IsMain && imported[j] && len(pk.Imports) > 0 && pk.Dir != "." {
				ign := s.cfg.Ignores
				if ign == nil {
					ign = []string{".git", ".gitignore", ".DS_Store", ".idea", ".vscode", ".venv", "vendor", "testdata", "node_modules"}
				}
				s.cfg.Ignores = append(append([]string{}, ign...), pk.Dir)
				c.count("config:ignores-intermediate-library")
				break
			}
		}
	}
	// one configuration in four is written by `goat init` itself from flags (the way users get it)
	if i%4 == 1 && proj.InitConfig(c.goat, s.dir, s.cfg) {
		c.count("config:written-by-goat-init")
	} else if err := proj.WriteConfig(s.dir, s.cfg); err != nil {
		return nil, err
	}
	s.desc = cfgDesc(s.cfg)
	return s, nil
}

func (s *scenario) importPath() string { return proj.Module + "/" + s.cfg.PkgPath }

func (s *scenario) replay(extra map[string]any) map[string]any {
	m := map[string]any{"scenario": s.id, "config": s.cfg, "old_tree": s.oldTree, "new_tree": s.newTree}
	for k, v := range extra {
		m[k] = v
	}
	return m
}

// closure of a main package in the project's import graph (directories, main dir included)
func (s *scenario) closureDirs(main *proj.Pkg) map[string]bool {
	seen := map[string]bool{main.Dir: true}
	var visit func(pk *proj.Pkg)
	visit = func(pk *proj.Pkg) {
		for _, d := range pk.ExtraDirs {
			seen[d] = true
		}
		for _, j := range pk.Imports {
			lib := s.p.Pkgs[j]
			if !seen[lib.Dir] {
				seen[lib.Dir] = true
				visit(lib)
			}
		}
	}
	visit(main)
	return seen
}

func isPanic(stderr string) bool {
	return strings.Contains(stderr, "panic:") || strings.Contains(stderr, "goroutine 1 [running]") || strings.Contains(stderr, "fatal error:")
}

func tail(s string, n int) string {
	if len(s) > n {
		return s[len(s)-n:]
	}
	return s
}
