// vh — verification harness for monshunter/goat, linked against /repo's working tree
// (go.mod: replace github.com/monshunter/goat => /repo) with build tag verif.
package main

import (
	"fmt"
	"os"
)

type command struct {
	name string
	run  func(args []string) error
	help string
}

var commands []command

func register(name, help string, run func(args []string) error) {
	commands = append(commands, command{name, run, help})
}

func main() {
	if len(os.Args) < 2 {
		usage()
		os.Exit(2)
	}
	for _, c := range commands {
		if c.name == os.Args[1] {
			if err := c.run(os.Args[2:]); err != nil {
				fmt.Fprintf(os.Stderr, "vh %s: %v\n", c.name, err)
				os.Exit(1)
			}
			return
		}
	}
	usage()
	os.Exit(2)
}

func usage() {
	fmt.Fprintln(os.Stderr, "usage: vh <command> [args]")
	for _, c := range commands {
		fmt.Fprintf(os.Stderr, "  %-14s %s\n", c.name, c.help)
	}
}
