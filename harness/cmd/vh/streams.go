package main

import (
	"flag"
	"fmt"
	"math/rand"
	"sort"

	"verifharness/internal/stream"
)

// A streamFn produces one correspondence stream.
type streamFn func(s *stream.Stream, ctx *streamCtx) error

type streamCtx struct {
	tier string
	seed int64
	rng  *rand.Rand
	work string // scratch directory (removed by the orchestrator)
}

func (c *streamCtx) thorough() bool { return c.tier == "thorough" }

var streams = map[string]streamFn{}

func init() {
	register("stream", "stream <name> -out DIR [-tier quick|thorough] [-seed N] : write <name>.{req,impl,judge,meta.json}", runStream)
	register("streams", "list stream names", func([]string) error {
		names := []string{}
		for n := range streams {
			names = append(names, n)
		}
		sort.Strings(names)
		for _, n := range names {
			fmt.Println(n)
		}
		return nil
	})
}

func runStream(args []string) error {
	if len(args) < 1 {
		return fmt.Errorf("stream name required")
	}
	name := args[0]
	fs := flag.NewFlagSet("stream", flag.ContinueOnError)
	out := fs.String("out", "", "output directory")
	tier := fs.String("tier", "quick", "quick|thorough")
	seed := fs.Int64("seed", 1, "PRNG seed")
	work := fs.String("work", "", "scratch directory")
	if err := fs.Parse(args[1:]); err != nil {
		return err
	}
	fn, ok := streams[name]
	if !ok {
		return fmt.Errorf("unknown stream %q", name)
	}
	if *out == "" {
		return fmt.Errorf("-out required")
	}
	s, err := stream.New(*out, name)
	if err != nil {
		return err
	}
	ctx := &streamCtx{tier: *tier, seed: *seed, rng: rand.New(rand.NewSource(*seed)), work: *work}
	if err := fn(s, ctx); err != nil {
		s.Close()
		return err
	}
	return s.Close()
}
