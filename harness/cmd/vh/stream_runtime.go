package main

// Correspondence stream for the generated runtime (C07).
//
// The runtime is rendered by the real increment.Values.Render() for the four variants
// (race × dataType) and random component structures, compiled together with a small driver
// (same package, so the unexported handlers are reachable) in a temporary module, and driven
// over stdin/stdout: Track call sequences (sequential, bursts, 8 goroutines when race is on),
// a dump of trackIdStatus, GET /track and GET /metrics through an http.ServeMux wired like
// ServeHTTP does, with recover() around every call. GOAT_CURRENT_COMPONENT is set in the
// process environment (it is read by the generated init()), one process per value.
//
// One compilation per (variant, structure); everything random comes from ctx.rng before the
// workers start, so a seed replays exactly.

import (
	"bytes"
	"context"
	"crypto/md5"
	"encoding/json"
	"fmt"
	"math/rand"
	"os"
	"os/exec"
	"path/filepath"
	"regexp"
	"runtime"
	"sort"
	"strconv"
	"strings"
	"sync"
	"time"

	"net/url"

	"github.com/monshunter/goat/pkg/tracking/increment"
	"verifharness/internal/proto"
	"verifharness/internal/stream"
)

func init() {
	streams["runtime-ops"] = streamRuntimeOps
}

// ------------------------------------------------------------------ scenario types

type rtComp struct {
	name string
	ids  []int
}

type rtStruct struct {
	n     int
	comps []rtComp
}

type rtVariant struct {
	race     bool
	dataType int // 1 bool, 2 count
}

type rtOp struct {
	id int
	k  int // number of consecutive calls
}

type rtQuery struct {
	kind      string // status | track | metrics
	order     string
	component string
	hasOrder  bool
	hasComp   bool
	resp      string // raw driver output line
}

type rtSeq struct {
	lists   [][]rtOp // one list: sequential; several: one goroutine each
	queries []*rtQuery
	opsOut  string // driver output for the op command
}

type rtRun struct {
	cur    string
	curSet bool
	seqs   []*rtSeq
}

type rtJob struct {
	idx  int
	v    rtVariant
	s    rtStruct
	name string // app name rendered into the file
	ver  string
	runs []*rtRun
	err  error
	// race-detector build (race:true variants, when cgo is available): reports seen on stderr
	raceBuilt  bool
	raceReport string
}

// ------------------------------------------------------------------ driver source

const rtDriverSrc = `package main

import (
	"bufio"
	"encoding/json"
	"fmt"
	"net/http"
	"net/http/httptest"
	"os"
	"strconv"
	"strings"
	"sync"
	"time"
)

type drvResp struct {
	Code  int
	Body  string
	Panic string
}

func drvCall(mux *http.ServeMux, target string) drvResp {
	// the handler runs in its own goroutine: one that never answers (a lock that is not given back,
	// a wait on itself) is a failure of the request, not of the driver
	done := make(chan drvResp, 1)
	go func() {
		w := httptest.NewRecorder()
		req := httptest.NewRequest("GET", target, nil)
		defer func() {
			if p := recover(); p != nil {
				done <- drvResp{Code: w.Code, Body: w.Body.String(), Panic: fmt.Sprint(p)}
			}
		}()
		mux.ServeHTTP(w, req)
		done <- drvResp{Code: w.Code, Body: w.Body.String()}
	}()
	select {
	case r := <-done:
		return r
	case <-time.After(20 * time.Second):
		return drvResp{Panic: "handler did not answer within 20 s"}
	}
}

func drvOps(toks []string) (res string) {
	defer func() {
		if p := recover(); p != nil {
			res = "panic " + fmt.Sprint(p)
		}
	}()
	for _, t := range toks {
		a, b, rep := strings.Cut(t, "x")
		id, err := strconv.Atoi(a)
		if err != nil {
			return "bad-op " + t
		}
		k := 1
		if rep {
			if k, err = strconv.Atoi(b); err != nil {
				return "bad-op " + t
			}
		}
		for j := 0; j < k; j++ {
			Track(id)
		}
	}
	return "ok"
}

func main() {
	mux := http.NewServeMux()
	mux.HandleFunc("/metrics", metricsHandler)
	mux.HandleFunc("/track", trackHandler)
	in := bufio.NewReaderSize(os.Stdin, 1<<20)
	out := bufio.NewWriterSize(os.Stdout, 1<<20)
	defer out.Flush()
	for {
		line, err := in.ReadString('\n')
		line = strings.TrimRight(line, "\n")
		if line != "" {
			f := strings.Fields(line)
			switch f[0] {
			case "R":
				for i := range trackIdStatus { // whatever the element type of the rendered runtime is
					trackIdStatus[i] = 0
				}
				fmt.Fprintln(out, "ok")
			case "S":
				fmt.Fprintln(out, drvOps(f[1:]))
			case "P":
				var lists [][]string
				cur := []string{}
				for _, t := range f[1:] {
					if t == "/" {
						lists = append(lists, cur)
						cur = []string{}
					} else {
						cur = append(cur, t)
					}
				}
				lists = append(lists, cur)
				res := make([]string, len(lists))
				start := make(chan struct{})
				var wg sync.WaitGroup
				for i := range lists {
					wg.Add(1)
					go func(i int) {
						defer wg.Done()
						<-start
						res[i] = drvOps(lists[i])
					}(i)
				}
				close(start)
				wg.Wait()
				r := "ok"
				for _, x := range res {
					if x != "ok" {
						r = x
					}
				}
				fmt.Fprintln(out, r)
			case "D":
				var b strings.Builder
				b.WriteString("D")
				for _, v := range trackIdStatus {
					b.WriteString(" ")
					b.WriteString(strconv.FormatUint(uint64(v), 10))
				}
				fmt.Fprintln(out, b.String())
			case "T", "M":
				j, _ := json.Marshal(drvCall(mux, f[1]))
				out.Write(j)
				out.WriteString("\n")
			default:
				fmt.Fprintln(out, "bad-command")
			}
		}
		if err != nil {
			break
		}
	}
}
`

// ------------------------------------------------------------------ generators

var rtNamePool = []string{"main", "cmd/app", "cmd/tool", "internal/svc", "a-b_c.d", "0", "1", "4", "my app",
	"组件", "x,y", "-1", "+2", "main2", "A", "cmd/app/v2", "é"}

func rtRange(a, b int) []int {
	r := []int{}
	for i := a; i <= b; i++ {
		r = append(r, i)
	}
	return r
}

func rtGenStruct(rng *rand.Rand, i int) rtStruct {
	switch i {
	case 0:
		return rtStruct{1, []rtComp{{"main", []int{1}}}}
	case 1:
		return rtStruct{5, []rtComp{{"main", []int{1, 2}}, {"cmd/x", nil}, {"y", []int{2, 5}}}}
	case 2:
		ev := []int{}
		for j := 2; j <= 200; j += 2 {
			ev = append(ev, j)
		}
		return rtStruct{200, []rtComp{{"cmd/a", rtRange(1, 200)}, {"cmd/b", nil}, {"1", ev}, {"cmd/d", []int{200}}, {"cmd/e", rtRange(90, 130)}}}
	case 3:
		return rtStruct{3, []rtComp{{"a", []int{3, 1, 2}}, {"b", []int{2, 2}}}}
	}
	var n int
	switch rng.Intn(4) {
	case 0:
		n = []int{1, 2, 3, 7, 13, 16, 50, 200}[rng.Intn(8)]
	default:
		n = 1 + rng.Intn(200)
	}
	k := 1 + rng.Intn(5)
	perm := rng.Perm(len(rtNamePool))
	comps := make([]rtComp, k)
	for c := 0; c < k; c++ {
		comps[c].name = rtNamePool[perm[c]]
		var ids []int
		switch rng.Intn(7) {
		case 0: // empty
		case 1:
			ids = rtRange(1, n)
		case 2:
			ids = []int{1 + rng.Intn(n)}
		case 3: // contiguous range, as goat produces for a package subtree
			a := 1 + rng.Intn(n)
			b := a + rng.Intn(n-a+1)
			ids = rtRange(a, b)
		default:
			p := []float64{0.1, 0.5, 0.9}[rng.Intn(3)]
			for id := 1; id <= n; id++ {
				if rng.Float64() < p {
					ids = append(ids, id)
				}
			}
		}
		if len(ids) > 1 && rng.Intn(7) == 0 {
			rng.Shuffle(len(ids), func(a, b int) { ids[a], ids[b] = ids[b], ids[a] })
		}
		if len(ids) > 0 && rng.Intn(20) == 0 {
			ids = append(ids, ids[rng.Intn(len(ids))])
		}
		comps[c].ids = ids
	}
	return rtStruct{n, comps}
}

func rtGenID(rng *rand.Rand, n int) int {
	switch r := rng.Intn(20); {
	case r < 14:
		return 1 + rng.Intn(n)
	case r < 17:
		return []int{-3, -2, -1, 0, n + 1, n + 2, n + 3, n, 1}[rng.Intn(9)]
	default:
		return -3 + rng.Intn(n+7)
	}
}

func rtGenList(rng *rand.Rand, n int, maxLen int) []rtOp {
	var ops []rtOp
	switch rng.Intn(8) {
	case 0: // empty
	case 1:
		ops = append(ops, rtOp{rtGenID(rng, n), 1})
	case 2:
		for i, l := 0, 1+rng.Intn(10); i < l; i++ {
			ops = append(ops, rtOp{rtGenID(rng, n), 1})
		}
	case 3: // every id once, in order, plus the neighbours outside
		for id := -1; id <= n+1; id++ {
			ops = append(ops, rtOp{id, 1})
		}
	case 4: // hot ids
		hot := []int{rtGenID(rng, n), rtGenID(rng, n), 1 + rng.Intn(n)}
		for i, l := 0, 1+rng.Intn(maxLen); i < l; i++ {
			ops = append(ops, rtOp{hot[rng.Intn(3)], 1})
		}
	case 5: // bursts
		for i, l := 0, 1+rng.Intn(6); i < l; i++ {
			ops = append(ops, rtOp{rtGenID(rng, n), []int{0, 2, 255, 256, 65535, 65536, 100000, 1 + rng.Intn(1000)}[rng.Intn(8)]})
		}
	default:
		for i, l := 0, 1+rng.Intn(minInt(maxLen, 3*n+3)); i < l; i++ {
			ops = append(ops, rtOp{rtGenID(rng, n), 1})
		}
	}
	return ops
}

func minInt(a, b int) int {
	if a < b {
		return a
	}
	return b
}

var rtOrderPool = []string{"", "0", "1", "2", "3", "4", "-1", "abc", "+2", "03", " 1", "1.0", "99999999999999999999", "٣", "-0", "0x1", "+", "3 "}

func rtGenComponentParam(rng *rand.Rand, s rtStruct) string {
	k := len(s.comps)
	one := func() string {
		switch rng.Intn(10) {
		case 0, 1, 2:
			return s.comps[rng.Intn(k)].name
		case 3, 4, 5:
			return strconv.Itoa(rng.Intn(k))
		case 6:
			return []string{"zz", "", strconv.Itoa(k), "-1", "1e0", " 0", "main ", strconv.Itoa(k + 1), "0.0", "99999999999999999999"}[rng.Intn(10)]
		case 7:
			return []string{"+", "-", "0", "00", "-0", "01"}[rng.Intn(6)] + []string{"", strconv.Itoa(rng.Intn(k))}[rng.Intn(2)]
		default:
			return s.comps[rng.Intn(k)].name
		}
	}
	switch rng.Intn(5) {
	case 0:
		return ""
	case 1, 2:
		return one()
	default:
		l := 2 + rng.Intn(4)
		parts := make([]string, l)
		for i := range parts {
			parts[i] = one()
		}
		return strings.Join(parts, ",")
	}
}

func rtSweepQueries(s rtStruct) []*rtQuery {
	var qs []*rtQuery
	add := func(o, c string) {
		qs = append(qs, &rtQuery{kind: "track", order: o, component: c, hasOrder: o != "", hasComp: c != ""})
	}
	for _, o := range rtOrderPool {
		add(o, "")
	}
	var names, idxs []string
	for i, c := range s.comps {
		add("2", c.name)
		add("1", strconv.Itoa(i))
		names = append(names, c.name)
		idxs = append([]string{strconv.Itoa(i)}, idxs...)
	}
	add("0", strings.Join(names, ","))
	add("3", strings.Join(idxs, ","))
	add("", strconv.Itoa(len(s.comps)))
	add("1", "no-such-component")
	add("", names[0]+",")
	add("", ",")
	add("2", "-0,+0,00")
	return qs
}

func rtGenSeq(rng *rand.Rand, s rtStruct, v rtVariant, nTrack int, sweep bool, thorough bool) *rtSeq {
	seq := &rtSeq{}
	maxLen := 600
	if thorough && rng.Intn(10) == 0 {
		maxLen = 5000
	}
	if v.race && rng.Intn(2) == 0 {
		for g := 0; g < 8; g++ {
			seq.lists = append(seq.lists, rtGenList(rng, s.n, maxLen/2))
		}
		if rng.Intn(3) == 0 { // contention: every goroutine hammers the same id
			id := 1 + rng.Intn(s.n)
			for g := range seq.lists {
				seq.lists[g] = append(seq.lists[g], rtOp{id, 20000})
			}
		}
	} else {
		seq.lists = [][]rtOp{rtGenList(rng, s.n, maxLen)}
	}
	seq.queries = append(seq.queries, &rtQuery{kind: "status"})
	if sweep {
		seq.queries = append(seq.queries, rtSweepQueries(s)...)
	}
	for i := 0; i < nTrack; i++ {
		o := rtOrderPool[rng.Intn(len(rtOrderPool))]
		if rng.Intn(2) == 0 {
			o = strconv.Itoa(rng.Intn(4))
		}
		c := rtGenComponentParam(rng, s)
		seq.queries = append(seq.queries, &rtQuery{kind: "track", order: o, component: c,
			hasOrder: o != "" || rng.Intn(2) == 0, hasComp: c != "" || rng.Intn(2) == 0})
	}
	seq.queries = append(seq.queries, &rtQuery{kind: "metrics"})
	return seq
}

func rtGenJob(rng *rand.Rand, idx int, v rtVariant, s rtStruct, thorough bool) *rtJob {
	j := &rtJob{idx: idx, v: v, s: s,
		name: []string{"app", "my-service", "a.b/c"}[rng.Intn(3)], ver: []string{"v1.2.3", "1.0.0+build", "dev"}[rng.Intn(3)]}
	nSeq, nTrack := 4, 4
	if thorough {
		nSeq, nTrack = 6, 5
	}
	// current component: unset, every component, unknown
	r0 := &rtRun{}
	for i := 0; i < nSeq; i++ {
		r0.seqs = append(r0.seqs, rtGenSeq(rng, s, v, nTrack, i == 0, thorough))
	}
	j.runs = append(j.runs, r0)
	for _, c := range s.comps {
		r := &rtRun{cur: c.name, curSet: true}
		for i := 0; i < 2; i++ {
			r.seqs = append(r.seqs, rtGenSeq(rng, s, v, 2, false, thorough))
		}
		j.runs = append(j.runs, r)
	}
	unk := []string{"no-such-component", "0", strconv.Itoa(len(s.comps) - 1), "Main", " "}[rng.Intn(5)]
	ru := &rtRun{cur: unk, curSet: true}
	ru.seqs = append(ru.seqs, rtGenSeq(rng, s, v, 1, false, thorough))
	j.runs = append(j.runs, ru)
	return j
}

// ------------------------------------------------------------------ execution

func rtOpsTokens(lists [][]rtOp) string {
	var parts []string
	for li, l := range lists {
		if li > 0 {
			parts = append(parts, "/")
		}
		for _, o := range l {
			if o.k == 1 {
				parts = append(parts, strconv.Itoa(o.id))
			} else {
				parts = append(parts, fmt.Sprintf("%dx%d", o.id, o.k))
			}
		}
	}
	return strings.Join(parts, " ")
}

func (q *rtQuery) target() string {
	switch q.kind {
	case "metrics":
		return "/metrics"
	}
	vals := url.Values{}
	if q.hasOrder {
		vals.Set("order", q.order)
	}
	if q.hasComp {
		vals.Set("component", q.component)
	}
	if len(vals) == 0 {
		return "/track"
	}
	return "/track?" + vals.Encode()
}

func (j *rtJob) values() *increment.Values {
	v := &increment.Values{PackageName: "main", Version: j.ver, Name: j.name, Race: j.v.race, DataType: j.v.dataType,
		TrackIds: rtRange(1, j.s.n)}
	for i, c := range j.s.comps {
		v.AddComponent(i, c.name, c.ids)
	}
	return v
}

func rtRunJob(work string, j *rtJob) error {
	dir := filepath.Join(work, fmt.Sprintf("j%05d", j.idx))
	if err := os.MkdirAll(dir, 0755); err != nil {
		return err
	}
	defer os.RemoveAll(dir)
	vals := j.values()
	if err := vals.Validate(); err != nil {
		return fmt.Errorf("job %d: Validate: %v", j.idx, err)
	}
	src, err := vals.Render()
	if err != nil {
		return fmt.Errorf("job %d: Render: %v", j.idx, err)
	}
	files := map[string][]byte{"go.mod": []byte("module rtdrv\n\ngo 1.23\n"), "goat_gen.go": src, "driver.go": []byte(rtDriverSrc)}
	for name, b := range files {
		if err := os.WriteFile(filepath.Join(dir, name), b, 0644); err != nil {
			return err
		}
	}
	// race:true variants are built with the race detector when cgo is available: concurrent
	// callers are in the property's quantifier only there, and a racy Track must be seen
	if j.v.race {
		rb := exec.Command("go", "build", "-race", "-o", "drv", ".")
		rb.Dir = dir
		rb.Env = append(os.Environ(), "GOWORK=off", "CGO_ENABLED=1")
		if _, err := rb.CombinedOutput(); err == nil {
			j.raceBuilt = true
		}
	}
	if !j.raceBuilt {
		build := exec.Command("go", "build", "-o", "drv", ".")
		build.Dir = dir
		build.Env = append(os.Environ(), "GOWORK=off")
		if out, err := build.CombinedOutput(); err != nil {
			return fmt.Errorf("job %d: the rendered runtime does not compile: %v\n%s", j.idx, err, out)
		}
	}
	for _, r := range j.runs {
		var in bytes.Buffer
		for _, sq := range r.seqs {
			in.WriteString("R\n")
			if len(sq.lists) == 1 {
				in.WriteString("S " + rtOpsTokens(sq.lists) + "\n")
			} else {
				in.WriteString("P " + rtOpsTokens(sq.lists) + "\n")
			}
			for _, q := range sq.queries {
				switch q.kind {
				case "status":
					in.WriteString("D\n")
				case "track":
					in.WriteString("T " + q.target() + "\n")
				case "metrics":
					in.WriteString("M " + q.target() + "\n")
				}
			}
		}
		ctx, cancel := context.WithTimeout(context.Background(), 10*time.Minute)
		cmd := exec.CommandContext(ctx, filepath.Join(dir, "drv"))
		cmd.Dir = dir
		for _, e := range os.Environ() {
			if !strings.HasPrefix(e, "GOAT_") {
				cmd.Env = append(cmd.Env, e)
			}
		}
		if r.curSet {
			cmd.Env = append(cmd.Env, "GOAT_CURRENT_COMPONENT="+r.cur)
		}
		cmd.Env = append(cmd.Env, "GORACE=exitcode=0")
		cmd.Stdin = &in
		var stderr bytes.Buffer
		cmd.Stderr = &stderr
		out, err := cmd.Output()
		cancel()
		lines := strings.Split(strings.TrimRight(string(out), "\n"), "\n")
		want := 0
		for _, sq := range r.seqs {
			want += 2 + len(sq.queries)
		}
		if j.raceBuilt && strings.Contains(stderr.String(), "DATA RACE") && j.raceReport == "" {
			rep := stderr.String()
			if i := strings.Index(rep, "WARNING: DATA RACE"); i >= 0 {
				rep = rep[i:]
			}
			if len(rep) > 600 {
				rep = rep[:600]
			}
			j.raceReport = rep
		}
		if err != nil || len(lines) != want {
			return fmt.Errorf("job %d: driver process failed (%v), %d of %d answers; stderr: %s", j.idx, err, len(lines), want, stderr.String())
		}
		p := 0
		for _, sq := range r.seqs {
			p++ // R
			sq.opsOut = lines[p]
			p++
			for _, q := range sq.queries {
				q.resp = lines[p]
				p++
			}
		}
	}
	return nil
}

// ------------------------------------------------------------------ canonical answers

type rtDrvResp struct {
	Code  int
	Body  string
	Panic string
}

type rtJSONItem struct {
	ID    int    `json:"id"`
	Name  string `json:"name"`
	Count int64  `json:"count"`
}

type rtJSONMetrics struct {
	Version     string       `json:"version"`
	Total       int          `json:"total"`
	Covered     int          `json:"covered"`
	CoveredRate int          `json:"coveredRate"`
	Items       []rtJSONItem `json:"items"`
}

type rtJSONResult struct {
	ID      int           `json:"id"`
	Name    string        `json:"name"`
	Metrics rtJSONMetrics `json:"metrics"`
}

type rtJSONResults struct {
	Name    string         `json:"name"`
	Version string         `json:"version"`
	Results []rtJSONResult `json:"results"`
}

func rtEffectiveOrder(q *rtQuery) int {
	if !q.hasOrder {
		return 0
	}
	o, err := strconv.Atoi(q.order)
	if err != nil || o < 0 || o > 3 {
		return 0
	}
	return o
}

// rtCanonTrack turns the raw /track answer into the canonical line. Items inside a maximal run
// of equal sort keys (sort.Slice is unstable) are put in ascending id order; nothing else moves.
func rtCanonTrack(j *rtJob, q *rtQuery) string {
	var r rtDrvResp
	if err := json.Unmarshal([]byte(q.resp), &r); err != nil {
		return "driver-garbage " + proto.Enc(q.resp)
	}
	if r.Panic != "" {
		return "panic " + proto.Enc(r.Panic)
	}
	if r.Body == "invalid component\n" {
		return fmt.Sprintf("%d invalid", r.Code)
	}
	var res rtJSONResults
	dec := json.NewDecoder(strings.NewReader(r.Body))
	dec.DisallowUnknownFields()
	if err := dec.Decode(&res); err != nil || res.Results == nil {
		return fmt.Sprintf("%d undecodable %s", r.Code, proto.Enc(r.Body))
	}
	h := res.Name == j.name && res.Version == j.ver
	order := rtEffectiveOrder(q)
	var b strings.Builder
	for _, cr := range res.Results {
		items := cr.Metrics.Items
		if items == nil {
			h = false
		}
		// Go-side oracle for what the model leaves out: item names and the md5 "version"
		byID := append([]rtJSONItem(nil), items...)
		sort.SliceStable(byID, func(a, c int) bool { return byID[a].ID < byID[c].ID })
		var hb bytes.Buffer
		for _, it := range byID {
			fmt.Fprintf(&hb, "#%d=%d", it.ID, it.Count)
			if it.Name != fmt.Sprintf("TRACK_ID_%d", it.ID) {
				h = false
			}
		}
		if cr.Metrics.Version != fmt.Sprintf("%x", md5.Sum(hb.Bytes())) {
			h = false
		}
		key := func(it rtJSONItem) int64 {
			if order <= 1 {
				return it.Count
			}
			return int64(it.ID)
		}
		canon := append([]rtJSONItem(nil), items...)
		for a := 0; a < len(canon); {
			e := a + 1
			for e < len(canon) && key(canon[e]) == key(canon[a]) {
				e++
			}
			run := canon[a:e]
			sort.SliceStable(run, func(x, y int) bool {
				if run[x].ID != run[y].ID {
					return run[x].ID < run[y].ID
				}
				return run[x].Count < run[y].Count
			})
			a = e
		}
		its := make([]string, len(canon))
		for i, it := range canon {
			its[i] = fmt.Sprintf("%d:%d", it.ID, it.Count)
		}
		itStr := strings.Join(its, ",")
		if itStr == "" {
			itStr = "-"
		}
		fmt.Fprintf(&b, " %d %s %d %d %d %s", cr.ID, proto.Enc(cr.Name), cr.Metrics.Total, cr.Metrics.Covered, cr.Metrics.CoveredRate, itStr)
	}
	hs := "h0"
	if h {
		hs = "h1"
	}
	return fmt.Sprintf("%d ok %s %d%s", r.Code, hs, len(res.Results), b.String())
}

var (
	rtMetricLine = regexp.MustCompile(`^(goat_track_[a-z_]+)\{app="(.*?)",version="(.*?)",component="(.*)"\} (-?\d+)$`)
	rtOOB        = regexp.MustCompile(`^runtime error: index out of range \[(-?\d+)\] with length (\d+)$`)
)

var rtIndicators = [][3]string{
	{"goat_track_total", "Goat track total", "T"},
	{"goat_track_covered", "Goat track covered", "C"},
	{"goat_track_coverage_ratio", "Goat track coverage ratio", "R"},
}

func rtCanonMetrics(j *rtJob, q *rtQuery) string {
	var r rtDrvResp
	if err := json.Unmarshal([]byte(q.resp), &r); err != nil {
		return "driver-garbage " + proto.Enc(q.resp)
	}
	type row struct{ ind, name, val string }
	var rows []row
	for _, l := range strings.Split(r.Body, "\n") {
		if m := rtMetricLine.FindStringSubmatch(l); m != nil {
			code := "?"
			for _, ind := range rtIndicators {
				if ind[0] == m[1] {
					code = ind[2]
				}
			}
			rows = append(rows, row{code, m[4], m[5]})
		}
	}
	if r.Panic != "" {
		if r.Panic == "runtime error: integer divide by zero" {
			return fmt.Sprintf("panic div0 %d", len(rows))
		}
		if m := rtOOB.FindStringSubmatch(r.Panic); m != nil {
			return fmt.Sprintf("panic oob %s %s %d", m[1], m[2], len(rows))
		}
		return "panic other " + proto.Enc(r.Panic)
	}
	if r.Body == "invalid component\n" {
		return "invalid"
	}
	// Go-side oracle: the body is exactly HELP/TYPE + the rows of each indicator, in order,
	// with the rendered app name and version
	var want strings.Builder
	for _, ind := range rtIndicators {
		fmt.Fprintf(&want, "# HELP %s %s\n# TYPE %s gauge\n", ind[0], ind[1], ind[0])
		for _, rw := range rows {
			if rw.ind == ind[2] {
				fmt.Fprintf(&want, "%s{app=\"%s\",version=\"%s\",component=\"%s\"} %s\n", ind[0], j.name, j.ver, rw.name, rw.val)
			}
		}
	}
	hs := "h1"
	if want.String() != r.Body || r.Code != 200 {
		hs = "h0"
	}
	var b strings.Builder
	b.WriteString("ok " + hs)
	for _, rw := range rows {
		fmt.Fprintf(&b, " %s %s %s", rw.ind, proto.Enc(rw.name), rw.val)
	}
	return b.String()
}

// ------------------------------------------------------------------ the stream

func (j *rtJob) header() string {
	var b strings.Builder
	r, m := "r0", "b"
	if j.v.race {
		r = "r1"
	}
	if j.v.dataType != 1 {
		m = "c"
	}
	fmt.Fprintf(&b, "%s %s %d %d", r, m, j.s.n, len(j.s.comps))
	for _, c := range j.s.comps {
		ids := "-"
		if len(c.ids) > 0 {
			ts := make([]string, len(c.ids))
			for i, id := range c.ids {
				ts[i] = strconv.Itoa(id)
			}
			ids = strings.Join(ts, ",")
		}
		fmt.Fprintf(&b, " %s %s", proto.Enc(c.name), ids)
	}
	return b.String()
}

func streamRuntimeOps(s *stream.Stream, c *streamCtx) error {
	nStruct := 24
	if c.thorough() {
		nStruct = 260
	}
	if v := os.Getenv("VERIF_C07_STRUCTS"); v != "" {
		nStruct, _ = strconv.Atoi(v)
	}
	// VERIF_C07_MODEL=prefix compares /metrics with the model of the pinned template
	// (GoatSpec.Runtime.metricsPreFix) instead of the fixed one; the judge is the same.
	metricsOp := "rt:metrics"
	if os.Getenv("VERIF_C07_MODEL") == "prefix" {
		metricsOp = "rt:metricsPreFix"
	}
	s.Rule = fmt.Sprintf("%d component structures (4 fixed + random: N in 1..200 ids, 1..5 components, id lists empty / full / single / "+
		"contiguous / random density, some shuffled or with a repeated id; names include numeric-looking and non-ASCII ones) × 4 variants "+
		"(race × bool/count), each rendered by the real Values.Render, compiled with a driver in the same package and run once per "+
		"GOAT_CURRENT_COMPONENT in {unset, every component, one unknown}; per process several Track sequences (ids in -3..N+3; empty, single, "+
		"every id, hot ids, bursts up to 100000, 8 goroutines incl. same-id contention when race is on) each followed by a dump of trackIdStatus, "+
		"/track queries (sweep of 18 order strings, every component by name and by index, lists, invalid forms; plus random ones) and /metrics; "+
		"non-trivial = some in-range id was tracked and the answer is not a refusal", nStruct)
	work := c.work
	if work == "" {
		d, err := os.MkdirTemp("", "vh-runtime-")
		if err != nil {
			return err
		}
		defer os.RemoveAll(d)
		work = d
	}
	if err := os.MkdirAll(work, 0755); err != nil {
		return err
	}
	variants := []rtVariant{{false, 1}, {false, 2}, {true, 1}, {true, 2}}
	var jobs []*rtJob
	if c.thorough() {
		// uint32 wrap-around: 2^32+3 calls of Track(2) leave 3 in count mode (1 in bool mode)
		for _, v := range []rtVariant{{false, 2}, {true, 2}, {false, 1}} {
			j := &rtJob{idx: len(jobs), v: v, s: rtStruct{3, []rtComp{{"main", []int{1, 2, 3}}, {"w", []int{2}}}}, name: "app", ver: "v1"}
			sq := &rtSeq{lists: [][]rtOp{{{2, 4294967299}, {3, 1}}}}
			sq.queries = []*rtQuery{{kind: "status"}, {kind: "track", order: "1", hasOrder: true}, {kind: "metrics"}}
			j.runs = []*rtRun{{seqs: []*rtSeq{sq}}}
			jobs = append(jobs, j)
		}
	}
	for i := 0; i < nStruct; i++ {
		st := rtGenStruct(c.rng, i)
		for _, v := range variants {
			jobs = append(jobs, rtGenJob(c.rng, len(jobs), v, st, c.thorough()))
		}
	}
	// run
	workers := runtime.NumCPU()
	ch := make(chan *rtJob)
	var wg sync.WaitGroup
	for w := 0; w < workers; w++ {
		wg.Add(1)
		go func() {
			defer wg.Done()
			for j := range ch {
				j.err = rtRunJob(work, j)
			}
		}()
	}
	for _, j := range jobs {
		ch <- j
	}
	close(ch)
	wg.Wait()
	// emit, in generation order
	for _, j := range jobs {
		if j.err != nil {
			return j.err
		}
		hdr := j.header()
		vname := fmt.Sprintf("variant:race=%v,dataType=%d", j.v.race, j.v.dataType)
		s.Count("compiled")
		s.Count(vname)
		if j.raceBuilt {
			s.Count("race-detector-build")
			ans := "no-race"
			if j.raceReport != "" {
				ans = "race-detected"
				s.Notes[fmt.Sprintf("race-report-job-%d", j.idx)] = j.raceReport
			}
			s.Case("rt:norace "+hdr, ans, "judge:rt:norace "+ans, true)
		}
		s.Count(fmt.Sprintf("components:%d", len(j.s.comps)))
		for _, cp := range j.s.comps {
			if len(cp.ids) == 0 {
				s.Count("component:empty")
			} else {
				s.Count("component:nonempty")
			}
		}
		for _, r := range j.runs {
			curKind := "current:unset"
			if r.curSet {
				curKind = "current:unknown"
				for i, cp := range j.s.comps {
					if cp.name == r.cur {
						curKind = "current:component0"
						if i > 0 {
							curKind = "current:componentN"
						}
					}
				}
			}
			for _, sq := range r.seqs {
				ops := rtOpsTokens(sq.lists)
				tracked := false
				for _, l := range sq.lists {
					for _, o := range l {
						if o.id >= 1 && o.id <= j.s.n && o.k > 0 {
							tracked = true
						}
					}
				}
				if len(sq.lists) > 1 {
					s.Count("ops:8-goroutines")
				} else {
					s.Count("ops:sequential")
				}
				if sq.opsOut != "ok" {
					s.Count("track-call-failed")
				}
				for _, q := range sq.queries {
					var req, impl, judge string
					switch q.kind {
					case "status":
						impl = strings.TrimPrefix(strings.TrimPrefix(q.resp, "D"), " ")
					case "track":
						impl = rtCanonTrack(j, q)
					case "metrics":
						impl = rtCanonMetrics(j, q)
					}
					if sq.opsOut != "ok" {
						// Track itself failed: that is the answer of every query of this sequence
						impl = "track-call-failed " + proto.Enc(sq.opsOut)
					}
					switch q.kind {
					case "status":
						req = fmt.Sprintf("rt:status %s | %s", hdr, ops)
						judge = fmt.Sprintf("judge:rt:status %s | %s | %s", hdr, ops, impl)
					case "track":
						o, cm := q.order, q.component
						if !q.hasOrder {
							o = ""
						}
						if !q.hasComp {
							cm = ""
						}
						qs := proto.Enc(o) + " " + proto.Enc(cm)
						req = fmt.Sprintf("rt:track %s | %s | %s", hdr, ops, qs)
						judge = fmt.Sprintf("judge:rt:track %s | %s | %s | %s", hdr, ops, qs, impl)
						s.Count(fmt.Sprintf("track:order=%d", rtEffectiveOrder(q)))
					case "metrics":
						req = fmt.Sprintf("%s %s | %s | %s", metricsOp, hdr, ops, proto.Enc(r.cur))
						judge = fmt.Sprintf("judge:rt:metrics %s | %s | %s | %s", hdr, ops, proto.Enc(r.cur), impl)
						s.Count("metrics:" + curKind)
					}
					f := strings.Fields(impl)
					outcome := q.kind + ":"
					switch {
					case len(f) > 0 && f[0] == "panic":
						outcome += strings.Join(f[:minInt(2, len(f))], "-")
					case strings.Contains(impl, "invalid"):
						outcome += "refused"
					default:
						outcome += "answered"
					}
					s.Count(outcome)
					s.Case(req, impl, judge, tracked && strings.HasSuffix(outcome, "answered"))
				}
			}
		}
	}
	s.Notes["compilations"] = len(jobs)
	s.Notes["metrics_model"] = metricsOp
	return nil
}
