package main

// vh walker — a small, purely syntactic TRANSLATOR of the statement / expression walkers of
// pkg/tracking/increment.go (processStatements, analyzeAndModifyExpr) into the intermediate
// representation of lean/GoatSpec/WalkIR.lean. It renders what the source says — type-switch arms,
// nil / length guards, range loops, calls of the marking methods, Go field paths as strings — and
// refuses every construct it does not know (the check then reports a broken obligation). What the
// constructs mean on go/ast nodes is defined in Lean (WalkSpec.lean); Properties/Walker.lean proves
// on the regenerated value that the model's walk equations (Mark.evS / evE) are what the source says.

import (
	"fmt"
	"go/ast"
	"go/parser"
	"go/token"
	"os"
	"path/filepath"
	"strings"
)

func init() {
	register("walker", "walker [out.lean] : print GoatSpec/Walker.lean (the walkers of pkg/tracking/increment.go translated to WalkIR)", runWalker)
}

type wTr struct {
	recv           string            // receiver name (t)
	fset           string            // name of the *token.FileSet parameter
	env            map[string]string // Go identifier -> Lean path literal (list of strings), e.g. s -> [] ; expr -> ["X"]
	posOf          map[string]string // identifier bound to fset.Position(P.Pos()) -> path of P
	okOf           map[string]string // identifier bound by `v, ok := P.(*ast.T)` -> condition (.isKind P "T")
	inEach         int
	retFalseIsCont bool // inside the FuncLit arm of a literal pass `return false` ends the arm
}

func (t *wTr) fail(n ast.Node, what string) error {
	return fmt.Errorf("untranslatable construct at offset %d: %s", n.Pos(), what)
}

func leanPath(segs []string) string {
	q := make([]string, len(segs))
	for i, s := range segs {
		q[i] = fmt.Sprintf("%q", s)
	}
	return "[" + strings.Join(q, ", ") + "]"
}

// path of an expression that denotes a node reachable from the switch variable
func (t *wTr) path(e ast.Expr) ([]string, error) {
	switch x := e.(type) {
	case *ast.Ident:
		if p, ok := t.env[x.Name]; ok {
			if p == "" {
				return nil, nil
			}
			return strings.Split(p, "\x00"), nil
		}
		return nil, t.fail(e, "unknown identifier "+x.Name)
	case *ast.SelectorExpr:
		p, err := t.path(x.X)
		if err != nil {
			return nil, err
		}
		return append(append([]string{}, p...), x.Sel.Name), nil
	case *ast.TypeAssertExpr:
		return t.path(x.X)
	case *ast.ParenExpr:
		return t.path(x.X)
	case *ast.IndexExpr:
		if bl, ok := x.Index.(*ast.BasicLit); ok && bl.Value == "0" {
			p, err := t.path(x.X)
			if err != nil {
				return nil, err
			}
			return append(append([]string{}, p...), "[0]"), nil
		}
	}
	return nil, t.fail(e, "path expression")
}

func (t *wTr) bind(name string, p []string) { t.env[name] = strings.Join(p, "\x00") }

// fset.Position(P.<Pos|End>()) -> (P, "Pos"|"End")
func (t *wTr) positionOf(e ast.Expr) (ast.Expr, string, bool) {
	c, ok := e.(*ast.CallExpr)
	if !ok || len(c.Args) != 1 {
		return nil, "", false
	}
	sel, ok := c.Fun.(*ast.SelectorExpr)
	if !ok || sel.Sel.Name != "Position" {
		return nil, "", false
	}
	if id, ok := sel.X.(*ast.Ident); !ok || id.Name != t.fset {
		return nil, "", false
	}
	inner, ok := c.Args[0].(*ast.CallExpr)
	if !ok || len(inner.Args) != 0 {
		return nil, "", false
	}
	isel, ok := inner.Fun.(*ast.SelectorExpr)
	if !ok || (isel.Sel.Name != "Pos" && isel.Sel.Name != "End") {
		return nil, "", false
	}
	return isel.X, isel.Sel.Name, true
}

// fset.Position(P.Pos()).Line -> (P, which)
func (t *wTr) lineOf(e ast.Expr) (ast.Expr, string, bool) {
	sel, ok := e.(*ast.SelectorExpr)
	if !ok || sel.Sel.Name != "Line" {
		return nil, "", false
	}
	return t.positionOf(sel.X)
}

func isNilIdent(e ast.Expr) bool {
	id, ok := e.(*ast.Ident)
	return ok && id.Name == "nil"
}

func (t *wTr) lenOf(e ast.Expr) (ast.Expr, bool) {
	c, ok := e.(*ast.CallExpr)
	if !ok || len(c.Args) != 1 {
		return nil, false
	}
	if id, ok := c.Fun.(*ast.Ident); !ok || id.Name != "len" {
		return nil, false
	}
	return c.Args[0], true
}

func (t *wTr) cond(e ast.Expr) (string, error) {
	switch x := e.(type) {
	case *ast.Ident:
		if c, ok := t.okOf[x.Name]; ok {
			return c, nil
		}
	case *ast.ParenExpr:
		return t.cond(x.X)
	case *ast.UnaryExpr:
		if x.Op == token.NOT {
			c, err := t.cond(x.X)
			if err != nil {
				return "", err
			}
			return "(.not " + c + ")", nil
		}
	case *ast.BinaryExpr:
		switch x.Op {
		case token.LAND, token.LOR:
			a, err := t.cond(x.X)
			if err != nil {
				return "", err
			}
			b, err := t.cond(x.Y)
			if err != nil {
				return "", err
			}
			if x.Op == token.LAND {
				return "(.and " + a + " " + b + ")", nil
			}
			return "(.or " + a + " " + b + ")", nil
		case token.NEQ, token.EQL:
			if isNilIdent(x.Y) {
				p, err := t.path(x.X)
				if err != nil {
					return "", err
				}
				if x.Op == token.NEQ {
					return "(.nonNil " + leanPath(p) + ")", nil
				}
				return "(.isNil " + leanPath(p) + ")", nil
			}
			if l, ok := t.lenOf(x.X); ok && x.Op == token.EQL {
				if bl, ok := x.Y.(*ast.BasicLit); ok && bl.Value == "0" {
					p, err := t.path(l)
					if err != nil {
						return "", err
					}
					return "(.isEmpty " + leanPath(p) + ")", nil
				}
			}
			if x.Op == token.EQL {
				if pa, ta, ok1 := t.tokLineOf(x.X); ok1 {
					if pb, tb, ok2 := t.tokLineOf(x.Y); ok2 {
						a, err := t.path(pa)
						if err != nil {
							return "", err
						}
						b, err := t.path(pb)
						if err != nil {
							return "", err
						}
						return fmt.Sprintf("(.sameTok %s %q %s %q)", leanPath(a), ta, leanPath(b), tb), nil
					}
				}
				a, wa, oka := t.lineOf(x.X)
				b, wb, okb := t.lineOf(x.Y)
				if oka && okb && wa == "Pos" && wb == "End" {
					pa, err := t.path(a)
					if err != nil {
						return "", err
					}
					pb, err := t.path(b)
					if err != nil {
						return "", err
					}
					return "(.sameLine " + leanPath(pa) + " " + leanPath(pb) + ")", nil
				}
			}
		case token.GTR:
			if l, ok := t.lenOf(x.X); ok {
				if bl, ok := x.Y.(*ast.BasicLit); ok && bl.Value == "0" {
					p, err := t.path(l)
					if err != nil {
						return "", err
					}
					return "(.nonEmpty " + leanPath(p) + ")", nil
				}
			}
		}
	}
	return "", t.fail(e, "condition")
}

// method call on the receiver: t.<name>(args)
func (t *wTr) recvCall(e ast.Expr) (string, []ast.Expr, bool) {
	c, ok := e.(*ast.CallExpr)
	if !ok {
		return "", nil, false
	}
	sel, ok := c.Fun.(*ast.SelectorExpr)
	if !ok {
		return "", nil, false
	}
	if id, ok := sel.X.(*ast.Ident); !ok || id.Name != t.recv {
		return "", nil, false
	}
	return sel.Sel.Name, c.Args, true
}

// []ast.Stmt{X} / []ast.Expr{X}
func singleton(e ast.Expr, elem string) (ast.Expr, bool) {
	cl, ok := e.(*ast.CompositeLit)
	if !ok || len(cl.Elts) != 1 {
		return nil, false
	}
	at, ok := cl.Type.(*ast.ArrayType)
	if !ok || at.Len != nil {
		return nil, false
	}
	sel, ok := at.Elt.(*ast.SelectorExpr)
	if !ok || sel.Sel.Name != elem {
		return nil, false
	}
	return cl.Elts[0], true
}

func (t *wTr) acts(list []ast.Stmt) (string, error) {
	var out []string
	for _, s := range list {
		a, err := t.act(s)
		if err != nil {
			return "", err
		}
		if a != "" {
			out = append(out, a)
		}
	}
	return "[" + strings.Join(out, ", ") + "]", nil
}

func (t *wTr) arms(body *ast.BlockStmt, scrut []string, bindName string) (string, error) {
	var arms []string
	dflt := ""
	for _, cs := range body.List {
		cc, ok := cs.(*ast.CaseClause)
		if !ok {
			return "", t.fail(cs, "switch clause")
		}
		if bindName != "" {
			t.bind(bindName, scrut)
		}
		b, err := t.acts(cc.Body)
		if err != nil {
			return "", err
		}
		if cc.List == nil {
			dflt = "([\"*\"], " + b + ")"
			continue
		}
		var kinds []string
		for _, ty := range cc.List {
			st, ok := ty.(*ast.StarExpr)
			if !ok {
				return "", t.fail(ty, "case type")
			}
			sel, ok := st.X.(*ast.SelectorExpr)
			if !ok {
				return "", t.fail(ty, "case type")
			}
			if id, ok := sel.X.(*ast.Ident); !ok || id.Name != "ast" {
				return "", t.fail(ty, "case type")
			}
			kinds = append(kinds, fmt.Sprintf("%q", sel.Sel.Name))
		}
		arms = append(arms, "(["+strings.Join(kinds, ", ")+"], "+b+")")
	}
	if dflt != "" {
		arms = append(arms, dflt)
	}
	return "[" + strings.Join(arms, ",\n    ") + "]", nil
}

func (t *wTr) act(s ast.Stmt) (string, error) {
	switch x := s.(type) {
	case *ast.ExprStmt:
		name, args, ok := t.recvCall(x.X)
		if !ok {
			return "", t.fail(s, "expression statement")
		}
		switch name {
		case "checkAndMarkInsert":
			if len(args) == 1 {
				if p, which, ok := t.lineOf(args[0]); ok && which == "Pos" {
					pp, err := t.path(p)
					if err != nil {
						return "", err
					}
					return ".check " + leanPath(pp), nil
				}
			}
		case "insertSingleLineStmt":
			if len(args) == 1 {
				if id, ok := args[0].(*ast.Ident); ok {
					if p, ok := t.posOf[id.Name]; ok {
						return ".single " + p, nil
					}
				}
				if p, which, ok := t.positionOf(args[0]); ok && which == "Pos" {
					pp, err := t.path(p)
					if err != nil {
						return "", err
					}
					return ".single " + leanPath(pp), nil
				}
			}
		case "processControlStatements", "processGlobalValueSpecs", "processGlobalFunctionLit":
			if len(args) == 2 {
				if id, ok := args[1].(*ast.Ident); ok && id.Name == t.fset {
					pp, err := t.path(args[0])
					if err != nil {
						return "", err
					}
					return map[string]string{"processControlStatements": ".ctl ", "processGlobalValueSpecs": ".globalSpecs ", "processGlobalFunctionLit": ".globalLits "}[name] + leanPath(pp), nil
				}
			}
		case "processStatements", "analyzeAndModifyExpr":
			if len(args) == 2 {
				if id, ok := args[1].(*ast.Ident); !ok || id.Name != t.fset {
					break
				}
				elem, one, many := "Stmt", ".stmt1 ", ".stmts "
				if name == "analyzeAndModifyExpr" {
					elem, one, many = "Expr", ".expr1 ", ".exprs "
				}
				if el, ok := singleton(args[0], elem); ok {
					pp, err := t.path(el)
					if err != nil {
						return "", err
					}
					return one + leanPath(pp), nil
				}
				pp, err := t.path(args[0])
				if err != nil {
					return "", err
				}
				return many + leanPath(pp), nil
			}
		}
		return "", t.fail(s, "call of "+name)
	case *ast.IfStmt:
		if x.Init != nil || x.Else != nil {
			return "", t.fail(s, "if with init or else")
		}
		c, err := t.cond(x.Cond)
		if err != nil {
			return "", err
		}
		b, err := t.acts(x.Body.List)
		if err != nil {
			return "", err
		}
		return ".guard " + c + " " + b, nil
	case *ast.RangeStmt:
		if x.Tok != token.DEFINE || x.Value == nil {
			return "", t.fail(s, "range form")
		}
		if k, ok := x.Key.(*ast.Ident); !ok || k.Name != "_" {
			return "", t.fail(s, "range key")
		}
		v, ok := x.Value.(*ast.Ident)
		if !ok {
			return "", t.fail(s, "range value")
		}
		pp, err := t.path(x.X)
		if err != nil {
			return "", err
		}
		name := "$" + v.Name
		old, had := t.env[v.Name]
		t.bind(v.Name, []string{name})
		t.inEach++
		b, err := t.acts(x.Body.List)
		t.inEach--
		if had {
			t.env[v.Name] = old
		} else {
			delete(t.env, v.Name)
		}
		if err != nil {
			return "", err
		}
		return fmt.Sprintf(".each %s %q %s", leanPath(pp), name, b), nil
	case *ast.TypeSwitchStmt:
		if x.Init != nil {
			return "", t.fail(s, "type switch with init")
		}
		var scrutE ast.Expr
		bindName := ""
		switch a := x.Assign.(type) {
		case *ast.ExprStmt:
			ta, ok := a.X.(*ast.TypeAssertExpr)
			if !ok || ta.Type != nil {
				return "", t.fail(s, "type switch guard")
			}
			scrutE = ta.X
		case *ast.AssignStmt:
			if len(a.Lhs) != 1 || len(a.Rhs) != 1 {
				return "", t.fail(s, "type switch guard")
			}
			ta, ok := a.Rhs[0].(*ast.TypeAssertExpr)
			if !ok || ta.Type != nil {
				return "", t.fail(s, "type switch guard")
			}
			scrutE = ta.X
			bindName = a.Lhs[0].(*ast.Ident).Name
		}
		pp, err := t.path(scrutE)
		if err != nil {
			return "", err
		}
		old, had := t.env[bindName]
		arms, err := t.arms(x.Body, pp, bindName)
		if bindName != "" {
			if had {
				t.env[bindName] = old
			} else {
				delete(t.env, bindName)
			}
		}
		if err != nil {
			return "", err
		}
		return ".tswitch " + leanPath(pp) + " " + arms, nil
	case *ast.AssignStmt:
		if x.Tok == token.DEFINE && len(x.Lhs) == 1 && len(x.Rhs) == 1 {
			id, ok := x.Lhs[0].(*ast.Ident)
			if !ok {
				break
			}
			if p, which, ok := t.positionOf(x.Rhs[0]); ok && which == "Pos" {
				pp, err := t.path(p)
				if err != nil {
					return "", err
				}
				t.posOf[id.Name] = leanPath(pp)
				return "", nil
			}
			if ta, ok := x.Rhs[0].(*ast.TypeAssertExpr); ok && ta.Type != nil {
				pp, err := t.path(ta.X)
				if err != nil {
					return "", err
				}
				t.bind(id.Name, pp)
				return "", nil
			}
		}
		return "", t.fail(s, "assignment")
	case *ast.BranchStmt:
		if x.Tok == token.CONTINUE && x.Label == nil && t.inEach == 0 {
			return ".cont", nil
		}
		return "", t.fail(s, "branch statement")
	case *ast.ReturnStmt:
		if t.retFalseIsCont && t.inEach == 0 && len(x.Results) == 1 && isIdent(x.Results[0], "false") {
			return ".cont", nil
		}
		return "", t.fail(s, "return statement")
	case *ast.EmptyStmt:
		return "", nil
	}
	return "", t.fail(s, fmt.Sprintf("%T", s))
}

//	walker: func (t *IncrementalTrack) name(list []ast.X, fset *token.FileSet) {
//	  for _, v := range list { if v == nil { continue }; switch w := v.(type) { … } } }
func translateWalker(fd *ast.FuncDecl) (string, error) {
	t := &wTr{env: map[string]string{}, posOf: map[string]string{}, okOf: map[string]string{}}
	if fd.Recv == nil || len(fd.Recv.List) != 1 || len(fd.Recv.List[0].Names) != 1 {
		return "", fmt.Errorf("%s: receiver", fd.Name.Name)
	}
	t.recv = fd.Recv.List[0].Names[0].Name
	ps := fd.Type.Params.List
	if len(ps) != 2 || len(ps[0].Names) != 1 || len(ps[1].Names) != 1 {
		return "", fmt.Errorf("%s: parameters", fd.Name.Name)
	}
	list := ps[0].Names[0].Name
	t.fset = ps[1].Names[0].Name
	if len(fd.Body.List) != 1 {
		return "", fmt.Errorf("%s: body is not a single loop", fd.Name.Name)
	}
	loop, ok := fd.Body.List[0].(*ast.RangeStmt)
	if !ok || loop.Value == nil {
		return "", fmt.Errorf("%s: body is not a range loop", fd.Name.Name)
	}
	if id, ok := loop.X.(*ast.Ident); !ok || id.Name != list {
		return "", fmt.Errorf("%s: loop does not range over the list parameter", fd.Name.Name)
	}
	if k, ok := loop.Key.(*ast.Ident); !ok || k.Name != "_" {
		return "", fmt.Errorf("%s: loop key", fd.Name.Name)
	}
	elem := loop.Value.(*ast.Ident).Name
	if len(loop.Body.List) != 2 {
		return "", fmt.Errorf("%s: loop body is not {nil check; type switch}", fd.Name.Name)
	}
	// if elem == nil { continue }
	nc, ok := loop.Body.List[0].(*ast.IfStmt)
	okNil := false
	if ok && nc.Init == nil && nc.Else == nil && len(nc.Body.List) == 1 {
		if be, ok := nc.Cond.(*ast.BinaryExpr); ok && be.Op == token.EQL && isNilIdent(be.Y) {
			if id, ok := be.X.(*ast.Ident); ok && id.Name == elem {
				if br, ok := nc.Body.List[0].(*ast.BranchStmt); ok && br.Tok == token.CONTINUE && br.Label == nil {
					okNil = true
				}
			}
		}
	}
	if !okNil {
		return "", fmt.Errorf("%s: first statement of the loop is not `if %s == nil { continue }`", fd.Name.Name, elem)
	}
	ts, ok := loop.Body.List[1].(*ast.TypeSwitchStmt)
	if !ok || ts.Init != nil {
		return "", fmt.Errorf("%s: second statement of the loop is not a type switch", fd.Name.Name)
	}
	as, ok := ts.Assign.(*ast.AssignStmt)
	if !ok || len(as.Lhs) != 1 || len(as.Rhs) != 1 {
		return "", fmt.Errorf("%s: type switch guard", fd.Name.Name)
	}
	ta, ok := as.Rhs[0].(*ast.TypeAssertExpr)
	if !ok || ta.Type != nil {
		return "", fmt.Errorf("%s: type switch guard", fd.Name.Name)
	}
	if id, ok := ta.X.(*ast.Ident); !ok || id.Name != elem {
		return "", fmt.Errorf("%s: type switch is not on the loop variable", fd.Name.Name)
	}
	t.bind(elem, nil)
	arms, err := t.arms(ts.Body, nil, as.Lhs[0].(*ast.Ident).Name)
	if err != nil {
		return "", fmt.Errorf("%s: %v", fd.Name.Name, err)
	}
	return arms, nil
}

// ---------------------------------------------------------------- processControlStatements

// fset.Position(P.tok).Line  (a token.Pos FIELD, not a method call) -> (P, tok)
func (t *wTr) tokLineOf(e ast.Expr) (ast.Expr, string, bool) {
	sel, ok := e.(*ast.SelectorExpr)
	if !ok || sel.Sel.Name != "Line" {
		return nil, "", false
	}
	c, ok := sel.X.(*ast.CallExpr)
	if !ok || len(c.Args) != 1 {
		return nil, "", false
	}
	fs, ok := c.Fun.(*ast.SelectorExpr)
	if !ok || fs.Sel.Name != "Position" {
		return nil, "", false
	}
	if id, ok := fs.X.(*ast.Ident); !ok || id.Name != t.fset {
		return nil, "", false
	}
	f, ok := c.Args[0].(*ast.SelectorExpr)
	if !ok {
		return nil, "", false
	}
	return f.X, f.Sel.Name, true
}

// v, ok := P.(*ast.T)
func (t *wTr) bindAssert(a *ast.AssignStmt) bool {
	if a.Tok != token.DEFINE || len(a.Lhs) != 2 || len(a.Rhs) != 1 {
		return false
	}
	v, ok1 := a.Lhs[0].(*ast.Ident)
	okId, ok2 := a.Lhs[1].(*ast.Ident)
	ta, ok3 := a.Rhs[0].(*ast.TypeAssertExpr)
	if !ok1 || !ok2 || !ok3 || ta.Type == nil {
		return false
	}
	st, ok := ta.Type.(*ast.StarExpr)
	if !ok {
		return false
	}
	sel, ok := st.X.(*ast.SelectorExpr)
	if !ok {
		return false
	}
	if id, ok := sel.X.(*ast.Ident); !ok || id.Name != "ast" {
		return false
	}
	pp, err := t.path(ta.X)
	if err != nil {
		return false
	}
	t.bind(v.Name, pp)
	t.okOf[okId.Name] = fmt.Sprintf("(.isKind %s %q)", leanPath(pp), sel.Sel.Name)
	return true
}

func isIdent(e ast.Expr, name string) bool {
	id, ok := e.(*ast.Ident)
	return ok && id.Name == name
}

// `changed` / `changed && C` -> (C or .tt, true);  `!changed && C` -> handled by the caller
func (t *wTr) splitChanged(e ast.Expr, negated bool) (string, bool) {
	lead := func(x ast.Expr) bool {
		if negated {
			u, ok := x.(*ast.UnaryExpr)
			return ok && u.Op == token.NOT && isIdent(u.X, "changed")
		}
		return isIdent(x, "changed")
	}
	if !negated && lead(e) {
		return ".tt", true
	}
	be, ok := e.(*ast.BinaryExpr)
	if !ok || be.Op != token.LAND || !lead(be.X) {
		return "", false
	}
	c, err := t.cond(be.Y)
	if err != nil {
		return "", false
	}
	return c, true
}

// changed = t.isLineChangedRange(line(P.Pos()), line(Q.End()))
func (t *wTr) rangeAssign(s ast.Stmt) (ast.Expr, ast.Expr, bool) {
	a, ok := s.(*ast.AssignStmt)
	if !ok || a.Tok != token.ASSIGN || len(a.Lhs) != 1 || len(a.Rhs) != 1 || !isIdent(a.Lhs[0], "changed") {
		return nil, nil, false
	}
	name, args, ok := t.recvCall(a.Rhs[0])
	if !ok || name != "isLineChangedRange" || len(args) != 2 {
		return nil, nil, false
	}
	p, wp, ok1 := t.lineOf(args[0])
	q, wq, ok2 := t.lineOf(args[1])
	if !ok1 || !ok2 || wp != "Pos" || wq != "End" {
		return nil, nil, false
	}
	return p, q, true
}

func (t *wTr) cacts(list []ast.Stmt) (string, error) {
	var out []string
	for _, s := range list {
		a, err := t.cact(s)
		if err != nil {
			return "", err
		}
		if a != "" {
			out = append(out, a)
		}
	}
	return "[" + strings.Join(out, ", ") + "]", nil
}

func (t *wTr) cact(s ast.Stmt) (string, error) {
	switch x := s.(type) {
	case *ast.AssignStmt:
		if x.Tok == token.ASSIGN && len(x.Lhs) == 1 && len(x.Rhs) == 1 && isIdent(x.Lhs[0], "changed") && t.inEach == 0 {
			if name, args, ok := t.recvCall(x.Rhs[0]); ok && name == "isLineChanged" && len(args) == 1 {
				if p, tok, ok := t.tokLineOf(args[0]); ok {
					pp, err := t.path(p)
					if err != nil {
						return "", err
					}
					return fmt.Sprintf(".setLine %s %q", leanPath(pp), tok), nil
				}
			}
		}
		if t.bindAssert(x) {
			return "", nil
		}
		return "", t.fail(s, "assignment")
	case *ast.ExprStmt:
		if name, args, ok := t.recvCall(x.X); ok && name == "forceMarkInsert" && len(args) == 1 {
			if be, ok := args[0].(*ast.BinaryExpr); ok && be.Op == token.ADD {
				if bl, ok := be.Y.(*ast.BasicLit); ok && bl.Value == "1" {
					if p, tok, ok := t.tokLineOf(be.X); ok {
						pp, err := t.path(p)
						if err != nil {
							return "", err
						}
						return fmt.Sprintf(".force %s %q", leanPath(pp), tok), nil
					}
				}
			}
		}
		return "", t.fail(s, "expression statement")
	case *ast.RangeStmt:
		if x.Tok != token.DEFINE || x.Value == nil || !isIdent(x.Key, "_") {
			return "", t.fail(s, "range form")
		}
		v, ok := x.Value.(*ast.Ident)
		if !ok {
			return "", t.fail(s, "range value")
		}
		pp, err := t.path(x.X)
		if err != nil {
			return "", err
		}
		name := "$" + v.Name
		old, had := t.env[v.Name]
		t.bind(v.Name, []string{name})
		t.inEach++
		b, err := t.cacts(x.Body.List)
		t.inEach--
		if had {
			t.env[v.Name] = old
		} else {
			delete(t.env, v.Name)
		}
		if err != nil {
			return "", err
		}
		return fmt.Sprintf(".each %s %q %s", leanPath(pp), name, b), nil
	case *ast.IfStmt:
		if x.Else != nil {
			return "", t.fail(s, "if with else")
		}
		if x.Init != nil {
			a, ok := x.Init.(*ast.AssignStmt)
			if !ok || !t.bindAssert(a) {
				return "", t.fail(s, "if init")
			}
		}
		// if P == nil { break }
		if len(x.Body.List) == 1 {
			if br, ok := x.Body.List[0].(*ast.BranchStmt); ok && br.Tok == token.BREAK && br.Label == nil && t.inEach == 0 {
				c, err := t.cond(x.Cond)
				if err != nil {
					return "", err
				}
				return ".breakIf " + c, nil
			}
		}
		// if !changed && C { changed = range(...) }  /  { for _, e := range L { changed = range(e, e); if changed { break } } }
		if c, ok := t.splitChanged(x.Cond, true); ok && len(x.Body.List) == 1 && t.inEach == 0 {
			if p, q, ok := t.rangeAssign(x.Body.List[0]); ok {
				pp, err := t.path(p)
				if err != nil {
					return "", err
				}
				pq, err := t.path(q)
				if err != nil {
					return "", err
				}
				return fmt.Sprintf(".orRange %s %s %s", c, leanPath(pp), leanPath(pq)), nil
			}
			if loop, ok := x.Body.List[0].(*ast.RangeStmt); ok && loop.Tok == token.DEFINE && isIdent(loop.Key, "_") && loop.Value != nil && len(loop.Body.List) == 2 {
				ev := loop.Value.(*ast.Ident).Name
				p, q, ok1 := t.rangeAssign(loop.Body.List[0])
				brk, ok2 := loop.Body.List[1].(*ast.IfStmt)
				if ok1 && ok2 && isIdent(p, ev) && isIdent(q, ev) && brk.Init == nil && brk.Else == nil && isIdent(brk.Cond, "changed") && len(brk.Body.List) == 1 {
					if br, ok := brk.Body.List[0].(*ast.BranchStmt); ok && br.Tok == token.BREAK && br.Label == nil {
						pl, err := t.path(loop.X)
						if err != nil {
							return "", err
						}
						return fmt.Sprintf(".orAnyRange %s %s", c, leanPath(pl)), nil
					}
				}
			}
			return "", t.fail(s, "`!changed && …` body")
		}
		if c, ok := t.splitChanged(x.Cond, false); ok {
			b, err := t.cacts(x.Body.List)
			if err != nil {
				return "", err
			}
			return ".ifChanged " + c + " " + b, nil
		}
		c, err := t.cond(x.Cond)
		if err != nil {
			return "", err
		}
		b, err := t.cacts(x.Body.List)
		if err != nil {
			return "", err
		}
		return ".guard " + c + " " + b, nil
	case *ast.EmptyStmt:
		return "", nil
	}
	return "", t.fail(s, fmt.Sprintf("%T", s))
}

//	func (t *IncrementalTrack) processControlStatements(node ast.Node, fset *token.FileSet) {
//	  ast.Inspect(node, func(n ast.Node) bool { if n == nil { return false }; var changed bool; switch n := n.(type) {…}; return true }) }
func translateInspector(fd *ast.FuncDecl) (string, error) {
	name := fd.Name.Name
	t := &wTr{env: map[string]string{}, posOf: map[string]string{}, okOf: map[string]string{}}
	if fd.Recv == nil || len(fd.Recv.List) != 1 || len(fd.Recv.List[0].Names) != 1 {
		return "", fmt.Errorf("%s: receiver", name)
	}
	t.recv = fd.Recv.List[0].Names[0].Name
	ps := fd.Type.Params.List
	if len(ps) != 2 || len(ps[0].Names) != 1 || len(ps[1].Names) != 1 {
		return "", fmt.Errorf("%s: parameters", name)
	}
	node := ps[0].Names[0].Name
	t.fset = ps[1].Names[0].Name
	if len(fd.Body.List) != 1 {
		return "", fmt.Errorf("%s: body is not a single ast.Inspect call", name)
	}
	es, ok := fd.Body.List[0].(*ast.ExprStmt)
	if !ok {
		return "", fmt.Errorf("%s: body is not a single ast.Inspect call", name)
	}
	call, ok := es.X.(*ast.CallExpr)
	if !ok || len(call.Args) != 2 || !isIdent(call.Args[0], node) {
		return "", fmt.Errorf("%s: body is not ast.Inspect(%s, …)", name, node)
	}
	if sel, ok := call.Fun.(*ast.SelectorExpr); !ok || !isIdent(sel.X, "ast") || sel.Sel.Name != "Inspect" {
		return "", fmt.Errorf("%s: body is not ast.Inspect(%s, …)", name, node)
	}
	fl, ok := call.Args[1].(*ast.FuncLit)
	if !ok || len(fl.Type.Params.List) != 1 || len(fl.Type.Params.List[0].Names) != 1 {
		return "", fmt.Errorf("%s: callback", name)
	}
	n := fl.Type.Params.List[0].Names[0].Name
	b := fl.Body.List
	if len(b) != 4 {
		return "", fmt.Errorf("%s: callback is not {nil check; var changed bool; type switch; return true}", name)
	}
	nc, ok := b[0].(*ast.IfStmt)
	okNil := false
	if ok && nc.Init == nil && nc.Else == nil && len(nc.Body.List) == 1 {
		if be, ok := nc.Cond.(*ast.BinaryExpr); ok && be.Op == token.EQL && isNilIdent(be.Y) && isIdent(be.X, n) {
			if r, ok := nc.Body.List[0].(*ast.ReturnStmt); ok && len(r.Results) == 1 && isIdent(r.Results[0], "false") {
				okNil = true
			}
		}
	}
	if !okNil {
		return "", fmt.Errorf("%s: first statement of the callback is not `if %s == nil { return false }`", name, n)
	}
	ds, ok := b[1].(*ast.DeclStmt)
	okVar := false
	if ok {
		if gd, ok := ds.Decl.(*ast.GenDecl); ok && gd.Tok == token.VAR && len(gd.Specs) == 1 {
			if vs, ok := gd.Specs[0].(*ast.ValueSpec); ok && len(vs.Names) == 1 && vs.Names[0].Name == "changed" && len(vs.Values) == 0 && isIdent(vs.Type, "bool") {
				okVar = true
			}
		}
	}
	if !okVar {
		return "", fmt.Errorf("%s: second statement of the callback is not `var changed bool`", name)
	}
	ts, ok := b[2].(*ast.TypeSwitchStmt)
	if !ok || ts.Init != nil {
		return "", fmt.Errorf("%s: third statement of the callback is not a type switch", name)
	}
	as, ok := ts.Assign.(*ast.AssignStmt)
	if !ok || len(as.Lhs) != 1 || len(as.Rhs) != 1 {
		return "", fmt.Errorf("%s: type switch guard", name)
	}
	ta, ok := as.Rhs[0].(*ast.TypeAssertExpr)
	if !ok || ta.Type != nil || !isIdent(ta.X, n) {
		return "", fmt.Errorf("%s: type switch is not on the callback's node", name)
	}
	if r, ok := b[3].(*ast.ReturnStmt); !ok || len(r.Results) != 1 || !isIdent(r.Results[0], "true") {
		return "", fmt.Errorf("%s: the callback does not end with `return true`", name)
	}
	bindName := as.Lhs[0].(*ast.Ident).Name
	var arms []string
	for _, cs := range ts.Body.List {
		cc, ok := cs.(*ast.CaseClause)
		if !ok {
			return "", fmt.Errorf("%s: switch clause", name)
		}
		t.env = map[string]string{}
		t.okOf = map[string]string{}
		t.bind(bindName, nil)
		body, err := t.cacts(cc.Body)
		if err != nil {
			return "", fmt.Errorf("%s: %v", name, err)
		}
		if cc.List == nil {
			arms = append(arms, "([\"*\"], "+body+")")
			continue
		}
		var kinds []string
		for _, ty := range cc.List {
			st, ok := ty.(*ast.StarExpr)
			if !ok {
				return "", fmt.Errorf("%s: case type", name)
			}
			sel, ok := st.X.(*ast.SelectorExpr)
			if !ok || !isIdent(sel.X, "ast") {
				return "", fmt.Errorf("%s: case type", name)
			}
			kinds = append(kinds, fmt.Sprintf("%q", sel.Sel.Name))
		}
		arms = append(arms, "(["+strings.Join(kinds, ", ")+"], "+body+")")
	}
	return "[" + strings.Join(arms, ",\n    ") + "]", nil
}

// addStmts: … for _, decl := range f.Decls { switch decl := decl.(type) { arms } } … return t.doInsert()
// Only the loop over the declarations is translated (the arms of its type switch).
func translateDecls(fd *ast.FuncDecl) (string, error) {
	name := fd.Name.Name
	t := &wTr{env: map[string]string{}, posOf: map[string]string{}, okOf: map[string]string{}}
	if fd.Recv == nil || len(fd.Recv.List) != 1 || len(fd.Recv.List[0].Names) != 1 {
		return "", fmt.Errorf("%s: receiver", name)
	}
	t.recv = fd.Recv.List[0].Names[0].Name
	var loops []*ast.RangeStmt
	for _, st := range fd.Body.List {
		if rs, ok := st.(*ast.RangeStmt); ok {
			loops = append(loops, rs)
		}
	}
	if len(loops) != 1 {
		return "", fmt.Errorf("%s: expected exactly one range loop at the top level, found %d", name, len(loops))
	}
	loop := loops[0]
	sel, ok := loop.X.(*ast.SelectorExpr)
	if !ok || sel.Sel.Name != "Decls" || loop.Value == nil || !isIdent(loop.Key, "_") {
		return "", fmt.Errorf("%s: the loop does not range over the declarations of the file", name)
	}
	// the file set is the first result of the statement that parses the content
	t.fset = ""
	for _, st := range fd.Body.List {
		if as, ok := st.(*ast.AssignStmt); ok && as.Tok == token.DEFINE && len(as.Lhs) == 3 {
			if id, ok := as.Lhs[0].(*ast.Ident); ok {
				t.fset = id.Name
			}
		}
	}
	if t.fset == "" {
		return "", fmt.Errorf("%s: file set variable not found", name)
	}
	elem := loop.Value.(*ast.Ident).Name
	if len(loop.Body.List) != 1 {
		return "", fmt.Errorf("%s: loop body is not a single type switch", name)
	}
	ts, ok := loop.Body.List[0].(*ast.TypeSwitchStmt)
	if !ok || ts.Init != nil {
		return "", fmt.Errorf("%s: loop body is not a type switch", name)
	}
	as, ok := ts.Assign.(*ast.AssignStmt)
	if !ok || len(as.Lhs) != 1 || len(as.Rhs) != 1 {
		return "", fmt.Errorf("%s: type switch guard", name)
	}
	ta, ok := as.Rhs[0].(*ast.TypeAssertExpr)
	if !ok || ta.Type != nil || !isIdent(ta.X, elem) {
		return "", fmt.Errorf("%s: type switch is not on the loop variable", name)
	}
	// what follows the loop must be the text splice alone
	last := fd.Body.List[len(fd.Body.List)-1]
	if rs, ok := last.(*ast.ReturnStmt); !ok || len(rs.Results) != 1 {
		return "", fmt.Errorf("%s: the function does not end with `return t.doInsert()`", name)
	} else if n, _, ok := t.recvCall(rs.Results[0]); !ok || n != "doInsert" {
		return "", fmt.Errorf("%s: the function does not end with `return t.doInsert()`", name)
	}
	if fd.Body.List[len(fd.Body.List)-2] != ast.Stmt(loop) {
		return "", fmt.Errorf("%s: statements between the loop over the declarations and the text splice", name)
	}
	t.bind(elem, nil)
	arms, err := t.arms(ts.Body, nil, as.Lhs[0].(*ast.Ident).Name)
	if err != nil {
		return "", fmt.Errorf("%s: %v", name, err)
	}
	return arms, nil
}

//	literal pass: func (t *IncrementalTrack) name(specs []ast.Spec, fset *token.FileSet) {
//	  for _, spec := range specs { switch spec := spec.(type) { case *ast.ValueSpec:
//	    for _, value := range spec.Values { ast.Inspect(value, func(n ast.Node) bool {
//	      if n == nil { return false }; switch n := n.(type) { case *ast.FuncLit: ARM; return false }; return true }) } } } }
func translateLitPass(fd *ast.FuncDecl) (string, error) {
	name := fd.Name.Name
	bad := func(what string) (string, error) { return "", fmt.Errorf("%s: %s", name, what) }
	t := &wTr{env: map[string]string{}, posOf: map[string]string{}, okOf: map[string]string{}, retFalseIsCont: true}
	if fd.Recv == nil || len(fd.Recv.List) != 1 || len(fd.Recv.List[0].Names) != 1 {
		return bad("receiver")
	}
	t.recv = fd.Recv.List[0].Names[0].Name
	ps := fd.Type.Params.List
	if len(ps) != 2 || len(ps[0].Names) != 1 || len(ps[1].Names) != 1 {
		return bad("parameters")
	}
	specs := ps[0].Names[0].Name
	t.fset = ps[1].Names[0].Name
	if len(fd.Body.List) != 1 {
		return bad("body is not a single loop")
	}
	l1, ok := fd.Body.List[0].(*ast.RangeStmt)
	if !ok || !isIdent(l1.X, specs) || !isIdent(l1.Key, "_") || l1.Value == nil || len(l1.Body.List) != 1 {
		return bad("outer loop")
	}
	specVar := l1.Value.(*ast.Ident).Name
	ts, ok := l1.Body.List[0].(*ast.TypeSwitchStmt)
	if !ok || ts.Init != nil || len(ts.Body.List) != 1 {
		return bad("type switch over the specs with a single case")
	}
	as, ok := ts.Assign.(*ast.AssignStmt)
	if !ok || len(as.Lhs) != 1 || len(as.Rhs) != 1 {
		return bad("type switch guard")
	}
	if ta, ok := as.Rhs[0].(*ast.TypeAssertExpr); !ok || ta.Type != nil || !isIdent(ta.X, specVar) {
		return bad("type switch guard")
	}
	bound := as.Lhs[0].(*ast.Ident).Name
	cc := ts.Body.List[0].(*ast.CaseClause)
	if len(cc.List) != 1 || len(cc.Body) != 1 {
		return bad("case *ast.ValueSpec with a single loop")
	}
	if st, ok := cc.List[0].(*ast.StarExpr); !ok {
		return bad("case type")
	} else if sel, ok := st.X.(*ast.SelectorExpr); !ok || sel.Sel.Name != "ValueSpec" {
		return bad("case type")
	}
	l2, ok := cc.Body[0].(*ast.RangeStmt)
	if !ok || !isIdent(l2.Key, "_") || l2.Value == nil || len(l2.Body.List) != 1 {
		return bad("loop over the values")
	}
	if sel, ok := l2.X.(*ast.SelectorExpr); !ok || !isIdent(sel.X, bound) || sel.Sel.Name != "Values" {
		return bad("loop over spec.Values")
	}
	valVar := l2.Value.(*ast.Ident).Name
	es, ok := l2.Body.List[0].(*ast.ExprStmt)
	if !ok {
		return bad("ast.Inspect call")
	}
	call, ok := es.X.(*ast.CallExpr)
	if !ok || len(call.Args) != 2 || !isIdent(call.Args[0], valVar) {
		return bad("ast.Inspect(value, …)")
	}
	if sel, ok := call.Fun.(*ast.SelectorExpr); !ok || !isIdent(sel.X, "ast") || sel.Sel.Name != "Inspect" {
		return bad("ast.Inspect(value, …)")
	}
	fl, ok := call.Args[1].(*ast.FuncLit)
	if !ok || len(fl.Type.Params.List) != 1 || len(fl.Type.Params.List[0].Names) != 1 {
		return bad("callback")
	}
	n := fl.Type.Params.List[0].Names[0].Name
	b := fl.Body.List
	if len(b) != 3 {
		return bad("callback is not {nil check; type switch; return true}")
	}
	nc, ok := b[0].(*ast.IfStmt)
	okNil := false
	if ok && nc.Init == nil && nc.Else == nil && len(nc.Body.List) == 1 {
		if be, ok := nc.Cond.(*ast.BinaryExpr); ok && be.Op == token.EQL && isNilIdent(be.Y) && isIdent(be.X, n) {
			if r, ok := nc.Body.List[0].(*ast.ReturnStmt); ok && len(r.Results) == 1 && isIdent(r.Results[0], "false") {
				okNil = true
			}
		}
	}
	if !okNil {
		return bad("first statement of the callback is not the nil check")
	}
	if r, ok := b[2].(*ast.ReturnStmt); !ok || len(r.Results) != 1 || !isIdent(r.Results[0], "true") {
		return bad("the callback does not end with `return true`")
	}
	ts2, ok := b[1].(*ast.TypeSwitchStmt)
	if !ok || ts2.Init != nil || len(ts2.Body.List) != 1 {
		return bad("type switch over the node with a single case")
	}
	as2, ok := ts2.Assign.(*ast.AssignStmt)
	if !ok || len(as2.Lhs) != 1 || len(as2.Rhs) != 1 {
		return bad("inner type switch guard")
	}
	if ta, ok := as2.Rhs[0].(*ast.TypeAssertExpr); !ok || ta.Type != nil || !isIdent(ta.X, n) {
		return bad("inner type switch guard")
	}
	cc2 := ts2.Body.List[0].(*ast.CaseClause)
	if len(cc2.List) != 1 {
		return bad("case *ast.FuncLit")
	}
	if st, ok := cc2.List[0].(*ast.StarExpr); !ok {
		return bad("case *ast.FuncLit")
	} else if sel, ok := st.X.(*ast.SelectorExpr); !ok || sel.Sel.Name != "FuncLit" {
		return bad("case *ast.FuncLit")
	}
	if len(cc2.Body) == 0 {
		return bad("empty FuncLit arm")
	}
	// the arm must end with `return false` (no descent into the literal)
	if r, ok := cc2.Body[len(cc2.Body)-1].(*ast.ReturnStmt); !ok || len(r.Results) != 1 || !isIdent(r.Results[0], "false") {
		return bad("the FuncLit arm does not end with `return false`")
	}
	t.bind(as2.Lhs[0].(*ast.Ident).Name, nil)
	arm, err := t.acts(cc2.Body[:len(cc2.Body)-1])
	if err != nil {
		return "", fmt.Errorf("%s: %v", name, err)
	}
	return arm, nil
}

func runWalker(args []string) error {
	repo := os.Getenv("VERIF_REPO")
	if repo == "" {
		repo = "/repo"
	}
	src := filepath.Join(repo, "pkg/tracking/increment.go")
	fset := token.NewFileSet()
	f, err := parser.ParseFile(fset, src, nil, 0)
	if err != nil {
		return err
	}
	want := []string{"processStatements", "analyzeAndModifyExpr"}
	got := map[string]string{}
	var terr []string
	for _, d := range f.Decls {
		fd, ok := d.(*ast.FuncDecl)
		if !ok || fd.Body == nil || fd.Recv == nil {
			continue
		}
		for _, w := range want {
			if fd.Name.Name == w {
				s, err := translateWalker(fd)
				if err != nil {
					terr = append(terr, err.Error())
					continue
				}
				got[w] = s
			}
		}
	}
	inspector := ""
	for _, d := range f.Decls {
		if fd, ok := d.(*ast.FuncDecl); ok && fd.Body != nil && fd.Recv != nil && fd.Name.Name == "processControlStatements" {
			s, err := translateInspector(fd)
			if err != nil {
				terr = append(terr, err.Error())
			} else {
				inspector = s
			}
		}
	}
	declWalker := ""
	for _, d := range f.Decls {
		if fd, ok := d.(*ast.FuncDecl); ok && fd.Body != nil && fd.Recv != nil && fd.Name.Name == "addStmts" {
			s, err := translateDecls(fd)
			if err != nil {
				terr = append(terr, err.Error())
			} else {
				declWalker = s
			}
		}
	}
	litPasses := map[string]string{}
	for _, d := range f.Decls {
		if fd, ok := d.(*ast.FuncDecl); ok && fd.Body != nil && fd.Recv != nil && (fd.Name.Name == "processGlobalValueSpecs" || fd.Name.Name == "processGlobalFunctionLit") {
			s, err := translateLitPass(fd)
			if err != nil {
				terr = append(terr, err.Error())
			} else {
				litPasses[fd.Name.Name] = s
			}
		}
	}
	var b strings.Builder
	b.WriteString("import GoatSpec.WalkIR\n/-! GENERATED by `vh walker` from /repo/pkg/tracking/increment.go (go/parser, purely syntactic) on every run — do not edit.\n    The statement and expression walkers as `WalkIR` values; an untranslatable construct leaves the\n    walker out (its theorems in Properties/Walker.lean then fail to elaborate). -/\nnamespace GoatSpec.Walker\nopen GoatSpec.WalkIR\n\n")
	for _, w := range want {
		if s, ok := got[w]; ok {
			fmt.Fprintf(&b, "def %s : Walker := ⟨\n   %s⟩\n\n", w, s)
		}
	}
	if declWalker != "" {
		fmt.Fprintf(&b, "def addStmts : Walker := ⟨\n   %s⟩\n\n", declWalker)
	}
	for _, nm := range []string{"processGlobalValueSpecs", "processGlobalFunctionLit"} {
		if s, ok := litPasses[nm]; ok {
			fmt.Fprintf(&b, "def %s : LitPass := ⟨%s⟩\n\n", nm, s)
		}
	}
	if inspector != "" {
		fmt.Fprintf(&b, "def processControlStatements : Inspector := ⟨\n   %s⟩\n\n", inspector)
	}
	for _, e := range terr {
		fmt.Fprintf(&b, "-- translation error: %s\n", e)
	}
	b.WriteString("end GoatSpec.Walker\n")
	if len(args) > 0 {
		old, _ := os.ReadFile(args[0])
		if string(old) == b.String() {
			return nil
		}
		return os.WriteFile(args[0], []byte(b.String()), 0o644)
	}
	fmt.Print(b.String())
	return nil
}
