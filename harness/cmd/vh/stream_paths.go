package main

import (
	"fmt"
	"os"
	"path/filepath"
	"sort"
	"strings"

	"github.com/monshunter/goat/pkg/config"
	"github.com/monshunter/goat/pkg/goat"
	"verifharness/internal/stream"
)

func init() {
	streams["paths"] = streamPaths
}

var pathSegs = []string{"vendor", "vendorx", "testdata", "node_modules", "ignoredir", "ignoredirx", "nested", "sub", "pkg", "l0", ".github", ".git", "goat", "git", "venv", "loadtestdata"}
var pathFiles = []string{"a.go", "a_test.go", "b.txt", "ignored_file.go", "go.go", "x_test.go.go"}

type pathCfg struct {
	ignores []string // nil = default list
	skip    bool
}

func (p pathCfg) toks(nested []string, gen string) string {
	ign := p.ignores
	// Validate appends the generated file; mirror the resulting list
	eff := append([]string{}, ign...)
	eff = append(eff, gen)
	return fmt.Sprintf("%s %d %s %d %s", map[bool]string{true: "1", false: "0"}[p.skip], len(eff), strings.Join(eff, " "), len(nested), strings.Join(nested, " "))
}

func streamPaths(s *stream.Stream, c *streamCtx) error {
	root := filepath.Join(c.work, "paths-root")
	if err := os.MkdirAll(root, 0755); err != nil {
		return err
	}
	// nested modules on disk
	nested := []string{"nested", "pkg/nested", "sub/l0"}
	for k, n := range nested {
		os.MkdirAll(filepath.Join(root, n, "sub"), 0755)
		mod := "module x\n"
		if k == 2 { // an empty go.mod is a module boundary too (the usual way to cut a directory out)
			mod = ""
		}
		os.WriteFile(filepath.Join(root, n, "go.mod"), []byte(mod), 0644)
	}
	os.WriteFile(filepath.Join(root, "go.mod"), []byte("module example.com/m\n\ngo 1.23\n"), 0644)
	cwd, _ := os.Getwd()
	if err := os.Chdir(root); err != nil {
		return err
	}
	defer os.Chdir(cwd)
	def := []string{".git", ".gitignore", ".DS_Store", ".idea", ".vscode", ".venv", "vendor", "testdata", "node_modules"}
	cfgs := []pathCfg{
		{def, true}, {def, false},
		{[]string{"ignoredir", "pkg/l0/ignored_file.go"}, true},
		{[]string{"ignoredir", "pkg/l0/ignored_file.go", ".git"}, false},
		{[]string{"pkg/l0", "sub"}, true},
		{[]string{}, true},
		// ignore entries in non-canonical spelling (trailing slash, ./ prefix, doubled separator)
		{[]string{"ignoredir/", "./pkg/l0", "nested//sub", "./pkg/l0/ignored_file.go"}, false},
		// entries that sort between an ignored directory and the paths below it (a sorted index must
		// not lose the directory): a sibling extending the name with a byte below '/', an entry inside it
		{[]string{"ignoredir", "ignoredir-old", "ignoredir.go", "ignoredir/sub", "pkg", "pkg-x", "pkg/l0/a.go"}, false},
		{[]string{"sub.go", "sub", "sub/l0", "pkg/l0", "pkg/l0-util", "pkg/l0.v2"}, true},
	}
	depth := 2
	if c.thorough() {
		depth = 3
	}
	s.Rule = fmt.Sprintf("every directory path of ≤%d segments over %d segment names (ignored names, names extending ignored names, vendor, testdata, nested modules with a real go.mod on disk) "+
		"× %d file names × %d ignore lists/skipNestedModules settings through the real Config.IsTargetDir / IsTargetFile after Validate(); plus random directory trees on disk through the real prepareFiles "+
		"(hook) vs the model's pruned walk; non-trivial = the answer is 'not a target'", depth, len(pathSegs), len(pathFiles), len(cfgs))
	s.Exhaustive = true
	var dirs []string
	var rec func(prefix []string, d int)
	rec = func(prefix []string, d int) {
		if len(prefix) > 0 {
			dirs = append(dirs, strings.Join(prefix, "/"))
		}
		if d == depth {
			return
		}
		for _, sg := range pathSegs {
			rec(append(append([]string{}, prefix...), sg), d+1)
		}
	}
	rec(nil, 0)
	dirs = append(dirs, ".")
	for ci, pc := range cfgs {
		cfg := &config.Config{Ignores: pc.ignores, SkipNestedModules: pc.skip, DiffPrecision: 2, AppVersion: "t", AppName: "a"}
		if err := cfg.Validate(); err != nil {
			return err
		}
		ct := pc.toks(nested, cfg.GoatGeneratedFile())
		for _, d := range dirs {
			got := cfg.IsTargetDir(d)
			s.Case("pathdir "+ct+" "+d, b01(got), "", !got)
			s.Count(fmt.Sprintf("cfg%d:dir", ci))
			for _, fn := range pathFiles {
				f := d + "/" + fn
				if d == "." {
					f = fn
				}
				gotf := cfg.IsTargetFile(f)
				s.Case("pathfile "+ct+" "+f, b01(gotf), "judge:pathfile "+ct+" "+f+" | "+b01(gotf), !gotf)
			}
		}
	}
	// the nested-module cache: random query sequences against ONE configuration each (the sync.Map of
	// Config.IsBelongNestedModule is filled in the order of the queries); root = paths-root with the
	// nested modules nested/, pkg/nested/, sub/l0/ created above, plus look-alike siblings
	for _, d := range []string{"nestedx/sub", "pkg/nestedapi", "sub/l0x", "sub/l", "plain/deep/er"} {
		os.MkdirAll(filepath.Join(root, d), 0755)
	}
	qpool := []string{".", "nested", "nested/sub", "nested/sub/x", "nestedx", "nestedx/sub", "pkg", "pkg/nested", "pkg/nested/sub", "pkg/nestedapi",
		"sub", "sub/l0", "sub/l0/sub", "sub/l0x", "sub/l", "plain", "plain/deep", "plain/deep/er", "does/not/exist"}
	nSeq := 300
	if c.thorough() {
		nSeq = 5000
	}
	for i := 0; i < nSeq; i++ {
		cfg := &config.Config{SkipNestedModules: true, DiffPrecision: 2, AppVersion: "t", AppName: "a"}
		if err := cfg.Validate(); err != nil {
			return err
		}
		var qs, ans []string
		for k := 2 + c.rng.Intn(7); k > 0; k-- {
			q := qpool[c.rng.Intn(len(qpool))]
			qs = append(qs, q)
			ans = append(ans, b01(cfg.IsBelongNestedModule(q)))
		}
		req := "ncache " + strings.Join(nested, " ") + " | " + strings.Join(qs, " ")
		a := strings.Join(ans, " ")
		s.Case(req, a, "judge:"+req+" | "+a, strings.Contains(a, "1"))
		s.Count("ncache")
	}
	// random trees through the real prepareFiles
	nTrees := 30
	if c.thorough() {
		nTrees = 300
	}
	for t := 0; t < nTrees; t++ {
		troot := filepath.Join(c.work, fmt.Sprintf("tree%d", t))
		os.MkdirAll(troot, 0755)
		var enc []string
		var nestedRoots []string
		var build func(dir string, rel string, d int) int
		build = func(dir, rel string, d int) int {
			n := 0
			names := map[string]bool{}
			k := 1 + c.rng.Intn(4)
			var items []string
			for i := 0; i < k; i++ {
				if d < 3 && c.rng.Intn(2) == 0 {
					nm := pathSegs[c.rng.Intn(len(pathSegs))]
					if nm == ".git" || names[nm] {
						continue
					}
					names[nm] = true
					items = append(items, "D:"+nm)
				} else {
					nm := pathFiles[c.rng.Intn(len(pathFiles))]
					if names[nm] {
						continue
					}
					names[nm] = true
					items = append(items, "F:"+nm)
				}
			}
			if rel != "" && c.rng.Intn(8) == 0 && !names["go.mod"] {
				os.WriteFile(filepath.Join(dir, "go.mod"), []byte("module y\n"), 0644)
				nestedRoots = append(nestedRoots, rel)
				items = append(items, "F:go.mod")
			}
			// filepath.Walk visits entries in lexical order
			sort.Slice(items, func(i, j int) bool { return items[i][2:] < items[j][2:] })
			for _, it := range items {
				nm := it[2:]
				if it[0] == 'F' {
					if nm != "go.mod" {
						os.WriteFile(filepath.Join(dir, nm), []byte("package p\n"), 0644)
					}
					enc = append(enc, "F", nm)
					n++
				} else {
					os.MkdirAll(filepath.Join(dir, nm), 0755)
					pos := len(enc)
					enc = append(enc, "D", nm, "?")
					sub := rel + "/" + nm
					if rel == "" {
						sub = nm
					}
					cnt := build(filepath.Join(dir, nm), sub, d+1)
					enc[pos+2] = fmt.Sprint(cnt)
					n++
				}
			}
			return n
		}
		os.WriteFile(filepath.Join(troot, "go.mod"), []byte("module example.com/m\n"), 0644)
		cnt := build(troot, "", 0)
		// every third tree also carries the ignored file, an ignored directory and their look-alikes
		if t%3 == 0 {
			for _, d := range []string{"zpkg/l0", "zignoredir", "zignoredirx"} {
				os.MkdirAll(filepath.Join(troot, d), 0755)
			}
			os.WriteFile(filepath.Join(troot, "zpkg/l0/ignored_file.go"), []byte("package p\n"), 0644)
			os.WriteFile(filepath.Join(troot, "zpkg/l0/kept.go"), []byte("package p\n"), 0644)
			os.WriteFile(filepath.Join(troot, "zignoredir/i.go"), []byte("package p\n"), 0644)
			os.WriteFile(filepath.Join(troot, "zignoredirx/i.go"), []byte("package p\n"), 0644)
			enc = append(enc, "D", "zignoredir", "1", "F", "i.go", "D", "zignoredirx", "1", "F", "i.go",
				"D", "zpkg", "1", "D", "l0", "2", "F", "ignored_file.go", "F", "kept.go")
			cnt += 3
		}
		pc := cfgs[c.rng.Intn(len(cfgs))]
		if t%3 == 0 {
			pc = pathCfg{[]string{"zignoredir", "zpkg/l0/ignored_file.go", "vendor"}, c.rng.Intn(2) == 0}
		}
		os.Chdir(troot)
		cfg := &config.Config{Ignores: pc.ignores, SkipNestedModules: pc.skip, DiffPrecision: 2, AppVersion: "t", AppName: "a"}
		if err := cfg.Validate(); err != nil {
			return err
		}
		files, err := goat.VerifPrepareFiles(cfg)
		os.Chdir(root)
		if err != nil {
			return err
		}
		req := fmt.Sprintf("walk %s D . %d %s", pc.toks(nestedRoots, cfg.GoatGeneratedFile()), cnt+1, strings.Join(append([]string{"F", "go.mod"}, enc...), " "))
		_ = req
		// go.mod at the root sorts among the entries; the model's walk order is the encoding order,
		// so compare as sorted sets
		sort.Strings(files)
		s.Case(strings.TrimSpace(req), strings.Join(files, " "), "", len(files) > 0)
		s.Count("tree")
		os.RemoveAll(troot)
	}
	return nil
}

func b01(b bool) string {
	if b {
		return "1"
	}
	return "0"
}
