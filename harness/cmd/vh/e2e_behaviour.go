package main

import (
	"bytes"
	"fmt"
	"go/ast"
	"go/parser"
	"go/token"
	"math/rand"
	"os"
	"os/exec"
	"path/filepath"
	"regexp"
	"sort"
	"strconv"
	"strings"
	"sync"
	"time"

	"verifharness/internal/gen"
	"verifharness/internal/oracle"
	"verifharness/internal/proj"
)

func init() {
	e2es["behaviour"] = e2eBehaviour
}

// e2eBehaviour — C14 (assumption monitor for what NonInterf.lean does not model: Go's dynamic
// semantics): generated deterministic programs are built before and after `goat track`; every
// main package is run in both builds with the same arguments and GOAT_PORT=0; standard output
// and exit status must be equal. Coverage clause: a third build of the instrumented tree in
// which the harness added (a) a dump of the runtime's own record `trackIdStatus` at exit and
// (b) next to every tracking call an independent probe `VerifHit(n)`; the ids the runtime
// reports as covered must be exactly the ids whose call was reached (count mode: with the exact
// number of executions).
//
// Besides the project's own mains (which call the functions of their own package and one
// function per imported library) a driver main `cmd/zdrv` calls every function of every library
// package, so that most tracking calls are reachable; it ends by returning, by os.Exit(k != 0)
// or by an unrecovered panic (exit status 2).

type behEnding int

const (
	endReturn behEnding = iota
	endExit
	endPanic
)

func callOf(q string, fn *gen.Func) string {
	switch fn.Kind {
	case "multi", "single":
		return fmt.Sprintf("total += %s.%s(3, 4)", q, fn.Name)
	case "method":
		return fmt.Sprintf("total += %s.T{V: 5}.%s(3, 4)", q, fn.Name)
	case "generic":
		return fmt.Sprintf("total += %s.%s[int](3, 4)", q, fn.Name)
	case "empty":
		return fmt.Sprintf("%s.%s()", q, fn.Name)
	}
	return ""
}

// driverSrc renders cmd/zdrv/main.go for one revision.
func driverSrc(p *proj.Project, old bool, ending behEnding, k int, concurrent bool) string {
	var b strings.Builder
	b.WriteString("package main\n\nimport (\n\t\"fmt\"\n\t\"os\"\n")
	if concurrent {
		b.WriteString("\t\"sync\"\n")
	}
	var libs []*proj.Pkg
	for _, pk := range p.Pkgs {
		if !pk.IsMain {
			libs = append(libs, pk)
		}
	}
	for _, pk := range libs {
		fmt.Fprintf(&b, "\t%s %q\n", pk.Name, strings.TrimSuffix(proj.Module+"/"+pk.Dir, "/."))
	}
	b.WriteString(")\n\nvar _ = os.Args\n\nfunc main() {\n\ttotal := len(os.Args)\n")
	calls := func(ind string) {
		for _, pk := range libs {
			for _, f := range pk.Files {
				if old && f.Status == gen.Added {
					continue
				}
				for _, fn := range f.Funcs {
					if old && fn.Status == gen.Added {
						continue
					}
					if c := callOf(pk.Name, fn); c != "" {
						fmt.Fprintf(&b, "%s%s\n", ind, c)
					}
				}
			}
			if len(pk.Files[0].Calls) > 0 {
				fmt.Fprintf(&b, "%stotal += %s.Deps()\n", ind, pk.Name)
			}
		}
	}
	calls("\t")
	// one function is called 300 more times: counters must not wrap at 8 bits
	hot := ""
	for _, pk := range libs {
		for _, f := range pk.Files {
			if f.Status == gen.Added || hot != "" {
				continue
			}
			for _, fn := range f.Funcs {
				if fn.Status != gen.Added && hot == "" {
					hot = callOf(pk.Name, fn)
				}
			}
		}
	}
	if hot != "" {
		fmt.Fprintf(&b, "\tfor i := 0; i < 300; i++ {\n\t\t%s\n\t}\n", hot)
	}
	if concurrent {
		// race: true configurations: the same tracking points are reached from four goroutines
		// with no happens-before edge between them (the functions share no unsynchronised state)
		b.WriteString("\tvar wgc sync.WaitGroup\n\tpart := make([]int, 4)\n\tfor g := 0; g < 4; g++ {\n\t\twgc.Add(1)\n\t\tgo func(g int) {\n\t\t\tdefer wgc.Done()\n\t\t\ttotal := g\n")
		calls("\t\t\t")
		b.WriteString("\t\t\tpart[g] = total\n\t\t}(g)\n\t}\n\twgc.Wait()\n\tfor _, v := range part {\n\t\ttotal += v\n\t}\n")
	}
	b.WriteString("\tnotes := 0\n")
	for _, pk := range libs {
		fmt.Fprintf(&b, "\tnotes += %s.NoteSum()\n", pk.Name)
	}
	b.WriteString("\tfmt.Println(\"total\", total, \"notes\", notes)\n")
	if !old {
		switch ending {
		case endExit:
			fmt.Fprintf(&b, "\tfmt.Println(\"exiting\")\n\tos.Exit(%d)\n", k)
		case endPanic:
			b.WriteString("\tif total != -1 {\n\t\tpanic(\"driver ends with a panic\")\n\t}\n")
		}
	}
	b.WriteString("}\n")
	return b.String()
}

const probeSrc = `package %s

import (
	"encoding/json"
	"fmt"
	"net/http/httptest"
	"os"
	"sort"
	"strings"
	"sync"
)

var (
	verifMu   sync.Mutex
	verifHits = map[int]int{}
	verifOnce sync.Once
)

// VerifHit is the harness's independent record of a reached tracking call.
func VerifHit(n int) {
	verifMu.Lock()
	verifHits[n]++
	verifMu.Unlock()
}

// VerifDump prints the runtime's own record and the probe's record on stderr (once).
func VerifDump() {
	verifOnce.Do(func() {
		var cov, hit []string
		// what the program reports as covered: the /track endpoint over all components
		rec := httptest.NewRecorder()
		trackHandler(rec, httptest.NewRequest("GET", "/track?order=2", nil))
		var res Results
		_ = json.Unmarshal(rec.Body.Bytes(), &res)
		covm := map[int]uint32{}
		for _, cr := range res.Results {
			for _, it := range cr.Metrics.Items {
				if it.Count > 0 {
					covm[it.ID] = it.Count
				}
			}
		}
		var cks []int
		for k := range covm {
			cks = append(cks, k)
		}
		sort.Ints(cks)
		for _, k := range cks {
			cov = append(cov, fmt.Sprintf("%%d:%%d", k, covm[k]))
		}
		verifMu.Lock()
		var ks []int
		for k := range verifHits {
			ks = append(ks, k)
		}
		sort.Ints(ks)
		for _, k := range ks {
			hit = append(hit, fmt.Sprintf("%%d:%%d", k, verifHits[k]))
		}
		verifMu.Unlock()
		fmt.Fprintf(os.Stderr, "\nVERIF-COVERED %%d [%%s]\nVERIF-HITS [%%s]\n", TRACK_ID_END-1, strings.Join(cov, ","), strings.Join(hit, ","))
	})
}

// VerifExit dumps and exits.
func VerifExit(code int) {
	VerifDump()
	os.Exit(code)
}
`

type binRun struct {
	exit   int
	stdout string
	stderr string
}

func runBin(path string, args []string, env []string) binRun {
	cmd := exec.Command(path, args...)
	cmd.Env = append(os.Environ(), env...)
	var so, se bytes.Buffer
	cmd.Stdout, cmd.Stderr = &so, &se
	done := make(chan error, 1)
	if err := cmd.Start(); err != nil {
		return binRun{exit: -1, stderr: err.Error()}
	}
	go func() { done <- cmd.Wait() }()
	var err error
	select {
	case err = <-done:
	case <-time.After(60 * time.Second):
		cmd.Process.Kill()
		<-done
		return binRun{exit: -2, stdout: so.String(), stderr: se.String() + "\nTIMEOUT"}
	}
	r := binRun{stdout: so.String(), stderr: se.String()}
	if err != nil {
		if ee, ok := err.(*exec.ExitError); ok {
			r.exit = ee.ExitCode()
		} else {
			r.exit = -1
		}
	}
	return r
}

// buildMains builds every main package of the module in dir into outDir (one binary per package).
func buildMains(dir, outDir string, race bool) (bool, string) {
	os.MkdirAll(outDir, 0755)
	args := []string{"build"}
	cgo := "CGO_ENABLED=0"
	if race {
		args = append(args, "-race")
		cgo = "CGO_ENABLED=1"
	}
	cmd := exec.Command("go", append(args, "-o", outDir+string(filepath.Separator), "./...")...)
	cmd.Dir = dir
	cmd.Env = append(os.Environ(), "GOFLAGS=-mod=mod", "GOPROXY=off", "GOSUMDB=off", "GOTOOLCHAIN=local", cgo)
	out, err := cmd.CombinedOutput()
	return err == nil, string(out)
}

// raceDetectorWorks: can this machine build with -race (needs cgo and the race runtime)?
var raceDetectorWorks = sync.OnceValue(func() bool {
	d, err := os.MkdirTemp("", "vh-race-probe")
	if err != nil {
		return false
	}
	defer os.RemoveAll(d)
	os.WriteFile(filepath.Join(d, "go.mod"), []byte("module raceprobe\n\ngo 1.23\n"), 0644)
	os.WriteFile(filepath.Join(d, "main.go"), []byte("package main\n\nfunc main() {}\n"), 0644)
	ok, _ := buildMains(d, filepath.Join(d, "bin"), true)
	return ok
})

func parseDump(stderr string) (n int, cov, hit map[int]int, ok bool) {
	m := regexp.MustCompile(`VERIF-COVERED (\d+) \[([^\]]*)\]\nVERIF-HITS \[([^\]]*)\]`).FindStringSubmatch(stderr)
	if m == nil {
		return 0, nil, nil, false
	}
	n, _ = strconv.Atoi(m[1])
	parse := func(s string) map[int]int {
		out := map[int]int{}
		for _, f := range strings.Split(s, ",") {
			if f == "" {
				continue
			}
			kv := strings.SplitN(f, ":", 2)
			k, _ := strconv.Atoi(kv[0])
			v, _ := strconv.Atoi(kv[1])
			out[k] = v
		}
		return out
	}
	return n, parse(m[2]), parse(m[3]), true
}

func fmtSet(m map[int]int) string {
	var ks []int
	for k := range m {
		ks = append(ks, k)
	}
	sort.Ints(ks)
	var s []string
	for _, k := range ks {
		s = append(s, fmt.Sprintf("%d:%d", k, m[k]))
	}
	return strings.Join(s, ",")
}

// addProbes rewrites the instrumented tree in place: probe file in the tracking package, a probe
// next to every tracking call, a deferred dump at the top of every main that imports the package.
func addProbes(dir string, cfg proj.Config, mainFiles []string) (calls int, dumped map[string]bool, err error) {
	alias := cfg.Alias
	if err = os.WriteFile(filepath.Join(dir, cfg.PkgPath, "verif_probe.go"), []byte(fmt.Sprintf(probeSrc, cfg.PkgName)), 0644); err != nil {
		return
	}
	re := regexp.MustCompile(regexp.QuoteMeta(alias) + `\.Track\(` + regexp.QuoteMeta(alias) + `\.TRACK_ID_(\d+)\)`)
	tree := proj.ReadTree(dir)
	dumped = map[string]bool{}
	isMain := map[string]bool{}
	for _, m := range mainFiles {
		isMain[m] = true
	}
	for _, p := range sortedKeys(tree) {
		if !strings.HasSuffix(p, ".go") || strings.HasPrefix(p, cfg.PkgPath+"/") {
			continue
		}
		src := tree[p]
		n := len(re.FindAllString(src, -1))
		calls += n
		out := re.ReplaceAllString(src, "${0}; "+alias+".VerifHit(${1})")
		if isMain[p] {
			fset := token.NewFileSet()
			f, perr := parser.ParseFile(fset, p, out, parser.ParseComments)
			if perr != nil {
				return calls, dumped, fmt.Errorf("%s does not parse after the probe rewrite: %v", p, perr)
			}
			imported := false
			for _, im := range f.Imports {
				if im.Name != nil && im.Name.Name == alias && strings.Trim(im.Path.Value, `"`) == proj.Module+"/"+cfg.PkgPath {
					imported = true
				}
			}
			if imported {
				for _, d := range f.Decls {
					if fd, ok := d.(*ast.FuncDecl); ok && fd.Recv == nil && fd.Name.Name == "main" && fd.Body != nil {
						off := fset.Position(fd.Body.Lbrace).Offset
						out = out[:off+1] + "\n\tdefer " + alias + ".VerifDump()\n" + out[off+1:]
						dumped[p] = true
					}
				}
				out = strings.ReplaceAll(out, "os.Exit(", alias+".VerifExit(")
			}
		}
		if out != src {
			if err = os.WriteFile(filepath.Join(dir, p), []byte(out), 0644); err != nil {
				return
			}
		}
	}
	return
}

func e2eBehaviour(c *e2eCtx) error {
	n := 32
	if c.thorough() {
		n = 320
	}
	c.res.Rule = fmt.Sprintf("assumption_monitor (Go semantics are not modelled): %d generated deterministic multi-package programs (closures, defers, panic/recover, labelled loops, "+
		"select, type switches, generics, goroutines joined by WaitGroup; project mains + a driver main calling every library function and ending by return / os.Exit(k) / unrecovered panic) "+
		"× granularity{line,patch,scope,func} × dataType{bool,count} × race{on,off} (all 16 combinations cycled); per main package: original binary run twice (determinism), instrumented binary, "+
		"probe build; stdout and exit status equal (GOAT_PORT=0, same arguments); ids reported by trackIdStatus == ids of reached tracking calls recorded by an independent probe "+
		"(count mode: equal counts); evaluation = one main package compared; non-trivial = at least one tracking call was reached in that process", n)
	grans := []string{"line", "patch", "scope", "func"}
	c.parallel(n, func(i int, r *rand.Rand) {
		dir := filepath.Join(c.work, fmt.Sprintf("b%04d", i))
		defer os.RemoveAll(dir)
		src := filepath.Join(dir, "src")
		p := proj.Generate(r, proj.Opts{NoSameBase: true, InScope: true, RootMain: r.Intn(3) == 0, Mains: 1 + r.Intn(2), Libs: 2 + r.Intn(3), ChangeP: 0.35})
		ending := behEnding(i % 3)
		code := 1 + r.Intn(100)
		raceOn := (i/8)%2 == 0
		p.ExtraOld["cmd/zdrv/main.go"] = driverSrc(p, true, ending, code, raceOn)
		p.ExtraNew["cmd/zdrv/main.go"] = driverSrc(p, false, ending, code, raceOn)
		oldTree, newTree := p.Files(true), p.Files(false)
		oldRev, err := proj.InitRepo(src, oldTree, 1700000000)
		if err == nil {
			_, err = proj.Commit(src, newTree, 1700000100, "new")
		}
		if err != nil {
			c.violate("", "harness: "+err.Error(), nil)
			return
		}
		cfg := proj.DefaultConfig(oldRev)
		cfg.Granularity = grans[i%4]
		cfg.DataType = []string{"bool", "count"}[(i/4)%2]
		cfg.Race = raceOn
		cfg.Precision = pick(r, []int{1, 2, 3})
		if i%2 == 1 { // the worker pools as well: coverage must be attributed to the right component under every schedule
			cfg.Threads = 4
		}
		if r.Intn(3) == 0 {
			cfg.Alias, cfg.PkgName, cfg.PkgPath = "cov", "covpkg", "internal/cov"
		}
		proj.WriteConfig(src, cfg)
		desc := cfgDesc(cfg) + fmt.Sprintf(" ending=%d", ending)
		rp := func(extra map[string]any) map[string]any {
			m := map[string]any{"scenario": i, "config": cfg, "config_desc": desc, "old_tree": oldTree, "new_tree": newTree,
				"regenerate": fmt.Sprintf("vh e2e behaviour -seed %d -tier %s (scenario %d)", c.seed, c.tier, i)}
			for k, v := range extra {
				m[k] = v
			}
			return m
		}
		c.count("gran:" + cfg.Granularity)
		c.count("dataType:" + cfg.DataType)
		c.count(fmt.Sprintf("race:%v", cfg.Race))
		c.count(fmt.Sprintf("driver-ending:%d", ending))

		// ---- original binaries
		binO, binI, binP := filepath.Join(dir, "orig"), filepath.Join(dir, "instr"), filepath.Join(dir, "probe")
		// race: true configurations are observed in race-detector builds (all three binaries), so
		// that a tracking call that races with itself shows as a report / exit status 66
		rb := cfg.Race && raceDetectorWorks()
		if rb {
			c.count("race-detector-build")
		}
		if ok, out := buildMains(src, binO, rb); !ok {
			c.violate("", "harness: generated project does not build: "+firstLine(out, ""), rp(map[string]any{"build": tail(out, 1500)}))
			return
		}
		// ---- instrument
		run := proj.RunGoat(c.goat, src, nil, "track")
		if run.Exit != 0 || isPanic(run.Stderr) {
			c.count("track-failed(C01)")
			c.violate("C01,C14", "goat track failed: "+lastLine(run.Stderr), rp(map[string]any{"stderr": tail(run.Stderr, 1500)}))
			return
		}
		// one scenario in three goes through a patch round before it is observed: insert markers in
		// library files, `goat patch` (ids renumbered, service-start blocks re-applied exactly once)
		if i%3 == 2 {
			tree := proj.ReadTree(src)
			var libs []string
			for _, pth := range goFilesOf(tree, cfg) {
				inMain := strings.HasPrefix(pth, "cmd/zdrv/")
				for _, pk := range p.Pkgs {
					if pk.IsMain && filepath.Dir(pth) == filepath.Clean(pk.Dir) {
						inMain = true
					}
				}
				if !inMain && pth != filepath.Join(cfg.PkgPath, "goat_generated.go") {
					libs = append(libs, pth)
				}
			}
			if len(libs) > 0 && addInserts(tree, libs, r, 1+r.Intn(2)) > 0 {
				writeFiles(src, tree, libs)
				c.count("patch-round-before-observation")
				if pr := proj.RunGoat(c.goat, src, nil, "patch"); pr.Exit != 0 || isPanic(pr.Stderr) {
					c.violate("C10,C14", "goat patch failed on insert markers in library files: "+lastLine(pr.Stderr), rp(map[string]any{"stderr": tail(pr.Stderr, 1500)}))
					return
				}
			}
		}
		if ok, out := buildMains(src, binI, rb); !ok {
			c.count("instrumented-build-failed(C01)")
			c.violate("C01,C14", "instrumented project does not build: "+firstLine(out, ""), rp(map[string]any{"build": tail(out, 1500)}))
			return
		}
		var mainFiles []string
		for _, pk := range p.Pkgs {
			if pk.IsMain {
				mainFiles = append(mainFiles, filepath.Join(pk.Dir, pk.Entry()))
			}
		}
		mainFiles = append(mainFiles, "cmd/zdrv/main.go")
		instrTree := proj.ReadTree(src)
		// which mains must start the service: those whose component lists at least one id
		inS, serr := oracle.Scan(src, cfg.Alias, proj.Module+"/"+cfg.PkgPath, cfg.PkgPath)
		genF, gerr := oracle.ParseGenerated(filepath.Join(src, cfg.PkgPath, "goat_generated.go"))
		compIDs := map[string][]int{}
		if serr == nil && gerr == nil && genF.Exists && len(genF.Names) == len(genF.Components) {
			for k, nm := range genF.Names {
				compIDs[nm] = genF.Components[k]
			}
		}
		calls, dumped, err := addProbes(src, cfg, mainFiles)
		if err != nil {
			c.violate("", "harness: "+err.Error(), rp(nil))
			return
		}
		probeOK := true
		if calls > 0 {
			if ok, out := buildMains(src, binP, rb); !ok {
				probeOK = false
				c.violate("", "harness: probe build failed: "+firstLine(out, ""), rp(map[string]any{"build": tail(out, 1500)}))
			}
		}
		// ---- run every main
		bins, _ := os.ReadDir(binO)
		args := []string{"alpha", "--beta=2", "3"}
		env := []string{"GOAT_PORT=0"}
		for _, b := range bins {
			name := b.Name()
			mainFile := ""
			for _, mf := range mainFiles {
				d := filepath.Base(filepath.Dir(mf))
				if filepath.Dir(mf) == "." {
					d = filepath.Base(proj.Module)
				}
				if d == name {
					mainFile = mf
				}
			}
			o1 := runBin(filepath.Join(binO, name), args, env)
			o2 := runBin(filepath.Join(binO, name), args, env)
			c.mu.Lock()
			c.res.Evaluations++
			c.mu.Unlock()
			if o1.stdout != o2.stdout || o1.exit != o2.exit {
				c.count("original-nondeterministic(skipped)")
				continue
			}
			if rb && (strings.Contains(o1.stderr, "WARNING: DATA RACE") || strings.Contains(o2.stderr, "WARNING: DATA RACE")) {
				c.count("original-has-a-data-race(skipped)")
				continue
			}
			c.count(fmt.Sprintf("exit-status:%d", o1.exit))
			in := runBin(filepath.Join(binI, name), args, env)
			what := func(kind string, r binRun) map[string]any {
				return rp(map[string]any{"binary": name, "main_file": mainFile, "args": args, "env": env, "build": kind,
					"original_stdout": tail(o1.stdout, 600), "original_exit": o1.exit, "this_stdout": tail(r.stdout, 600), "this_exit": r.exit,
					"this_stderr": tail(r.stderr, 1500), "instrumented_main": instrTree[mainFile]})
			}
			if rb && strings.Contains(in.stderr, "WARNING: DATA RACE") {
				c.violate("C14", fmt.Sprintf("%s: race detector build, race: true: the instrumented binary reports a DATA RACE (exit %d), the original reports none (exit %d): %s (%s)",
					name, in.exit, o1.exit, raceSignature(reRaceBlock.FindString(in.stderr)), desc), what("instrumented", in))
				continue
			}
			if in.stdout != o1.stdout || in.exit != o1.exit {
				c.violate("C14", fmt.Sprintf("%s: the instrumented binary prints %q and exits %d, the original prints %q and exits %d (%s)",
					name, tail(in.stdout, 120), in.exit, tail(o1.stdout, 120), o1.exit, desc), what("instrumented", in))
				continue
			}
			if calls == 0 || !probeOK {
				c.count("no-tracking-call-in-tree")
				continue
			}
			pr := runBin(filepath.Join(binP, name), args, env)
			if pr.stdout != o1.stdout || pr.exit != o1.exit {
				c.violate("C14", fmt.Sprintf("%s: the probe build of the instrumented tree prints %q and exits %d, the original prints %q and exits %d (%s)",
					name, tail(pr.stdout, 120), pr.exit, tail(o1.stdout, 120), o1.exit, desc), what("probe", pr))
				continue
			}
			if mainFile != "" && serr == nil {
				if ids := compIDs[filepath.Dir(mainFile)]; len(ids) > 0 && !(len(inS.Serve[mainFile]) == 1 && inS.ServeFirst[mainFile]) {
					c.violate("C14", fmt.Sprintf("%s: its component lists %d tracking ids but func main does not start the service as its first statement (service-start calls in the file: %d): reached ids cannot be reported (%s)",
						name, len(ids), len(inS.Serve[mainFile]), desc), what("instrumented", in))
					continue
				}
			}
			if !dumped[mainFile] {
				c.count("main-without-service-start(no dump)")
				continue
			}
			total, cov, hit, ok := parseDump(pr.stderr)
			if !ok {
				c.violate("", "harness: no coverage dump on stderr of "+name, what("probe", pr))
				continue
			}
			if len(hit) > 0 {
				c.mu.Lock()
				c.res.NonTrivial++
				c.mu.Unlock()
			}
			c.count(fmt.Sprintf("reached>0:%v", len(hit) > 0))
			bad := ""
			for k := range hit {
				if cov[k] == 0 {
					bad = fmt.Sprintf("tracking call %d was reached %d times but is reported as not covered", k, hit[k])
				} else if cfg.DataType == "count" && cov[k] != hit[k] {
					bad = fmt.Sprintf("tracking call %d was reached %d times but the runtime reports %d", k, hit[k], cov[k])
				} else if cfg.DataType == "bool" && cov[k] != 1 {
					bad = fmt.Sprintf("bool mode: status of reached id %d is %d", k, cov[k])
				}
			}
			for k := range cov {
				if hit[k] == 0 {
					bad = fmt.Sprintf("id %d is reported as covered (%d) but its tracking call was never reached", k, cov[k])
				}
			}
			if bad != "" {
				w := what("probe", pr)
				w["covered"] = fmtSet(cov)
				w["hits"] = fmtSet(hit)
				w["ids"] = total
				c.violate("C14", fmt.Sprintf("%s: %s (%s)", name, bad, desc), w)
				continue
			}
			c.sample(fmt.Sprintf("%s %s: stdout %q exit %d equal; %d of %d ids reached, covered==hits [%s]", desc, name, strings.TrimSpace(tail(o1.stdout, 60)), o1.exit, len(hit), total, tail(fmtSet(hit), 80)))
		}
	})
	return nil
}
