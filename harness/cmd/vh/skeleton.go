package main

// vh skeleton — a small TRANSLATOR from /repo's Go source to a Lean value: for every function of
// the command layer the sequence of effectful steps in source order (calls of project functions,
// calls of external functions that can fail, write-boundary hooks, file-system mutations, loops).
// The Lean side (GoatSpec/SkelSpec.lean, Properties/C12|C15|C06|C10) proves by evaluation on this
// regenerated value that every mutation is a hooked boundary, that after the first mutation of a
// command only the listed fallible steps remain, and that the marker passes run in the modelled
// order. Type information comes from go/types (go/packages), never from goat's own code.

import (
	"fmt"
	"go/ast"
	"go/token"
	"go/types"
	"math/big"
	"os"
	"sort"
	"strings"

	"golang.org/x/tools/go/packages"
)

func init() {
	register("skeleton", "skeleton [out.lean] : print GoatSpec/Skeleton.lean (effect skeleton of the command layer, translated from the source)", runSkeleton)
}

const modPath = "github.com/monshunter/goat"

// file-system mutating primitives (package path, name)
var fsWrites = map[string]bool{
	"os.WriteFile": true, "os.Create": true, "os.OpenFile": true, "os.Remove": true, "os.RemoveAll": true,
	"os.Rename": true, "os.Mkdir": true, "os.MkdirAll": true, "os.MkdirTemp": true, "os.CreateTemp": true,
	"os.Chmod": true, "os.Chtimes": true, "os.Truncate": true, "os.Symlink": true, "os.Link": true, "os.Chown": true,
	"io/ioutil.WriteFile": true, "io/ioutil.TempFile": true, "io/ioutil.TempDir": true,
	"os/exec.Command": true, "os/exec.CommandContext": true,
	"os.File.Write": true, "os.File.WriteString": true, "os.File.Truncate": true, "os.File.WriteAt": true,
	// go-git operations that touch the work tree, the index or the object store
	"github.com/go-git/go-git/v5.Worktree.Checkout": true, "github.com/go-git/go-git/v5.Worktree.Reset": true,
	"github.com/go-git/go-git/v5.Worktree.Add": true, "github.com/go-git/go-git/v5.Worktree.AddGlob": true,
	"github.com/go-git/go-git/v5.Worktree.Commit": true, "github.com/go-git/go-git/v5.Worktree.Clean": true,
	"github.com/go-git/go-git/v5.Worktree.Remove": true, "github.com/go-git/go-git/v5.Worktree.Move": true,
	"github.com/go-git/go-git/v5.Worktree.Pull": true, "github.com/go-git/go-git/v5.Worktree.Restore": true,
	"github.com/go-git/go-git/v5.PlainInit": true, "github.com/go-git/go-git/v5.PlainClone": true,
	"github.com/go-git/go-git/v5.Repository.CreateBranch": true, "github.com/go-git/go-git/v5.Repository.CreateTag": true,
	"github.com/go-git/go-git/v5.Repository.DeleteBranch": true, "github.com/go-git/go-git/v5.Repository.DeleteTag": true,
}

// error constructors and closers: "fallible" by signature only
var notFallible = map[string]bool{
	"fmt.Errorf": true, "errors.New": true, "errors.Join": true, "os.File.Close": true, "errors.Unwrap": true,
}

type skNode struct {
	kind string // call ext hook write loop cfg
	name string
	body []skNode
}

type skFn struct {
	name string
	pos  token.Pos
	body []skNode
}

func lastIsError(sig *types.Signature) bool {
	r := sig.Results()
	if r.Len() == 0 {
		return false
	}
	t := r.At(r.Len() - 1).Type()
	n, ok := t.(*types.Named)
	return ok && n.Obj().Pkg() == nil && n.Obj().Name() == "error"
}

func funcFullName(f *types.Func) string {
	sig := f.Type().(*types.Signature)
	pkg := ""
	if f.Pkg() != nil {
		pkg = f.Pkg().Path()
	}
	short := pkg
	if strings.HasPrefix(pkg, modPath+"/") {
		short = strings.TrimPrefix(pkg, modPath+"/")
	}
	if recv := sig.Recv(); recv != nil {
		t := recv.Type()
		if p, ok := t.(*types.Pointer); ok {
			t = p.Elem()
		}
		if n, ok := t.(*types.Named); ok {
			return short + "." + n.Obj().Name() + "." + f.Name()
		}
		return short + ".?." + f.Name()
	}
	return short + "." + f.Name()
}

func runSkeleton(args []string) error {
	repo := os.Getenv("VERIF_REPO")
	if repo == "" {
		repo = "/repo"
	}
	cfg := &packages.Config{
		Mode: packages.NeedName | packages.NeedFiles | packages.NeedSyntax | packages.NeedTypes | packages.NeedTypesInfo | packages.NeedImports | packages.NeedDeps,
		Dir:  repo,
		Env:  append(os.Environ(), "GOFLAGS=-mod=mod", "GOPROXY=off", "GOSUMDB=off", "GOTOOLCHAIN=local", "CGO_ENABLED=0"),
	}
	pkgs, err := packages.Load(cfg, "./...")
	if err != nil {
		return err
	}
	var fns []skFn
	// project interfaces -> method names (calls through them are resolved by name on the Lean side)
	for _, p := range pkgs {
		if len(p.Errors) > 0 {
			return fmt.Errorf("package %s: %v", p.PkgPath, p.Errors[0])
		}
		if strings.HasSuffix(p.PkgPath, "/pkg/verifhook") || strings.HasSuffix(p.PkgPath, "/pkg/log") {
			continue
		}
		for _, file := range p.Syntax {
			fname := p.Fset.Position(file.Pos()).Filename
			if strings.HasSuffix(fname, "_test.go") || strings.HasPrefix(filepathBase(fname), "verif_") {
				continue
			}
			for _, d := range file.Decls {
				fd, ok := d.(*ast.FuncDecl)
				if !ok || fd.Body == nil {
					continue
				}
				obj, _ := p.TypesInfo.Defs[fd.Name].(*types.Func)
				if obj == nil {
					continue
				}
				tr := &skTr{info: p.TypesInfo}
				body := tr.block(fd.Body.List)
				fns = append(fns, skFn{name: funcFullName(obj), pos: fd.Pos(), body: body})
			}
		}
	}
	sort.Slice(fns, func(i, j int) bool { return fns[i].name < fns[j].name })
	fnIdx := map[string]int{}
	for i, f := range fns {
		fnIdx[f.name] = i
	}
	in := &skIntern{fnIdx: fnIdx, fns: fns, extIdx: map[string]int{}, refIdx: map[string]int{}, primIdx: map[string]int{}, hookIdx: map[string]int{}}
	ibodies := make([][]inode, len(fns))
	bodies := make([]string, len(fns))
	for i, f := range fns {
		ibodies[i] = in.intern(f.name, f.body)
		bodies[i] = leanInodes(ibodies[i])
	}
	hint := skFixpoint(ibodies)
	var b strings.Builder
	w := func(format string, a ...any) { fmt.Fprintf(&b, format, a...) }
	w("/-! GENERATED by `vh skeleton` from /repo's Go source (go/packages + go/types) on every run — do not edit.\n")
	w("    Effect skeleton of every function: project calls, fallible external calls, write-boundary hooks,\n")
	w("    file-system mutations, uses of package-level variables, loops; source order, branches flattened.\n")
	w("    Names are interned: the tables at the end give them back. -/\n")
	w("namespace GoatSpec.Skeleton\n\n")
	w("inductive Sk where\n  | call (f : Nat)           -- call of project function `fnNames[f]` (static callee)\n  | icall (fs : List Nat)    -- call through a project interface: every project method of that name\n  | ext (site : Nat)         -- fallible external step `extSites[site]` = (function, callee); callee's last result is `error`, or a new error value is created\n  | hook (op : Nat)          -- verifhook.Boundary(hookOps[op], …)\n  | write (prim : Nat)       -- file-system mutation primitive `prims[prim]`\n  | ref (v : Nat)            -- use of package-level variable `refNames[v]`\n  | loop (body : List Sk)    -- for / range body\n  | spawn (body : List Sk)   -- `go` statement: the steps of the started call\n  deriving Repr\n\n")
	for i := range fns {
		w("def body%d : List Sk := %s\n", i, bodies[i])
	}
	w("\ndef bodies : List (List Sk) := [")
	for i := range fns {
		if i > 0 {
			w(", ")
		}
		w("body%d", i)
	}
	w("]\n\n")
	names := make([]string, len(fns))
	for i, f := range fns {
		names[i] = f.name
	}
	w("def fnNames : List String := %s\n\n", leanStrs(names))
	w("def extSites : List (String × String) := [")
	for i, e := range in.exts {
		if i > 0 {
			w(", ")
		}
		w("(%q, %q)", e[0], e[1])
	}
	w("]\n\n")
	w("def refNames : List String := %s\n\n", leanStrs(in.refs))
	w("def prims : List String := %s\n\n", leanStrs(in.prims))
	w("def hookOps : List String := %s\n\n", leanStrs(in.hooks))
	w("/-- per-function summary: may mutate the file system; fallible steps it may execute; fallible steps that may\n    follow a mutation made inside it; package-level variables it may touch (bit masks over `extSites` / `refNames`) -/\n")
	w("structure Sum where\n  w : Bool := false\n  all : Nat := 0\n  late : Nat := 0\n  refs : Nat := 0\n  deriving Repr, DecidableEq\n\n")
	w("/-- HINT computed by the translator; `GoatSpec.SkelSpec.hint_is_fixed_point` checks it in the kernel -/\n")
	w("def tableHint : List Sum := [")
	for i, h := range hint {
		if i > 0 {
			w(", ")
		}
		w("⟨%v, %s, %s, %s⟩", h.w, h.all.String(), h.late.String(), h.refs.String())
	}
	w("]\n\n")
	w("end GoatSpec.Skeleton\n")
	if len(args) > 0 {
		return os.WriteFile(args[0], []byte(b.String()), 0644)
	}
	fmt.Print(b.String())
	return nil
}

// inode: interned skeleton node (same shape as the Lean `Sk`)
type inode struct {
	kind string
	n    int
	ns   []int
	body []inode
}

type skSum struct {
	w               bool
	all, late, refs *big.Int
}

func newSum() skSum {
	return skSum{false, new(big.Int), new(big.Int), new(big.Int)}
}

func (a skSum) eq(b skSum) bool {
	return a.w == b.w && a.all.Cmp(b.all) == 0 && a.late.Cmp(b.late) == 0 && a.refs.Cmp(b.refs) == 0
}

// the same transfer function as GoatSpec.SkelSpec.stepSk; its result is only a HINT: the Lean
// kernel checks that the emitted table is a fixed point of the Lean definition
func skStep(tbl []skSum, st *skSum, ns []inode) {
	or := func(dst, src *big.Int) { dst.Or(dst, src) }
	callSum := func(f int) {
		c := newSum()
		if f < len(tbl) {
			c = tbl[f]
		}
		if st.w {
			or(st.late, c.all)
		} else {
			or(st.late, c.late)
		}
		st.w = st.w || c.w
		or(st.all, c.all)
		or(st.refs, c.refs)
	}
	for _, n := range ns {
		switch n.kind {
		case "call":
			callSum(n.n)
		case "icall":
			for _, f := range n.ns {
				callSum(f)
			}
		case "ext":
			st.all.SetBit(st.all, n.n, 1)
			if st.w {
				st.late.SetBit(st.late, n.n, 1)
			}
		case "write":
			st.w = true
		case "ref":
			st.refs.SetBit(st.refs, n.n, 1)
		case "loop":
			skStep(tbl, st, n.body)
			skStep(tbl, st, n.body)
		case "spawn":
			skStep(tbl, st, n.body)
		}
	}
}

func skFixpoint(bodies [][]inode) []skSum {
	tbl := make([]skSum, len(bodies))
	for i := range tbl {
		tbl[i] = newSum()
	}
	for round := 0; round < 1000; round++ {
		next := make([]skSum, len(bodies))
		same := true
		for i, b := range bodies {
			st := newSum()
			skStep(tbl, &st, b)
			next[i] = st
			if !st.eq(tbl[i]) {
				same = false
			}
		}
		tbl = next
		if same {
			break
		}
	}
	return tbl
}

type skIntern struct {
	fnIdx                            map[string]int
	fns                              []skFn
	extIdx, refIdx, primIdx, hookIdx map[string]int
	exts                             [][2]string
	refs, prims, hooks               []string
}

func internStr(m map[string]int, l *[]string, s string) int {
	if i, ok := m[s]; ok {
		return i
	}
	m[s] = len(*l)
	*l = append(*l, s)
	return m[s]
}

func leanInodes(ns []inode) string {
	parts := make([]string, 0, len(ns))
	for _, n := range ns {
		switch n.kind {
		case "loop":
			parts = append(parts, ".loop "+leanInodes(n.body))
		case "spawn":
			parts = append(parts, ".spawn "+leanInodes(n.body))
		case "icall":
			is := make([]string, len(n.ns))
			for i, f := range n.ns {
				is[i] = fmt.Sprint(f)
			}
			parts = append(parts, ".icall ["+strings.Join(is, ", ")+"]")
		default:
			parts = append(parts, fmt.Sprintf(".%s %d", n.kind, n.n))
		}
	}
	return "[" + strings.Join(parts, ", ") + "]"
}

func (in *skIntern) intern(owner string, ns []skNode) []inode {
	parts := make([]inode, 0, len(ns))
	for _, n := range ns {
		switch n.kind {
		case "loop":
			parts = append(parts, inode{kind: "loop", body: in.intern(owner, n.body)})
		case "spawn":
			parts = append(parts, inode{kind: "spawn", body: in.intern(owner, n.body)})
		case "call":
			if i, ok := in.fnIdx[n.name]; ok {
				parts = append(parts, inode{kind: "call", n: i})
			} else {
				// a project function without a body in this build (verif-only helper, assembly): treated as a fallible unknown
				k := owner + "\x00<unknown project function " + n.name + ">"
				if _, ok := in.extIdx[k]; !ok {
					in.extIdx[k] = len(in.exts)
					in.exts = append(in.exts, [2]string{owner, "<unknown project function " + n.name + ">"})
				}
				parts = append(parts, inode{kind: "ext", n: in.extIdx[k]})
			}
		case "icall":
			var is []int
			for i, f := range in.fns {
				if strings.HasSuffix(f.name, "."+n.name) {
					is = append(is, i)
				}
			}
			parts = append(parts, inode{kind: "icall", ns: is})
		case "ext":
			k := owner + "\x00" + n.name
			if _, ok := in.extIdx[k]; !ok {
				in.extIdx[k] = len(in.exts)
				in.exts = append(in.exts, [2]string{owner, n.name})
			}
			parts = append(parts, inode{kind: "ext", n: in.extIdx[k]})
		case "ref":
			parts = append(parts, inode{kind: "ref", n: internStr(in.refIdx, &in.refs, n.name)})
		case "write":
			parts = append(parts, inode{kind: "write", n: internStr(in.primIdx, &in.prims, n.name)})
		case "hook":
			parts = append(parts, inode{kind: "hook", n: internStr(in.hookIdx, &in.hooks, n.name)})
		}
	}
	return parts
}

func filepathBase(p string) string {
	if i := strings.LastIndex(p, "/"); i >= 0 {
		return p[i+1:]
	}
	return p
}

type skTr struct {
	info *types.Info
}

func (t *skTr) block(stmts []ast.Stmt) []skNode {
	var out []skNode
	for _, s := range stmts {
		out = append(out, t.stmt(s)...)
	}
	return out
}

func (t *skTr) stmt(s ast.Stmt) []skNode {
	switch s := s.(type) {
	case nil:
		return nil
	case *ast.BlockStmt:
		return t.block(s.List)
	case *ast.ForStmt:
		out := t.stmt(s.Init)
		var body []skNode
		body = append(body, t.expr(s.Cond)...)
		body = append(body, t.block(s.Body.List)...)
		body = append(body, t.stmt(s.Post)...)
		if len(body) > 0 {
			out = append(out, skNode{kind: "loop", body: body})
		}
		return out
	case *ast.RangeStmt:
		out := t.expr(s.X)
		body := t.block(s.Body.List)
		if len(body) > 0 {
			out = append(out, skNode{kind: "loop", body: body})
		}
		return out
	case *ast.IfStmt:
		out := t.stmt(s.Init)
		out = append(out, t.expr(s.Cond)...)
		out = append(out, t.block(s.Body.List)...)
		out = append(out, t.stmt(s.Else)...)
		return out
	case *ast.SwitchStmt:
		out := t.stmt(s.Init)
		out = append(out, t.expr(s.Tag)...)
		out = append(out, t.block(s.Body.List)...)
		return out
	case *ast.TypeSwitchStmt:
		out := t.stmt(s.Init)
		out = append(out, t.stmt(s.Assign)...)
		out = append(out, t.block(s.Body.List)...)
		return out
	case *ast.SelectStmt:
		return t.block(s.Body.List)
	case *ast.CaseClause:
		var out []skNode
		for _, e := range s.List {
			out = append(out, t.expr(e)...)
		}
		return append(out, t.block(s.Body)...)
	case *ast.CommClause:
		out := t.stmt(s.Comm)
		return append(out, t.block(s.Body)...)
	case *ast.LabeledStmt:
		return t.stmt(s.Stmt)
	case *ast.GoStmt:
		return []skNode{{kind: "spawn", body: t.expr(s.Call)}}
	case *ast.DeferStmt:
		return t.expr(s.Call)
	case *ast.ExprStmt:
		return t.expr(s.X)
	case *ast.SendStmt:
		return append(t.expr(s.Chan), t.expr(s.Value)...)
	case *ast.IncDecStmt:
		return t.expr(s.X)
	case *ast.AssignStmt:
		var out []skNode
		for _, e := range s.Rhs {
			out = append(out, t.expr(e)...)
		}
		for _, e := range s.Lhs {
			out = append(out, t.expr(e)...)
		}
		return out
	case *ast.ReturnStmt:
		var out []skNode
		for _, e := range s.Results {
			out = append(out, t.expr(e)...)
		}
		return out
	case *ast.DeclStmt:
		var out []skNode
		if gd, ok := s.Decl.(*ast.GenDecl); ok {
			for _, sp := range gd.Specs {
				if vs, ok := sp.(*ast.ValueSpec); ok {
					for _, e := range vs.Values {
						out = append(out, t.expr(e)...)
					}
				}
			}
		}
		return out
	}
	return nil
}

// expr returns the effect nodes of an expression in evaluation order (operands before the call).
func (t *skTr) expr(e ast.Expr) []skNode {
	if e == nil {
		return nil
	}
	var out []skNode
	switch e := e.(type) {
	case *ast.CallExpr:
		// a called function literal: its body runs here
		if fl, ok := ast.Unparen(e.Fun).(*ast.FuncLit); ok {
			for _, a := range e.Args {
				out = append(out, t.expr(a)...)
			}
			return append(out, t.block(fl.Body.List)...)
		}
		out = append(out, t.expr(e.Fun)...)
		for _, a := range e.Args {
			out = append(out, t.expr(a)...)
		}
		return append(out, t.call(e)...)
	case *ast.FuncLit:
		// a literal that is passed or stored: assumed to run where it is written (callbacks of
		// the regexp replace helpers, worker goroutines)
		return t.block(e.Body.List)
	case *ast.ParenExpr:
		return t.expr(e.X)
	case *ast.Ident:
		return t.ref(e)
	case *ast.SelectorExpr:
		if r := t.ref(e.Sel); r != nil {
			return r
		}
		return t.expr(e.X)
	case *ast.IndexExpr:
		return append(t.expr(e.X), t.expr(e.Index)...)
	case *ast.SliceExpr:
		out = append(out, t.expr(e.X)...)
		out = append(out, t.expr(e.Low)...)
		out = append(out, t.expr(e.High)...)
		return append(out, t.expr(e.Max)...)
	case *ast.StarExpr:
		return t.expr(e.X)
	case *ast.UnaryExpr:
		return t.expr(e.X)
	case *ast.BinaryExpr:
		return append(t.expr(e.X), t.expr(e.Y)...)
	case *ast.KeyValueExpr:
		return append(t.expr(e.Key), t.expr(e.Value)...)
	case *ast.CompositeLit:
		for _, x := range e.Elts {
			out = append(out, t.expr(x)...)
		}
		return out
	case *ast.TypeAssertExpr:
		return t.expr(e.X)
	}
	return nil
}

func (t *skTr) call(e *ast.CallExpr) []skNode {
	var fn *types.Func
	iface := false
	switch f := ast.Unparen(e.Fun).(type) {
	case *ast.Ident:
		fn, _ = t.info.Uses[f].(*types.Func)
	case *ast.SelectorExpr:
		if sel, ok := t.info.Selections[f]; ok {
			fn, _ = sel.Obj().(*types.Func)
			if fn != nil {
				if _, isI := sel.Recv().Underlying().(*types.Interface); isI {
					iface = true
				}
			}
		} else {
			fn, _ = t.info.Uses[f.Sel].(*types.Func)
		}
	}
	if fn == nil {
		// conversion, builtin, call of a function value: a stored project closure would be
		// invisible here — function values are reported so that the Lean side can refuse them
		if tv, ok := t.info.Types[e.Fun]; ok && !tv.IsType() && !tv.IsBuiltin() {
			if sig, ok := tv.Type.Underlying().(*types.Signature); ok && lastIsError(sig) {
				return []skNode{{kind: "ext", name: "<func value>"}}
			}
		}
		return nil
	}
	sig := fn.Type().(*types.Signature)
	pkg := ""
	if fn.Pkg() != nil {
		pkg = fn.Pkg().Path()
	}
	full := funcFullName(fn)
	if pkg == modPath+"/pkg/verifhook" {
		op := "?"
		if len(e.Args) > 0 {
			if bl, ok := e.Args[0].(*ast.BasicLit); ok {
				op = strings.Trim(bl.Value, `"`)
			}
		}
		return []skNode{{kind: "hook", name: op}}
	}
	if pkg == modPath+"/pkg/log" {
		return nil
	}
	if fsWrites[full] {
		return []skNode{{kind: "write", name: full}}
	}
	if pkg == modPath || strings.HasPrefix(pkg, modPath+"/") {
		if iface {
			return []skNode{{kind: "icall", name: fn.Name()}}
		}
		return []skNode{{kind: "call", name: full}}
	}
	if full == "errors.New" || (full == "fmt.Errorf" && !t.hasErrorArg(e)) {
		// a new error value is created here (not a wrapped one): an origin of failure
		return []skNode{{kind: "ext", name: full + " (new error)"}}
	}
	if lastIsError(sig) && !notFallible[full] && !strings.HasPrefix(full, "bytes.Buffer.") && !strings.HasPrefix(full, "strings.Builder.") &&
		!strings.HasPrefix(full, "fmt.Print") && !strings.HasPrefix(full, "fmt.Fprint") {
		return []skNode{{kind: "ext", name: full}}
	}
	return nil
}

func (t *skTr) hasErrorArg(e *ast.CallExpr) bool {
	for _, a := range e.Args {
		if tv, ok := t.info.Types[a]; ok && tv.Type != nil {
			if n, ok := tv.Type.(*types.Named); ok && n.Obj().Pkg() == nil && n.Obj().Name() == "error" {
				return true
			}
		}
	}
	return false
}

// ref: a use of a package-level variable of the project (shared state as far as the workers go)
func (t *skTr) ref(id *ast.Ident) []skNode {
	v, ok := t.info.Uses[id].(*types.Var)
	if !ok || v.Pkg() == nil || v.IsField() || v.Parent() != v.Pkg().Scope() {
		return nil
	}
	pkg := v.Pkg().Path()
	if pkg != modPath && !strings.HasPrefix(pkg, modPath+"/") {
		return nil
	}
	if strings.HasSuffix(pkg, "/pkg/log") || strings.HasSuffix(pkg, "/pkg/verifhook") {
		return nil
	}
	return []skNode{{kind: "ref", name: strings.TrimPrefix(pkg, modPath+"/") + "." + v.Name()}}
}
