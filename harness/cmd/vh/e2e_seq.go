package main

import (
	"bytes"
	"fmt"
	"math/rand"
	"os"
	"os/exec"
	"path/filepath"
	"regexp"
	"sort"
	"strings"
	"sync"

	"verifharness/internal/oracle"
	"verifharness/internal/proj"
)

func init() {
	e2es["sequences"] = e2eSequences
}

var seqOps = []string{"track", "patch-delete", "patch-insert", "patch-noop", "clean", "user-edit", "commit", "discard", "switch-gran"}

// seqState is the harness's own record of a node of the operation trie.
type seqState struct {
	dir      string
	userText map[string]string // what each Go file must be once artefacts are removed
	headText map[string]string // the same for HEAD's tree (restored by discard)
	edits    int
	gran     string
	modelOps []string // tokens for the Lean abstract machine
	trace    []string
}

func (st *seqState) clone(dir string) *seqState {
	n := &seqState{dir: dir, userText: map[string]string{}, headText: map[string]string{}, edits: st.edits, gran: st.gran}
	for k, v := range st.userText {
		n.userText[k] = v
	}
	for k, v := range st.headText {
		n.headText[k] = v
	}
	n.modelOps = append([]string{}, st.modelOps...)
	n.trace = append([]string{}, st.trace...)
	return n
}

var editLineRe = regexp.MustCompile(`(?m)^(\t+acc \+= )(\d+)$`)

func gitDirty(dir string) bool {
	out, _ := proj.Git(dir, 0, "status", "--porcelain", "--untracked-files=no")
	for _, l := range strings.Split(out, "\n") {
		l = strings.TrimSpace(l)
		if l == "" || strings.HasSuffix(l, "goat.yaml") {
			continue
		}
		return true
	}
	return false
}

// specAnswer asks the Lean driver one question.
func specAnswer(spec string, req string) (string, error) {
	cmd := exec.Command(spec)
	cmd.Stdin = strings.NewReader(req + "\n")
	var out bytes.Buffer
	cmd.Stdout = &out
	if err := cmd.Run(); err != nil {
		return "", err
	}
	return strings.TrimSpace(out.String()), nil
}

// e2eSequences: all operation sequences up to length L over the 9-letter alphabet on one
// generated multi-package project, explored as a trie; after every step the exit status class
// and the number of tracking points are compared with the Lean abstract machine
// (Cmd.absStep), and the oracles "compiles", C05 tables, no artefact when clean, user code
// preserved are evaluated. Random longer sequences on further projects.
func e2eSequences(c *e2eCtx) error {
	depth := 3
	nRandom, randLen := 6, 9
	if c.thorough() {
		depth, nRandom, randLen = 4, 40, 12
	}
	c.res.Rule = fmt.Sprintf("all operation sequences of length ≤%d over {%s} on a fixed generated 2-main/2-library project (trie, one real command execution per node on a copy of the parent's tree), "+
		"plus %d random sequences of length %d on further generated projects; after every step: exit status class and number of tracking points vs the Lean abstract machine (Cmd.absStep), go build, "+
		"C05 tables when instrumented, no artefact when clean, syntax tree+comments of every file equal to the user's current text; non-trivial = the step changed the tree", depth, strings.Join(seqOps, ", "), nRandom, randLen)
	r0 := rand.New(rand.NewSource(c.rng.Int63()))
	// the tracking package lives in internal/cov, next to a hand-written file of the project
	base, err := c.newScenario(0, r0, proj.Opts{InScope: true, SmallBody: true, Mains: 2, Libs: 2, FuncsPer: 2, PkgDirNotes: true}, func(r *rand.Rand, old string) proj.Config {
		cfg := proj.DefaultConfig(old)
		cfg.Granularity = "patch"
		cfg.Alias, cfg.PkgName, cfg.PkgPath = "cov", "covpkg", "internal/cov"
		return cfg
	})
	if err != nil {
		return err
	}
	defer os.RemoveAll(base.dir)
	root := &seqState{dir: base.dir, userText: map[string]string{}, headText: map[string]string{}, gran: "patch"}
	for p, v := range base.newTree {
		if strings.HasSuffix(p, ".go") {
			root.userText[p] = v
			root.headText[p] = v
		}
	}
	// prefixes of length 2 are distributed over the workers; each explores its subtree depth-first
	type prefix struct{ a, b int }
	var prefixes []prefix
	for a := range seqOps {
		for b := range seqOps {
			prefixes = append(prefixes, prefix{a, b})
		}
	}
	var seen sync.Map
	c.parallel(len(prefixes), func(i int, r *rand.Rand) {
		pf := prefixes[i]
		d0 := filepath.Join(c.work, fmt.Sprintf("seq-%d-%d", pf.a, pf.b))
		copyDir(base.dir, d0)
		defer os.RemoveAll(d0)
		st := root.clone(d0)
		first := pf.b == 0 // the length-1 node is judged once per first letter
		if !c.seqStep(base, st, seqOps[pf.a], r, first) {
			return
		}
		if !c.seqStep(base, st, seqOps[pf.b], r, true) {
			return
		}
		c.seqExplore(base, st, depth-2, r, &seen)
	})
	// random longer sequences on other projects
	c.parallel(nRandom, func(i int, r *rand.Rand) {
		s, err := c.newScenario(1000+i, r, proj.Opts{InScope: true, SmallBody: true, RootMain: r.Intn(2) == 0, PkgDirNotes: i%2 == 0}, func(r *rand.Rand, old string) proj.Config {
			cfg := proj.DefaultConfig(old)
			cfg.Granularity = pick(r, []string{"line", "patch", "scope", "func"})
			cfg.Precision = pick(r, []int{2, 3})
			cfg.Threads = pick(r, []int{1, 2, 3, 4}) // the parallel paths of the three commands are part of every sequence
			if i%2 == 0 {
				cfg.Alias, cfg.PkgName, cfg.PkgPath = "cov", "covpkg", "internal/cov"
			}
			if i%3 == 1 { // the configured path is not in clean form (the directory and the import path are)
				cfg.PkgPathRaw = "./" + cfg.PkgPath + "/"
			}
			return cfg
		})
		if err != nil {
			return
		}
		defer os.RemoveAll(s.dir)
		st := &seqState{dir: s.dir, userText: map[string]string{}, headText: map[string]string{}, gran: s.cfg.Granularity}
		for p, v := range s.newTree {
			if strings.HasSuffix(p, ".go") {
				st.userText[p] = v
				st.headText[p] = v
			}
		}
		for k := 0; k < randLen; k++ {
			if !c.seqStep(s, st, seqOps[r.Intn(len(seqOps))], r, true) {
				return
			}
		}
	})
	// directed sequences outside the alphabet: the sources are reverted by hand while the
	// (untracked) generated package stays — clean must still remove it, and a second track must
	// reproduce the first instrumentation
	nDirected := 9
	if c.thorough() {
		nDirected = 24
	}
	c.parallel(nDirected, func(i int, r *rand.Rand) {
		nMains := 0
		if i%3 == 1 {
			nMains = 2 + r.Intn(2)
		}
		s, err := c.newScenario(2000+i, r, proj.Opts{InScope: true, SmallBody: true, RootMain: r.Intn(2) == 0, Mains: nMains}, func(r *rand.Rand, old string) proj.Config {
			cfg := proj.DefaultConfig(old)
			cfg.Granularity = pick(r, []string{"line", "patch", "scope", "func"})
			cfg.Precision = pick(r, []int{1, 2, 3})
			cfg.Threads = pick(r, []int{1, 2, 3})
			if i%2 == 1 {
				cfg.Alias, cfg.PkgName, cfg.PkgPath = "gcov", "goat", "tools/goat"
			}
			return cfg
		})
		if err != nil {
			return
		}
		defer os.RemoveAll(s.dir)
		c.mu.Lock()
		c.res.Evaluations++
		c.mu.Unlock()
		c.count("directed:track-checkout-clean-track")
		rp := func() map[string]any {
			return s.replay(map[string]any{"sequence": "track, git checkout -- ., clean, track", "config_desc": s.desc})
		}
		t1 := proj.RunGoat(c.goat, s.dir, nil, "track")
		if t1.Exit != 0 {
			return // judged by the track e2e
		}
		first := proj.ReadTree(s.dir)
		genRel := filepath.Join(s.cfg.PkgPath, "goat_generated.go")
		if _, ok := first[genRel]; !ok {
			return // nothing was instrumented
		}
		c.mu.Lock()
		c.res.NonTrivial++
		c.mu.Unlock()
		alias, ip := s.cfg.Alias, proj.Module+"/"+s.cfg.PkgPath
		switch i % 3 {
		case 1:
			// configuration change between the commands: track with every main package selected,
			// then `mainEntries` narrowed to one main package, an insert marker in a library, patch —
			// the tree must still build and the tables / service starts must match the selection
			var mains []string
			for _, pk := range s.p.Pkgs {
				if pk.IsMain {
					mains = append(mains, pk.Dir)
				}
			}
			if len(mains) < 2 {
				return
			}
			c.count("directed:track-narrow-mainEntries-patch")
			s.cfg.MainEntries = []string{mains[r.Intn(len(mains))]}
			proj.WriteConfig(s.dir, s.cfg)
			var libs []string
			for _, pth := range goFilesOf(first, s.cfg) {
				lib := pth != genRel
				for _, pk := range s.p.Pkgs {
					if pk.IsMain && filepath.Dir(pth) == filepath.Clean(pk.Dir) {
						lib = false
					}
				}
				if lib {
					libs = append(libs, pth)
				}
			}
			tree := proj.ReadTree(s.dir)
			if len(libs) == 0 || addInserts(tree, libs, r, 1) == 0 {
				return
			}
			writeFiles(s.dir, tree, libs)
			rp2 := func(extra map[string]any) map[string]any {
				m := s.replay(map[string]any{"sequence": "track (mainEntries *), mainEntries narrowed to " + s.cfg.MainEntries[0] + ", insert marker, patch", "config_desc": s.desc})
				for k, v := range extra {
					m[k] = v
				}
				return m
			}
			pr := proj.RunGoat(c.goat, s.dir, nil, "patch")
			if pr.Exit != 0 || isPanic(pr.Stderr) {
				c.violate("C11,C10", fmt.Sprintf("after [track, mainEntries narrowed, insert marker] goat patch exits %d: %s", pr.Exit, lastLine(pr.Stderr)), rp2(nil))
				return
			}
			if ok, out := proj.GoBuild(s.dir); !ok {
				c.violate("C11,C10", "after [track, mainEntries narrowed, insert marker, patch] the tree does not build: "+firstLine(out, ""), rp2(map[string]any{"build": tail(out, 1500)}))
				return
			}
			if in, err := oracle.Scan(s.dir, alias, ip, s.cfg.PkgPath); err == nil {
				c.judgeC05As("C05,C11", s, in, rp2)
			}
			return
		case 2:
			// blocks marked for deletion by hand, then clean WITHOUT patch: nothing of goat may stay
			c.count("directed:track-delete-markers-clean")
			tree := proj.ReadTree(s.dir)
			files := goFilesOf(tree, s.cfg)
			if flipDeletes(tree, files, r, 1+r.Intn(3), false) == 0 {
				return
			}
			writeFiles(s.dir, tree, files)
			cl := proj.RunGoat(c.goat, s.dir, nil, "clean")
			rp2 := s.replay(map[string]any{"sequence": "track, +goat:generate -> +goat:delete on some blocks, clean", "config_desc": s.desc, "stderr": tail(cl.Stderr, 1200)})
			if cl.Exit != 0 {
				c.violate("C11,C06", fmt.Sprintf("after [track, delete markers] goat clean exits %d: %s", cl.Exit, lastLine(cl.Stderr)), rp2)
				return
			}
			if in, err := oracle.Scan(s.dir, alias, ip, s.cfg.PkgPath); err == nil && (len(in.Calls) > 0 || len(in.Serve) > 0 || len(in.Markers) > 0 || len(in.Imports) > 0) {
				c.violate("C11,C06", fmt.Sprintf("after [track, delete markers, clean] artefacts remain: %d calls, %d service starts, markers in %v, imports in %v",
					len(in.Calls), len(in.Serve), keysOf(in.Markers), keysOfB(in.Imports)), rp2)
				return
			}
			after := proj.ReadTree(s.dir)
			for _, pth := range sortedKeys(s.newTree) {
				if strings.HasSuffix(pth, ".go") && after[pth] != s.newTree[pth] {
					if d := oracle.SameProgram([]byte(s.newTree[pth]), []byte(after[pth]), alias, ip); d != "" {
						c.violate("C11,C06", fmt.Sprintf("after [track, delete markers, clean] %s differs from the user's text: %s", pth, d), rp2)
						return
					}
				}
			}
			return
		}
		proj.Git(s.dir, 0, "checkout", "-q", "--", ".")
		cl := proj.RunGoat(c.goat, s.dir, nil, "clean")
		if cl.Exit != 0 {
			c.violate("C11,C06", fmt.Sprintf("after [track, git checkout -- .] goat clean exits %d: %s", cl.Exit, lastLine(cl.Stderr)), rp())
			return
		}
		after := proj.ReadTree(s.dir)
		if _, ok := after[genRel]; ok {
			c.violate("C11,C06", "after [track, git checkout -- ., clean] the generated file is still there (every later goat track is refused as 'already patched')", rp())
			return
		}
		if lf, ld := proj.Leftovers(s.dir, s.newTree, s.cfg.PkgPath, "goat.yaml"); len(lf)+len(ld) > 0 {
			c.violate("C11,C06", fmt.Sprintf("after [track, git checkout -- ., clean] the tree holds files %v and directories %v the project did not have", lf, ld), rp())
			return
		}
		t2 := proj.RunGoat(c.goat, s.dir, nil, "track")
		if t2.Exit != 0 {
			c.violate("C11", fmt.Sprintf("after [track, git checkout -- ., clean] a second goat track exits %d: %s", t2.Exit, lastLine(t2.Stderr)), rp())
			return
		}
		second := proj.ReadTree(s.dir)
		if d := diffTrees(first, second); len(d) > 0 {
			c.violate("C11", fmt.Sprintf("track after clean does not reproduce the first instrumentation: %v", d[:min(3, len(d))]), rp())
		}
	})
	return nil
}

func (c *e2eCtx) seqExplore(base *scenario, st *seqState, depth int, r *rand.Rand, seen *sync.Map) {
	if depth <= 0 {
		return
	}
	for _, op := range seqOps {
		d := fmt.Sprintf("%s-%d", st.dir, depth)
		os.RemoveAll(d)
		copyDir(st.dir, d)
		child := st.clone(d)
		ok := c.seqStep(base, child, op, r, true)
		if ok && depth > 1 {
			c.seqExplore(base, child, depth-1, r, seen)
		}
		os.RemoveAll(d)
	}
}

// seqStep applies one operation to st (in place), judges it and returns false on a harness problem.
func (c *e2eCtx) seqStep(base *scenario, st *seqState, op string, r *rand.Rand, judge bool) bool {
	cfg := base.cfg
	cfg.Granularity = st.gran
	alias, ip := cfg.Alias, proj.Module+"/"+cfg.PkgPath
	before := proj.ReadTree(st.dir)
	files := goFilesOf(before, cfg)
	dirty := gitDirty(st.dir)
	var run proj.Run
	token := ""
	switch op {
	case "track":
		run = proj.RunGoat(c.goat, st.dir, nil, "track")
	case "patch-delete", "patch-insert", "patch-noop":
		token = "pn"
		edited := map[string]string{}
		for k, v := range before {
			edited[k] = v
		}
		if op == "patch-delete" && flipDeletes(edited, files, r, 1, false) == 1 {
			token = "pd"
		}
		if op == "patch-insert" && addInserts(edited, files, r, 1) == 1 {
			token = "pi"
		}
		writeFiles(st.dir, edited, files)
		run = proj.RunGoat(c.goat, st.dir, nil, "patch")
	case "clean":
		token = "c"
		run = proj.RunGoat(c.goat, st.dir, nil, "clean")
	case "user-edit":
		token = "u"
		done := false
		for _, p := range files {
			ut, ok := st.userText[p]
			if !ok {
				continue
			}
			// the edited line must be unique in the user's text AND in the file on disk: go/printer may
			// have expanded a one-line closure, which gives the file a second line with the same text
			// (at another depth the pattern accepts) - editing "the first occurrence" would then touch
			// different statements in the record and in the file
			var loc []int
			for _, l := range editLineRe.FindAllStringSubmatchIndex(ut, -1) {
				ol := "\n" + ut[l[0]:l[1]] + "\n"
				if strings.Count(ut, ol) == 1 && strings.Count(before[p], ol) == 1 {
					loc = l
					break
				}
			}
			if loc == nil {
				continue
			}
			oldLine := ut[loc[0]:loc[1]]
			st.edits++
			newLine := ut[loc[2]:loc[3]] + fmt.Sprint(50000+st.edits)
			st.userText[p] = strings.Replace(ut, "\n"+oldLine+"\n", "\n"+newLine+"\n", 1)
			os.WriteFile(filepath.Join(st.dir, p), []byte(strings.Replace(before[p], "\n"+oldLine+"\n", "\n"+newLine+"\n", 1)), 0644)
			done = true
			break
		}
		if !done {
			return true
		}
	case "commit":
		token = "m"
		proj.Git(st.dir, 0, "add", "-A", "--", ".", ":!goat.yaml")
		proj.Git(st.dir, 1700000300+int64(len(st.trace)), "commit", "-q", "--allow-empty", "-m", "step")
		for k, v := range st.userText {
			st.headText[k] = v
		}
	case "discard":
		token = "d"
		proj.Git(st.dir, 0, "checkout", "-q", "--", ".")
		proj.Git(st.dir, 0, "clean", "-fdq", "-e", "goat.yaml")
		for k, v := range st.headText {
			st.userText[k] = v
		}
	case "switch-gran":
		token = "g"
		if st.gran == "patch" {
			st.gran = "line"
		} else {
			st.gran = "patch"
		}
		cfg.Granularity = st.gran
		proj.WriteConfig(st.dir, cfg)
	}
	after := proj.ReadTree(st.dir)
	in, err := oracle.Scan(st.dir, alias, ip, cfg.PkgPath)
	st.trace = append(st.trace, op)
	rp := func(extra map[string]any) map[string]any {
		e := map[string]any{"sequence": st.trace, "exit": run.Exit, "stderr": tail(run.Stderr, 1000), "model_ops": st.modelOps}
		for k, v := range extra {
			e[k] = v
		}
		return base.replay(e)
	}
	if err != nil {
		c.violate("C11", fmt.Sprintf("after %v a file does not parse: %v", st.trace, err), rp(nil))
		return false
	}
	n := len(in.Calls)
	if op == "track" {
		p := n
		if run.Exit != 0 {
			p = 1
		}
		token = fmt.Sprintf("t%d,%s", p, b01(dirty))
	}
	st.modelOps = append(st.modelOps, token)
	if !judge {
		return true
	}
	c.mu.Lock()
	c.res.Evaluations++
	changed := false
	for _, p := range unionKeys(before, after) {
		if before[p] != after[p] {
			changed = true
		}
	}
	if changed {
		c.res.NonTrivial++
	}
	c.mu.Unlock()
	c.count("op:" + op)
	if isPanic(run.Stderr) {
		c.violate("C11", fmt.Sprintf("goat panicked at step %v: %s", st.trace, firstLine(run.Stderr, "panic")), rp(nil))
		return false
	}
	// --- abstract machine
	ans, err := specAnswer(c.spec, "abs "+strings.Join(st.modelOps, " "))
	if err != nil || strings.HasPrefix(ans, "error") {
		c.violate("", "harness: model driver failed: "+ans, nil)
		return false
	}
	steps := strings.Fields(ans)
	last := steps[len(steps)-1]
	implOutcome := "ok"
	if run.Exit != 0 {
		implOutcome = "refused"
	}
	got := fmt.Sprintf("%s:%d", implOutcome, n)
	if got != last {
		c.violate("C11", fmt.Sprintf("after %v the command ended %s with %d tracking points; the abstract machine (Clean/Instrumented/Dirty) says %s", st.trace, implOutcome, n, last),
			rp(map[string]any{"model": ans, "broken": "correspondence Cmd.absStep"}))
	}
	if len(st.trace) <= 2 {
		c.sample(fmt.Sprintf("%v -> %s (model %s)", st.trace, got, last))
	}
	// --- oracles
	genPath := filepath.Join(st.dir, cfg.PkgPath, "goat_generated.go")
	_, gerr := os.Stat(genPath)
	if n == 0 {
		if gerr == nil || len(in.Serve) > 0 || len(in.Markers) > 0 || len(in.Imports) > 0 {
			c.violate("C11", fmt.Sprintf("after %v the tree has no tracking point but artefacts remain (generated file: %v, service starts: %d, marker files %v, import files %v)",
				st.trace, gerr == nil, len(in.Serve), keysOf(in.Markers), keysOfB(in.Imports)), rp(nil))
		}
		want := map[string]string{}
		for k, v := range base.newTree {
			want[k] = v
		}
		for k, v := range st.userText {
			want[k] = v
		}
		if lf, ld := proj.Leftovers(st.dir, want, cfg.PkgPath, "goat.yaml"); len(lf)+len(ld) > 0 {
			c.violate("C11", fmt.Sprintf("after %v the tree has no tracking point but holds files %v and directories %v the project never had", st.trace, lf, ld), rp(nil))
		}
	} else {
		s2 := *base
		s2.cfg = cfg
		s2.dir = st.dir
		c.judgeC05As("C05,C11", &s2, in, func(extra map[string]any) map[string]any { return rp(extra) })
	}
	for _, p := range sortedKeys(base.newTree) {
		if !strings.HasSuffix(p, ".go") && p != "goat.yaml" && after[p] != base.newTree[p] {
			c.violate("C11", fmt.Sprintf("after %v the file %s (not a Go file) is modified or gone", st.trace, p), rp(nil))
		}
	}
	var paths []string
	for p := range st.userText {
		paths = append(paths, p)
	}
	sort.Strings(paths)
	for _, p := range paths {
		cur, ok := after[p]
		if !ok {
			c.violate("C11", fmt.Sprintf("after %v the file %s is gone", st.trace, p), rp(nil))
			continue
		}
		if cur == st.userText[p] {
			continue
		}
		if d := oracle.SameProgram([]byte(st.userText[p]), []byte(cur), alias, ip); d != "" {
			c.violate("C11", fmt.Sprintf("after %v user code of %s was lost or altered: %s", st.trace, p, d), rp(map[string]any{"file": p, "content": cur}))
		}
	}
	if changed {
		if ok, out := proj.GoBuild(st.dir); !ok {
			c.violate("C11", fmt.Sprintf("after %v the tree does not compile: %s", st.trace, firstLine(out, "")), rp(map[string]any{"build": tail(out, 1000)}))
		}
	}
	return true
}
