package main

import (
	"fmt"
	"go/printer"
	"math/rand"
	"os"
	"path/filepath"
	"regexp"
	"runtime"
	"sort"
	"strings"
	"sync"

	"github.com/monshunter/goat/pkg/config"
	"github.com/monshunter/goat/pkg/diff"
	"github.com/monshunter/goat/pkg/tracking"
	"github.com/monshunter/goat/pkg/tracking/increment"
	"verifharness/internal/absast"
	"verifharness/internal/stream"
)

func init() {
	streams["marks-stdlib"] = func(s *stream.Stream, c *streamCtx) error { return streamMarks(s, c, "stdlib") }
	streams["marks-gen"] = func(s *stream.Stream, c *streamCtx) error { return streamMarks(s, c, "gen") }
	streams["marks-corpus"] = func(s *stream.Stream, c *streamCtx) error { return streamMarks(s, c, "corpus") }
}

const stdlibRoot = "/usr/share/go-1.23/src"

var grans = []struct {
	name string
	g    config.Granularity
}{{"line", config.GranularityLine}, {"patch", config.GranularityPatch}, {"scope", config.GranularityScope}, {"func", config.GranularityFunc}}

// corpusFiles lists non-test Go files of the standard library (sorted).
func corpusFiles() ([]string, error) {
	var out []string
	err := filepath.Walk(stdlibRoot, func(p string, info os.FileInfo, err error) error {
		if err != nil {
			return nil
		}
		if info.IsDir() {
			if info.Name() == "testdata" || info.Name() == "vendor" {
				return filepath.SkipDir
			}
			return nil
		}
		if strings.HasSuffix(p, ".go") && !strings.HasSuffix(p, "_test.go") {
			out = append(out, p)
		}
		return nil
	})
	sort.Strings(out)
	return out, err
}

type lineSet struct {
	kind   string
	ranges [][2]int // (start, lines)
}

func (l lineSet) String() string {
	parts := []string{fmt.Sprint(len(l.ranges))}
	for _, r := range l.ranges {
		parts = append(parts, fmt.Sprintf("%d,%d", r[0], r[1]))
	}
	return strings.Join(parts, " ")
}

// changedSets chooses the changed-line sets for a file with n lines (strings.Split length).
func changedSets(rng *rand.Rand, n int, k int, singlesCap int) []lineSet {
	sets := []lineSet{{"full", [][2]int{{1, n}}}}
	if n < 2 {
		return sets
	}
	for i := 0; i < k; i++ {
		st := 1 + rng.Intn(n)
		ln := 1 + rng.Intn(40)
		if st+ln-1 > n {
			ln = n - st + 1
		}
		sets = append(sets, lineSet{"range", [][2]int{{st, ln}}})
	}
	for i := 0; i < k; i++ {
		var rs [][2]int
		pos := 1 + rng.Intn(20)
		for pos <= n && len(rs) < 12 {
			ln := 1 + rng.Intn(4)
			if pos+ln-1 > n {
				ln = n - pos + 1
			}
			rs = append(rs, [2]int{pos, ln})
			pos += ln + 1 + rng.Intn(30)
		}
		if len(rs) > 0 {
			sets = append(sets, lineSet{"subset", rs})
		}
	}
	// every single line of a window
	if singlesCap > 0 {
		st := 1 + rng.Intn(n)
		for l := st; l < st+singlesCap && l <= n; l++ {
			sets = append(sets, lineSet{"single", [][2]int{{l, 1}}})
		}
	}
	return sets
}

var scanPosRe = regexp.MustCompile(`(^|: )\d+:\d+: `)

func classifyErr(msg string) string {
	switch {
	case strings.Contains(msg, "nil pointer"):
		return "panic-nil-body"
	case strings.Contains(msg, "slice bounds"):
		return "panic-slice"
	case strings.Contains(msg, "index out of range"):
		return "panic-index"
	case strings.HasPrefix(msg, "panic:"):
		return "panic-other"
	case strings.Contains(msg, "expected") || strings.Contains(msg, "missing") || strings.Contains(msg, "illegal"):
		return "parse-error"
	case scanPosRe.MatchString(msg):
		// any other message of go/scanner / go/parser ("602:16: string literal not terminated", …)
		return "parse-error"
	}
	return "error"
}

func fmtPairs(ps [][2]int) string {
	parts := make([]string, len(ps))
	for i, p := range ps {
		parts[i] = fmt.Sprintf("%d,%d", p[0], p[1])
	}
	return strings.Join(parts, " ")
}

func fmtLines(ps [][2]int) string {
	parts := make([]string, len(ps))
	for i, p := range ps {
		parts[i] = fmt.Sprint(p[0])
	}
	return strings.Join(parts, " ")
}

var defaultPrinter = &printer.Config{Mode: printer.UseSpaces | printer.TabIndent, Tabwidth: 8, Indent: 0}

// implMarks runs the real tracker; answer "ok <count> | <multi> | <singles>" or "err <class>".
func implMarks(path string, ls lineSet, g config.Granularity) (string, tracking.VerifTrackResult) {
	fc := &diff.FileChange{Path: path}
	for _, r := range ls.ranges {
		fc.LineChanges = append(fc.LineChanges, diff.LineChange{Start: r[0], Lines: r[1]})
	}
	res := tracking.VerifTrack("", fc, g, defaultPrinter)
	if res.Err != "" {
		return "err " + classifyErr(res.Err), res
	}
	written := strings.Count(res.Content, increment.TrackStmtPlaceHolder)
	return fmt.Sprintf("ok %d | %s | %s | %d", res.Count, fmtLines(res.Multi), fmtPairs(res.Single), written), res
}

type marksCase struct {
	req, impl, judge, kind string
	nontrivial             bool
}

type marksFile struct {
	path  string
	load  string
	kinds map[string]int
	cases []marksCase
	err   error
}

func streamMarks(s *stream.Stream, c *streamCtx, corpus string) error {
	var files []string
	nFiles, k, singlesCap := 200, 3, 12
	if c.thorough() {
		nFiles, k, singlesCap = 1<<30, 10, 40
	}
	switch corpus {
	case "stdlib":
		all, err := corpusFiles()
		if err != nil {
			return err
		}
		c.rng.Shuffle(len(all), func(i, j int) { all[i], all[j] = all[j], all[i] })
		if len(all) > nFiles {
			all = all[:nFiles]
		}
		sort.Strings(all)
		files = all
	case "corpus":
		// minimised past disagreements and known-finding witnesses, committed under /verif/corpus
		dir := os.Getenv("VERIF_CORPUS")
		if dir == "" {
			exe, _ := os.Executable()
			dir = filepath.Join(filepath.Dir(exe), "..", "..", "corpus")
		}
		ms, _ := filepath.Glob(filepath.Join(dir, "*.go"))
		sort.Strings(ms)
		files = ms
		k, singlesCap = 6, 60
	case "gen":
		n := 150
		if c.thorough() {
			n = 1500
		}
		dir := filepath.Join(c.work, "gen")
		if err := os.MkdirAll(dir, 0755); err != nil {
			return err
		}
		for i := 0; i < n; i++ {
			src := genFile(rand.New(rand.NewSource(c.rng.Int63())), fmt.Sprintf("p%d", i))
			if i%10 == 7 { // no newline at the end of the file: the last line is code (a one-line function)
				src = strings.TrimRight(src, "\n") + "\n\nfunc tailNeg(a int) int { return -a }"
			}
			p := filepath.Join(dir, fmt.Sprintf("g%04d.go", i))
			if err := os.WriteFile(p, []byte(src), 0644); err != nil {
				return err
			}
			files = append(files, p)
		}
	}
	s.Rule = fmt.Sprintf("corpus %s: %d files; per file the changed-line sets {whole file, %d random contiguous ranges ≤40 lines, %d random multi-range subsets, "+
		"every single line of a %d-line window} × 4 granularities, each through the real NewIncrementalTrack+addStmts+Track (hook VerifTrack) and through the Lean model "+
		"on the abstract layout extracted by internal/absast; non-trivial = the implementation produced at least one tracking point or an error", corpus, len(files), k, k, singlesCap)
	seeds := make([]int64, len(files))
	for i := range seeds {
		seeds[i] = c.rng.Int63()
	}
	results := make([]marksFile, len(files))
	var wg sync.WaitGroup
	sem := make(chan struct{}, runtime.NumCPU())
	for i, p := range files {
		wg.Add(1)
		sem <- struct{}{}
		go func(i int, p string) {
			defer func() { <-sem; wg.Done() }()
			results[i] = marksForFile(p, rand.New(rand.NewSource(seeds[i])), k, singlesCap)
		}(i, p)
	}
	wg.Wait()
	for _, r := range results {
		if r.err != nil {
			s.Count("skipped-unparsable")
			continue
		}
		s.Case("load "+r.load, "loaded", "load "+r.load, false)
		s.Case("ping", "pong", "judge:wf", false)
		for kd, n := range r.kinds {
			s.Dist["node:"+kd] += n
		}
		for _, cs := range r.cases {
			s.Case(cs.req, cs.impl, cs.judge, cs.nontrivial)
			s.Count("set:" + cs.kind)
			if strings.HasPrefix(cs.impl, "err") {
				s.Count("impl:" + cs.impl)
			}
		}
	}
	s.Notes["files"] = len(files)
	return nil
}

func marksForFile(path string, rng *rand.Rand, k, singlesCap int) marksFile {
	mf := marksFile{path: path}
	content, err := os.ReadFile(path)
	if err != nil {
		mf.err = err
		return mf
	}
	enc, err := absast.Encode(content)
	if err != nil {
		mf.err = err
		return mf
	}
	mf.load = enc.Tokens
	mf.kinds = enc.Kinds
	for _, ls := range changedSets(rng, enc.Lines, k, singlesCap) {
		counts := []string{}
		for _, g := range grans {
			impl, res := implMarks(path, ls, g.g)
			req := fmt.Sprintf("marks %s %s", g.name, ls.String())
			judge := fmt.Sprintf("judge:marks %s %s | %s", g.name, ls.String(), impl)
			mf.cases = append(mf.cases, marksCase{req, impl, judge, ls.kind, !strings.HasPrefix(impl, "ok 0 ")})
			mf.cases = append(mf.cases, marksCase{"ping", "pong", fmt.Sprintf("judge:wflegal %s %s", g.name, ls.String()), "wflegal", false})
			if res.Err == "" {
				counts = append(counts, fmt.Sprint(res.Count))
			}
		}
		if len(counts) == 4 {
			mf.cases = append(mf.cases, marksCase{"ping", "pong", "judge:mono " + strings.Join(counts, " "), "mono", false})
			mf.cases = append(mf.cases, marksCase{"ping", "pong", "judge:coh " + ls.String(), "coh", false})
		}
	}
	return mf
}
