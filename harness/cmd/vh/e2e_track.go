package main

import (
	"fmt"
	"math/rand"
	"os"
	"path/filepath"
	"sort"
	"strings"

	"verifharness/internal/oracle"
	"verifharness/internal/proj"
)

func init() {
	e2es["track"] = func(c *e2eCtx) error { return e2eTrack(c, false) }
	e2es["track-decoys"] = func(c *e2eCtx) error { return e2eTrack(c, true) }
}

// e2eTrack: generated project × history × configuration → goat track → oracles of
// C01 (exit status, no panic, go build), C02 (additive, well-formed blocks), C05 (ids, components,
// service start), C13 (only eligible paths differ) → goat clean → oracles of C06.
func e2eTrack(c *e2eCtx, decoys bool) error {
	n := 42
	if c.thorough() {
		n = 420
	}
	c.res.Rule = fmt.Sprintf("%d generated in-scope multi-package projects (1-4 mains incl. root main, 2-5 libraries, one imported by no main, "+
		"assembly-backed body-less declarations, decoys=%v) × old/new revision (units added/modified with p=0.25, new files) × configuration drawn from "+
		"granularity{4} × precision{1,2,3,INIT} × threads{1,4} × race × dataType × printer{5} × package alias/name/path{3}; oracles: exit status, panic, go build, "+
		"syntax tree+comments modulo artefacts, marker block shape, id numbering, component closure, service start, differing paths, then one of seven histories (nothing, delete markers, patch to N=0, git checkout, insert markers, a patch round, inserts into fresh files + patch), goat clean and its oracles; "+
		"non-trivial = at least one tracking call was inserted", n, decoys)
	c.parallel(n, func(i int, r *rand.Rand) {
		o := proj.Opts{InScope: true, RootMain: r.Intn(3) == 0, Asm: true, Decoys: decoys, GoVersions: true, IgnoreMidLib: true}
		// one decoy scenario in six: a main package nested in hack/gen below another main's directory,
		// and only the outer one selected (the inner entry file has no change and must stay as it is)
		o.InnerMain = decoys && i%6 == 3
		s, err := c.newScenario(i, r, o, func(r *rand.Rand, old string) proj.Config {
			cfg := randomConfig(r, old)
			if decoys {
				cfg.Ignores = []string{".git", "vendor", "testdata", "ignoredir", "pkg/l0/ignored_file.go"}
				if r.Intn(2) == 0 { // entries that sort between an ignored directory and the paths below it
					cfg.Ignores = []string{".git", "vendor", "testdata", "ignoredir", "ignoredir-old", "ignoredir.go", "ignoredir/tool", "pkg/l0/ignored_file.go", "vendor-x"}
				}
				cfg.SkipNested = r.Intn(4) != 0
				if !cfg.SkipNested && r.Intn(2) == 0 { // nested modules are eligible: also with base INIT
					cfg.Old = "INIT"
				}
			}
			// mainEntries selection
			if r.Intn(3) == 0 {
				var mains []string
				for _, pk := range c.mainsOf(r, nil) {
					mains = append(mains, pk)
				}
				_ = mains
			}
			return cfg
		})
		if err != nil {
			c.violate("", "harness: "+err.Error(), nil)
			return
		}
		// a main whose directory extends or lies below another main's: select only the shorter one
		directed := false
		if r.Intn(2) == 0 || o.InnerMain {
			for _, a := range s.p.Pkgs {
				for _, b := range s.p.Pkgs {
					if a.IsMain && b.IsMain && a != b && a.Dir != "." && strings.HasPrefix(b.Dir, a.Dir) && !directed &&
						(!o.InnerMain || strings.HasPrefix(b.Dir, a.Dir+"/")) {
						s.cfg.MainEntries = []string{a.Dir}
						proj.WriteConfig(s.dir, s.cfg)
						s.desc = cfgDesc(s.cfg)
						directed = true
					}
				}
			}
		}
		if !directed && i%14 == 5 { // `mainEntries: []` (hand-edited): no main package is selected
			s.cfg.MainEntries = []string{}
			proj.WriteConfig(s.dir, s.cfg)
			s.desc = cfgDesc(s.cfg)
			directed = true
			c.count("config:mainEntries-empty-list")
		}
		if !directed && r.Intn(3) == 0 { // select a subset of mains
			var sel []string
			for _, pk := range s.p.Pkgs {
				if pk.IsMain && r.Intn(2) == 0 {
					sel = append(sel, pk.Dir)
				}
			}
			// an explicit empty selection (`mainEntries: []`, hand-edited) selects no main package
			if len(sel) > 0 || r.Intn(3) == 0 {
				if sel == nil {
					sel = []string{}
				}
				s.cfg.MainEntries = sel
				proj.WriteConfig(s.dir, s.cfg)
				s.desc = cfgDesc(s.cfg)
			}
		}
		// one decoy scenario in four is entered through a symbolic link to the project directory
		// (the working directory the shell reports is not the physical path)
		if decoys && i%4 == 1 {
			link := s.dir + "-link"
			os.Remove(link)
			if err := os.Symlink(s.dir, link); err == nil {
				s.runDir = link
				s.desc += " cwd=symlink"
				c.count("cwd:symlink")
			}
		}
		c.trackAndJudge(s, decoys, r)
		if s.runDir != "" {
			os.Remove(s.runDir)
		}
		if os.Getenv("VERIF_KEEP") == "" {
			os.RemoveAll(s.dir)
		}
	})
	return nil
}

func mainFileOf(s *scenario, path string) bool {
	for _, pk := range s.p.Pkgs {
		if pk.IsMain && filepath.Join(pk.Dir, pk.Entry()) == path {
			return true
		}
	}
	return false
}

func (c *e2eCtx) mainsOf(r *rand.Rand, p *proj.Project) []string { return nil }

func sortedKeys(m map[string]string) []string {
	ks := make([]string, 0, len(m))
	for k := range m {
		ks = append(ks, k)
	}
	sort.Strings(ks)
	return ks
}

// eligible reports whether a path may be instrumented under the property's rules.
func eligible(path string, cfg proj.Config) bool {
	if !strings.HasSuffix(path, ".go") || strings.HasSuffix(path, "_test.go") {
		return false
	}
	dir := filepath.Dir(path)
	segs := strings.Split(dir, "/")
	if segs[0] == "vendor" || segs[0] == "node_modules" {
		return false
	}
	for _, sg := range segs {
		if sg == "testdata" {
			return false
		}
	}
	ign := cfg.Ignores
	if ign == nil {
		ign = []string{".git", ".gitignore", ".DS_Store", ".idea", ".vscode", ".venv", "vendor", "testdata", "node_modules"}
	}
	for _, e := range ign {
		if path == e || dir == e || strings.HasPrefix(dir+"/", e+"/") {
			return false
		}
	}
	if cfg.SkipNested && (dir == "nested" || strings.HasPrefix(dir, "nested/") || dir == "plugin" || strings.HasPrefix(dir, "plugin/") ||
		dir == "examples/quickstart" || strings.HasPrefix(dir, "examples/quickstart/") || dir == "emptymod") {
		return false
	}
	if strings.HasPrefix(path, cfg.PkgPath+"/") {
		return false
	}
	return true
}

func (c *e2eCtx) trackAndJudge(s *scenario, decoys bool, r *rand.Rand) {
	c.mu.Lock()
	c.res.Evaluations++
	c.mu.Unlock()
	c.count("gran:" + s.cfg.Granularity)
	c.count(fmt.Sprintf("precision:%d", s.cfg.Precision))
	if s.cfg.Old == "INIT" {
		c.count("base:INIT")
	}
	wl := filepath.Join(s.dir, ".git", "verif-writelog")
	cfgOnDisk, _ := os.ReadFile(filepath.Join(s.dir, "goat.yaml")) // written by the harness or by goat init
	pm := c.predictDiff(s)
	run := proj.RunGoat(c.goat, s.rdir(), []string{"GOAT_VERIF_WRITELOG=" + wl}, "track")
	rp := func(extra map[string]any) map[string]any {
		e := map[string]any{"config_desc": s.desc, "stderr": tail(run.Stderr, 1500), "exit": run.Exit}
		for k, v := range extra {
			e[k] = v
		}
		return s.replay(e)
	}
	if isPanic(run.Stderr) {
		c.violate("C01", "goat track panicked: "+firstLine(run.Stderr, "panic"), rp(nil))
		return
	}
	if run.Exit != 0 {
		c.violate("C01", fmt.Sprintf("goat track exited %d on a compiling project: %s", run.Exit, lastLine(run.Stderr)), rp(nil))
		return
	}
	after := proj.ReadTree(s.dir)
	alias, ip := s.cfg.Alias, s.importPath()
	in, err := oracle.Scan(s.dir, alias, ip, s.cfg.PkgPath)
	if err != nil {
		c.violate("C01,C02", "instrumented tree does not parse: "+err.Error(), rp(nil))
		return
	}
	if len(in.Calls) > 0 {
		c.mu.Lock()
		c.res.NonTrivial++
		c.mu.Unlock()
	}
	c.sample(fmt.Sprintf("%s -> %d tracking calls in %d files", s.desc, len(in.Calls), len(in.Markers)))
	// C01: builds
	if ok, out := proj.GoBuild(s.dir); !ok {
		c.violate("C01", "instrumented project does not build: "+firstLine(out, ""), rp(map[string]any{"build": tail(out, 1500)}))
	}
	// C02: additive + block shape
	for _, path := range sortedKeys(s.newTree) {
		if !strings.HasSuffix(path, ".go") {
			continue
		}
		if after[path] == s.newTree[path] {
			continue
		}
		if d := oracle.SameProgram([]byte(s.newTree[path]), []byte(after[path]), alias, ip); d != "" {
			c.violate("C02", fmt.Sprintf("%s: after removing the artefacts the file differs from the new revision: %s", path, d), rp(map[string]any{"file": path, "content": after[path]}))
		}
	}
	if len(in.BadBlocks) > 0 {
		c.violate("C02", "tracking call not enclosed in a well-formed marker block at "+strings.Join(in.BadBlocks, ", "), rp(nil))
	}
	// C09: a Go file whose content is the same in both revisions has no changed line and receives
	// no tracking point (independent of the diff stage; base INIT treats every line as new)
	if s.cfg.Old != "INIT" {
		for _, path := range sortedKeys(s.newTree) {
			if !strings.HasSuffix(path, ".go") || s.oldTree[path] != s.newTree[path] {
				continue
			}
			if n := strings.Count(after[path], "// +goat:generate"); n > 0 {
				c.violate("C09,C04", fmt.Sprintf("%s is identical in the old and the new revision but received %d tracking blocks", path, n), rp(map[string]any{"file": path}))
				break
			}
		}
	}
	// C09 / C13 / C04: a file that only the side branch of a diverged history edited (a function appended
	// there) differs between the revisions, but no line of the new revision's file is added or modified
	if s.cfg.Old != "INIT" {
		for _, path := range sortedKeys(s.newTree) {
			if s.sideOnly[path] && after[path] != s.newTree[path] && !mainFileOf(s, path) {
				c.violate("C09,C13,C04", fmt.Sprintf("%s has no added or modified line (only the old revision's side branch appended a function to it) but was rewritten (%d tracking blocks)",
					path, strings.Count(after[path], "// +goat:generate")), rp(map[string]any{"file": path}))
				break
			}
		}
	}
	// C03 / C09: the blocks are where the model puts them for the real diff
	c.judgeMarks(s, pm, after, rp)
	// C05
	c.judgeC05(s, in, rp)
	// C13: which paths differ
	genFile := filepath.Join(s.cfg.PkgPath, "goat_generated.go")
	mainFiles := map[string]bool{}
	for _, pk := range s.p.Pkgs {
		if pk.IsMain {
			mainFiles[filepath.Join(pk.Dir, pk.Entry())] = true
		}
	}
	changedNew := map[string]bool{}
	for p, v := range s.newTree {
		if ov, ok := s.oldTree[p]; !ok || ov != v || s.cfg.Old == "INIT" {
			changedNew[p] = true
		}
	}
	before := map[string]string{}
	for k, v := range s.newTree {
		before[k] = v
	}
	before["goat.yaml"] = string(cfgOnDisk)
	for _, p := range unionKeys(before, after) {
		if before[p] == after[p] || p == genFile {
			continue
		}
		if strings.HasPrefix(p, s.cfg.PkgPath+"/") {
			c.violate("C13", "unexpected file in the tracking package directory: "+p, rp(nil))
			continue
		}
		// a main-entry file may be written only when its package is selected (exact directory or *)
		selMain := false
		for _, e := range s.cfg.MainEntries {
			if e == "*" || e == filepath.Dir(p) {
				selMain = true
			}
		}
		ok := (eligible(p, s.cfg) && changedNew[p]) || (mainFiles[p] && selMain && eligible(p, s.cfg))
		if !ok {
			c.violate("C13", fmt.Sprintf("%s was modified although it is not an eligible changed Go file nor a main entry", p), rp(map[string]any{"file": p}))
		}
	}
	if decoys {
		// conversely: changed Go files not excluded by the rules must be considered
		for _, p := range []string{"vendorx/v.go", "ignoredirx/i.go", "pkg/l0/mv_in.go", "nested/n.go", "nested/sub/n.go", "emptymod/e.go", "pluginapi/api.go", "_examples/hello/hello.go", ".hidden/h/h.go"} {
			if _, ok := s.newTree[p]; ok && eligible(p, s.cfg) && in.Markers[p] == 0 {
				c.violate("C13", fmt.Sprintf("%s is a changed eligible Go file (its directory name merely starts with an ignored name, or it was moved here from an excluded directory) but was not instrumented", p), rp(map[string]any{"file": p}))
			}
		}
	}
	// ---- what happens between track and clean (C06 quantifies over these histories)
	variant := s.id % 7 // every history kind in turn
	c.count(fmt.Sprintf("before-clean:%d", variant))
	{
		files := goFilesOf(after, s.cfg)
		edited := map[string]string{}
		for k, v := range after {
			edited[k] = v
		}
		switch variant {
		case 1: // some blocks marked for deletion, clean without patch
			flipDeletes(edited, files, r, 1+r.Intn(4), false)
			writeFiles(s.dir, edited, files)
		case 2: // every block deleted through patch (N = 0), then clean
			flipDeletes(edited, files, r, 0, true)
			writeFiles(s.dir, edited, files)
			if pr := proj.RunGoat(c.goat, s.rdir(), nil, "patch"); pr.Exit != 0 {
				c.violate("C10", "goat patch failed after flipping every block: "+lastLine(pr.Stderr), rp(nil))
			}
		case 3: // sources restored from git, the untracked generated file stays behind
			proj.Git(s.dir, 0, "checkout", "-q", "--", ".")
		case 4: // insert markers added, clean without patch
			addInserts(edited, files, r, 1+r.Intn(3))
			writeFiles(s.dir, edited, files)
		case 6: // insert markers only in files track did not instrument, patch, then clean
			var fresh []string
			for _, p := range files {
				if in.Markers[p] == 0 && !mainFiles[p] {
					fresh = append(fresh, p)
				}
			}
			if len(fresh) > 0 {
				addInserts(edited, fresh, r, 1+r.Intn(3))
				writeFiles(s.dir, edited, files)
				if pr := proj.RunGoat(c.goat, s.rdir(), nil, "patch"); pr.Exit != 0 {
					c.violate("C10", "goat patch failed on insert markers in not yet instrumented files: "+lastLine(pr.Stderr), rp(nil))
				}
			}
		case 5: // a patch round with deletes and inserts, then clean
			flipDeletes(edited, files, r, r.Intn(4), false)
			addInserts(edited, files, r, r.Intn(3))
			writeFiles(s.dir, edited, files)
			proj.RunGoat(c.goat, s.rdir(), nil, "patch")
		}
	}
	// ---- clean
	os.Remove(wl)
	preClean := proj.ReadTree(s.dir)
	cl := proj.RunGoat(c.goat, s.rdir(), []string{"GOAT_VERIF_WRITELOG=" + wl}, "clean")
	if cl.Exit != 0 || isPanic(cl.Stderr) {
		c.violate("C06", fmt.Sprintf("goat clean exited %d after track: %s", cl.Exit, lastLine(cl.Stderr)), rp(map[string]any{"clean_stderr": tail(cl.Stderr, 1200)}))
		return
	}
	cleaned := proj.ReadTree(s.dir)
	in2, err := oracle.Scan(s.dir, alias, ip, "")
	if err != nil {
		c.violate("C06", "tree does not parse after clean: "+err.Error(), rp(nil))
		return
	}
	// hand-written marker blocks in paths no command may touch (decoys) are not artefacts to remove
	for p := range in2.Markers {
		if !eligible(p, s.cfg) {
			delete(in2.Markers, p)
		}
	}
	if len(in2.Calls) > 0 || len(in2.Serve) > 0 || len(in2.Markers) > 0 || len(in2.Imports) > 0 {
		c.violate("C06", fmt.Sprintf("artefacts left after clean: %d calls, %d service starts, marker files %v, import files %v",
			len(in2.Calls), len(in2.Serve), keysOf(in2.Markers), keysOfB(in2.Imports)), rp(nil))
	}
	if _, err := os.Stat(filepath.Join(s.dir, s.cfg.PkgPath)); err == nil {
		userFiles := false // hand-written files of the project living in that directory keep it alive
		for p := range s.newTree {
			if strings.HasPrefix(p, s.cfg.PkgPath+"/") {
				userFiles = true
			}
		}
		if !userFiles {
			var names []string
			if es, err := os.ReadDir(filepath.Join(s.dir, s.cfg.PkgPath)); err == nil {
				for _, e := range es {
					names = append(names, e.Name())
				}
			}
			c.violate("C06", fmt.Sprintf("tracking package directory still exists after clean (entries: %v)", names), rp(map[string]any{"clean_stderr": tail(cl.Stderr, 1200), "clean_stdout": tail(cl.Stdout, 600)}))
		}
	}
	if lf, ld := proj.Leftovers(s.dir, s.newTree, s.cfg.PkgPath, "goat.yaml"); len(lf)+len(ld) > 0 {
		c.violate("C06", fmt.Sprintf("after clean the tree holds files %v and directories %v that the project did not have before instrumentation", lf, ld), rp(nil))
	}
	for _, path := range sortedKeys(s.newTree) {
		if !strings.HasSuffix(path, ".go") || cleaned[path] == s.newTree[path] {
			continue
		}
		if _, ok := cleaned[path]; !ok {
			c.violate("C06", path+" was deleted by clean", rp(nil))
			continue
		}
		if d := oracle.SameProgram([]byte(s.newTree[path]), []byte(cleaned[path]), alias, ip); d != "" {
			c.violate("C06", fmt.Sprintf("%s: after clean the file differs from the file before instrumentation: %s", path, d), rp(map[string]any{"file": path, "content": cleaned[path]}))
		}
		if !eligible(path, s.cfg) {
			c.violate("C13", path+" was modified by clean although it is not eligible", rp(nil))
		}
	}
	// a Go file that no command had touched before clean (same bytes as in the new revision: no changed
	// line was instrumented in it, it is not a main entry, no marker was put into it) holds no
	// artefact, so clean has no business writing it
	for _, path := range sortedKeys(s.newTree) {
		if strings.HasSuffix(path, ".go") && preClean[path] == s.newTree[path] && cleaned[path] != preClean[path] {
			c.violate("C13", path+" holds no artefact (untouched by track / patch) but its bytes differ after clean", rp(map[string]any{"file": path, "content": cleaned[path]}))
			break
		}
	}
	// files that are not Go sources are never modified or deleted
	for _, path := range sortedKeys(s.newTree) {
		if !strings.HasSuffix(path, ".go") && cleaned[path] != s.newTree[path] {
			c.violate("C13,C06", fmt.Sprintf("%s (not a Go file) was modified or deleted by track / patch / clean", path), rp(nil))
		}
	}
	// clean again: writes nothing
	os.Remove(wl)
	cl2 := proj.RunGoat(c.goat, s.rdir(), []string{"GOAT_VERIF_WRITELOG=" + wl}, "clean")
	if cl2.Exit != 0 {
		c.violate("C06", "second goat clean failed", rp(nil))
	}
	if b, err := os.ReadFile(wl); err == nil {
		var writes []string
		for _, l := range strings.Split(strings.TrimSpace(string(b)), "\n") {
			if strings.Contains(l, " write ") {
				writes = append(writes, l)
			}
		}
		if len(writes) > 0 {
			c.violate("C06", "clean on a tree without artefacts wrote files: "+strings.Join(writes, "; "), rp(nil))
		}
	}
	again := proj.ReadTree(s.dir)
	for _, p := range unionKeys(cleaned, again) {
		if cleaned[p] != again[p] && p != ".git/verif-writelog" {
			c.violate("C06", "clean is not idempotent: "+p+" changed on the second run", rp(nil))
		}
	}
}

func (c *e2eCtx) judgeC05(s *scenario, in *oracle.Instrumentation, rp func(map[string]any) map[string]any) {
	// the id numbering and the component tables are also what the generated runtime reports from (C07)
	c.judgeC05As("C05,C07", s, in, rp)
}

// judgeC05As: the numbering / table / service-start oracle, reported under the given property
// tag(s) (comma separated: after goat patch the same facts are also part of C10's statement).
func (c *e2eCtx) judgeC05As(tag string, s *scenario, in *oracle.Instrumentation, rp func(map[string]any) map[string]any) {
	genPath := filepath.Join(s.dir, s.cfg.PkgPath, "goat_generated.go")
	g, err := oracle.ParseGenerated(genPath)
	if err != nil {
		c.violate(tag, "generated file does not parse: "+err.Error(), rp(nil))
		return
	}
	n := len(in.Calls)
	if n == 0 {
		if g.Exists {
			c.violate(tag, "generated file exists although no tracking call was inserted", rp(nil))
		}
		return
	}
	if !g.Exists {
		c.violate(tag, "tracking calls present but the generated file is missing", rp(nil))
		return
	}
	for i, call := range in.Calls {
		if call.ID != i+1 {
			c.violate(tag, fmt.Sprintf("tracking calls are not numbered 1..N by path and source order: call %d (%s:%d) has id %d", i+1, call.Path, call.Line, call.ID), rp(nil))
			break
		}
	}
	if len(g.IDs) != n || g.End != n+1 {
		c.violate(tag, fmt.Sprintf("generated package declares %d ids (END=%d) for %d calls", len(g.IDs), g.End, n), rp(nil))
	}
	for name, v := range g.IDs {
		if name != fmt.Sprintf("TRACK_ID_%d", v) {
			c.violate(tag, fmt.Sprintf("constant %s has value %d", name, v), rp(nil))
			break
		}
	}
	// components
	idsByDir := map[string][]int{}
	for _, call := range in.Calls {
		d := filepath.Dir(call.Path)
		idsByDir[d] = append(idsByDir[d], call.ID)
	}
	var mains []*proj.Pkg
	for _, pk := range s.p.Pkgs {
		if pk.IsMain {
			mains = append(mains, pk)
		}
	}
	if len(g.Names) != len(mains) || len(g.Components) != len(mains) {
		c.violate(tag, fmt.Sprintf("generated package has %d components for %d main packages", len(g.Names), len(mains)), rp(nil))
		return
	}
	selected := func(dir string) bool {
		for _, e := range s.cfg.MainEntries {
			if e == "*" || e == dir {
				return true
			}
		}
		return false
	}
	for _, pk := range mains {
		ci := -1
		for i, nm := range g.Names {
			if nm == pk.Dir {
				ci = i
			}
		}
		if ci < 0 {
			c.violate(tag, "no component for main package "+pk.Dir, rp(nil))
			continue
		}
		var want []int
		for d := range s.closureDirs(pk) {
			want = append(want, idsByDir[d]...)
		}
		sort.Ints(want)
		got := append([]int{}, g.Components[ci]...)
		if fmt.Sprint(got) != fmt.Sprint(want) {
			c.violate(tag, fmt.Sprintf("component %d (%s) lists ids %v, the identifiers in its import closure are %v", ci, pk.Dir, got, want), rp(nil))
		}
		mf := filepath.Join(pk.Dir, pk.Entry())
		serve := in.Serve[mf]
		if selected(pk.Dir) && len(want) > 0 {
			if len(serve) != 1 || serve[0] != ci || !in.ServeFirst[mf] {
				c.violate(tag, fmt.Sprintf("main package %s (component %d, %d ids) must start the service once as the first statement of main with its own id; found %v first=%v", pk.Dir, ci, len(want), serve, in.ServeFirst[mf]), rp(nil))
			}
		} else if len(serve) != 0 {
			c.violate(tag, fmt.Sprintf("main package %s starts the service although it is not selected or has no tracking point", pk.Dir), rp(nil))
		}
	}
}

func unionKeys(a, b map[string]string) []string {
	m := map[string]bool{}
	for k := range a {
		m[k] = true
	}
	for k := range b {
		m[k] = true
	}
	out := make([]string, 0, len(m))
	for k := range m {
		if !strings.HasPrefix(k, ".git/") {
			out = append(out, k)
		}
	}
	sort.Strings(out)
	return out
}

func keysOf(m map[string]int) []string {
	var out []string
	for k := range m {
		out = append(out, k)
	}
	sort.Strings(out)
	return out
}

func keysOfB(m map[string]bool) []string {
	var out []string
	for k := range m {
		out = append(out, k)
	}
	sort.Strings(out)
	return out
}

func firstLine(s, containing string) string {
	for _, l := range strings.Split(s, "\n") {
		if strings.TrimSpace(l) != "" && strings.Contains(l, containing) {
			return strings.TrimSpace(l)
		}
	}
	return ""
}

func lastLine(s string) string {
	ls := strings.Split(strings.TrimSpace(s), "\n")
	return ls[len(ls)-1]
}
