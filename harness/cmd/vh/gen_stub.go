package main

import (
	"fmt"
	"math/rand"

	"verifharness/internal/gen"
)

// genFile generates one standalone source file (all unit kinds, finding classes included).
func genFile(rng *rand.Rand, pkg string) string {
	g := gen.New(rng)
	f := g.StandaloneFile(pkg, 3+rng.Intn(5))
	if rng.Intn(10) == 0 {
		return f.Render(false) // a few files stay un-gofmt'ed (labels indented, D-C01-5 shape kept)
	}
	return f.RenderFmt(false)
}

func init() {
	register("gen-sample", "print a generated file (seed arg)", func(args []string) error {
		seed := int64(1)
		if len(args) > 0 {
			fmt.Sscan(args[0], &seed)
		}
		fmt.Print(genFile(rand.New(rand.NewSource(seed)), "sample"))
		return nil
	})
}
