#!/usr/bin/env python3
"""tools_mres.py files… — one line per trial result written by tools_mutant.py"""
import json, sys
for f in sys.argv[1:]:
    try:
        r = json.load(open(f))
    except Exception as e:
        print(f.split('/')[-1], "ERR", e); continue
    st = "confirmed" if r.get("confirmed") else {k: r.get(k) for k in ("applies", "builds", "tests_pass", "demo_fails_with_change", "demo_passes_without", "error")}
    print(f.split('/')[-1], st, "caught_by", r.get("caught_by"), [(c, v["violations"][:1], [d[:260] for d in v["detail"][:1]]) for c, v in (r.get("checks") or {}).items()])
