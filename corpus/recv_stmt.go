package corpus

// D-C03-1: a receive statement (an expression statement that is not a call) gets no tracking call.
func Recv(ch chan int) int {
	acc := 0
	ch <- 1
	<-ch
	acc++
	return acc
}
