package corpus

// D-C01-2: two single-line function literals on one changed line.
func TwoSingles(a int) int {
	acc := a
	acc++
	p, q := func() int { return 1 }, func() int { return 2 }
	acc += p() + q()
	return acc
}
