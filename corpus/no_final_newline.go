package corpus

// seeded C03-14: no newline at the end of the file; the last line is a one-line function.
func keep(a int) int {
	return a + 1
}

func neg(a int) int { return -a }