package corpus

// D-C03-45: scope / patch granularity — comment after `case x:`; bare block; labelled if/else.
func ScopeKeys(a int) int {
	acc := a
	switch {
	case acc%3 == 0:
		// first clause
		acc += 1
	case acc%3 == 1:
		// second clause
		acc += 2
	}
	{
		acc += 6
		acc += 7
	}
	n := 0
L:
	if n < 2 {
		n++
		acc += 3
		goto L
	} else {
		acc++
	}
	acc += 8
	return acc
}
