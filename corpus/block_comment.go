package corpus

// D-C01-6: the first line of a branch is a multi-line block comment whose interior lines do not
// look like comments to utils.IsGoComment.
func BlockComment(a int) int {
	acc := a
	if acc%2 == 0 {
		/* first line of the comment
		   interior line that does not start with a comment token
		 * another interior line
		 */
		acc++
	}
	return acc
}
