package corpus

// seeded C03-13: top-level function with a wrapped signature and a one-line body (valid Go; gofmt would expand the body).
func sub(a int,
	b int) int { return a - b }

func neg(a int) int { return -a }

// method with a wrapped receiver-less signature
func (t T) add(a int,
	b int) int { return a + b + t.v }

type T struct{ v int }
