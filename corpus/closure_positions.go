package corpus

import "sync"

func runf(f func()) { f() }

// D-C03-3: function literals in positions the statement walk does not enter.
func ClosurePositions(a int) int {
	acc := a
	var wg sync.WaitGroup
	defer runf(func() {
		acc++
	})
	wg.Add(1)
	go runf(func() {
		defer wg.Done()
		acc += 2
	})
	wg.Wait()
	var vf = func(x int) int {
		return x - 3
	}
	acc = vf(acc)
	if func() bool {
		acc += 4
		return acc%2 == 0
	}() {
		acc += 5
	}
	return acc
}
