package corpus

// D-C01-5: function literal with a multi-line signature and a single-line body (not gofmt output).
func SigMulti(a int) int {
	acc := a
	acc = func(
		x int,
	) int { return x + 48 }(acc)
	return acc
}
