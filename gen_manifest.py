#!/usr/bin/env python3
"""writes MANIFEST.json from props.py + manifest_text.py (kept in one place so it stays valid)"""
import json, subprocess
import props, manifest_text as T
ids = [json.loads(l)['id'] for l in open('/verif/properties.jsonl')]
hook_commits = subprocess.run(['git', '-C', '/repo', 'log', '--format=%H %s'], capture_output=True, text=True).stdout.split('\n')
hook_commits = [l.split()[0] for l in hook_commits if l.startswith(tuple('0123456789abcdef')) and 'verif hook' in l]
checks, na = [], []
for i in ids:
    if i in props.PROPS and i in T.CLAIMS:
        c = T.CLAIMS[i]
        checks.append(dict(
            property_id=i,
            quick_cmd=f"./check {i} quick",
            thorough_cmd=f"./check {i} thorough",
            evidence_file=f"/verif/evidence/{i}.json",
            replay_cmd_template=f"./check {i} --replay {{path}}",
            engine="goatspec-lean4",
            level_claimed=dict(category="proof", text=c['text'], design_ref=c['design_ref']),
            level_note=c['note'],
            technique=c['technique'],
        ))
    else:
        na.append(dict(property_id=i, reason=T.NOT_APPLICABLE.get(i, "not yet covered by the framework in this state of the build (planned, see DESIGN.md §6)")))
m = dict(
    version=1,
    setup_cmd="./setup.sh",
    hooks=dict(guard="verif", enable="go build -tags verif (harness module replaces github.com/monshunter/goat => /repo)",
               baseline_off_cmd="cd /repo && GOFLAGS=-mod=mod GOPROXY=off GOSUMDB=off GOTOOLCHAIN=local go test -vet=off -count=1 ./...",
               source_commits=hook_commits, add_only=True),
    engines=[dict(name="goatspec-lean4", path="/verif/lean", serves_properties=[c['property_id'] for c in checks],
                  kind_free_text="Lean 4 executable model + property theorems (lake project GoatSpec, driver goatspec), tied to /repo by differential correspondence streams and end-to-end oracles run by the Go harness /verif/harness (vh) and orchestrated by /verif/check")],
    checks=checks,
    not_applicable=na,
    notes=T.NOTES,
)
json.dump(m, open('/verif/MANIFEST.json', 'w'), indent=1)
print(len(checks), 'claimed;', len(na), 'not applicable')
