import GoatSpec.Drv.Text
import GoatSpec.Drv.Mark
import GoatSpec.Drv.Runtime
import GoatSpec.Drv.Paths
import GoatSpec.Drv.Ids
import GoatSpec.Drv.Config
import GoatSpec.Drv.Cmd
import GoatSpec.Drv.Diff
/-! Line-protocol driver: one request per input line, one answer per output line.
    Handlers live in GoatSpec/Drv/*.lean (`handleX : List String → Option String`). -/
open GoatSpec GoatSpec.Drv

/-- stateless handlers -/
def handlers : List (List String → Option String) := [handleText, handleTextFile, handleRuntime, handlePaths, handleIds, handleConfig, handleCmd, handleDiff]

/-- `load <abstract file>` keeps one current file for the `marks` / `scopes` / `judge:…` requests
    that follow (a corpus file is loaded once and queried many times) -/
def handle (cur : Option Loaded) (toks : List String) : Option Loaded × String :=
  match toks with
  | "ping" :: _ => (cur, "pong")
  | "load" :: rest =>
    match parseFile rest with
    | .ok f => (some (mkLoaded f), "loaded")
    | .error e => (none, s!"error parse {e}")
  | _ =>
    match (handleMark (cur.map (·.c.f)) toks).orElse (fun _ => handleMarkJudge cur toks) with
    | some r => (cur, r)
    | none => (cur, (handlers.findSome? (fun h => h toks)).getD "error unknown-op")

partial def loop (h : IO.FS.Stream) (out : IO.FS.Stream) (cur : Option Loaded) : IO Unit := do
  let line ← h.getLine
  if line.isEmpty then return ()
  let l := (line.dropEndWhile (fun c => c == '\n' || c == '\r')).toString
  let toks := (l.splitOn " ").filter (· != "")
  let (cur', ans) := handle cur toks
  out.putStrLn (ans.trimAsciiEnd.toString)
  loop h out cur'

def main : IO Unit := do
  let stdin ← IO.getStdin
  let stdout ← IO.getStdout
  loop stdin stdout none
  stdout.flush
