import GoatSpec.Drv.Text
/-! Line-protocol driver: one request per input line, one answer per output line.
    Handlers live in GoatSpec/Drv/*.lean (`handleX : List String → Option String`). -/
open GoatSpec GoatSpec.Drv

def handlers : List (List String → Option String) := [handleText]

def handle (toks : List String) : String :=
  match toks with
  | "ping" :: _ => "pong"
  | _ => (handlers.findSome? (fun h => h toks)).getD "error unknown-op"

partial def loop (h : IO.FS.Stream) (out : IO.FS.Stream) : IO Unit := do
  let line ← h.getLine
  if line.isEmpty then return ()
  let l := (line.dropEndWhile (fun c => c == '\n' || c == '\r')).toString
  let toks := (l.splitOn " ").filter (· != "")
  out.putStrLn ((handle toks).trimAsciiEnd.toString)
  loop h out

def main : IO Unit := do
  let stdin ← IO.getStdin
  let stdout ← IO.getStdout
  loop stdin stdout
  stdout.flush
