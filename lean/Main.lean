import GoatSpec.Proto
import GoatSpec.TextSpec
/-! Line-protocol driver: one request per input line, one answer per output line. -/
open GoatSpec GoatSpec.Proto

def parseMk (s : String) : Option Mk :=
  match s with
  | "generate" => some .generate | "delete" => some .delete | "main" => some .main
  | "user" => some .user | "insert" => some .insert | "endm" => some .endm | _ => none

def impCode (a : ImportAct) : String :=
  match a with | .keep => "k" | .add => "a" | .delete => "d"

def optBool (o : Option Bool) : String :=
  match o with | none => "skip" | some true => "ok" | some false => "bad"

/-- split `a b c | d e` at the first `|` token -/
def splitBar (ts : List String) : List String × List String :=
  (ts.takeWhile (· != "|"), (ts.dropWhile (· != "|")).drop 1)

def handle (toks : List String) : String :=
  match toks with
  | "ping" :: _ => "pong"
  -- pass <kind> <e|b> <lines…>   →  <count> <lines…>
  | "pass" :: k :: r :: ls =>
    match parseMk k with
    | some k =>
      let p := pass k (if r == "b" then insertBlock else []) (ls.map decodeTok)
      s!"{p.1} {encodeLines p.2}"
    | none => "error bad-kind"
  | "clean" :: ls =>
    let p := cleanLines (ls.map decodeTok)
    s!"{b2s p.1} {encodeLines p.2}"
  | "patch" :: m :: ls =>
    let p := patchLines (m == "1") (ls.map decodeTok)
    let imps := if p.imports.isEmpty then "-" else ",".intercalate (p.imports.map impCode)
    s!"{b2s p.updated} {b2s p.changed} {imps} {encodeLines p.lines}"
  -- judge:clean <input lines…> | <changed> <output lines…>
  | "judge:clean" :: rest =>
    let (inp, out) := splitBar rest
    match out with
    | ch :: ols => optBool (cleanOK (inp.map decodeTok) (ch == "1") (ols.map decodeTok))
    | [] => "error no-output"
  | "judge:patch" :: m :: rest =>
    let (inp, out) := splitBar rest
    match out with
    | up :: ch :: ols => optBool (patchOK (m == "1") (inp.map decodeTok) (up == "1") (ch == "1") (ols.map decodeTok))
    | _ => "error no-output"
  | _ => "error unknown-op"

partial def loop (h : IO.FS.Stream) (out : IO.FS.Stream) : IO Unit := do
  let line ← h.getLine
  if line.isEmpty then return ()
  let l := (line.dropEndWhile (fun c => c == '\n' || c == '\r')).toString
  let toks := (l.splitOn " ").filter (· != "")
  out.putStrLn ((handle toks).trimAsciiEnd.toString)
  loop h out

def main : IO Unit := do
  let stdin ← IO.getStdin
  let stdout ← IO.getStdout
  loop stdin stdout
  stdout.flush
