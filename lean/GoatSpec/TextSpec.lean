import GoatSpec.Text
/-! # GoatSpec.TextSpec — what C06 / C10 demand of the text passes, as decidable predicates.

A *well-formed arrangement* is a list of items: user lines (blank, code or comment lines that
start no marker), complete marker blocks (start line of kind generate / delete / main / user,
plain body lines, end line) and insert-marker lines. The predicates below are evaluated by the
driver on the *implementation's* output (`judge`), and are the conclusions of the theorems in
`Properties/C06.lean` and `Properties/C10.lean`. -/
namespace GoatSpec

def allMk : List Mk := [.generate, .delete, .main, .user, .insert, .endm]

/-- the line starts no marker at all -/
def plain (l : Line) : Bool := allMk.all (fun k => !startsMk k l)

inductive Item where
  | user (x : Line)
  | block (k : Mk) (s : Line) (body : List Line) (e : Line)
  | ins (x : Line)
deriving Repr, DecidableEq

def Item.kind : Item → Option Mk
  | .user _ => none
  | .block k _ _ _ => some k
  | .ins _ => some .insert

def blockKind (k : Mk) : Bool := k == .generate || k == .delete || k == .main || k == .user

def Item.wf : Item → Bool
  | .user x => plain x
  | .block k s body e => blockKind k && startsMk k s && body.all plain && startsMk .endm e
  | .ins x => startsMk .insert x

def Item.lines : Item → List Line
  | .user x => [x]
  | .block _ s body e => s :: (body ++ [e])
  | .ins x => [x]

def flatten (items : List Item) : List Line := items.flatMap Item.lines

def Item.isBlankUser : Item → Bool
  | .user x => isBlank x
  | _ => false

/-- drop blank user lines (the regexps' `\s*` may take them; invisible in the syntax tree) -/
def dBU (items : List Item) : List Item := items.filter (fun it => !it.isBlankUser)

def nonBlank (l : List Line) : List Line := l.filter (fun x => !isBlank x)

def isK (k : Mk) (it : Item) : Bool := it.kind == some k

/-- replace every item of kind `k` by the items `rit` -/
def replaceK (k : Mk) (rit : List Item) (items : List Item) : List Item :=
  items.flatMap (fun it => if isK k it then rit else [it])

def cntK (k : Mk) (items : List Item) : Nat := (items.filter (isK k)).length

/-- the reset tracking block as an item -/
def genBlockItem : Item :=
  match Extracted.packageInsertStmts with
  | [s, a, b, e] => .block .generate s [a, b] e
  | _ => .user []

/-- Parse a list of lines into items; `none` when the lines are not a well-formed arrangement
    (orphan end marker, unterminated start marker, marker inside a block). -/
def parseBody : List Line → Option (List Line × Line × List Line)
  | [] => none
  | x :: r =>
    if startsMk .endm x then some ([], x, r)
    else if plain x then
      match parseBody r with
      | some (b, e, rest) => some (x :: b, e, rest)
      | none => none
    else none

theorem parseBody_len {l : List Line} {b e r} (h : parseBody l = some (b, e, r)) : r.length < l.length := by
  induction l generalizing b e r with
  | nil => simp [parseBody] at h
  | cons x t ih =>
    simp only [parseBody] at h
    split at h
    · cases h; simp
    · split at h
      · split at h
        · next b' e' r' hb => cases h; have := ih hb; simp; omega
        · cases h
      · cases h

def startKind (l : Line) : Option Mk :=
  [Mk.generate, .delete, .main, .user].find? (fun k => startsMk k l)

def parseItems (l : List Line) : Option (List Item) :=
  match l with
  | [] => some []
  | x :: r =>
    if plain x then (parseItems r).map (fun is => .user x :: is)
    else if startsMk .insert x then (parseItems r).map (fun is => .ins x :: is)
    else match startKind x with
      | some k =>
        match h : parseBody r with
        | some (b, e, rest) => (parseItems rest).map (fun is => .block k x b e :: is)
        | none => none
      | none => none
termination_by l.length
decreasing_by
  all_goals simp_wf
  · have := parseBody_len h; omega

/-- C06, text level: judged on well-formed arrangements only (`none` = outside the quantifier). -/
def cleanOK (inp : List Line) (changed : Bool) (out : List Line) : Option Bool :=
  match parseItems inp with
  | none => none
  | some items =>
    some (nonBlank out == nonBlank (flatten (items.filter (fun it => it.kind.isNone)))
          && out.all plain
          && (changed == items.any (fun it => it.kind.isSome)))

/-- what `goat patch` must make of one file's arrangement (C10) -/
def patchExpected (isMain : Bool) (items : List Item) : List Item :=
  items.flatMap fun it =>
    match it.kind with
    | some .delete => []
    | some .insert => [genBlockItem]
    | some .generate => [genBlockItem]
    | some .main => if isMain then [] else [it]
    | _ => [it]

def patchOK (isMain : Bool) (inp : List Line) (updated changed : Bool) (out : List Line) : Option Bool :=
  match parseItems inp with
  | none => none
  | some items =>
    some (nonBlank out == nonBlank (flatten (patchExpected isMain items))
          && (changed == items.any (fun it => isK .delete it || isK .insert it))
          && (updated == items.any (fun it => isK .delete it || isK .insert it || isK .generate it
                                              || (isMain && isK .main it))))

/-- final state of the tracking import after the recorded actions -/
def applyImports (present : Bool) (acts : List ImportAct) : Bool :=
  acts.foldl (fun p a => match a with | .add => true | .delete => false | .keep => p) present

/-- C10, file level: an instrumented (or not yet instrumented) source file imports the tracking
    package iff it holds a generate / delete / main block; a main block in a non-main file is
    not something the tool writes. Files outside this are not judged for their import. -/
def importConsistent (isMain imp : Bool) (items : List Item) : Bool :=
  (imp == items.any (fun it => isK .generate it || isK .delete it || isK .main it))
  && (isMain || !items.any (isK .main))

/-- after `PatchExecutor.prepareContent` the file must import the tracking package iff a
    tracking block is left in it (otherwise it does not compile: undefined alias / unused import) -/
def importExpected (isMain : Bool) (items : List Item) : Bool :=
  (patchExpected isMain items).any (isK .generate)

end GoatSpec
