import GoatSpec.Proofs.Idem
import GoatSpec.Properties.C05
import GoatSpec.SkelSpec
/-! # C10 — goat patch applies manual markers exactly and renumbers consistently
    (text level: the passes of `PatchExecutor.prepareContent`; numbering: `replaceTracks`).

For every well-formed arrangement of user lines, marker blocks and insert markers — any length,
any order. Whether the project still compiles and the regenerated tables are end-to-end oracles. -/
namespace GoatSpec.C10
open GoatSpec

theorem genBlock_facts : genBlockItem.wf = true ∧ genBlockItem.kind = some .generate
    ∧ genBlockItem.isBlankUser = false ∧ flatten [genBlockItem] = insertBlock := by decide

theorem any_or2 {α : Type} (p q : α → Bool) (l : List α) :
    l.any (fun x => p x || q x) = (l.any p || l.any q) := by
  induction l with
  | nil => rfl
  | cons x xs ih =>
    simp only [List.any_cons, ih]
    cases p x <;> cases q x <;> cases xs.any p <;> cases xs.any q <;> rfl

/-- count of kind `k` after replacing kind `k'` by `rit` -/
theorem cntK_replaceK (k k' : Mk) (rit : List Item) (items : List Item) :
    cntK k (replaceK k' rit items) = cntK k (items.filter (fun it => !isK k' it)) + cntK k rit * cntK k' items := by
  induction items with
  | nil => simp [replaceK, cntK]
  | cons it r ih =>
    rw [replaceK_cons, cntK_append, ih, cntK_cons k' it r]
    cases h : isK k' it with
    | true =>
      have hf : (it :: r).filter (fun it => !isK k' it) = r.filter (fun it => !isK k' it) := by
        simp [List.filter_cons, h]
      rw [hf]
      simp only [if_true, Nat.mul_add, Nat.mul_one]; omega
    | false =>
      have hf : (it :: r).filter (fun it => !isK k' it) = it :: r.filter (fun it => !isK k' it) := by
        simp [List.filter_cons, h]
      rw [hf, cntK_cons k it]
      simp only [Bool.false_eq_true, if_false, Nat.zero_add]
      have h1 : cntK k [it] = if isK k it then 1 else 0 := by rw [cntK_cons]; simp [cntK]
      rw [h1]; omega

theorem cntK_filter_ne (k k' : Mk) (hne : k ≠ k') (items : List Item) :
    cntK k (items.filter (fun it => !isK k' it)) = cntK k items := by
  have := cntK_replaceK_other k k' hne [] rfl items
  rw [replaceK_nil_eq_filter] at this; exact this

/-- one pass with replacement items `rit` on a well-formed arrangement, at item level -/
theorem pass_step (k : Mk) (hk : k ≠ .endm) (rit : List Item) (hrw : ∀ it ∈ rit, it.wf = true)
    (hrb : dBU rit = rit) (i0 : List Item) (hwf : ∀ it ∈ i0, it.wf = true) :
    ∃ i1 : List Item,
      pass k (flatten rit) (flatten i0) = (cntK k i0, flatten i1)
      ∧ (∀ it ∈ i1, it.wf = true)
      ∧ dBU i1 = replaceK k rit (dBU i0) := by
  refine ⟨passI k rit [] i0, ?_, ?_, ?_⟩
  · exact pass_items k hk rit i0 hwf
  · exact wf_passI _ rit hrw i0 hwf [] (by simp)
  · exact dBU_passI k rit hrb i0 [] (by simp)

/-- what the four passes make of the non-blank items, item by item -/
theorem chain_expected (isMain : Bool) (X : List Item) (hwf : ∀ it ∈ X, it.wf = true) :
    (if isMain then replaceK .main [] else id)
      (replaceK .generate [genBlockItem] (replaceK .insert [genBlockItem] (replaceK .delete [] X)))
      = patchExpected isMain X := by
  induction X with
  | nil => cases isMain <;> rfl
  | cons it r ih =>
    have hr := ih (fun i hi => hwf i (by simp [hi]))
    have hg := genBlock_facts.2.1
    have e : patchExpected isMain (it :: r) = patchExpected isMain [it] ++ patchExpected isMain r := by
      simp [patchExpected]
    rw [e, ← hr]
    rcases wf_kind (hwf it (by simp)) with h | h | h | h | h | h <;>
      cases isMain <;>
      simp [replaceK, patchExpected, isK, h, hg]

theorem dBU_patchExpected (isMain : Bool) (X : List Item) :
    dBU (patchExpected isMain X) = patchExpected isMain (dBU X) := by
  have hb := genBlock_facts.2.2.1
  induction X with
  | nil => rfl
  | cons it r ih =>
    have e1 : patchExpected isMain (it :: r) = patchExpected isMain [it] ++ patchExpected isMain r := by
      simp [patchExpected]
    cases hbu : it.isBlankUser with
    | true =>
      have hk : it.kind = none := by cases it <;> simp [Item.isBlankUser, Item.kind] at hbu ⊢
      have : dBU (it :: r) = dBU r := by simp [dBU, hbu]
      rw [this, ← ih, e1, dBU_append]
      simp [patchExpected, hk, dBU, hbu]
    | false =>
      have : dBU (it :: r) = it :: dBU r := by simp [dBU, hbu]
      have e2 : patchExpected isMain (it :: dBU r) = patchExpected isMain [it] ++ patchExpected isMain (dBU r) := by
        simp [patchExpected]
      rw [this, e2, ← ih, e1, dBU_append]
      congr 1
      cases hk : it.kind with
      | none => simp [patchExpected, hk, dBU, hbu]
      | some k =>
        cases k <;> cases isMain <;> simp [patchExpected, hk, dBU, hbu, hb]

/-- **C10 (arrangements).** For every well-formed arrangement: delete-marked blocks vanish with
    their call, every insert marker is replaced in place by one well-formed tracking block,
    every other tracking block is kept (reset to the placeholder block), user blocks and — in
    files that are not main entries — service-start blocks are kept, main-entry files lose their
    service-start blocks (re-applied later), and the non-blank user lines are preserved in
    order. The file counts as *updated* iff it holds a delete, insert, generate (or, for main
    entries, main) item, and sets the executor's *changed* flag iff it holds a delete or insert
    marker. -/
theorem patch_wf (isMain : Bool) (items : List Item) (hwf : ∀ it ∈ items, it.wf = true) :
    nonBlank (patchLines isMain (flatten items)).lines = nonBlank (flatten (patchExpected isMain items))
    ∧ (patchLines isMain (flatten items)).changed = items.any (fun it => isK .delete it || isK .insert it)
    ∧ (patchLines isMain (flatten items)).updated
        = items.any (fun it => isK .delete it || isK .insert it || isK .generate it || (isMain && isK .main it)) := by
  obtain ⟨hgw, hgk, hgb, hgf⟩ := genBlock_facts
  have hrw : ∀ it ∈ [genBlockItem], it.wf = true := by intro it h; simp at h; subst h; exact hgw
  have hrb : dBU [genBlockItem] = [genBlockItem] := by simp [dBU, hgb]
  have hfl : flatten [genBlockItem] = insertBlock := hgf
  obtain ⟨i1, p1, w1, d1⟩ := pass_step .delete (by decide) [] (by simp) rfl items hwf
  obtain ⟨i2, p2, w2, d2⟩ := pass_step .insert (by decide) [genBlockItem] hrw hrb i1 w1
  obtain ⟨i3, p3, w3, d3⟩ := pass_step .generate (by decide) [genBlockItem] hrw hrb i2 w2
  obtain ⟨i4, p4, w4, d4⟩ := pass_step .main (by decide) [] (by simp) rfl i3 w3
  rw [flatten_nil] at p1 p4
  rw [hfl] at p2 p3
  -- counts in terms of the original arrangement
  have hc0 : ∀ k, cntK k ([] : List Item) = 0 := fun _ => rfl
  have hcg : ∀ k, cntK k [genBlockItem] = if k = .generate then 1 else 0 := by
    intro k; cases k <;> simp [cntK, isK, hgk]
  have n2 : cntK .insert i1 = cntK .insert items := by
    rw [← cntK_dBU, d1, cntK_replaceK_other _ _ (by decide) [] rfl, cntK_dBU]
  have n3 : cntK .generate i2 = cntK .generate items + cntK .insert items := by
    rw [← cntK_dBU, d2, cntK_replaceK, cntK_filter_ne _ _ (by decide), hcg, d1,
      cntK_replaceK_other _ _ (by decide) [] rfl, cntK_replaceK_other _ _ (by decide) [] rfl, cntK_dBU, cntK_dBU]
    simp
  have n4 : cntK .main i3 = cntK .main items := by
    rw [← cntK_dBU, d3, cntK_replaceK, cntK_filter_ne _ _ (by decide), hcg, d2, cntK_replaceK,
      cntK_filter_ne _ _ (by decide), hcg, d1, cntK_replaceK_other _ _ (by decide) [] rfl, cntK_dBU]
    simp
  refine ⟨?_, ?_, ?_⟩
  · -- lines
    have hd : dBU (if isMain then i4 else i3) = patchExpected isMain (dBU items) := by
      rw [← chain_expected isMain (dBU items) (wf_dBU items hwf)]
      cases isMain with
      | true => simp only [if_true]; rw [d4, d3, d2, d1]
      | false => simp only [Bool.false_eq_true, if_false, id]; rw [d3, d2, d1]
    have hl : (patchLines isMain (flatten items)).lines = flatten (if isMain then i4 else i3) := by
      simp only [patchLines, p1, p2, p3]
      cases isMain <;> simp [p4]
    rw [hl, ← nonBlank_flatten_dBU, hd, ← dBU_patchExpected, nonBlank_flatten_dBU]
  · simp only [patchLines, p1, p2, n2, cntK_pos_iff]
    rw [any_or2]
  · have hu : (patchLines isMain (flatten items)).updated =
        (decide (cntK .delete items > 0) || decide (cntK .insert items > 0)
          || decide (cntK .generate items + cntK .insert items > 0) || (isMain && decide (cntK .main items > 0))) := by
      simp only [patchLines, p1, p2, p3, n2, n3]
      cases isMain <;> simp [p4, n4]
    rw [hu]
    have hsum : decide (cntK .generate items + cntK .insert items > 0)
        = (decide (cntK .generate items > 0) || decide (cntK .insert items > 0)) := by
      by_cases a : cntK .generate items > 0 <;> by_cases b : cntK .insert items > 0 <;> simp [a, b] <;> omega
    rw [hsum]
    simp only [cntK_pos_iff]
    have hm : items.any (fun it => isMain && isK .main it) = (isMain && items.any (isK .main)) := by
      cases isMain <;> simp
    rw [any_or2, any_or2, any_or2, hm]
    cases isMain <;>
      cases items.any (isK .delete) <;> cases items.any (isK .insert) <;> cases items.any (isK .generate) <;>
      cases items.any (isK .main) <;> rfl

theorem cntK_filter_self (k : Mk) (items : List Item) : cntK k (items.filter (fun it => !isK k it)) = 0 := by
  induction items with
  | nil => rfl
  | cons it r ih =>
    cases h : isK k it with
    | true => simpa [List.filter_cons, h] using ih
    | false =>
      have hf : (it :: r).filter (fun it => !isK k it) = it :: r.filter (fun it => !isK k it) := by
        simp [List.filter_cons, h]
      rw [hf, cntK_cons, ih]; simp [h]

theorem cntK_generate_patchExpected (isMain : Bool) (X : List Item) (hwf : ∀ it ∈ X, it.wf = true) :
    cntK .generate (patchExpected isMain X) = cntK .generate X + cntK .insert X := by
  induction X with
  | nil => rfl
  | cons it r ih =>
    have hr := ih (fun i hi => hwf i (by simp [hi]))
    have hg := genBlock_facts.2.1
    have e : patchExpected isMain (it :: r) = patchExpected isMain [it] ++ patchExpected isMain r := by
      simp [patchExpected]
    rw [e, cntK_append, hr, cntK_cons .generate it r, cntK_cons .insert it r]
    rcases wf_kind (hwf it (by simp)) with h | h | h | h | h | h <;>
      cases isMain <;>
      simp [patchExpected, isK, h, hg, cntK] <;> omega

theorem import_arith (isMain : Bool) (nd ni ng nm : Nat) (hm : isMain = true ∨ nm = 0) :
    applyImports (decide (ng > 0) || decide (nd > 0) || decide (nm > 0))
      ((if nd > 0 && !decide (ng > 0) then [ImportAct.delete] else [])
        ++ (if ni > 0 then [ImportAct.add] else [])
        ++ (if isMain && decide (nm > 0) && !decide (ng + ni > 0) then [ImportAct.delete] else []))
      = decide (ng + ni > 0) := by
  rcases hm with hm | hm
  · subst hm
    cases nd <;> cases ni <;> cases ng <;> cases nm <;> simp [applyImports] <;> omega
  · subst hm
    cases nd <;> cases ni <;> cases ng <;> cases isMain <;> simp [applyImports] <;> omega

/-- **C10 (tracking import).** For every well-formed arrangement in a file whose import state is
    consistent with its blocks, the import edits recorded by the passes leave the file importing
    the tracking package iff a tracking block is left in it — so a block written for an insert
    marker is never left without its import and a file that lost its last block never keeps an
    unused one (either would stop the project from compiling). -/
theorem patch_import (isMain imp : Bool) (items : List Item) (hwf : ∀ it ∈ items, it.wf = true)
    (hc : importConsistent isMain imp items = true) :
    applyImports imp (patchLines isMain (flatten items)).imports = importExpected isMain items := by
  obtain ⟨hgw, hgk, hgb, hgf⟩ := genBlock_facts
  have hrw : ∀ it ∈ [genBlockItem], it.wf = true := by intro it h; simp at h; subst h; exact hgw
  have hrb : dBU [genBlockItem] = [genBlockItem] := by simp [dBU, hgb]
  obtain ⟨i1, p1, w1, d1⟩ := pass_step .delete (by decide) [] (by simp) rfl items hwf
  obtain ⟨i2, p2, w2, d2⟩ := pass_step .insert (by decide) [genBlockItem] hrw hrb i1 w1
  obtain ⟨i3, p3, w3, d3⟩ := pass_step .generate (by decide) [genBlockItem] hrw hrb i2 w2
  obtain ⟨i4, p4, w4, d4⟩ := pass_step .main (by decide) [] (by simp) rfl i3 w3
  obtain ⟨g1, q1, _, _⟩ := pass_step .generate (by decide) [] (by simp) rfl i1 w1
  obtain ⟨g4, q4, _, _⟩ := pass_step .generate (by decide) [] (by simp) rfl i4 w4
  rw [flatten_nil] at p1 p4 q1 q4
  rw [hgf] at p2 p3
  have hcg : ∀ k, cntK k [genBlockItem] = if k = .generate then 1 else 0 := by
    intro k; cases k <;> simp [cntK, isK, hgk]
  have m1 : cntK .generate i1 = cntK .generate items := by
    rw [← cntK_dBU, d1, cntK_replaceK_other _ _ (by decide) [] rfl, cntK_dBU]
  have n2 : cntK .insert i1 = cntK .insert items := by
    rw [← cntK_dBU, d1, cntK_replaceK_other _ _ (by decide) [] rfl, cntK_dBU]
  have n3 : cntK .generate i2 = cntK .generate items + cntK .insert items := by
    rw [← cntK_dBU, d2, cntK_replaceK, cntK_filter_ne _ _ (by decide), hcg, d1,
      cntK_replaceK_other _ _ (by decide) [] rfl, cntK_replaceK_other _ _ (by decide) [] rfl, cntK_dBU, cntK_dBU]
    simp
  have m3 : cntK .generate i3 = cntK .generate items + cntK .insert items := by
    rw [← cntK_dBU, d3, cntK_replaceK, cntK_filter_self, hcg, cntK_dBU, n3]; simp
  have n4 : cntK .main i3 = cntK .main items := by
    rw [← cntK_dBU, d3, cntK_replaceK, cntK_filter_ne _ _ (by decide), hcg, d2, cntK_replaceK,
      cntK_filter_ne _ _ (by decide), hcg, d1, cntK_replaceK_other _ _ (by decide) [] rfl, cntK_dBU]
    simp
  have m4 : cntK .generate i4 = cntK .generate items + cntK .insert items := by
    rw [← cntK_dBU, d4, cntK_replaceK_other _ _ (by decide) [] rfl, cntK_dBU, m3]
  have hexp : importExpected isMain items = decide (cntK .generate items + cntK .insert items > 0) := by
    unfold importExpected
    rw [← cntK_pos_iff, cntK_generate_patchExpected isMain items hwf]
  have hcons : imp = (decide (cntK .generate items > 0) || decide (cntK .delete items > 0) || decide (cntK .main items > 0))
      ∧ (isMain = true ∨ cntK .main items = 0) := by
    unfold importConsistent at hc
    simp only [Bool.and_eq_true, beq_iff_eq, Bool.or_eq_true, Bool.not_eq_true'] at hc
    obtain ⟨h1, h2⟩ := hc
    refine ⟨?_, ?_⟩
    · rw [h1, any_or2, any_or2]; simp only [cntK_pos_iff]
    · rcases h2 with h | h
      · exact Or.inl h
      · right
        have := cntK_pos_iff .main items
        rw [h] at this
        simpa using this
  obtain ⟨himp, hmain⟩ := hcons
  rw [hexp, himp]
  have hl : (patchLines isMain (flatten items)).imports =
      (if cntK .delete items > 0 && !decide (cntK .generate items > 0) then [ImportAct.delete] else [])
      ++ (if cntK .insert items > 0 then [ImportAct.add] else [])
      ++ (if isMain && decide (cntK .main items > 0) && !decide (cntK .generate items + cntK .insert items > 0)
          then [ImportAct.delete] else []) := by
    simp only [patchLines, p1, p2, p3, hasGenerate, q1, m1, n2]
    cases isMain with
    | false => simp
    | true => simp [p4, q4, m4, n4]
  rw [hl]
  exact import_arith isMain _ _ _ _ hmain

/-- non-vacuity of `patch_import`: an instrumented file whose every block is delete-marked and
    which also carries an insert marker (the arrangement a premature "import already present"
    shortcut gets wrong) -/
example : importConsistent false true
    [Item.block .delete Extracted.trackDeleteComment [['y']] Extracted.trackEndComment,
     Item.ins Extracted.trackInsertComment] = true
  ∧ importExpected false
    [Item.block .delete Extracted.trackDeleteComment [['y']] Extracted.trackEndComment,
     Item.ins Extracted.trackInsertComment] = true := by decide

/-- **without delete/insert markers patch changes nothing**: for **every** text, if no line is an
    insert marker and no delete-start line is followed by an end line, the executor's `changed`
    flag stays false (so `apply` is never entered and nothing is written). -/
theorem patch_noop (isMain : Bool) (l : List Line) (hd : hasM .delete l = false) (hi : hasM .insert l = false) :
    (patchLines isMain l).changed = false := by
  simp only [patchLines, pass_noM _ _ l hd, pass_noM _ _ l hi]
  rfl

/-- **renumbering**: the files kept by the passes, in sorted order, receive the ids 1..N in
    file then source order (this is `C05.ids_exact` for the *updated* files) -/
theorem patch_numbering (fs : List (String × Nat)) :
    (number 1 fs).flatMap idsOf = List.range' 1 (totalCount fs) := C05.ids_exact fs

/-- **N = 0**: when no placeholder is left, the total id list is empty — the executor removes
    the generated file and re-applies no service-start block -/
theorem patch_zero (fs : List (String × Nat)) (h : totalCount fs = 0) : totalIds (number 1 fs) = [] := by
  rw [C05.total_ids, h]; rfl

/-- non-vacuity: an arrangement with every kind of item -/
example : ∀ it ∈ [Item.user ['x'], genBlockItem, Item.ins Extracted.trackInsertComment,
    Item.block .delete Extracted.trackDeleteComment [['y']] Extracted.trackEndComment,
    Item.block .main Extracted.trackMainEntryComment [['s']] Extracted.trackEndComment], it.wf = true := by
  decide

/-! ## the order of the passes, read off the source (`vh skeleton`, regenerated on every run) -/
section skeleton
open GoatSpec.SkelSpec

/-- **`PatchExecutor.prepareContent` runs delete, insert, reset-generate, reset-main in the order
    `patchLines` composes them** -/
theorem patch_pass_order_in_source :
    (callOrder "pkg/goat.PatchExecutor.prepareContent").filter (· ≠ "pkg/config.Config.PrinterConfig") =
    ["pkg/goat.handleGoatDelete", "pkg/goat.handleGoatInsert", "pkg/goat.resetGoatGenerate", "pkg/goat.resetGoatMain"] := by
  decide +kernel

/-- each pass uses the regular expression of its marker kind and no other -/
theorem patch_pass_regexps :
    refOrder "pkg/goat.handleGoatDelete" = ["pkg/config.TrackDeleteEndRegexp", "pkg/config.TrackGenerateEndRegexp"]
    ∧ refOrder "pkg/goat.handleGoatInsert" = ["pkg/config.TrackInsertRegexp"]
    ∧ refOrder "pkg/goat.resetGoatGenerate" = ["pkg/config.TrackGenerateEndRegexp"]
    ∧ refOrder "pkg/goat.resetGoatMain" = ["pkg/config.TrackMainEntryEndRegexp", "pkg/config.TrackGenerateEndRegexp"] := by
  decide +kernel

/-- `apply`: renumber, save the sources, then the generated file (removed when no id is left,
    together with the emptied package directory), then the main entries -/
theorem patch_apply_order_in_source :
    (callOrder "pkg/goat.PatchExecutor.apply").filter (fun f => f ≠ "pkg/config.Config.GoatGeneratedFile") =
    ["pkg/goat.PatchExecutor.replaceTracks", "pkg/goat.PatchExecutor.applyTracks", "pkg/goat.getComponentTrackIdxs",
     "pkg/tracking/increment.NewValues", "pkg/tracking/increment.Values.AddComponent", "pkg/goat.getTotalTrackIdxs",
     "pkg/tracking/increment.Values.Remove", "pkg/utils.IsDirEmpty",
     "pkg/tracking/increment.Values.AddTrackIds", "pkg/tracking/increment.Values.IsEmpty",
     "pkg/tracking/increment.Values.Save", "pkg/goat.applyMainEntries"] := by decide +kernel

end skeleton

end GoatSpec.C10
