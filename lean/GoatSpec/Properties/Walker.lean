import GoatSpec.WalkSpec
import GoatSpec.Walker
/-! # The statement and expression walkers of pkg/tracking/increment.go, as translated from the
    source on every run (`GoatSpec/Walker.lean`), denote the model's walk equations.

A premise of every theorem about *where* tracking points go (C01 `marks_legal`, C03 `line_guard` …,
C09 `points_justified`, `line_shape`): those are statements about `Mark.evS` / `Mark.evE`. Here the
kernel checks, against the regenerated IR, that for EVERY go/ast statement node `g` one step of
`processStatements` — the selected type-switch arm with its guards, loops and calls, recursive
calls replaced by the model's answer for their arguments — produces exactly `evS (abstrS g)`,
and likewise `analyzeAndModifyExpr` / `evE`. A change of the walkers (an arm added, dropped or
reordered, another field walked, a guard changed, an early return) changes the IR or makes the
translation fail, and these theorems no longer check. -/
set_option linter.unusedSimpArgs false
namespace GoatSpec.WalkerTie
open GoatSpec GoatSpec.GoAst GoatSpec.WalkIR GoatSpec.WalkSpec

theorem evEs_append (a b : List Expr) : evEs (a ++ b) = evEs a ++ evEs b := by
  induction a with
  | nil => simp [evEs]
  | cons x xs ih => simp [evEs, ih]

theorem evL_append (a b : List Stmt) : evL (a ++ b) = evL a ++ evL b := by
  induction a with
  | nil => simp [evL]
  | cons x xs ih => simp [evL, ih]

theorem joinRes_map_some {α : Type} (f : α → List Item) (l : List α) :
    joinRes (l.map fun x => some (f x, false)) = some (l.flatMap f, false) := by
  induction l with
  | nil => rfl
  | cons x xs ih => simp only [List.map_cons, joinRes, ih, List.flatMap_cons]

theorem expand_append (a b : List Item) : expand (a ++ b) = expand a ++ expand b := by
  simp [expand]

theorem expand_recE_each (l : List GExpr) : expand (l.flatMap fun x => [Item.recE [x]]) = evEs (abstrEs l) := by
  induction l with
  | nil => rfl
  | cons x xs ih =>
    simp only [List.flatMap_cons, expand_append, ih]
    simp [expand, expandItem, abstrEs, evEs]

/-- **`analyzeAndModifyExpr`, as translated from the source, is `evE`.** For every expression
    node: one step of the translated walker, recursive calls answered by the model, yields the
    model's events for the abstracted node. -/
theorem analyzeAndModifyExpr_is_evE (e : GExpr) :
    (unfold Walker.analyzeAndModifyExpr (.expr e)).map expand = some (evE (abstrE e)) := by
  cases e with
  | funcLit p e lb rb list =>
    cases list with
    | nil => simp [unfold, Walker.analyzeAndModifyExpr, evalArms, GVal.kind, GExpr.kind, evalL, evalA, evalC, Ctx.resolve,
        resolveFrom, GVal.get, getE, GVal.nonNil, GVal.len, expand, abstrE, firstPos, evE]
    | cons s ss =>
      by_cases h : p = e
      · have hb : (p == e) = true := by simp [h]
        simp [unfold, Walker.analyzeAndModifyExpr, evalArms, GVal.kind, GExpr.kind, evalL, evalA, evalC, Ctx.resolve,
          resolveFrom, GVal.get, getE, GVal.nonNil, GVal.len, GVal.posLine, GVal.endLine, GExpr.rng, expand, expandItem,
          abstrE, firstPos, evE, hb]
      · have hb : (p == e) = false := by simp [h]
        simp [unfold, Walker.analyzeAndModifyExpr, evalArms, GVal.kind, GExpr.kind, evalL, evalA, evalC, Ctx.resolve,
          resolveFrom, GVal.get, getE, GVal.nonNil, GVal.len, GVal.posLine, GVal.endLine, GExpr.rng, expand, expandItem,
          abstrE, firstPos, evE, hb, GStmt.line, GStmt.col]
  | call p e fn args =>
    cases args <;>
    simp [unfold, Walker.analyzeAndModifyExpr, evalArms, GVal.kind, GExpr.kind, evalL, evalA, evalC, Ctx.resolve,
      resolveFrom, GVal.get, getE, GVal.nonNil, expand, expandItem, abstrE, abstrEs, evE, evEs]
  | composite p e typ elts =>
    cases elts with
    | nil => simp [unfold, Walker.analyzeAndModifyExpr, evalArms, GVal.kind, GExpr.kind, evalL, evalA, evalC, Ctx.resolve,
        resolveFrom, GVal.get, getE, GVal.nonNil, expand, abstrE, abstrEs, evE, evEs]
    | cons x xs =>
      have := joinRes_map_some (fun y : GExpr => [Item.recE [y]]) (x :: xs)
      have h2 := expand_recE_each (x :: xs)
      simp [unfold, Walker.analyzeAndModifyExpr, evalArms, GVal.kind, GExpr.kind, evalL, evalA, evalC, Ctx.resolve,
        resolveFrom, GVal.get, getE, GVal.nonNil, GVal.elems, abstrE, evE, List.lookup, Function.comp_def] at this h2 ⊢
      rw [this]; exact ⟨_, Or.inl rfl, h2⟩
  | keyValue p e k v =>
    simp [unfold, Walker.analyzeAndModifyExpr, evalArms, GVal.kind, GExpr.kind, evalL, evalA, evalC, Ctx.resolve,
      resolveFrom, GVal.get, getE, GVal.nonNil, expand, expandItem, abstrE, abstrEs, evE, evEs]
  | unary p e x =>
    simp [unfold, Walker.analyzeAndModifyExpr, evalArms, GVal.kind, GExpr.kind, evalL, evalA, evalC, Ctx.resolve,
      resolveFrom, GVal.get, getE, GVal.nonNil, expand, expandItem, abstrE, abstrEs, evE, evEs]
  | structType p e fts =>
    have := joinRes_map_some (fun y : GExpr => [Item.recE [y]]) fts
    have h2 := expand_recE_each fts
    simp [unfold, Walker.analyzeAndModifyExpr, evalArms, GVal.kind, GExpr.kind, evalL, evalA, evalC, Ctx.resolve,
      resolveFrom, GVal.get, getE, GVal.nonNil, GVal.elems, abstrE, evE, List.lookup, Function.comp_def] at this h2 ⊢
    rw [this]; exact ⟨_, Or.inl rfl, h2⟩
  | other p e cs =>
    simp [unfold, Walker.analyzeAndModifyExpr, evalArms, GVal.kind, GExpr.kind, evalL, expand, abstrE, evE]

/-- go/ast schema: the `Else` of an `if` is an `if` or a block -/
def elseOK : GStmt → Bool
  | .ifS _ _ _ _ _ _ _ _ (some (.ifS ..)) => true
  | .ifS _ _ _ _ _ _ _ _ (some (.block ..)) => true
  | .ifS _ _ _ _ _ _ _ _ (some _) => false
  | _ => true

def specItems (l : Nat) : GSpec → List Item
  | .valueSpec _ vs => if vs.isEmpty then [] else [.ev (.check l)]
  | .otherSpec _ => []

theorem expand_specItems (l : Nat) (specs : List GSpec) :
    expand (specs.flatMap (specItems l)) = List.replicate (countValued specs) (Ev.check l) := by
  induction specs with
  | nil => rfl
  | cons sp r ih =>
    simp only [List.flatMap_cons, expand_append, ih]
    cases sp with
    | valueSpec t vs =>
      cases vs with
      | nil => simp [specItems, countValued, expand]
      | cons v vs' =>
        have : (if (v :: vs').isEmpty = true then 0 else 1) + countValued r = countValued r + 1 := by simp; omega
        simp only [specItems, countValued, this, List.replicate_succ]
        simp [expand, expandItem]
    | otherSpec cs => simp [specItems, countValued, expand]

/-- the body of the `range decl.Specs` loop of the `*ast.DeclStmt` arm, for one spec -/
theorem declBody (g : GStmt) (sp : GSpec) :
    evalL { root := .stmt g, vars := [("$spec", .spec sp)] }
      [.tswitch ["$spec"] [(["ValueSpec"], [.guard (.nonEmpty ["$spec", "Values"]) [.check []]])]]
      = some (specItems g.line sp, false) := by
  cases sp with
  | valueSpec t vs =>
    cases vs <;>
    simp [evalL, evalA, evalArms, evalC, Ctx.resolve, resolveFrom, GVal.get, GVal.kind, GVal.len, GVal.posLine,
      List.lookup, specItems]
  | otherSpec cs =>
    simp [evalL, evalA, evalArms, Ctx.resolve, resolveFrom, GVal.kind, List.lookup, specItems]

macro "walk_simp" : tactic => `(tactic|
  simp [unfold, Walker.processStatements, evalArms, GVal.kind, GStmt.kind, GExpr.kind, evalL, evalA, evalC, Ctx.resolve,
    resolveFrom, GVal.get, getS, getE, ofOS, ofOE, GVal.nonNil, GVal.posLine, GStmt.line, GStmt.pos, expand, expandItem,
    abstrS, abstrE, abstrL, abstrOS, abstrEs, evS, evL, evEs, evE, evElse])

/-- **`processStatements`, as translated from the source, is `evS`.** For every statement node
    (whose `Else`, if any, is an `if` or a block — the go/ast schema): one step of the translated
    walker, recursive calls answered by the model, yields the model's events for the abstracted
    node. -/
theorem processStatements_is_evS (g : GStmt) (hok : elseOK g = true) :
    (unfold Walker.processStatements (.stmt g)).map expand = some (evS (abstrS g)) := by
  cases g with
  | assign l c e lhs rhs => walk_simp
  | ret l c e rs => walk_simp
  | deferS l c e fn args => walk_simp
  | goS l c e fn args => walk_simp
  | exprS l c e x =>
    cases x with
    | call p e' fn args => cases args <;> walk_simp
    | funcLit p e' lb rb list => walk_simp
    | composite p e' t el => walk_simp
    | keyValue p e' k v => walk_simp
    | unary p e' y => walk_simp
    | structType p e' f => walk_simp
    | other p e' cs => walk_simp
  | declS l c e specs =>
    have hb := fun sp => declBody (.declS l c e specs) sp
    simp only [GStmt.line, GStmt.pos] at hb
    have heach : evalA { root := .stmt (.declS l c e specs), vars := [] }
        (.each ["Decl", "Specs"] "$spec"
          [.tswitch ["$spec"] [(["ValueSpec"], [.guard (.nonEmpty ["$spec", "Values"]) [.check []]])]])
        = some (specs.flatMap (specItems l), false) := by
      rw [evalA.eq_8]
      simp [Ctx.resolve, resolveFrom, GVal.get, getS, GVal.elems, List.map_map, Function.comp_def, hb, joinRes_map_some]
    simp only [unfold, Walker.processStatements, evalArms, GVal.kind, GStmt.kind, evalL, evalA.eq_7, evalA.eq_9, heach]
    simp [evalC, Ctx.resolve, resolveFrom, GVal.get, getS, GVal.nonNil, abstrS, evS, expand_specItems]
  | block l c e list => walk_simp
  | labeled l c e s => walk_simp
  | ifS l c e init cond lb rb body els =>
    cases els with
    | none => walk_simp
    | some s => cases s <;> first | (simp [elseOK] at hok; done) | walk_simp
  | forS l c e init cond post lb rb body => walk_simp
  | rangeS l c e key value x lb rb body => walk_simp
  | switchS l c e init tag lb rb cl => walk_simp
  | typeSwitchS l c e init asg lb rb cl => walk_simp
  | selectS l c e lb rb cl => walk_simp
  | caseC l c e list colon body => walk_simp
  | commC l c e comm colon body => walk_simp
  | otherS l c e cs => walk_simp

/-- list level: the walk of a statement list is the concatenation of the element steps -/
theorem processStatements_list (l : List GStmt) (hok : ∀ g ∈ l, elseOK g = true) :
    some (evL (abstrL l)) = (l.mapM fun g => (unfold Walker.processStatements (.stmt g)).map expand).map List.flatten := by
  induction l with
  | nil => rfl
  | cons g r ih =>
    have h1 := processStatements_is_evS g (hok g (by simp))
    have h2 := ih (fun x hx => hok x (by simp [hx]))
    simp only [List.mapM_cons, h1, abstrL, evL]
    cases hm : (r.mapM fun g => (unfold Walker.processStatements (.stmt g)).map expand) with
    | none => rw [hm] at h2; cases h2
    | some rs =>
      rw [hm] at h2
      simp only [Option.map_some, Option.some.injEq] at h2
      simp [h2]

/-! non-vacuity: the translated walkers evaluate on concrete nodes (kernel evaluation) -/

/-- `if c { return } else { x++ }` on lines 3–7: the body's return and the else block's statement -/
example : (unfold Walker.processStatements
      (.stmt (.ifS 3 2 7 none (.other 3 3 []) 3 5 [.ret 4 3 4 []] (some (.block 5 4 7 [.otherS 6 3 6 []]))))).map expand
    = some [.check 4, .check 6] := by walk_simp

/-- `x := func() int { return 1 }` on one line: check of the assignment, single-line insert at the body's first statement -/
example : (unfold Walker.processStatements
      (.stmt (.assign 9 2 9 [.other 9 9 []] [.funcLit 9 9 9 9 [.ret 9 21 9 []]]))).map expand
    = some [.check 9, .single 9 21] := by
  rw [processStatements_is_evS _ rfl]; rfl

/-- `var a, b = 1, func() {…}` next to a spec without values: one check per valued spec -/
example : (unfold Walker.processStatements
      (.stmt (.declS 5 2 8 [.valueSpec none [.other 5 5 []], .valueSpec none [], .valueSpec none [.other 7 7 []]]))).map expand
    = some [.check 5, .check 5] := by
  rw [processStatements_is_evS _ rfl]; rfl

/-! ## the control-statement pass -/

theorem ctlS_split (ch : Nat → Bool) (s : Stmt) : ctlS ch s = ctlHead ch s ++ ctlKids ch s := by
  cases s with
  | ifS l e init ir cr cond lb rb body els =>
    rcases els with _ | ⟨x, _ | ⟨y, ys⟩⟩ <;> try cases x
    all_goals simp [ctlS, ctlHead, ctlKids, elseForce]
  | _ => simp [ctlS, ctlHead, ctlKids]

macro "ctl_simp" : tactic => `(tactic|
  simp [inspect, Walker.processControlStatements, evalCArms, evalCL, evalCA, evalC, GVal.kind, GStmt.kind, Ctx.resolve,
    resolveFrom, GVal.get, getS, ofOS, ofOE, GVal.nonNil, GVal.posLine, GVal.endLine, GVal.tokLine, GVal.len,
    GStmt.rng, abstrS, abstrE, abstrOS, abstrL, ctlHead, elseForce])

theorem abstrL_isEmpty (l : List GStmt) : (abstrL l).isEmpty = l.isEmpty := by
  cases l <;> simp [abstrL]

def clauseForce1 : Stmt → List Ev
  | .caseC _ _ _ _ colon body => if body.isEmpty then [] else [Ev.force (colon + 1)]
  | _ => []

theorem clauseForces_flatMap (l : List Stmt) : clauseForces l = l.flatMap clauseForce1 := by
  induction l with
  | nil => rfl
  | cons x xs ih => cases x <;> simp [clauseForces, clauseForce1, ih]

theorem abstrL_flatMap (f : Stmt → List Ev) (l : List GStmt) : (abstrL l).flatMap f = l.flatMap (fun x => f (abstrS x)) := by
  induction l with
  | nil => rfl
  | cons x xs ih => simp [abstrL, ih]

theorem joinC_map_some {α : Type} (b : Bool) (f : α → List Ev) (l : List α) :
    joinC b (l.map fun x => some (f x, b, false)) = some (l.flatMap f, b, false) := by
  induction l with
  | nil => rfl
  | cons x xs ih => simp [joinC, ih]

/-- the body of the `range n.Body.List` loop of the switch arms, for one clause -/
theorem clauseBody (ch : Nat → Bool) (r : GVal) (b : Bool) (x : GStmt) :
    evalCL ch { root := r, vars := [("$subStmt", .stmt x)] } b
      [.guard (.and (.isKind ["$subStmt"] "CaseClause") (.nonEmpty ["$subStmt", "Body"])) [.force ["$subStmt"] "Colon"]]
      = some (clauseForce1 (abstrS x), b, false) := by
  cases x with
  | exprS l c e y =>
    cases y <;> simp [evalCL, evalCA, evalC, Ctx.resolve, resolveFrom, List.lookup, GVal.kind, GStmt.kind, abstrS, abstrE, clauseForce1]
  | caseC l c e list colon body =>
    cases body <;> simp [evalCL, evalCA, evalC, Ctx.resolve, resolveFrom, List.lookup, GVal.kind, GStmt.kind, GVal.get, getS,
      GVal.len, GVal.tokLine, abstrS, abstrL, clauseForce1]
  | _ => simp [evalCL, evalCA, evalC, Ctx.resolve, resolveFrom, List.lookup, GVal.kind, GStmt.kind, abstrS, clauseForce1]

theorem clauseEach (ch : Nat → Bool) (g : GStmt) (lb rb : Nat) (cl : List GStmt) (b : Bool)
    (hb : getS g "Body" = .block lb rb cl) :
    evalCA ch { root := .stmt g, vars := [] } b
      (.each ["Body", "List"] "$subStmt"
        [.guard (.and (.isKind ["$subStmt"] "CaseClause") (.nonEmpty ["$subStmt", "Body"])) [.force ["$subStmt"] "Colon"]])
      = some (clauseForces (abstrL cl), b, false) := by
  rw [evalCA.eq_8]
  simp [Ctx.resolve, resolveFrom, hb, GVal.get, GVal.elems, List.map_map, Function.comp_def, clauseBody, joinC_map_some,
    clauseForces_flatMap, abstrL_flatMap]

/-- **`processControlStatements`, as translated from the source, forces exactly the model's marks.**
    For every statement node the callback of the `ast.Inspect` pass — the arm selected by the
    type switch, the `changed` computation over the header parts, the forced marks — yields the
    model's own forced marks `ctlHead` of the abstracted node (`ctlS = ctlHead ++ ctlKids`,
    `ctlS_split`; the visit of the children is go/ast's traversal). -/
theorem processControlStatements_is_ctlHead (ch : Nat → Bool) (g : GStmt) :
    inspect Walker.processControlStatements ch (.stmt g) = some (ctlHead ch (abstrS g)) := by
  cases g with
  | assign l c e lhs rhs => ctl_simp
  | ret l c e rs => ctl_simp
  | deferS l c e fn args => ctl_simp
  | goS l c e fn args => ctl_simp
  | exprS l c e x => cases x <;> ctl_simp
  | declS l c e specs => ctl_simp
  | block l c e list => ctl_simp
  | labeled l c e s => ctl_simp
  | ifS l c e init cond lb rb body els =>
    cases init <;> cases els with
    | none => ctl_simp
    | some s =>
      cases s with
      | exprS l' c' e' x => cases x <;> ctl_simp
      | block l' c' e' list => cases list <;> ctl_simp
      | _ => ctl_simp
  | forS l c e init cond post lb rb body => cases init <;> cases cond <;> cases post <;> ctl_simp
  | rangeS l c e key value x lb rb body => cases key <;> cases value <;> ctl_simp
  | switchS l c e init tag lb rb cl =>
    have heach := fun b => clauseEach ch (.switchS l c e init tag lb rb cl) lb rb cl b (by simp [getS])
    cases init <;> cases tag <;>
    simp [inspect, Walker.processControlStatements, evalCArms, evalCL, evalCA.eq_2, evalCA.eq_3, evalCA.eq_5, heach, evalC,
      GVal.kind, GStmt.kind, Ctx.resolve, resolveFrom, GVal.get, getS, ofOS, ofOE, GVal.nonNil, GVal.posLine, GVal.endLine,
      GVal.tokLine, GStmt.rng, abstrS, abstrOS, abstrL, ctlHead]
  | typeSwitchS l c e init asg lb rb cl =>
    have heach := fun b => clauseEach ch (.typeSwitchS l c e init asg lb rb cl) lb rb cl b (by simp [getS])
    cases init <;>
    simp [inspect, Walker.processControlStatements, evalCArms, evalCL, evalCA.eq_2, evalCA.eq_3, evalCA.eq_5, heach, evalC,
      GVal.kind, GStmt.kind, Ctx.resolve, resolveFrom, GVal.get, getS, ofOS, ofOE, GVal.nonNil, GVal.posLine, GVal.endLine,
      GVal.tokLine, GStmt.rng, abstrS, abstrOS, abstrL, ctlHead]
  | selectS l c e lb rb cl => ctl_simp
  | caseC l c e list colon body =>
    cases list <;> ctl_simp
  | commC l c e comm colon body => cases comm <;> ctl_simp
  | otherS l c e cs => ctl_simp

/-- expression nodes (and every other node kind `ast.Inspect` visits) force nothing themselves -/
theorem processControlStatements_expr (ch : Nat → Bool) (e : GExpr) :
    inspect Walker.processControlStatements ch (.expr e) = some [] := by
  cases e <;> simp [inspect, Walker.processControlStatements, evalCArms, GVal.kind, GExpr.kind]

/-- the model's control pass on an abstracted statement: the translated callback on the node itself,
    then go/ast's visit of the children -/
theorem ctlS_is_callback_then_children (ch : Nat → Bool) (g : GStmt) :
    some (ctlS ch (abstrS g)) = (inspect Walker.processControlStatements ch (.stmt g)).map (· ++ ctlKids ch (abstrS g)) := by
  rw [processControlStatements_is_ctlHead, ctlS_split]; rfl

/-- non-vacuity: `switch x { case 1: a(); case 2: }` with a changed `switch` line forces the first
    clause only (the second has no body); an unchanged header forces nothing -/
example : inspect Walker.processControlStatements (fun l => l == 3)
      (.stmt (.switchS 3 2 8 none (some (.other 3 3 [])) 3 8
        [.caseC 4 2 5 [.other 4 4 []] 4 [.otherS 5 3 5 []], .caseC 6 2 6 [.other 6 6 []] 6 []]))
    = some [.force 5] := by
  rw [processControlStatements_is_ctlHead]; rfl

example : inspect Walker.processControlStatements (fun _ => false)
      (.stmt (.switchS 3 2 8 none (some (.other 3 3 [])) 3 8
        [.caseC 4 2 5 [.other 4 4 []] 4 [.otherS 5 3 5 []]]))
    = some [] := by
  rw [processControlStatements_is_ctlHead]; rfl

/-! ## the loop of `addStmts` over the top-level declarations -/

/-- **`addStmts`, as translated from the source, produces `declEvents`.** For every top-level
    declaration: the arm selected by the type switch — the single-line test on the body braces, the
    statement walk, then the control pass (function declarations); the two passes over global value
    specs (general declarations) — with the walker calls answered by the model, yields the model's
    event list of the abstracted declaration, in the model's order. -/
theorem addStmts_is_declEvents (ch : Nat → Bool) (d : GDecl) :
    (unfold Walker.addStmts (.decl d)).map (expandD ch) = some (declEvents ch (abstrD d)) := by
  cases d with
  | funcDecl body =>
    cases body with
    | none =>
      simp [unfold, Walker.addStmts, evalArms, GVal.kind, evalL, evalA, evalC, Ctx.resolve, resolveFrom, GVal.get,
        GVal.nonNil, expandD, abstrD, declEvents]
    | some b =>
      obtain ⟨lb, rb, list⟩ := b
      cases list with
      | nil =>
        simp [unfold, Walker.addStmts, evalArms, GVal.kind, evalL, evalA, evalC, Ctx.resolve, resolveFrom, GVal.get,
          GVal.nonNil, GVal.len, expandD, abstrD, firstPos, declEvents]
      | cons s0 ss =>
        by_cases h : lb = rb
        · have hb : (lb == rb) = true := by simp [h]
          simp [unfold, Walker.addStmts, evalArms, GVal.kind, evalL, evalA, evalC, Ctx.resolve, resolveFrom, GVal.get,
            GVal.nonNil, GVal.len, GVal.tokLine, expandD, expandItemD, expandItem, abstrD, firstPos, declEvents, hb,
            GStmt.line, GStmt.col, abstrL]
        · have hb : (lb == rb) = false := by simp [h]
          simp [unfold, Walker.addStmts, evalArms, GVal.kind, evalL, evalA, evalC, Ctx.resolve, resolveFrom, GVal.get,
            GVal.nonNil, GVal.len, GVal.tokLine, expandD, expandItemD, expandItem, abstrD, firstPos, declEvents, hb, abstrL]
  | genDecl specs =>
    simp [unfold, Walker.addStmts, evalArms, GVal.kind, evalL, evalA, Ctx.resolve, resolveFrom, GVal.get,
      expandD, expandItemD, abstrD, declEvents]
  | otherDecl =>
    simp [unfold, Walker.addStmts, evalArms, GVal.kind, expandD, abstrD, declEvents, outerEs]

/-- the whole file: every declaration step of the translated loop succeeds with the model's events
    (`Mark.fileEvents` is their concatenation) -/
theorem addStmts_file (ch : Nat → Bool) (ds : List GDecl) :
    (ds.mapM fun d => (unfold Walker.addStmts (.decl d)).map (expandD ch)) = some (ds.map fun d => declEvents ch (abstrD d)) := by
  induction ds with
  | nil => rfl
  | cons d r ih =>
    simp only [List.mapM_cons, addStmts_is_declEvents] at ih ⊢
    rw [ih]; rfl

/-- **`Mark.fileEvents` is what the source says**: for every file (its line table and positions are
    irrelevant here) whose declarations are the abstractions of go/ast declarations `ds`, the event
    list the model folds over is the concatenation, in order, of the translated `addStmts` steps -/
theorem fileEvents_is_source (ch : Nat → Bool) (f : File) (ds : List GDecl) (hf : f.decls = ds.map abstrD) :
    (ds.mapM fun d => (unfold Walker.addStmts (.decl d)).map (expandD ch)).map List.flatten = some (fileEvents ch f) := by
  rw [addStmts_file]
  simp [fileEvents, hf, List.flatMap_def, List.map_map, Function.comp_def]

/-- non-vacuity: a one-line function body gets the single-line insert AND is walked; a body-less
    declaration and an empty body produce nothing -/
example : (unfold Walker.addStmts (.decl (.funcDecl (some (4, 4, [.ret 4 14 4 []]))))).map (expandD (fun _ => false))
    = some [.single 4 14, .check 4] := by
  rw [addStmts_is_declEvents]; rfl

example : (unfold Walker.addStmts (.decl (.funcDecl none))).map (expandD (fun _ => true)) = some [] := by
  rw [addStmts_is_declEvents]; rfl

/-! ## the two passes over the initialisers of global value specs -/

def isLit : GExpr → Bool
  | .funcLit .. => true
  | _ => false

mutual
theorem outerG_lits : ∀ (e : GExpr), ∀ g ∈ outerG e, isLit g = true
  | .funcLit p e lb rb list, g, h => by simp [outerG] at h; subst h; rfl
  | .call _ _ fn args, g, h => by
    simp only [outerG, List.mem_append] at h
    rcases h with h | h
    · exact outerG_lits fn g h
    · exact outerGs_lits args g h
  | .composite _ _ typ elts, g, h => by
    simp only [outerG, List.mem_append] at h
    rcases h with h | h
    · exact outerGo_lits typ g h
    · exact outerGs_lits elts g h
  | .keyValue _ _ k v, g, h => by
    simp only [outerG, List.mem_append] at h
    rcases h with h | h
    · exact outerG_lits k g h
    · exact outerG_lits v g h
  | .unary _ _ x, g, h => by simp only [outerG] at h; exact outerG_lits x g h
  | .structType _ _ fts, g, h => by simp only [outerG] at h; exact outerGs_lits fts g h
  | .other _ _ cs, g, h => by simp only [outerG] at h; exact outerGs_lits cs g h
theorem outerGo_lits : ∀ (o : Option GExpr), ∀ g ∈ outerGo o, isLit g = true
  | none, g, h => by simp [outerGo] at h
  | some e, g, h => by simp only [outerGo] at h; exact outerG_lits e g h
theorem outerGs_lits : ∀ (es : List GExpr), ∀ g ∈ outerGs es, isLit g = true
  | [], g, h => by simp [outerGs] at h
  | e :: r, g, h => by
    simp only [outerGs, List.mem_append] at h
    rcases h with h | h
    · exact outerG_lits e g h
    · exact outerGs_lits r g h
end

mutual
theorem outerE_abstr : ∀ (e : GExpr), outerE (abstrE e) = (outerG e).map abstrE
  | .funcLit p e lb rb list => by simp [abstrE, outerE, outerG]
  | .call _ _ fn args => by
    simp only [abstrE, outerE, outerG, outerEs, List.append_nil, List.map_append, outerE_abstr fn, outerEs_abstr args]
  | .composite _ _ typ elts => by
    simp only [abstrE, outerE, outerG, List.map_append, outerEo_abstr typ, outerEs_abstr elts]
  | .keyValue _ _ k v => by
    simp only [abstrE, outerE, outerG, outerEs, List.append_nil, List.map_append, outerE_abstr k, outerE_abstr v]
  | .unary _ _ x => by simp only [abstrE, outerE, outerG, outerEs, List.append_nil, outerE_abstr x]
  | .structType _ _ fts => by simp only [abstrE, outerE, outerG, outerEs_abstr fts]
  | .other _ _ cs => by simp only [abstrE, outerE, outerG, outerEs_abstr cs]
theorem outerEo_abstr : ∀ (o : Option GExpr), outerEs (abstrOE o) = (outerGo o).map abstrE
  | none => by simp [abstrOE, outerEs, outerGo]
  | some e => by simp only [abstrOE, outerEs, outerGo, List.append_nil, outerE_abstr e]
theorem outerEs_abstr : ∀ (es : List GExpr), outerEs (abstrEs es) = (outerGs es).map abstrE
  | [] => by simp [abstrEs, outerEs, outerGs]
  | e :: r => by simp only [abstrEs, outerEs, outerGs, List.map_append, outerE_abstr e, outerEs_abstr r]
end

/-- the FuncLit arm of `processGlobalValueSpecs` on one literal: the single-line test on the body
    braces, else the statement walk -/
theorem globalSpecs_arm (g : GExpr) (hg : isLit g = true) :
    ∃ is b, evalL ⟨.expr g, []⟩ Walker.processGlobalValueSpecs.arm = some (is, b) ∧ expand is = globalLitEvents (abstrE g) := by
  cases g with
  | funcLit p e lb rb list =>
    cases list with
    | nil =>
      exact ⟨[], true, by simp [Walker.processGlobalValueSpecs, evalL, evalA, evalC, Ctx.resolve, resolveFrom, GVal.get, getE,
        GVal.nonNil, GVal.len], by simp [expand, abstrE, firstPos, globalLitEvents]⟩
    | cons s0 ss =>
      by_cases h : lb = rb
      · have hb : (lb == rb) = true := by simp [h]
        exact ⟨[.ev (.single s0.line s0.col)], true, by
          simp [Walker.processGlobalValueSpecs, evalL, evalA, evalC, Ctx.resolve, resolveFrom, GVal.get, getE, GVal.nonNil,
            GVal.len, GVal.tokLine, hb], by simp [expand, expandItem, abstrE, firstPos, globalLitEvents, hb]⟩
      · have hb : (lb == rb) = false := by simp [h]
        exact ⟨[.recS (s0 :: ss)], false, by
          simp [Walker.processGlobalValueSpecs, evalL, evalA, evalC, Ctx.resolve, resolveFrom, GVal.get, getE, GVal.nonNil,
            GVal.len, GVal.tokLine, hb], by simp [expand, expandItem, abstrE, firstPos, globalLitEvents, hb]⟩
  | _ => simp [isLit] at hg

/-- the FuncLit arm of `processGlobalFunctionLit` on one literal: the control pass over its body -/
theorem globalLits_arm (ch : Nat → Bool) (g : GExpr) (hg : isLit g = true) :
    ∃ is b, evalL ⟨.expr g, []⟩ Walker.processGlobalFunctionLit.arm = some (is, b) ∧ expandD ch is = globalLitCtl ch (abstrE g) := by
  cases g with
  | funcLit p e lb rb list =>
    exact ⟨[.recCtl list], false, by
      simp [Walker.processGlobalFunctionLit, evalL, evalA, evalC, Ctx.resolve, resolveFrom, GVal.get, getE, GVal.nonNil],
      by simp [expandD, expandItemD, abstrE, globalLitCtl]⟩
  | _ => simp [isLit] at hg

theorem litPassOn_spec (acts : List Act) (ex : List Item → List Ev) (f : Expr → List Ev)
    (hex : ∀ a b, ex (a ++ b) = ex a ++ ex b) (hnil : ex [] = [])
    (harm : ∀ g, isLit g = true → ∃ is b, evalL ⟨.expr g, []⟩ acts = some (is, b) ∧ ex is = f (abstrE g)) :
    ∀ (l : List GExpr), (∀ g ∈ l, isLit g = true) →
      ∃ is, litPassOn acts l = some is ∧ ex is = (l.map abstrE).flatMap f := by
  intro l
  induction l with
  | nil => intro _; exact ⟨[], rfl, by simp [hnil]⟩
  | cons g r ih =>
    intro hl
    obtain ⟨is, b, h1, h2⟩ := harm g (hl g (by simp))
    obtain ⟨js, h3, h4⟩ := ih (fun x hx => hl x (by simp [hx]))
    exact ⟨is ++ js, by simp [litPassOn, h1, h3], by simp [hex, h2, h4]⟩

/-- **`processGlobalValueSpecs`, as translated from the source**, yields the model's events of the
    outermost function literals of the value specs' initialisers -/
theorem processGlobalValueSpecs_is_model (specs : List GSpec) :
    ∃ is, litPass Walker.processGlobalValueSpecs specs = some is ∧
      expand is = (outerEs (abstrEs (specValues specs))).flatMap globalLitEvents := by
  rw [outerEs_abstr]
  exact litPassOn_spec _ expand globalLitEvents expand_append rfl globalSpecs_arm _ (outerGs_lits _)

/-- **`processGlobalFunctionLit`, as translated from the source**, runs the control pass over the body
    of every outermost function literal -/
theorem processGlobalFunctionLit_is_model (ch : Nat → Bool) (specs : List GSpec) :
    ∃ is, litPass Walker.processGlobalFunctionLit specs = some is ∧
      expandD ch is = (outerEs (abstrEs (specValues specs))).flatMap (globalLitCtl ch) := by
  rw [outerEs_abstr]
  exact litPassOn_spec _ (expandD ch) (globalLitCtl ch) (by intro a b; simp [expandD]) rfl (globalLits_arm ch) _ (outerGs_lits _)

end GoatSpec.WalkerTie
