import GoatSpec.Diff
import GoatSpec.Proofs.Diff
import GoatSpec.Properties.C04
/-! # C17 — for precision 2/3 the result depends only on the two revisions' contents

  `track23_factors` / `trackInit_factors` are statements about the *shape* of the model: the
  precision 2, 3 and INIT diff stages are written as functions of the two end-point trees (of the
  work tree) alone.  They are immediate, and they say nothing about the Go code by themselves —
  **their weight is entirely in the correspondence**: the streams diff-pairs / diff-histories tie
  the real `getDiff` to this model on real repositories, and the end-to-end oracle `history-pairs`
  runs the real `goat track` on pairs of histories with equal end-point trees and requires
  byte-identical results; that is what detects commit metadata leaking into the decision (as it did
  at precision 1, whose stage takes the commit table and the blame as further inputs).
  `exact_unique_23` is a genuine theorem about the chunk walk. -/
namespace GoatSpec.C17
open GoatSpec GoatSpec.Diff

/-- a revision's tree: path and content -/
abbrev Tree := List (String × List Char)

/-- everything a history consists of, as far as the diff stage could look at it -/
structure History where
  oldTree : Tree
  newTree : Tree
  /-- the checked-out files (equal to `newTree` on a clean work tree) -/
  workTree : Tree
  commits : Table
  oldId : Nat
  newId : Nat
  /-- go-git's blame of each path of the new revision -/
  blame : String → List Nat
  /-- loose or packed object store -/
  packed : Bool

/-- what go-git contributes at precision 2/3, as functions of the two trees only: the pairing of
    paths (with or without rename detection) and the line diff of two contents -/
structure GoGit where
  pair2 : Tree → Tree → List (Option String × Option String)
  pair3 : Tree → Tree → List (Option String × Option String)
  script : Option (List Char) → Option (List Char) → List NChunk

def content (t : Tree) (p : Option String) : Option (List Char) := p.bind (fun p => (t.find? (·.1 == p)).map (·.2))

/-- the slot a pair of paths produces (`analyzeChange`) -/
def slot (g : GoGit) (elig : String → Bool) (old new : Tree) (v3 : Bool) (pr : Option String × Option String) :
    Option (String × List Range) :=
  match pr.2 with
  | none => none
  | some to =>
    let cs := g.script (content old pr.1) (content new (some to))
    let r := if v3 then analyzeV3 (elig to) (if pr.1.isSome then .modify else .insert) cs
             else analyzeV2 (elig to) pr.1.isSome true cs
    r.map (fun rs => (to, rs))

/-- the diff stage of precision 2 / 3 (compaction + the executor's sort) as a function of the trees -/
def stageOfTrees (g : GoGit) (elig : String → Bool) (v3 : Bool) (old new : Tree) : List (String × List Range) :=
  sortByPath (filterValid ((if v3 then g.pair3 old new else g.pair2 old new).map (slot g elig old new v3)))

/-- INIT as a function of the work tree -/
def stageOfWorkTree (elig : String → Bool) (gen : String) (work : Tree) : List (String × List Range) :=
  sortByPath (initChanges gen (work.filter (fun f => elig f.1)))

/-- the stage `getDiff` + `initChanges` run for a history in mode INIT / 2 / 3 -/
def stage (g : GoGit) (elig : String → Bool) (gen : String) (m : Mode) (h : History) : List (String × List Range) :=
  match m with
  | .init => stageOfWorkTree elig gen h.workTree
  | .v2 => stageOfTrees g elig false h.oldTree h.newTree
  | .v3 => stageOfTrees g elig true h.oldTree h.newTree
  | _ => []

/-- **model-level path independence** (precision 2 and 3): two histories with the same old tree and
    the same new tree — whatever their commits, order, timestamps, branches, merges, reverts, blame
    and store — give the same sorted change list.  Immediate from the model's shape; see the module
    comment for where the weight lies. -/
theorem track23_factors (g : GoGit) (elig : String → Bool) (gen : String) (m : Mode) (hm : m = .v2 ∨ m = .v3)
    (h1 h2 : History) (ho : h1.oldTree = h2.oldTree) (hn : h1.newTree = h2.newTree) :
    stage g elig gen m h1 = stage g elig gen m h2 := by
  rcases hm with rfl | rfl <;> simp [stage, ho, hn]

/-- with base INIT the result depends on the checked-out new revision only -/
theorem trackInit_factors (g : GoGit) (elig : String → Bool) (gen : String)
    (h1 h2 : History) (hw : h1.workTree = h2.workTree) :
    stage g elig gen .init h1 = stage g elig gen .init h2 := by
  simp [stage, hw]

/-- **exactness with unique lines** (precision 2/3).  For every whole-line chunk script whose new
    file has pairwise distinct lines and which is *maximal* — it keeps (as Equal) at least as many
    lines as the two files have in common, the upper bound for any valid script (A10: what
    diffmatchpatch returns when the common lines appear in the same order, i.e. edits only insert,
    modify or delete lines) — the reported lines are exactly the lines of the new file that do not
    occur in the old one, and the unreported lines exactly those that do. -/
theorem exact_unique_23 {α : Type} [DecidableEq α] (cs : List (LChunk α))
    (hnd : (newOf cs).Nodup)
    (hmax : ((newOf cs).filter (fun l => decide (l ∈ oldOf cs))).length ≤ (eqOf cs).length) :
    reported (getLineChange true true (num cs)) (newOf cs) = (newOf cs).filter (fun l => !decide (l ∈ oldOf cs)) ∧
    unreported (getLineChange true true (num cs)) (newOf cs) = (newOf cs).filter (fun l => decide (l ∈ oldOf cs)) := by
  -- the Equal lines are all common lines
  have hsub : (eqOf cs).Sublist ((newOf cs).filter (fun l => decide (l ∈ oldOf cs))) := by
    have h1 := (eqOf_sublist_new cs).filter (fun l => decide (l ∈ oldOf cs))
    have h2 : (eqOf cs).filter (fun l => decide (l ∈ oldOf cs)) = eqOf cs :=
      List.filter_eq_self.mpr (fun a ha => by simpa using (eqOf_sublist_old cs).subset ha)
    rwa [h2] at h1
  have heq : eqOf cs = (newOf cs).filter (fun l => decide (l ∈ oldOf cs)) := hsub.eq_of_length_le hmax
  refine ⟨?_, by rw [(C04.walk_sound cs).2.1]; exact heq⟩
  rw [C04.walk_reports_added]
  -- no added line occurs in the old file: it would occur twice in the new one
  have hdisj : ∀ l ∈ addOf cs, l ∉ oldOf cs := by
    intro l hl hold
    have hnew : l ∈ newOf cs := (addOf_sublist_new cs).subset hl
    have hle : l ∈ eqOf cs := by rw [heq]; simp [hnew, hold]
    have hnd' : (eqOf cs ++ addOf cs).Nodup := (newOf_perm cs).nodup_iff.mp hnd
    exact (List.nodup_append.mp hnd').2.2 l hle l hl rfl
  -- so filtering the new file by "not in old" leaves exactly the Add chunks
  have key : ∀ (q : α → Bool) (ds : List (LChunk α)), (∀ l ∈ eqOf ds, q l = false) → (∀ l ∈ addOf ds, q l = true) →
      (newOf ds).filter q = addOf ds := by
    intro q ds
    induction ds with
    | nil => intro _ _; rfl
    | cons c r ih =>
      obtain ⟨k, ls⟩ := c
      intro he ha
      cases k with
      | eq =>
        have hn : newOf ((Kind.eq, ls) :: r) = ls ++ newOf r := by simp [newOf]
        have hee : eqOf ((Kind.eq, ls) :: r) = ls ++ eqOf r := by simp [eqOf]
        have haa : addOf ((Kind.eq, ls) :: r) = addOf r := by simp [addOf]
        rw [hn, haa, List.filter_append, ih (fun l hl => he l (by rw [hee]; simp [hl])) (fun l hl => ha l (by rw [haa]; exact hl))]
        have : ls.filter q = [] := List.filter_eq_nil_iff.mpr (fun a hx => by simp [he a (by rw [hee]; simp [hx])])
        simp [this]
      | add =>
        have hn : newOf ((Kind.add, ls) :: r) = ls ++ newOf r := by simp [newOf]
        have hee : eqOf ((Kind.add, ls) :: r) = eqOf r := by simp [eqOf]
        have haa : addOf ((Kind.add, ls) :: r) = ls ++ addOf r := by simp [addOf]
        rw [hn, haa, List.filter_append, ih (fun l hl => he l (by rw [hee]; exact hl)) (fun l hl => ha l (by rw [haa]; simp [hl]))]
        have : ls.filter q = ls := List.filter_eq_self.mpr (fun a hx => ha a (by rw [haa]; simp [hx]))
        rw [this]
      | del =>
        have hn : newOf ((Kind.del, ls) :: r) = newOf r := by simp [newOf]
        have hee : eqOf ((Kind.del, ls) :: r) = eqOf r := by simp [eqOf]
        have haa : addOf ((Kind.del, ls) :: r) = addOf r := by simp [addOf]
        rw [hn, haa]; exact ih (fun l hl => he l (by rw [hee]; exact hl)) (fun l hl => ha l (by rw [haa]; exact hl))
  exact (key _ cs (fun l hl => by simpa using (eqOf_sublist_old cs).subset hl) (fun l hl => by simpa using hdisj l hl)).symm

/-- **exactness of the blame walk** (precision 1) — *partial*: what is proved is that for every flag
    vector the walk reports exactly the flagged lines and leaves exactly the unflagged ones.  That
    the flags of the fixed rule coincide with "does not occur in the old file" needs A6 in both
    directions (a faithful blame on an ancestor history with unique lines) and the completeness of the
    fuelled ancestor walk; both are monitored on every case of the stream diff-exact, not proved. -/
theorem exact_unique_1_partial {α : Type} (flags : List Bool) (new : List α) (h : new.length = flags.length) :
    reported (blameRanges flags) new = pick true new flags ∧ unreported (blameRanges flags) new = pick false new flags :=
  ⟨(C04.blame_partition flags new h).2, (C04.blame_partition flags new h).1⟩

/-! ## non-vacuity -/

/-- old = a b c d, new = a X c Y d: maximal script keeps a c d; reported = X Y = new \ old -/
example :
    let cs : List (LChunk String) := [(.eq, ["a"]), (.del, ["b"]), (.add, ["X"]), (.eq, ["c"]), (.add, ["Y"]), (.eq, ["d"])]
    (newOf cs).Nodup ∧ ((newOf cs).filter (fun l => decide (l ∈ oldOf cs))).length ≤ (eqOf cs).length ∧
    reported (getLineChange true true (num cs)) (newOf cs) = ["X", "Y"] := by decide
/-- a non-maximal script (deletes and re-adds the common line `c`) over-reports: the hypothesis is needed -/
example :
    let cs : List (LChunk String) := [(.eq, ["a"]), (.del, ["b", "c"]), (.add, ["X", "c"]), (.eq, ["d"])]
    reported (getLineChange true true (num cs)) (newOf cs) = ["X", "c"] ∧
    ¬ ((newOf cs).filter (fun l => decide (l ∈ oldOf cs))).length ≤ (eqOf cs).length := by decide
/-- two histories with equal end trees but different commit tables: the stage agrees -/
example (g : GoGit) (e : String → Bool) :
    stage g e "goat/goat_generated.go" .v2 ⟨[("a.go", ['x'])], [("a.go", ['y'])], [], [⟨0, 0, []⟩, ⟨1, 5, [0]⟩], 0, 1, fun _ => [], false⟩ =
    stage g e "goat/goat_generated.go" .v2 ⟨[("a.go", ['x'])], [("a.go", ['y'])], [], [⟨0, 9, []⟩, ⟨1, 9, [0]⟩, ⟨2, 9, [1]⟩], 0, 2, fun _ => [2], true⟩ :=
  track23_factors g e _ .v2 (Or.inl rfl) _ _ rfl rfl

end GoatSpec.C17
