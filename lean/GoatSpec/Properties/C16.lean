import GoatSpec.Proofs.Config
/-! # C16 — goat init writes a configuration that loads back unchanged

Model: `GoatSpec/Config.lean` (`validate` = `Config.Validate`, `preprocess` = the flag handling of
`goat init`, `render` = interpreter of the segment table of CONFIG_TEMPLATE extracted from the
compiled package, `load` = line-level loader of the emitted YAML shapes followed by `validate`).

All statements quantify over **all** configurations / flag records / environments; the only
closed computations are the well-formedness checks of the extracted template table
(`table_is_entries`, `table_wf`), re-done by the kernel whenever the template changes.
`#print axioms` of every theorem is audited by the check (⊆ propext, Quot.sound, Classical.choice). -/
namespace GoatSpec.C16
open GoatSpec GoatSpec.Config

/-! ## the extracted template -/

/-- the segment table regrouped into entries (comment lines, key, Go field, shape) -/
def tableEntries : List Entry := toEntries true Extracted.configTemplate

/-- the regrouping loses nothing: rebuilding the segment table from the entries gives back
    exactly what `vh extract` printed from `text/template/parse` -/
theorem table_is_entries : fromEntries true tableEntries = Extracted.configTemplate := by
  decide +kernel

/-- every entry is well-formed: the lines before the key line are comments or blank and contain
    no newline, keys are alphanumeric, scalar entries refer to scalar fields, the unquoted list
    is `Ignores`, the quoted (`printf "%q"`) lists are `MainEntries` / `PrinterConfigMode`, and
    each of the 19 yaml keys the loader reads is carried by the entry of the matching Go field -/
theorem table_wf :
    tableEntries ≠ [] ∧ tableEntries.all (fun e => staticOK e && fieldsOK e) = true ∧ sigsOK tableEntries = true := by
  decide +kernel

/-- `InitWithConfig` writes values verbatim (behavioural probe of the real function; `true` on
    the tree that executed the template with html/template) -/
theorem template_not_escaped : Extracted.templateHtmlEscape = false := rfl

/-- the yaml keys hard-wired in the model's loader are the struct tags of `config.Config` -/
theorem yaml_keys_tied : Extracted.configYamlKeys = modelKeys := by decide

/-! ## round trip -/

/-- rendering never fails on a configuration of the class, and the written text unmarshals to
    exactly that configuration (before `Validate` runs again) -/
theorem render_unmarshal (c : Cfg) (hc : RoundTripOK c) :
    ∃ text, render c = .ok text ∧ unmarshal text = some c := by
  obtain ⟨hne, hall, hsig⟩ := table_wf
  have hT := table_is_entries
  cases hte : tableEntries with
  | nil => exact absurd hte hne
  | cons e es =>
    rw [hte] at hT hall hsig
    have hst : ∀ x ∈ e :: es, staticOK x = true ∧ fieldsOK x = true := by
      intro x hx
      have := List.all_eq_true.mp hall x hx
      simpa using this
    have hseg := segOK_fromEntries c hc (e :: es) true (fun x hx => (hst x hx).2)
    refine ⟨renderSegs false c (fromEntries true (e :: es)), ?_, unmarshal_render_entries c hc e es hst hsig⟩
    unfold render
    rw [← hT, hseg, template_not_escaped]
    rfl

/-- **C16 (round trip).** For every configuration `c` that `Validate` accepts in environment
    `env` (CPU count, directory name, commit-hash resolver — all arbitrary) and whose free-text
    strings after defaulting are plain-scalar safe (`safeCfg`: first character a letter, digit,
    `_ . /`, then letters, digits, `_ - . / + & < > ' "` and inner spaces), `goat init` writes a
    file from which `LoadConfig` returns exactly the validated configuration. `mainEntries` and
    `printerConfigMode` entries are unrestricted (any characters: they are written with `%q`). -/
theorem roundtrip (env : Env) (c c' : Cfg) (hv : validate env c = .ok c') (hcpu : 0 ≤ env.numCPU)
    (hs : safeCfg c' = true) : ∃ text, render c' = .ok text ∧ load env text = .ok c' := by
  obtain ⟨text, hr, hu⟩ := render_unmarshal c' (roundTripOK_of_validate hv hcpu hs)
  exact ⟨text, hr, by rw [load, hu]; exact validate_idem hv⟩

/-- the same at the level of the command: whenever `goat init` writes a file, loading it yields
    the values given on the command line after the documented defaulting -/
theorem init_roundtrip (env : Env) (fileExists : Bool) (f : Flags) (text : Str) (c' : Cfg)
    (hi : initPlan env fileExists f = .ok text) (hv : validate env (preprocess f) = .ok c')
    (hcpu : 0 ≤ env.numCPU) (hs : safeCfg c' = true) : load env text = .ok c' := by
  obtain ⟨t, hr, hl⟩ := roundtrip env _ c' hv hcpu hs
  unfold initPlan at hi
  split at hi
  · cases hi
  · rw [hv] at hi
    simp only [] at hi
    rw [hr] at hi
    injection hi with hi
    rw [← hi]; exact hl

/-! ## rejection -/

/-- **C16 (invalid values).** An invalid granularity, a diff precision outside 1..3, an invalid
    printer mode or an invalid data type makes `Validate` fail … -/
theorem invalid_rejected (env : Env) (c : Cfg) (hbad : Invalid c) : ∃ r, validate env c = .error r :=
  validate_invalid env c hbad

/-- … so `goat init` writes nothing (its plan is a rejection, with or without `--force`,
    whether or not goat.yaml exists) … -/
theorem invalid_init_writes_nothing (env : Env) (fileExists : Bool) (f : Flags) (hbad : Invalid (preprocess f)) :
    ∃ r, initPlan env fileExists f = .error r := by
  obtain ⟨r, hr⟩ := validate_invalid env _ hbad
  unfold initPlan
  split
  · exact ⟨_, rfl⟩
  · rw [hr]; exact ⟨r, rfl⟩

/-- … and `LoadConfig` fails on every file that carries such a value. -/
theorem invalid_load_fails (env : Env) (text : Str) (c : Cfg) (hu : unmarshal text = some c) (hbad : Invalid c) :
    ∃ r, load env text = .error r := by
  obtain ⟨r, hr⟩ := validate_invalid env c hbad
  exact ⟨r, by rw [load, hu]; exact hr⟩

/-- a rejected init leaves a pre-existing file alone: without `--force` the plan is a rejection -/
theorem existing_file_kept (env : Env) (f : Flags) (hf : f.force = false) :
    initPlan env true f = .error .fileExists := by
  simp [initPlan, hf]

/-! ## defaults and idempotence -/

/-- **C16 (idempotence).** Validating a validated configuration changes nothing. -/
theorem validate_idempotent (env : Env) (c c' : Cfg) (h : validate env c = .ok c') : validate env c' = .ok c' :=
  validate_idem h

/-- **C16 (defaults).** Unset values take the documented defaults and set values are kept. -/
theorem defaults (env : Env) (c c' : Cfg) (h : validate env c = .ok c') :
    c'.granularity = (if c.granularity = [] then "patch".toList else c.granularity) ∧
    c'.oldBranch = (if c.oldBranch = [] then "main".toList else c.oldBranch) ∧
    c'.newBranch = (if c.newBranch = [] then "HEAD".toList else c.newBranch) ∧
    c'.appName = (if c.appName = [] then env.cwdBase else c.appName) ∧
    (c.appVersion ≠ [] → c'.appVersion = c.appVersion) ∧
    (c.appVersion = [] → env.shortHash c'.newBranch = some c'.appVersion) ∧
    c'.pkgName = (if c.pkgName = [] then "goat".toList else c.pkgName) ∧
    c'.pkgAlias = (if c.pkgAlias = [] then "goat".toList else c.pkgAlias) ∧
    c'.pkgPath = (if c.pkgPath = [] then "goat".toList else c.pkgPath) ∧
    c'.dataType = (if c.dataType = [] then "bool".toList else c.dataType) ∧
    c'.threads = (if c.threads ≤ 0 then env.numCPU else c.threads) ∧
    c'.tabwidth = (if c.tabwidth < 1 then 8 else c.tabwidth) ∧
    c'.indent = (if c.indent < 0 then 0 else c.indent) ∧
    c'.mainEntries = (if c.mainEntries = [] then [['*']] else c.mainEntries) ∧
    c'.printerModes = (if c.printerModes = [] then ["useSpaces".toList, "tabIndent".toList] else c.printerModes) ∧
    (c.ignores = [] → c.pkgPath = [] → c'.ignores = Extracted.defaultIgnores.map String.toList) ∧
    (c.ignores ≠ [] → genFile c'.pkgPath ∈ c.ignores → c'.ignores = c.ignores) ∧
    (c.ignores ≠ [] → genFile c'.pkgPath ∉ c.ignores → c'.ignores = c.ignores ++ [genFile c'.pkgPath]) ∧
    c'.diffPrecision = c.diffPrecision ∧ c'.race = c.race ∧ c'.verbose = c.verbose ∧ c'.skipNested = c.skipNested := by
  obtain ⟨ver, hver, _, _, _, _, _, rfl⟩ := validate_ok h
  refine ⟨rfl, rfl, rfl, rfl, ?_, ?_, rfl, rfl, rfl, rfl, rfl, rfl, rfl, rfl, rfl, ?_, ?_, ?_, rfl, rfl, rfl, rfl⟩
  · intro ha; rw [if_neg ha] at hver; injection hver with hver; exact hver.symm
  · intro ha; rw [if_pos ha] at hver; exact hver
  · intro hi hp
    simp only [validated, hi, hp, orDefault, if_true]
    decide +kernel
  · intro hi hm
    have hm' : genFile (orDefault c.pkgPath Extracted.defaultPackagePath.toList) ∈ c.ignores := hm
    simp [validated, hi, hm']
  · intro hi hm
    have hm' : genFile (orDefault c.pkgPath Extracted.defaultPackagePath.toList) ∉ c.ignores := hm
    simp [validated, hi, hm']

/-- `goat init` without any flag: the configuration written is the documented default one -/
theorem defaults_no_flags (env : Env) (ver : Str) (h : env.shortHash "HEAD".toList = some ver) :
    validate env (preprocess Flags.none) = .ok
      { appName := env.cwdBase, appVersion := ver, oldBranch := "main".toList, newBranch := "HEAD".toList,
        ignores := [".git", ".gitignore", ".DS_Store", ".idea", ".vscode", ".venv", "vendor", "testdata",
                    "node_modules", "goat/goat_generated.go"].map String.toList,
        pkgName := "goat".toList, pkgAlias := "goat".toList, pkgPath := "goat".toList, granularity := "patch".toList,
        diffPrecision := 1, threads := 1, race := false, mainEntries := [['*']],
        printerModes := ["useSpaces".toList, "tabIndent".toList], tabwidth := 8, indent := 0,
        dataType := "bool".toList, verbose := false, skipNested := true } := by
  have := validate_of (env := env) (c := preprocess Flags.none) (ver := ver) h (by decide) (by decide) (by decide)
    (by decide) (by decide)
  rw [this]
  rfl

/-! ## witnesses and non-vacuity -/

def envW : Env := { numCPU := 16, cwdBase := "a&b".toList, shortHash := fun _ => some "9fbca70".toList }

/-- flags `--app-version 1.0.0+build --new feature/c++ --old "it's" --ignores 'third_party/a+b,x y'
    --main-entries 'cmd/a"b,*' --granularity func --diff-precision 2 --threads 0` in directory `a&b` -/
def flagsW : Flags :=
  { Flags.none with appVersion := some "1.0.0+build".toList, new := some "feature/c++".toList,
                    old := some "it's".toList, ignores := some "third_party/a+b,x y".toList,
                    mainEntries := some "cmd/a\"b,*".toList, granularity := some "func".toList,
                    diffPrecision := some 2, threads := some 0 }

def cfgW : Cfg :=
  { appName := "a&b".toList, appVersion := "1.0.0+build".toList, oldBranch := "it's".toList,
    newBranch := "feature/c++".toList,
    ignores := ["third_party/a+b".toList, "x y".toList, "goat/goat_generated.go".toList], pkgName := "goat".toList,
    pkgAlias := "goat".toList, pkgPath := "goat".toList, granularity := "func".toList, diffPrecision := 2, threads := 16,
    race := false, mainEntries := ["cmd/a\"b".toList, ['*']], printerModes := ["useSpaces".toList, "tabIndent".toList],
    tabwidth := 8, indent := 0, dataType := "bool".toList, verbose := false, skipNested := true }

/-- non-vacuity of `roundtrip` / `init_roundtrip`: a flag record with `+ & < > ' "` and spaces
    satisfies the hypotheses (defaulting included: appName from the directory, threads from the
    CPU count, the generated file appended to the ignores) -/
example : (validate envW (preprocess flagsW)).toOption = some cfgW ∧ 0 ≤ envW.numCPU ∧ safeCfg cfgW = true := by
  decide +kernel

/-- … and, evaluated independently of the proof, the model's init followed by the model's load
    returns exactly those values -/
example : ((initPlan envW false flagsW).toOption.map (fun t => (load envW t).toOption)) = some (some cfgW) := by
  decide +kernel

/-- *witness* (D-C16-1, the defect of the tree before the fix): with html/template's escaper
    `1.0.0+build` is written as `1.0.0&#43;build`, which YAML reads as that literal string, and
    the table executed with the escaper does not round-trip the configuration -/
theorem html_escape_breaks_roundtrip :
    parseScalar (esc true "1.0.0+build".toList) = .str "1.0.0&#43;build".toList ∧
    (load envW (renderSegs true cfgW Extracted.configTemplate)).toOption ≠ some cfgW := by
  decide +kernel

/-- *witness*: outside `safeCfg` the statement fails — a trailing space is not preserved by a
    YAML plain scalar (`--app-name "x "` loads back as `x`) -/
theorem trailing_space_not_preserved :
    safeStr "x ".toList = false ∧
    (load envW (renderSegs false { cfgW with appName := "x ".toList } Extracted.configTemplate)).toOption.map (·.appName)
      = some "x".toList := by
  decide +kernel

/-- non-vacuity of `invalid_rejected`: each of the four kinds of invalid value is an instance -/
example : Invalid { cfgW with granularity := "block".toList } ∧ Invalid { cfgW with diffPrecision := 4 } ∧
    Invalid { cfgW with printerModes := ["none".toList] } ∧ Invalid { cfgW with dataType := "int".toList } := by
  refine ⟨Or.inl (by decide), Or.inr (Or.inr (Or.inl (by decide))), Or.inr (Or.inr (Or.inr (Or.inl (by decide)))),
    Or.inr (Or.inr (Or.inr (Or.inr (by decide))))⟩

/-- non-vacuity of `validate_idempotent` / `defaults`: validation succeeds on an all-empty record -/
example : ∃ c', validate envW
    { appName := [], appVersion := [], oldBranch := [], newBranch := [], ignores := [], pkgName := [], pkgAlias := [],
      pkgPath := [], granularity := [], diffPrecision := 1, threads := 0, race := false, mainEntries := [],
      printerModes := [], tabwidth := 0, indent := -1, dataType := [], verbose := false, skipNested := true } = .ok c' :=
  ⟨_, validate_of (ver := "9fbca70".toList) rfl (by decide) (by decide) (by decide) (by decide) (by decide)⟩

/-- non-vacuity of `defaults_no_flags` -/
example : envW.shortHash "HEAD".toList = some "9fbca70".toList := rfl

end GoatSpec.C16
