import GoatSpec.NonInterf
import GoatSpec.Properties.C07
/-! # C14 — the instrumented program behaves like the original  (**partial**)

Model: `GoatSpec/NonInterf.lean` (abstract step semantics; read its header for what is and what
is not modelled). All theorems are over **all** programs (any state space, nondeterministic,
any number of goroutines inside the state), **all** traces and **all** placements of tracking
calls, by induction over traces.

* `erase_track` / `lift_track`: deleting the tracking steps of any execution of the instrumented
  build gives an execution of the original program with the same output and the same final user
  state; conversely every execution of the original program, decorated with tracking steps at
  arbitrary positions, is an execution of the instrumented build.
* `track_commutes`: a tracking step and a user step commute (as relations on
  `UserState × Coverage`); `swap_adjacent` is the same on traces.
* `covered_exact`: after any execution from a fresh runtime, an id is reported as covered
  (`status id > 0`) iff a `track id` step occurs in the execution — bool and count mode, through
  C07 `status_counts`.
* `instr_erase_track` / `instr_lift_track`: the same for an instrumented program with its own
  control states (`Instr`), from the frame conditions only.

NOT proved (monitored by e2e `behaviour`): that the Go programs goat reads and writes are such
transition systems — Go's dynamic semantics, scheduling, the service goroutine. -/
namespace GoatSpec.C14
open GoatSpec GoatSpec.Runtime GoatSpec.NonInterf

/-! ## helper lemmas -/

theorem Trace.append {S L : Type} {step : S → L → S → Prop} {s s₁ s₂ : S} {l₁ l₂ : List L}
    (h₁ : Trace step s l₁ s₁) (h₂ : Trace step s₁ l₂ s₂) : Trace step s (l₁ ++ l₂) s₂ := by
  induction h₁ with
  | nil _ => exact h₂
  | cons hs _ ih => exact .cons hs (ih h₂)

theorem erase_tracks_append {A : Type} (ids : List Int) (r : List (Label A)) :
    erase (ids.map Label.track ++ r) = erase r := by
  induction ids with
  | nil => rfl
  | cons i t ih => simpa [erase] using ih

theorem erase_users {A : Type} : ∀ as : List A, erase (as.map Label.user) = as
  | [] => rfl
  | a :: t => by simp [erase, erase_users t]

theorem trackIds_tracks_append {A : Type} (ids : List Int) (r : List (Label A)) :
    trackIds (ids.map Label.track ++ r) = ids ++ trackIds r := by
  induction ids with
  | nil => rfl
  | cons i t ih => simp [trackIds, ih]

/-! ## observable semantics over `UserState × Coverage` -/

/-- **erase_track.** Every execution of the instrumented build projects, by deleting its
    tracking steps, to an execution of the original program between the same user states; it
    prints the same output; and the coverage component at the end is the runtime's `run` of the
    tracking calls in execution order — nothing else ever touches it. -/
theorem erase_track {U A O : Type} (P : Prog U A O) (m : Mode) {s s' : U × Status} {ls : List (Label A)}
    (h : Trace (OStep P m) s ls s') :
    Trace P.step s.1 (erase ls) s'.1
    ∧ outputsI P ls = outputs P (erase ls)
    ∧ s'.2 = run m s.2 (trackIds ls) := by
  induction h with
  | nil s => exact ⟨.nil _, rfl, rfl⟩
  | cons hs _ ih =>
    obtain ⟨ih1, ih2, ih3⟩ := ih
    cases hs with
    | user c hu =>
      refine ⟨.cons hu ih1, ?_, ih3⟩
      simp only [outputsI, outputs, erase, List.flatMap_cons] at ih2 ⊢
      rw [ih2]
    | track u c id =>
      refine ⟨ih1, ?_, ?_⟩
      · simp only [outputsI, outputs, erase, List.flatMap_cons, List.nil_append] at ih2 ⊢
        exact ih2
      · simpa [trackIds, run] using ih3

/-- **lift_track (converse).** Every execution of the original program, decorated with tracking
    steps at arbitrary positions (`ls` is any label sequence whose erasure is the original
    action sequence), is an execution of the instrumented build from any coverage state, ending
    in the same user state. -/
theorem lift_track {U A O : Type} (P : Prog U A O) (m : Mode) :
    ∀ (ls : List (Label A)) {u u' : U}, Trace P.step u (erase ls) u' → ∀ c : Status,
      Trace (OStep P m) (u, c) ls (u', run m c (trackIds ls))
  | [], u, u', h, c => by
    cases h
    exact .nil _
  | .user a :: r, u, u', h, c => by
    simp only [erase] at h
    cases h with
    | cons hs ht => exact .cons (.user c hs) (lift_track P m r ht c)
  | .track id :: r, u, u', h, c => by
    simp only [erase] at h
    have := lift_track P m r h (track m c id)
    exact .cons (.track u c id) (by simpa [trackIds, run] using this)

/-- both directions as one statement about outputs: the instrumented build can print `o` and stop
    in user state `u'` iff the original program can -/
theorem same_behaviours {U A O : Type} (P : Prog U A O) (m : Mode) (u u' : U) (c : Status) (o : List O) :
    (∃ ls c', Trace (OStep P m) (u, c) ls (u', c') ∧ outputsI P ls = o)
      ↔ (∃ as, Trace P.step u as u' ∧ outputs P as = o) := by
  constructor
  · rintro ⟨ls, c', h, ho⟩
    have := erase_track P m h
    exact ⟨erase ls, this.1, this.2.1 ▸ ho⟩
  · rintro ⟨as, h, ho⟩
    have he : erase (as.map Label.user) = as := erase_users as
    refine ⟨as.map Label.user, _, lift_track P m (as.map Label.user) (he.symm ▸ h) c, ?_⟩
    have := (erase_track P m (lift_track P m (as.map Label.user) (he.symm ▸ h) c)).2.1
    rw [this, he, ho]

/-- **track_commutes.** A tracking call and a user step commute: executing them in either order
    relates the same pairs of states of `UserState × Coverage`. -/
theorem track_commutes {U A O : Type} (P : Prog U A O) (m : Mode) (a : A) (id : Int) (s s' : U × Status) :
    (∃ mid, TrackEff m id s mid ∧ UserEff P a mid s') ↔ (∃ mid, UserEff P a s mid ∧ TrackEff m id mid s') := by
  constructor
  · rintro ⟨mid, ⟨h1, h2⟩, ⟨h3, h4⟩⟩
    refine ⟨(s'.1, s.2), ⟨?_, rfl⟩, ⟨rfl, ?_⟩⟩
    · rw [h1] at h3; exact h3
    · rw [h4, h2]
  · rintro ⟨mid, ⟨h1, h2⟩, ⟨h3, h4⟩⟩
    refine ⟨(s.1, track m s.2 id), ⟨rfl, rfl⟩, ⟨?_, ?_⟩⟩
    · rw [h3]; exact h1
    · rw [h4, h2]

/-- the same on executions: two adjacent steps `track id`, `user a` can be swapped -/
theorem swap_adjacent {U A O : Type} (P : Prog U A O) (m : Mode) (a : A) (id : Int) (s s' : U × Status) :
    Trace (OStep P m) s [.track id, .user a] s' ↔ Trace (OStep P m) s [.user a, .track id] s' := by
  constructor
  · intro h
    cases h with
    | cons h1 h2 =>
      cases h2 with
      | cons h3 h4 =>
        cases h4; cases h1; cases h3 with
        | user c hu => exact .cons (.user _ hu) (.cons (.track _ _ id) (.nil _))
  · intro h
    cases h with
    | cons h1 h2 =>
      cases h2 with
      | cons h3 h4 =>
        cases h4; cases h3; cases h1 with
        | user c hu => exact .cons (.track _ _ id) (.cons (.user _ hu) (.nil _))

/-- **covered_exact.** After any execution of the instrumented build from a fresh runtime with
    ids `1..n`: in bool mode `status id > 0` iff a `track id` step occurs in the execution; in
    count mode the slot holds the exact number of such steps (below 2^32) and is positive iff
    one occurs; slots outside `1..n` stay 0. -/
theorem covered_exact {U A O : Type} (P : Prog U A O) (m : Mode) (n : Nat) {u u' : U} {c' : Status}
    {ls : List (Label A)} (h : Trace (OStep P m) (u, initStatus n) ls (u', c')) (id : Nat) :
    (1 ≤ id ∧ id ≤ n → m = .bool → (get c' id > 0 ↔ (id : Int) ∈ trackIds ls))
    ∧ (1 ≤ id ∧ id ≤ n → m = .count → occ id (trackIds ls) < W →
        get c' id = occ id (trackIds ls) ∧ (get c' id > 0 ↔ (id : Int) ∈ trackIds ls))
    ∧ (¬(1 ≤ id ∧ id ≤ n) → get c' id = 0) := by
  have hc : c' = run m (initStatus n) (trackIds ls) := (erase_track P m h).2.2
  have hs := C07.status_counts m n (trackIds ls) id
  have hocc : occ id (trackIds ls) > 0 ↔ (id : Int) ∈ trackIds ls := by
    simp only [occ]; exact List.count_pos_iff
  subst hc
  refine ⟨?_, ?_, ?_⟩
  · intro hr hm
    subst hm
    rw [hs.1 hr, ← hocc]
    simp only
    omega
  · intro hr hm hlt
    have := hs.2.1 hr hm hlt
    rw [this]
    exact ⟨rfl, hocc⟩
  · intro hr
    exact hs.2.2.1 hr

/-! ## an instrumented program with its own control states -/

/-- every step of the instrumented program is a step of the observable semantics -/
theorem instr_projects {U A O V : Type} {P : Prog U A O} (I : Instr P V) (m : Mode)
    {s s' : V × Status} {ls : List (Label A)} (h : Trace (IStep I m) s ls s') :
    Trace (OStep P m) (I.π s.1, s.2) ls (I.π s'.1, s'.2) := by
  induction h with
  | nil s => exact .nil _
  | cons hs _ ih =>
    cases hs with
    | user c hu => exact .cons (.user c (I.user_sim hu)) ih
    | track c ht =>
      refine .cons ?_ ih
      simp only
      rw [I.track_stutter ht]
      exact .track _ c _

/-- **erase_track for an instrumented program**: its executions project to executions of the
    original program with the same output, the same final user state, and a coverage record
    that is exactly `run` of the executed tracking calls -/
theorem instr_erase_track {U A O V : Type} {P : Prog U A O} (I : Instr P V) (m : Mode)
    {s s' : V × Status} {ls : List (Label A)} (h : Trace (IStep I m) s ls s') :
    Trace P.step (I.π s.1) (erase ls) (I.π s'.1)
    ∧ outputsI P ls = outputs P (erase ls)
    ∧ s'.2 = run m s.2 (trackIds ls) :=
  erase_track P m (instr_projects I m h)

theorem tsteps_lift {U A O V : Type} {P : Prog U A O} (I : Instr P V) (m : Mode) {v v₁ : V} {ids : List Int}
    (h : Trace I.tstep v ids v₁) : ∀ c : Status,
    Trace (IStep I m) (v, c) (ids.map Label.track) (v₁, run m c ids) := by
  induction h with
  | nil v => intro c; exact .nil _
  | cons hs _ ih =>
    intro c
    exact .cons (.track c hs) (by simpa [run] using ih (track m c _))

/-- **lift_track for an instrumented program**: every execution of the original program from
    `π v` is the erasure of an execution of the instrumented program from `v` (it only has to run
    the tracking calls it meets on the way), reaching the same user state -/
theorem instr_lift_track {U A O V : Type} {P : Prog U A O} (I : Instr P V) (m : Mode) {u u' : U} {as : List A}
    (h : Trace P.step u as u') : ∀ v : V, I.π v = u →
    ∃ (ls : List (Label A)) (v' : V), erase ls = as ∧ I.π v' = u' ∧
      ∀ c : Status, Trace (IStep I m) (v, c) ls (v', run m c (trackIds ls)) := by
  induction h with
  | nil u => intro v hv; exact ⟨[], v, rfl, hv, fun c => .nil _⟩
  | @cons _ _ _ a _ hs _ ih =>
    intro v hv
    subst hv
    obtain ⟨ids, v₁, v₂, ht, hu, hp⟩ := I.lift hs
    obtain ⟨ls, v', he, hpv, htr⟩ := ih v₂ hp
    refine ⟨ids.map Label.track ++ (.user a :: ls), v', ?_, hpv, ?_⟩
    · rw [erase_tracks_append]; simp [erase, he]
    · intro c
      rw [trackIds_tracks_append]
      simp only [trackIds, run, List.foldl_append]
      have h1 := tsteps_lift I m ht c
      have h2 := htr (run m c ids)
      exact Trace.append h1 (.cons (.user _ hu) (by simpa [run] using h2))

end GoatSpec.C14
