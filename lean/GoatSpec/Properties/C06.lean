import GoatSpec.Proofs.Idem
import GoatSpec.SkelSpec
/-! # C06 — goat clean removes every artefact and restores the original program
    (text level: the five regexp passes of `CleanExecutor.prepareContent`).

Statements are over *all* arrangements / *all* texts, by induction; nothing here is bounded.
`#print axioms` of every theorem is audited by the check (⊆ propext, Quot.sound, Classical.choice). -/
namespace GoatSpec.C06
open GoatSpec

/-- one erasing pass on a well-formed arrangement, at item level -/
theorem pass_step (k : Mk) (hk : k ≠ .endm) (i0 : List Item) (hwf : ∀ it ∈ i0, it.wf = true) :
    ∃ i1 : List Item,
      pass k [] (flatten i0) = (cntK k i0, flatten i1)
      ∧ (∀ it ∈ i1, it.wf = true)
      ∧ dBU i1 = replaceK k [] (dBU i0)
      ∧ (∀ k', k' ≠ k → cntK k' i1 = cntK k' i0) := by
  refine ⟨passI k [] [] i0, ?_, ?_, ?_, ?_⟩
  · simpa [flatten_nil] using pass_items k hk [] i0 hwf
  · exact wf_passI _ [] (by simp) i0 hwf [] (by simp)
  · exact dBU_passI k [] rfl i0 [] (by simp)
  · intro k' hne; exact cntK_passI_other _ _ hne [] rfl rfl i0

/-- the five passes on a well-formed arrangement, item by item -/
theorem clean_chain (i0 : List Item) (hwf : ∀ it ∈ i0, it.wf = true) :
    ∃ i5 : List Item,
      cleanLines (flatten i0)
        = (decide (cntK .delete i0 > 0) || decide (cntK .insert i0 > 0) || decide (cntK .generate i0 > 0)
            || decide (cntK .main i0 > 0) || decide (cntK .user i0 > 0), flatten i5)
      ∧ (∀ it ∈ i5, it.wf = true)
      ∧ dBU i5 = (dBU i0).filter (fun it => it.kind.isNone) := by
  obtain ⟨i1, p1, w1, d1, c1⟩ := pass_step .delete (by decide) i0 hwf
  obtain ⟨i2, p2, w2, d2, c2⟩ := pass_step .insert (by decide) i1 w1
  obtain ⟨i3, p3, w3, d3, c3⟩ := pass_step .generate (by decide) i2 w2
  obtain ⟨i4, p4, w4, d4, c4⟩ := pass_step .main (by decide) i3 w3
  obtain ⟨i5, p5, w5, d5, c5⟩ := pass_step .user (by decide) i4 w4
  have n2 : cntK .insert i1 = cntK .insert i0 := c1 _ (by decide)
  have n3 : cntK .generate i2 = cntK .generate i0 := by rw [c2 _ (by decide), c1 _ (by decide)]
  have n4 : cntK .main i3 = cntK .main i0 := by rw [c3 _ (by decide), c2 _ (by decide), c1 _ (by decide)]
  have n5 : cntK .user i4 = cntK .user i0 := by
    rw [c4 _ (by decide), c3 _ (by decide), c2 _ (by decide), c1 _ (by decide)]
  refine ⟨i5, ?_, w5, ?_⟩
  · simp only [cleanLines, p1, p2, p3, p4, p5, n2, n3, n4, n5]
  · rw [d5, d4, d3, d2, d1]
    exact filter5_wf (dBU i0) (wf_dBU i0 hwf)

/-- **C06 (arrangements).** For every well-formed arrangement of user lines, complete marker
    blocks of any kind and insert markers — any length, any order — clean keeps exactly the
    non-blank user lines, in order, leaves no marker line, and reports `changed` iff there was
    an artefact. ("Only lines that belong to a marker-delimited block are removed", up to the
    blank lines the regexps' `\s*` takes with a block.) -/
theorem clean_wf (items : List Item) (hwf : ∀ it ∈ items, it.wf = true) :
    nonBlank (cleanLines (flatten items)).2 = nonBlank (flatten (items.filter (fun it => it.kind.isNone)))
    ∧ (cleanLines (flatten items)).2.all plain = true
    ∧ (cleanLines (flatten items)).1 = items.any (fun it => it.kind.isSome) := by
  obtain ⟨i5, hc, w5, hd⟩ := clean_chain items hwf
  rw [hc]
  refine ⟨?_, ?_, ?_⟩
  · show nonBlank (flatten i5) = _
    rw [← nonBlank_flatten_dBU i5, hd, ← dBU_filter_comm, nonBlank_flatten_dBU]
  · show (flatten i5).all plain = true
    apply flatten_users_plain i5 w5
    apply kind_none_of_dBU
    intro it hit; rw [hd] at hit
    have := (List.mem_filter.mp hit).2
    cases hk : it.kind <;> simp [hk] at this ⊢
  · show _ = items.any _
    rw [any_kind_wf items hwf]
    simp only [cntK_pos_iff]

/-- clean only ever removes lines: for **every** text the result is a sublist of the input -/
theorem clean_sublist (l : List Line) : (cleanLines l).2.Sublist l := by
  simp only [cleanLines]
  have s := fun k (l : List Line) => pass_sublist k l.length l (Nat.le_refl _)
  exact (s .user _).trans ((s .main _).trans ((s .generate _).trans ((s .insert _).trans (s .delete _))))

/-- **C06 (idempotence).** For every text, cleaning the result of clean changes nothing and
    reports `changed = false` (so the second `goat clean` writes no file). -/
theorem clean_idempotent (l : List Line) : cleanLines (cleanLines l).2 = (false, (cleanLines l).2) := by
  have s := fun k (l : List Line) => pass_sublist k l.length l (Nat.le_refl _)
  have h := fun k (l : List Line) => pass_hasM k l.length l (Nat.le_refl _)
  let o1 := (pass .delete [] l).2
  let o2 := (pass .insert [] o1).2
  let o3 := (pass .generate [] o2).2
  let o4 := (pass .main [] o3).2
  let o5 := (pass .user [] o4).2
  have e5 : (cleanLines l).2 = o5 := rfl
  have m1 : hasM .delete o5 = false :=
    hasM_sublist _ ((s .user o4).trans ((s .main o3).trans ((s .generate o2).trans (s .insert o1)))) (h .delete l)
  have m2 : hasM .insert o5 = false :=
    hasM_sublist _ ((s .user o4).trans ((s .main o3).trans (s .generate o2))) (h .insert o1)
  have m3 : hasM .generate o5 = false := hasM_sublist _ ((s .user o4).trans (s .main o3)) (h .generate o2)
  have m4 : hasM .main o5 = false := hasM_sublist _ (s .user o4) (h .main o3)
  have m5 : hasM .user o5 = false := h .user o4
  rw [e5]
  simp only [cleanLines, pass_noM _ _ o5 m1, pass_noM _ _ o5 m2, pass_noM _ _ o5 m3, pass_noM _ _ o5 m4,
    pass_noM _ _ o5 m5]
  rfl

/-- **C06 (no-op).** A text in which no line starts a marker is returned unchanged with
    `changed = false`: clean on a tree without artefacts writes nothing. -/
theorem clean_noop (l : List Line) (h : l.all plain = true) : cleanLines l = (false, l) := by
  simp only [cleanLines, pass_noM _ _ l (plain_hasM _ l h)]
  rfl

/-- the tracking block written by track/patch is a well-formed generate block (re-checked
    against the extracted constants on every run) -/
theorem insertBlock_wf : genBlockItem.wf = true ∧ flatten [genBlockItem] = insertBlock := by
  decide

/-- *witness*: outside well-formed arrangements the statement fails — an unterminated start
    marker makes the pass eat the user line up to the next block's end marker. -/
theorem unterminated_start_eats_user_code :
    let g := Extracted.trackGenerateComment
    let e := Extracted.trackEndComment
    let u : Line := ['x', '+', '+']
    (cleanLines [g, u, g, u, e]).2 = [] := by
  intro g e u
  have h1 : pass .delete [] [g, u, g, u, e] = (0, [g, u, g, u, e]) := pass_noM _ _ _ (by decide)
  have h2 : pass .insert [] [g, u, g, u, e] = (0, [g, u, g, u, e]) := pass_noM _ _ _ (by decide)
  have h3 : pass .generate [] [g, u, g, u, e] = (1, []) := by
    rw [pass_cons_some .generate [] g [u, g, u, e] [] (by decide), pass_nil]; rfl
  simp only [cleanLines, h1, h2, h3, pass_nil]

/-- non-vacuity: a concrete arrangement with every kind of item satisfies the hypotheses. -/
example : ∀ it ∈ [Item.user ['x'], Item.user [], genBlockItem, Item.ins Extracted.trackInsertComment,
    Item.block .delete Extracted.trackDeleteComment [['y']] Extracted.trackEndComment], it.wf = true := by
  decide

/-! ## the order of the passes, read off the source

`vh skeleton` translates /repo's Go source on every run; `refOrder f` lists the package-level
variables the body of `f` mentions, in source order. -/
section skeleton
open GoatSpec.SkelSpec

/-- the marker kinds in the order `cleanLines` applies their passes -/
def cleanPassOrder : List Mk := [.delete, .insert, .generate, .main, .user]

/-- the regular expression (package-level variable of pkg/config) that removes blocks of a kind -/
def passVar : Mk → String
  | .delete => "pkg/config.TrackDeleteEndRegexp"
  | .insert => "pkg/config.TrackInsertRegexp"
  | .generate => "pkg/config.TrackGenerateEndRegexp"
  | .main => "pkg/config.TrackMainEntryEndRegexp"
  | .user => "pkg/config.TrackUserEndRegexp"
  | .endm => "-"

/-- the model's `cleanLines` is the composition of the five passes in `cleanPassOrder` -/
theorem cleanLines_is_pass_order (l : List Line) :
    (cleanLines l).2 = cleanPassOrder.foldl (fun acc k => (pass k [] acc).2) l := rfl

/-- **`CleanExecutor.prepareContent` uses the five regular expressions in exactly the order the
    model composes its passes** (delete, insert, generate, main, user) and mentions no other
    package-level variable — re-checked against the current source on every run -/
theorem clean_pass_order_in_source :
    refOrder "pkg/goat.CleanExecutor.prepareContent" = cleanPassOrder.map passVar := by decide +kernel

/-- after the passes the function calls `DeleteImport` (through the printer configuration) and
    nothing else of the project -/
theorem clean_calls_in_source : callOrder "pkg/goat.CleanExecutor.prepareContent" =
    ["pkg/utils.ReplaceWithRegexp", "pkg/utils.ReplaceWithRegexp", "pkg/utils.ReplaceWithRegexp",
     "pkg/utils.ReplaceWithRegexp", "pkg/utils.ReplaceWithRegexp", "pkg/config.Config.PrinterConfig",
     "pkg/utils.DeleteImport"] := by decide +kernel

end skeleton

end GoatSpec.C06
