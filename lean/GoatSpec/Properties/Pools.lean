import GoatSpec.SkelSpec
/-! # Shared state of the worker pools (a premise of every property that quantifies over the
    thread count: C01, C02, C05, C06, C10, C14 as well as C08)

The same two theorems as in `Properties/C08.lean`, in a module of their own so that the checks of
those properties re-prove them against the regenerated skeleton too: a change that lets the save /
prepare / tracker goroutines share new package-level state (a pooled buffer, a cache, a counter)
breaks a proof obligation of each of them, whether or not a schedule that shows the corruption
turns up in that run. -/
namespace GoatSpec.Pools
open GoatSpec GoatSpec.SkelSpec

def regexps : List String :=
  ["pkg/config.TrackDeleteEndRegexp", "pkg/config.TrackInsertRegexp", "pkg/config.TrackGenerateEndRegexp",
   "pkg/config.TrackMainEntryEndRegexp", "pkg/config.TrackUserEndRegexp"]

/-- the functions that start goroutines: three diff stages (INIT is sequential) and the six pools of the commands -/
theorem pool_functions : spawners =
    ["pkg/diff.DifferV1.AnalyzeChanges", "pkg/diff.DifferV2.AnalyzeChanges",
     "pkg/diff.DifferV3.AnalyzeChanges", "pkg/goat.CleanExecutor.cleanContentsParallel",
     "pkg/goat.CleanExecutor.prepareContentsParallel", "pkg/goat.PatchExecutor.applyTracksParallel",
     "pkg/goat.PatchExecutor.prepareContentsParallel", "pkg/goat.TrackExecutor.initTracksParallel",
     "pkg/goat.TrackExecutor.saveTracksParallel"] := by decide +kernel

/-- **the goroutines touch no package-level variable except the five compiled regular
    expressions (`*regexp.Regexp`, safe for concurrent use, never assigned after package
    initialisation) and the default printer configuration (read only)**; the diff workers touch
    none at all -/
theorem pools_share_no_package_state :
    spawners.all (fun f => (spawnRefs f).all (fun v => regexps.contains v || v == "pkg/utils.defaultPrinterConfig")) = true
    ∧ (spawners.filter (fun f => spawnRefs f ≠ [])) =
      ["pkg/goat.CleanExecutor.cleanContentsParallel", "pkg/goat.CleanExecutor.prepareContentsParallel",
       "pkg/goat.PatchExecutor.applyTracksParallel", "pkg/goat.PatchExecutor.prepareContentsParallel",
       "pkg/goat.TrackExecutor.initTracksParallel", "pkg/goat.TrackExecutor.saveTracksParallel"] := by
  constructor <;> decide +kernel

end GoatSpec.Pools
