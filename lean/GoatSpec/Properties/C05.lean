import GoatSpec.Ids
import GoatSpec.Proofs.Closure
/-! # C05 — tracking ids, components and service-start calls are mutually consistent
    (numbering and table construction; for every list of files / counts / import graphs). -/
namespace GoatSpec.C05
open GoatSpec

/-- the concatenated per-file id lists continue the running counter -/
theorem number_ids (start : Nat) (hs : 1 ≤ start) (fs : List (String × Nat)) :
    (number start fs).flatMap idsOf = List.range' start (totalCount fs) := by
  induction fs generalizing start with
  | nil => simp [number, totalCount]
  | cons f r ih =>
    obtain ⟨p, c⟩ := f
    simp only [number, List.flatMap_cons, totalCount, List.map_cons, List.sum_cons]
    have h1 : idsOf (p, start, start + c - 1) = List.range' start c := by
      simp only [idsOf]; congr 1; omega
    have := ih (start + c) (by omega)
    simp only [totalCount] at this
    rw [h1, this, List.range'_append_1]

/-- **ids are 1..N exactly once each, by sorted path and source order**: for every list of
    (path, count) in the executor's order, the ids handed out file by file, read in file order,
    are `1, 2, …, N` with `N = Σ count`. -/
theorem ids_exact (fs : List (String × Nat)) :
    (number 1 fs).flatMap idsOf = List.range' 1 (totalCount fs) :=
  number_ids 1 (Nat.le_refl 1) fs

theorem insertNat_sorted_id (x : Nat) (l : List Nat) (h : ∀ y ∈ l, x ≤ y) : insertNat x l = x :: l := by
  cases l with
  | nil => rfl
  | cons y ys => simp [insertNat, h y (by simp)]

theorem sortInts_range' (s n : Nat) : sortInts (List.range' s n) = List.range' s n := by
  induction n generalizing s with
  | zero => rfl
  | succ n ih =>
    simp only [List.range'_succ, sortInts, List.foldr_cons]
    have := ih (s + 1)
    simp only [sortInts] at this
    rw [this]
    apply insertNat_sorted_id
    intro y hy
    have := (List.mem_range'_1.mp hy).1
    omega

theorem dedupSorted_range' (s n : Nat) : dedupSorted (List.range' s n) = List.range' s n := by
  induction n generalizing s with
  | zero => rfl
  | succ n ih =>
    cases n with
    | zero => rfl
    | succ m =>
      have := ih (s + 1)
      simp only [List.range'_succ] at this ⊢
      simp only [dedupSorted]
      have hne : (s == s + 1) = false := by simp
      rw [hne]; simp only [Bool.false_eq_true, if_false]
      rw [this]

/-- **the generated package declares exactly these N identifiers**: `getTotalTrackIdxs` of the
    numbering is `[1..N]` -/
theorem total_ids (fs : List (String × Nat)) :
    totalIds (number 1 fs) = List.range' 1 (totalCount fs) := by
  simp only [totalIds, ids_exact, sortInts_range', dedupSorted_range']

/-- **equal numeric values**: in `TRACK_ID_START = iota; TRACK_ID_<id>…` the i-th listed id gets
    value i+1; with the list `[1..N]` the constant `TRACK_ID_k` therefore has value `k`, and
    `TRACK_ID_END = N + 1`. -/
theorem iota_values (n i : Nat) (h : i < n) : (List.range' 1 n)[i]'(by simpa using h) = i + 1 := by
  simp [List.getElem_range']; omega

/-- membership in the sorted list = membership in the list -/
theorem mem_insertNat (x y : Nat) (l : List Nat) : y ∈ insertNat x l ↔ y = x ∨ y ∈ l := by
  induction l with
  | nil => simp [insertNat]
  | cons z zs ih =>
    simp only [insertNat]
    split
    · simp
    · simp only [List.mem_cons, ih]
      constructor
      · rintro (h | h | h)
        · exact Or.inr (Or.inl h)
        · exact Or.inl h
        · exact Or.inr (Or.inr h)
      · rintro (h | h | h)
        · exact Or.inr (Or.inl h)
        · exact Or.inl h
        · exact Or.inr (Or.inr h)

theorem mem_sortInts (y : Nat) (l : List Nat) : y ∈ sortInts l ↔ y ∈ l := by
  induction l with
  | nil => simp [sortInts]
  | cons x xs ih =>
    simp only [sortInts, List.foldr_cons] at ih ⊢
    rw [mem_insertNat, ih]; simp

/-- **component list = the ids located in the packages of its import closure**: an id belongs to
    component `imports` iff it was handed to a file whose directory is one of `imports` -/
theorem component_ids (dirOf : String → String) (ivs : List (String × Nat × Nat)) (imports : List String) (id : Nat) :
    id ∈ componentIds dirOf ivs imports ↔ ∃ iv ∈ ivs, dirOf iv.1 ∈ imports ∧ id ∈ idsOf iv := by
  simp only [componentIds, mem_sortInts, List.mem_flatMap, List.mem_filter, beq_iff_eq]
  constructor
  · rintro ⟨d, hd, iv, ⟨hiv, hdir⟩, hid⟩
    exact ⟨iv, hiv, hdir ▸ hd, hid⟩
  · rintro ⟨iv, hiv, hd, hid⟩
    exact ⟨dirOf iv.1, hd, iv, ⟨hiv, rfl⟩, hid⟩

/-! ## import closure: soundness (everything collected is reachable) and monotonicity -/

/-- reachability by at least one internal import edge -/
inductive Reach (imp : Nat → List Nat) : Nat → Nat → Prop
  | step {a b} : b ∈ imp a → Reach imp a b
  | trans {a b c} : Reach imp a b → c ∈ imp b → Reach imp a c

theorem Reach.head {imp : Nat → List Nat} {a b c : Nat} (h1 : b ∈ imp a) (h2 : Reach imp b c) : Reach imp a c := by
  induction h2 with
  | step h => exact .trans (.step h1) h
  | trans _ h ih => exact .trans ih h

mutual
theorem collect_mono (imp : Nat → List Nat) (fuel dir : Nat) (v : List Nat) : ∀ x ∈ v, x ∈ collect imp fuel dir v := by
  intro x hx
  cases fuel with
  | zero => simpa [collect] using hx
  | succ f => simp only [collect]; exact collectL_mono imp f (imp dir) dir v x hx
theorem collectL_mono (imp : Nat → List Nat) (fuel : Nat) (ps : List Nat) (cur : Nat) (v : List Nat) :
    ∀ x ∈ v, x ∈ collectL imp fuel ps cur v := by
  intro x hx
  cases ps with
  | nil => simpa [collectL] using hx
  | cons p ps =>
    simp only [collectL]
    split
    · exact collectL_mono imp fuel ps cur v x hx
    · apply collectL_mono imp fuel ps cur _ x
      split
      · exact collect_mono imp fuel p (p :: v) x (by simp [hx])
      · simp [hx]
end

mutual
/-- **closure soundness**: every package `collectImports(dir)` adds is reachable from `dir`
    through internal imports — a component never contains ids of a package the main does not
    (transitively) import -/
theorem closure_sound (imp : Nat → List Nat) (fuel dir : Nat) (v : List Nat) :
    ∀ x ∈ collect imp fuel dir v, x ∈ v ∨ Reach imp dir x := by
  intro x hx
  cases fuel with
  | zero => left; simpa [collect] using hx
  | succ f =>
    simp only [collect] at hx
    rcases closureL_sound imp f (imp dir) dir v (fun p hp => hp) x hx with h | h
    · exact Or.inl h
    · exact Or.inr h
theorem closureL_sound (imp : Nat → List Nat) (fuel : Nat) (ps : List Nat) (cur : Nat) (v : List Nat)
    (hps : ∀ p ∈ ps, p ∈ imp cur) :
    ∀ x ∈ collectL imp fuel ps cur v, x ∈ v ∨ Reach imp cur x := by
  intro x hx
  cases ps with
  | nil => left; simpa [collectL] using hx
  | cons p ps =>
    have hp : p ∈ imp cur := hps p (by simp)
    have hps' : ∀ q ∈ ps, q ∈ imp cur := fun q hq => hps q (by simp [hq])
    simp only [collectL] at hx
    split at hx
    · exact closureL_sound imp fuel ps cur v hps' x hx
    · rcases closureL_sound imp fuel ps cur _ hps' x hx with h | h
      · split at h
        · rcases closure_sound imp fuel p (p :: v) x h with h' | h'
          · rcases List.mem_cons.mp h' with rfl | h''
            · exact Or.inr (.step hp)
            · exact Or.inl h''
          · exact Or.inr (Reach.head hp h')
        · rcases List.mem_cons.mp h with rfl | h''
          · exact Or.inr (.step hp)
          · exact Or.inl h''
      · exact Or.inr h
end

/-- closedness as a decidable predicate means completeness: a closed set that contains the direct
    imports of `dir` contains everything reachable from `dir`. (`closedUnder` is evaluated by
    `judge:closure` on every implementation **and** model answer: `closure_complete_checked`.) -/
theorem closed_complete (imp : Nat → List Nat) (v : List Nat) (hc : closedUnder imp v = true)
    (dir : Nat) (hd : ∀ p ∈ imp dir, p ∈ v) : ∀ x, Reach imp dir x → x ∈ v := by
  intro x hr
  induction hr with
  | step h => exact hd _ h
  | trans _ h ih =>
    simp only [closedUnder, List.all_eq_true] at hc
    have := hc _ ih _ h
    simpa [List.contains_iff_mem] using this

/-- **closure completeness**: with more fuel than there are packages, everything reachable from
    `dir` through internal imports is collected -/
theorem closure_complete (imp : Nat → List Nat) (U : List Nat) (hU : ∀ p, ∀ q ∈ imp p, q ∈ U)
    (fuel dir : Nat) (hf : U.length < fuel) : ∀ x, Reach imp dir x → x ∈ collect imp fuel dir [] := by
  have hun : unvisited U [] < fuel := by
    have : unvisited U [] ≤ U.length := by unfold unvisited; exact List.length_filter_le _ _
    omega
  have h := collect_complete imp U hU fuel dir [] hun
  intro x hr
  induction hr with
  | step hb => exact h.1 _ hb
  | trans _ hc ih => exact h.2.closed _ ih (by simp) _ hc

/-- **closure_correct**: `collectImports` computes exactly the packages reachable from the main
    directory in the internal import graph (the component of a main package is its import
    closure), for every import graph, given fuel beyond the number of packages -/
theorem closure_correct (imp : Nat → List Nat) (U : List Nat) (hU : ∀ p, ∀ q ∈ imp p, q ∈ U)
    (fuel dir : Nat) (hf : U.length < fuel) (x : Nat) :
    x ∈ collect imp fuel dir [] ↔ Reach imp dir x := by
  constructor
  · intro hx
    rcases closure_sound imp fuel dir [] x hx with h | h
    · cases h
    · exact h
  · exact closure_complete imp U hU fuel dir hf x

/-- non-vacuity -/
example : (number 1 [("a.go", 2), ("b/c.go", 0), ("d.go", 3)]).map (fun iv => (iv.2.1, iv.2.2)) = [(1, 2), (3, 2), (3, 5)] := by decide
example : collect (fun d => if d = 0 then [1, 2] else if d = 1 then [2, 3] else if d = 3 then [1] else []) 5 0 [] = [3, 2, 1] := by
  simp [collect, collectL]

/-! ## service start: exactly the selected main packages with a non-empty id list, each once -/

theorem isMainEntry_iff (entries : List String) (dir : String) :
    isMainEntry entries dir = true ↔ "*" ∈ entries ∨ dir ∈ entries := by
  unfold isMainEntry
  simp only [List.any_eq_true, Bool.or_eq_true, beq_iff_eq]
  constructor
  · rintro ⟨e, he, h | h⟩
    · exact Or.inl (h ▸ he)
    · exact Or.inr (h ▸ he)
  · rintro (h | h)
    · exact ⟨"*", h, Or.inl rfl⟩
    · exact ⟨dir, h, Or.inr rfl⟩

/-- a directory whose name merely starts with a listed entry is not selected -/
theorem isMainEntry_lookalike (e d : String) (h1 : e ≠ "*") (h2 : e ≠ d) : isMainEntry [e] d = false := by
  simp [isMainEntry, h1, h2]

theorem serviceStartsFrom_mem (entries : List String) (mains : List (String × List Nat)) : ∀ (i0 j : Nat),
    j ∈ serviceStartsFrom entries i0 mains ↔
      ∃ k d ids, mains[k]? = some (d, ids) ∧ j = i0 + k ∧ isMainEntry entries d = true ∧ ids ≠ [] := by
  induction mains with
  | nil => intro i0 j; simp [serviceStartsFrom]
  | cons m r ih =>
    intro i0 j
    obtain ⟨d, ids⟩ := m
    simp only [serviceStartsFrom, List.mem_append, ih]
    constructor
    · rintro (h | ⟨k, d', ids', h1, h2, h3, h4⟩)
      · by_cases hc : (isMainEntry entries d && !ids.isEmpty) = true
        · simp only [hc, if_true, List.mem_singleton] at h
          simp only [Bool.and_eq_true, Bool.not_eq_true', List.isEmpty_eq_false_iff] at hc
          exact ⟨0, d, ids, by simp, by omega, hc.1, hc.2⟩
        · simp [hc] at h
      · exact ⟨k + 1, d', ids', by simpa using h1, by omega, h3, h4⟩
    · rintro ⟨k, d', ids', h1, h2, h3, h4⟩
      cases k with
      | zero =>
        simp at h1
        obtain ⟨rfl, rfl⟩ := h1
        left
        have : (isMainEntry entries d && !ids.isEmpty) = true := by
          simp [h3, List.isEmpty_eq_false_iff.mpr h4]
        simp [this, h2]
      | succ k =>
        right
        exact ⟨k, d', ids', by simpa using h1, by omega, h3, h4⟩

/-- **exactly the selected main packages with a non-empty id list start the service, with their own
    component identifier**: main package number `j` is in the list iff its directory is selected
    (`*` or listed itself) and its component lists an id -/
theorem service_start_exact (entries : List String) (mains : List (String × List Nat)) (j : Nat) :
    j ∈ serviceStarts entries mains ↔
      ∃ d ids, mains[j]? = some (d, ids) ∧ ("*" ∈ entries ∨ d ∈ entries) ∧ ids ≠ [] := by
  unfold serviceStarts
  rw [serviceStartsFrom_mem]
  constructor
  · rintro ⟨k, d, ids, h1, h2, h3, h4⟩
    have : j = k := by omega
    subst this
    exact ⟨d, ids, h1, (isMainEntry_iff _ _).mp h3, h4⟩
  · rintro ⟨d, ids, h1, h2, h3⟩
    exact ⟨j, d, ids, h1, by omega, (isMainEntry_iff _ _).mpr h2, h3⟩

/-- … **once**: the list is strictly increasing -/
theorem serviceStartsFrom_sorted (entries : List String) (mains : List (String × List Nat)) : ∀ i0,
    (serviceStartsFrom entries i0 mains).Pairwise (· < ·) ∧ ∀ j ∈ serviceStartsFrom entries i0 mains, i0 ≤ j := by
  induction mains with
  | nil => intro i0; simp [serviceStartsFrom]
  | cons m r ih =>
    intro i0
    obtain ⟨d, ids⟩ := m
    obtain ⟨h1, h2⟩ := ih (i0 + 1)
    simp only [serviceStartsFrom]
    split
    · refine ⟨?_, ?_⟩
      · simp only [List.singleton_append, List.pairwise_cons]
        exact ⟨fun j hj => by have := h2 j hj; omega, h1⟩
      · intro j hj
        simp only [List.singleton_append, List.mem_cons] at hj
        rcases hj with rfl | hj
        · omega
        · have := h2 j hj; omega
    · simp only [List.nil_append]
      exact ⟨h1, fun j hj => by have := h2 j hj; omega⟩

theorem service_start_once (entries : List String) (mains : List (String × List Nat)) :
    (serviceStarts entries mains).Nodup := by
  have := (serviceStartsFrom_sorted entries mains 0).1
  exact this.imp (fun h => Nat.ne_of_lt h)

example : serviceStarts ["cmd/m0"] [("cmd/m0", [1, 2]), ("cmd/m0x", [3]), ("cmd/m0/tools/dump", [4])] = [0] := by decide
example : serviceStarts ["*"] [("cmd/a", [1]), ("cmd/b", []), (".", [2])] = [0, 2] := by decide
example : serviceStarts [] [("cmd/a", [1])] = [] := by decide

end GoatSpec.C05
