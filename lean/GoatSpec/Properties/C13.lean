import GoatSpec.Paths
/-! # C13 — only eligible changed Go files are ever modified (eligibility rule and walkers).

Theorems are over all paths, ignore lists and directory trees. The write sets of the commands
(which eligible files are actually rewritten) are an end-to-end oracle (`e2e track-decoys`). -/
namespace GoatSpec.C13
open GoatSpec

/-- **excluded ⇒ never selected**: vendor / node_modules at the root, a `testdata` segment, a
    nested module (when skipping), an ignored directory, an ignored file, test files, non-Go files -/
theorem excluded_never (c : PathCfg) (dir : Path) (name : String)
    (h : dir.head? = some "vendor" ∨ dir.head? = some "node_modules" ∨ "testdata" ∈ dir
      ∨ (∃ e ∈ c.ignores, e <+: dir) ∨ (∃ e ∈ c.ignores, e = dir ++ [name])
      ∨ (c.skipNested = true ∧ dir ≠ [] ∧ ∃ r ∈ c.nestedRoots, r <+: dir)
      ∨ isGoFileName name = false) :
    isTargetFile c dir name = false := by
  unfold isTargetFile isTargetDir
  rcases h with h | h | h | ⟨e, he, hp⟩ | ⟨e, he, hp⟩ | ⟨hs, hd, r, hr, hp⟩ | h
  · simp [h]
  · simp [h]
  · simp [h]
  · have : c.ignores.any (fun e => e.isPrefixOf dir) = true :=
      List.any_eq_true.mpr ⟨e, he, List.isPrefixOf_iff_prefix.mpr hp⟩
    simp [this]
  · have : c.ignores.any (fun e => e.isPrefixOf (dir ++ [name])) = true :=
      List.any_eq_true.mpr ⟨e, he, by rw [hp]; exact List.isPrefixOf_iff_prefix.mpr (List.prefix_refl _)⟩
    simp [this]
  · have h1 : c.nestedRoots.any (fun r => r.isPrefixOf dir) = true :=
      List.any_eq_true.mpr ⟨r, hr, List.isPrefixOf_iff_prefix.mpr hp⟩
    have h2 : dir.isEmpty = false := by cases dir <;> simp_all
    simp [hs, h1, h2]
  · simp [h]

/-- **eligible ⇒ always selected**: a non-test Go file outside all of the above is a target,
    whatever else its path looks like -/
theorem eligible_always (c : PathCfg) (dir : Path) (name : String)
    (hv : dir.head? ≠ some "vendor") (hn : dir.head? ≠ some "node_modules") (ht : "testdata" ∉ dir)
    (hi : ∀ e ∈ c.ignores, ¬ e <+: dir ++ [name])
    (hm : c.skipNested = true → ∀ r ∈ c.nestedRoots, ¬ r <+: dir)
    (hg : isGoFileName name = true) :
    isTargetFile c dir name = true := by
  unfold isTargetFile isTargetDir
  have h1 : c.ignores.any (fun e => e.isPrefixOf (dir ++ [name])) = false := by
    rw [List.any_eq_false]; intro e he hp
    exact hi e he (List.isPrefixOf_iff_prefix.mp hp)
  have h2 : c.ignores.any (fun e => e.isPrefixOf dir) = false := by
    rw [List.any_eq_false]; intro e he hp
    exact hi e he ((List.isPrefixOf_iff_prefix.mp hp).trans (List.prefix_append _ _))
  have h3 : (c.skipNested && !dir.isEmpty && c.nestedRoots.any (fun r => r.isPrefixOf dir)) = false := by
    cases hs : c.skipNested with
    | false => simp
    | true =>
      have : c.nestedRoots.any (fun r => r.isPrefixOf dir) = false := by
        rw [List.any_eq_false]; intro r hr hp
        exact hm hs r hr (List.isPrefixOf_iff_prefix.mp hp)
      simp [this]
  have h4 : (dir.head? == some "vendor" || dir.head? == some "node_modules") = false := by
    simp [hv, hn]
  have h5 : dir.contains "testdata" = false := by simpa using ht
  simp [h1, h2, h3, h4, ht, hg]

/-- a directory whose name merely *extends* an ignored name is not excluded by that entry -/
theorem lookalike_not_excluded (e : String) (x : String) (rest : Path) (h : e ≠ x) :
    ¬ [e] <+: (x :: rest) := by
  intro hp
  rcases hp with ⟨t, ht⟩
  simp at ht
  exact h ht.1

/-- exclusion is inherited downwards: below a non-target directory nothing is a target
    (this is why pruning with `SkipDir` loses nothing) -/
theorem isTargetDir_parent (c : PathCfg) (dir : Path) (x : String)
    (h : isTargetDir c (dir ++ [x]) = true) : isTargetDir c dir = true ∨ dir = [] ∧ False ∨ isTargetDir c dir = true := by
  left
  unfold isTargetDir at h ⊢
  simp only [Bool.and_eq_true, Bool.not_eq_true', Bool.or_eq_false_iff] at h ⊢
  obtain ⟨⟨⟨h1, h2⟩, h3⟩, h4⟩ := h
  refine ⟨⟨⟨?_, ?_⟩, ?_⟩, ?_⟩
  · cases dir with
    | nil => simp
    | cons a r => simpa using h1
  · rw [List.contains_eq_mem] at h2 ⊢
    simp only [decide_eq_false_iff_not, List.mem_append] at h2 ⊢
    intro hm; exact h2 (Or.inl hm)
  · rw [List.any_eq_false] at h3 ⊢
    intro e he hp
    exact h3 e he (List.isPrefixOf_iff_prefix.mpr ((List.isPrefixOf_iff_prefix.mp hp).trans (List.prefix_append _ _)))
  · cases hs : c.skipNested with
    | false => simp
    | true =>
      cases dir with
      | nil => simp
      | cons a r =>
        simp only [hs, List.isEmpty_cons, Bool.not_false, Bool.true_and, List.cons_append,
          Bool.and_true] at h4 ⊢
        rw [List.any_eq_false] at h4 ⊢
        intro q hq hp
        exact h4 q hq (List.isPrefixOf_iff_prefix.mpr ((List.isPrefixOf_iff_prefix.mp hp).trans (List.prefix_append _ _)))

theorem isTargetFile_dir (c : PathCfg) (dir : Path) (n : String) (h : isTargetFile c dir n = true) :
    isTargetDir c dir = true := by
  unfold isTargetFile at h
  simp only [Bool.and_eq_true] at h
  exact h.1.2

/-! no target file below a directory that is not a target -/
mutual
theorem select_pruned (c : PathCfg) (at_ : Path) (hat : isTargetDir c at_ = false) (t : Tree) :
    selectFiles c (allFiles at_ t) = [] := by
  cases t with
  | file n =>
    have : isTargetFile c at_ n = false := by
      cases hf : isTargetFile c at_ n with
      | false => rfl
      | true => rw [isTargetFile_dir c at_ n hf] at hat; cases hat
    simp [allFiles, selectFiles, this]
  | dir n cs =>
    have hd : isTargetDir c (at_ ++ [n]) = false := by
      cases hf : isTargetDir c (at_ ++ [n]) with
      | false => rfl
      | true =>
        rcases isTargetDir_parent c at_ n hf with h | h | h
        · rw [h] at hat; cases hat
        · exact absurd h.2 id
        · rw [h] at hat; cases hat
    simp only [allFiles]
    exact select_prunedL c (at_ ++ [n]) hd cs
theorem select_prunedL (c : PathCfg) (at_ : Path) (hat : isTargetDir c at_ = false) (ts : List Tree) :
    selectFiles c (allFilesL at_ ts) = [] := by
  cases ts with
  | nil => rfl
  | cons t r =>
    simp only [allFilesL, selectFiles, List.filter_append, List.map_append]
    have h1 := select_pruned c at_ hat t
    have h2 := select_prunedL c at_ hat r
    simp only [selectFiles] at h1 h2
    rw [h1, h2]; rfl
end

/-! **the walkers agree with the differs' rule**: for every directory tree, the pruned walk
    (prepareFiles / INIT / main scan) selects exactly the files the path-wise rule selects
    (precision 1–3) — the five places that decide eligibility cannot disagree. -/
mutual
theorem walkers_agree (c : PathCfg) (at_ : Path) (t : Tree) :
    walk c at_ t = selectFiles c (allFiles at_ t) := by
  cases t with
  | file n =>
    simp only [walk, allFiles, selectFiles]
    cases h : isTargetFile c at_ n <;> simp [h]
  | dir n cs =>
    simp only [walk, allFiles]
    cases h : isTargetDir c (at_ ++ [n]) with
    | true => simp only [if_true]; exact walkers_agreeL c (at_ ++ [n]) cs
    | false => simp only [Bool.false_eq_true, if_false]; exact (select_prunedL c _ h cs).symm
theorem walkers_agreeL (c : PathCfg) (at_ : Path) (ts : List Tree) :
    walkL c at_ ts = selectFiles c (allFilesL at_ ts) := by
  cases ts with
  | nil => rfl
  | cons t r =>
    simp only [walkL, allFilesL, selectFiles, List.filter_append, List.map_append]
    have h1 := walkers_agree c at_ t
    have h2 := walkers_agreeL c at_ r
    simp only [selectFiles] at h1 h2
    rw [h1, h2]
end

/-- non-vacuity: the rule on decoy directories (ignored: `ignoredir`; nested module: `nested`) -/
example :
    ([["vendor"], ["vendor", "x"], ["vendorx"], ["ignoredir"], ["ignoredirx"], ["nested", "sub"], ["pkg", "l0"],
      ["pkg", "l0", "testdata"], []].map
      (isTargetDir ⟨[["ignoredir"], ["pkg", "l0", "ignored_file.go"]], true, [["nested"]]⟩))
      = [false, false, true, false, true, false, true, false, true] := by
  decide

end GoatSpec.C13
