import GoatSpec.Paths
/-! # C13 — only eligible changed Go files are ever modified (eligibility rule and walkers).

Theorems are over all paths, ignore lists and directory trees. The write sets of the commands
(which eligible files are actually rewritten) are an end-to-end oracle (`e2e track-decoys`). -/
namespace GoatSpec.C13
open GoatSpec

/-- **excluded ⇒ never selected**: vendor / node_modules at the root, a `testdata` segment, a
    nested module (when skipping), an ignored directory, an ignored file, test files, non-Go files -/
theorem excluded_never (c : PathCfg) (dir : Path) (name : String)
    (h : dir.head? = some "vendor" ∨ dir.head? = some "node_modules" ∨ "testdata" ∈ dir
      ∨ (∃ e ∈ c.ignores, e <+: dir) ∨ (∃ e ∈ c.ignores, e = dir ++ [name])
      ∨ (c.skipNested = true ∧ dir ≠ [] ∧ ∃ r ∈ c.nestedRoots, r <+: dir)
      ∨ isGoFileName name = false) :
    isTargetFile c dir name = false := by
  unfold isTargetFile isTargetDir
  rcases h with h | h | h | ⟨e, he, hp⟩ | ⟨e, he, hp⟩ | ⟨hs, hd, r, hr, hp⟩ | h
  · simp [h]
  · simp [h]
  · simp [h]
  · have : c.ignores.any (fun e => e.isPrefixOf dir) = true :=
      List.any_eq_true.mpr ⟨e, he, List.isPrefixOf_iff_prefix.mpr hp⟩
    simp [this]
  · have : c.ignores.any (fun e => e.isPrefixOf (dir ++ [name])) = true :=
      List.any_eq_true.mpr ⟨e, he, by rw [hp]; exact List.isPrefixOf_iff_prefix.mpr (List.prefix_refl _)⟩
    simp [this]
  · have h1 : c.nestedRoots.any (fun r => r.isPrefixOf dir) = true :=
      List.any_eq_true.mpr ⟨r, hr, List.isPrefixOf_iff_prefix.mpr hp⟩
    have h2 : dir.isEmpty = false := by cases dir <;> simp_all
    simp [hs, h1, h2]
  · simp [h]

/-- **eligible ⇒ always selected**: a non-test Go file outside all of the above is a target,
    whatever else its path looks like -/
theorem eligible_always (c : PathCfg) (dir : Path) (name : String)
    (hv : dir.head? ≠ some "vendor") (hn : dir.head? ≠ some "node_modules") (ht : "testdata" ∉ dir)
    (hi : ∀ e ∈ c.ignores, ¬ e <+: dir ++ [name])
    (hm : c.skipNested = true → ∀ r ∈ c.nestedRoots, ¬ r <+: dir)
    (hg : isGoFileName name = true) :
    isTargetFile c dir name = true := by
  unfold isTargetFile isTargetDir
  have h1 : c.ignores.any (fun e => e.isPrefixOf (dir ++ [name])) = false := by
    rw [List.any_eq_false]; intro e he hp
    exact hi e he (List.isPrefixOf_iff_prefix.mp hp)
  have h2 : c.ignores.any (fun e => e.isPrefixOf dir) = false := by
    rw [List.any_eq_false]; intro e he hp
    exact hi e he ((List.isPrefixOf_iff_prefix.mp hp).trans (List.prefix_append _ _))
  have h3 : (c.skipNested && !dir.isEmpty && c.nestedRoots.any (fun r => r.isPrefixOf dir)) = false := by
    cases hs : c.skipNested with
    | false => simp
    | true =>
      have : c.nestedRoots.any (fun r => r.isPrefixOf dir) = false := by
        rw [List.any_eq_false]; intro r hr hp
        exact hm hs r hr (List.isPrefixOf_iff_prefix.mp hp)
      simp [this]
  have h4 : (dir.head? == some "vendor" || dir.head? == some "node_modules") = false := by
    simp [hv, hn]
  have h5 : dir.contains "testdata" = false := by simpa using ht
  simp [h1, h2, h3, h4, ht, hg]

/-- a directory whose name merely *extends* an ignored name is not excluded by that entry -/
theorem lookalike_not_excluded (e : String) (x : String) (rest : Path) (h : e ≠ x) :
    ¬ [e] <+: (x :: rest) := by
  intro hp
  rcases hp with ⟨t, ht⟩
  simp at ht
  exact h ht.1

/-- exclusion is inherited downwards: below a non-target directory nothing is a target
    (this is why pruning with `SkipDir` loses nothing) -/
theorem isTargetDir_parent (c : PathCfg) (dir : Path) (x : String)
    (h : isTargetDir c (dir ++ [x]) = true) : isTargetDir c dir = true ∨ dir = [] ∧ False ∨ isTargetDir c dir = true := by
  left
  unfold isTargetDir at h ⊢
  simp only [Bool.and_eq_true, Bool.not_eq_true', Bool.or_eq_false_iff] at h ⊢
  obtain ⟨⟨⟨h1, h2⟩, h3⟩, h4⟩ := h
  refine ⟨⟨⟨?_, ?_⟩, ?_⟩, ?_⟩
  · cases dir with
    | nil => simp
    | cons a r => simpa using h1
  · rw [List.contains_eq_mem] at h2 ⊢
    simp only [decide_eq_false_iff_not, List.mem_append] at h2 ⊢
    intro hm; exact h2 (Or.inl hm)
  · rw [List.any_eq_false] at h3 ⊢
    intro e he hp
    exact h3 e he (List.isPrefixOf_iff_prefix.mpr ((List.isPrefixOf_iff_prefix.mp hp).trans (List.prefix_append _ _)))
  · cases hs : c.skipNested with
    | false => simp
    | true =>
      cases dir with
      | nil => simp
      | cons a r =>
        simp only [hs, List.isEmpty_cons, Bool.not_false, Bool.true_and, List.cons_append,
          Bool.and_true] at h4 ⊢
        rw [List.any_eq_false] at h4 ⊢
        intro q hq hp
        exact h4 q hq (List.isPrefixOf_iff_prefix.mpr ((List.isPrefixOf_iff_prefix.mp hp).trans (List.prefix_append _ _)))

theorem isTargetFile_dir (c : PathCfg) (dir : Path) (n : String) (h : isTargetFile c dir n = true) :
    isTargetDir c dir = true := by
  unfold isTargetFile at h
  simp only [Bool.and_eq_true] at h
  exact h.1.2

/-! no target file below a directory that is not a target -/
mutual
theorem select_pruned (c : PathCfg) (at_ : Path) (hat : isTargetDir c at_ = false) (t : Tree) :
    selectFiles c (allFiles at_ t) = [] := by
  cases t with
  | file n =>
    have : isTargetFile c at_ n = false := by
      cases hf : isTargetFile c at_ n with
      | false => rfl
      | true => rw [isTargetFile_dir c at_ n hf] at hat; cases hat
    simp [allFiles, selectFiles, this]
  | dir n cs =>
    have hd : isTargetDir c (at_ ++ [n]) = false := by
      cases hf : isTargetDir c (at_ ++ [n]) with
      | false => rfl
      | true =>
        rcases isTargetDir_parent c at_ n hf with h | h | h
        · rw [h] at hat; cases hat
        · exact absurd h.2 id
        · rw [h] at hat; cases hat
    simp only [allFiles]
    exact select_prunedL c (at_ ++ [n]) hd cs
theorem select_prunedL (c : PathCfg) (at_ : Path) (hat : isTargetDir c at_ = false) (ts : List Tree) :
    selectFiles c (allFilesL at_ ts) = [] := by
  cases ts with
  | nil => rfl
  | cons t r =>
    simp only [allFilesL, selectFiles, List.filter_append, List.map_append]
    have h1 := select_pruned c at_ hat t
    have h2 := select_prunedL c at_ hat r
    simp only [selectFiles] at h1 h2
    rw [h1, h2]; rfl
end

/-! **the walkers agree with the differs' rule**: for every directory tree, the pruned walk
    (prepareFiles / INIT / main scan) selects exactly the files the path-wise rule selects
    (precision 1–3) — the five places that decide eligibility cannot disagree. -/
mutual
theorem walkers_agree (c : PathCfg) (at_ : Path) (t : Tree) :
    walk c at_ t = selectFiles c (allFiles at_ t) := by
  cases t with
  | file n =>
    simp only [walk, allFiles, selectFiles]
    cases h : isTargetFile c at_ n <;> simp [h]
  | dir n cs =>
    simp only [walk, allFiles]
    cases h : isTargetDir c (at_ ++ [n]) with
    | true => simp only [if_true]; exact walkers_agreeL c (at_ ++ [n]) cs
    | false => simp only [Bool.false_eq_true, if_false]; exact (select_prunedL c _ h cs).symm
theorem walkers_agreeL (c : PathCfg) (at_ : Path) (ts : List Tree) :
    walkL c at_ ts = selectFiles c (allFilesL at_ ts) := by
  cases ts with
  | nil => rfl
  | cons t r =>
    simp only [walkL, allFilesL, selectFiles, List.filter_append, List.map_append]
    have h1 := walkers_agree c at_ t
    have h2 := walkers_agreeL c at_ r
    simp only [selectFiles] at h1 h2
    rw [h1, h2]
end

/-- non-vacuity: the rule on decoy directories (ignored: `ignoredir`; nested module: `nested`) -/
example :
    ([["vendor"], ["vendor", "x"], ["vendorx"], ["ignoredir"], ["ignoredirx"], ["nested", "sub"], ["pkg", "l0"],
      ["pkg", "l0", "testdata"], []].map
      (isTargetDir ⟨[["ignoredir"], ["pkg", "l0", "ignored_file.go"]], true, [["nested"]]⟩))
      = [false, false, true, false, true, false, true, false, true] := by
  decide

/-! ## the nested-module cache is transparent -/

theorem mem_ancestorsOrSelf (p a : Path) : a ∈ ancestorsOrSelf p ↔ ∃ k, k ≤ p.length ∧ a = p.take k := by
  unfold ancestorsOrSelf
  simp only [List.mem_reverse, List.mem_map, List.mem_range]
  constructor
  · rintro ⟨k, hk, rfl⟩; exact ⟨k, by omega, rfl⟩
  · rintro ⟨k, hk, rfl⟩; exact ⟨k, by omega, rfl⟩

theorem take_isPrefixOf (p : Path) (k : Nat) : (p.take k).isPrefixOf p = true := by
  rw [List.isPrefixOf_iff_prefix]
  exact List.take_prefix k p

theorem prefix_eq_take (r p : Path) (h : r.isPrefixOf p = true) : r = p.take r.length := by
  rw [List.isPrefixOf_iff_prefix] at h
  obtain ⟨t, rfl⟩ := h
  simp

/-- the upward walk finds a go.mod exactly when the specification says so -/
theorem uncached_is_spec (nested : List Path) (hn : ∀ r ∈ nested, r ≠ []) (dir : Path) :
    uncachedNested nested dir = specNested nested dir := by
  unfold uncachedNested specNested
  rw [Bool.eq_iff_iff]
  simp only [List.any_eq_true, Bool.and_eq_true, Bool.not_eq_true', List.contains_iff_mem, List.isEmpty_eq_false_iff]
  constructor
  · rintro ⟨a, ha, hne, hin⟩
    obtain ⟨k, hk, rfl⟩ := (mem_ancestorsOrSelf dir a).mp ha
    refine ⟨?_, dir.take k, hin, take_isPrefixOf dir k⟩
    intro h; subst h; simp at hne
  · rintro ⟨hne, r, hin, hpre⟩
    have hr := prefix_eq_take r dir hpre
    have hlen : r.length ≤ dir.length := by
      rw [List.isPrefixOf_iff_prefix] at hpre; exact hpre.length_le
    refine ⟨r, (mem_ancestorsOrSelf dir r).mpr ⟨r.length, hlen, hr⟩, ?_, hin⟩
    simpa using hn r hin

/-- every cached answer is the specification's -/
def CacheOK (nested : List Path) (cache : NCache) : Prop :=
  ∀ d b, cache.lookup d = some b → b = specNested nested d

/-- a directory below a directory of a nested module is in that nested module -/
theorem spec_of_ancestor (nested : List Path) (dir a : Path) (ha : a ∈ ancestorsOrSelf dir)
    (h : specNested nested a = true) : specNested nested dir = true := by
  obtain ⟨k, hk, rfl⟩ := (mem_ancestorsOrSelf dir a).mp ha
  unfold specNested at h ⊢
  simp only [Bool.and_eq_true, Bool.not_eq_true', List.isEmpty_eq_false_iff, List.any_eq_true] at h ⊢
  obtain ⟨hne, r, hin, hpre⟩ := h
  refine ⟨fun e => by subst e; simp at hne, r, hin, ?_⟩
  rw [List.isPrefixOf_iff_prefix] at hpre ⊢
  exact hpre.trans (List.take_prefix k dir)

/-- **one call**: with a cache that holds only correct answers, `IsBelongNestedModule` answers the
    specification and leaves such a cache -/
theorem query_correct (nested : List Path) (hn : ∀ r ∈ nested, r ≠ []) (cache : NCache) (dir : Path)
    (hc : CacheOK nested cache) :
    (queryNested nested cache dir).1 = specNested nested dir ∧ CacheOK nested (queryNested nested cache dir).2 := by
  unfold queryNested
  cases hl : cache.lookup dir with
  | some b => exact ⟨hc dir b hl, hc⟩
  | none =>
    simp only
    split
    · next hany =>
      simp only [List.any_eq_true, beq_iff_eq] at hany
      obtain ⟨a, ha, hla⟩ := hany
      have hsa : specNested nested a = true := (hc a true hla).symm
      have hs := spec_of_ancestor nested dir a ha hsa
      refine ⟨hs.symm, ?_⟩
      intro d b hd
      by_cases hdd : d = dir
      · subst hdd; simp [List.lookup] at hd; subst hd; exact hs.symm
      · have : (d == dir) = false := by simpa using hdd
        simp only [List.lookup, this] at hd
        exact hc d b hd
    · refine ⟨uncached_is_spec nested hn dir, ?_⟩
      intro d b hd
      by_cases hdd : d = dir
      · subst hdd; simp [List.lookup] at hd; subst hd; exact uncached_is_spec nested hn d
      · have : (d == dir) = false := by simpa using hdd
        simp only [List.lookup, this] at hd
        exact hc d b hd

/-- **the cache is transparent**: for every sequence of queries, in any order, starting from any
    cache of correct answers (the empty one in particular), every answer is the stateless
    specification's — the nested-module test does not depend on which directories were asked about
    before -/
theorem nested_cache_transparent (nested : List Path) (hn : ∀ r ∈ nested, r ≠ []) (qs : List Path) :
    ∀ cache, CacheOK nested cache → runNested nested cache qs = qs.map (specNested nested) := by
  induction qs with
  | nil => intro _ _; rfl
  | cons q r ih =>
    intro cache hc
    obtain ⟨h1, h2⟩ := query_correct nested hn cache q hc
    simp only [runNested, List.map_cons, h1, ih _ h2]

theorem nested_cache_transparent_empty (nested : List Path) (hn : ∀ r ∈ nested, r ≠ []) (qs : List Path) :
    runNested nested [] qs = qs.map (specNested nested) :=
  nested_cache_transparent nested hn qs [] (fun d b h => by simp [List.lookup] at h)

/-- the specification is the clause of `isTargetDir` -/
theorem isTargetDir_nested_clause (c : PathCfg) (dir : Path) (h : c.skipNested = true)
    (hs : specNested c.nestedRoots dir = true) : isTargetDir c dir = false := by
  unfold specNested at hs
  simp only [Bool.and_eq_true, Bool.not_eq_true', List.isEmpty_eq_false_iff] at hs
  unfold isTargetDir
  simp [h, hs.2, List.isEmpty_eq_false_iff.mpr hs.1]

/-- non-vacuity: a sibling asked after the module directory, a sub-directory asked before and after it -/
example : runNested [["plugin"]] [] [["plugin", "sub"], ["plugin"], ["pluginapi"], ["plugin", "sub", "x"], []] =
    [true, true, false, true, false] := by decide

end GoatSpec.C13
