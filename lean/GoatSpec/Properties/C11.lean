import GoatSpec.Proofs.Cmd
/-! # C11 — any sequence of track / patch / clean / edits keeps the project consistent.

Two layers, both by induction over operation lists of **any length**:
* the item-level project state: every file stays a well-formed arrangement around the user's
  current text (never loses user code), cleaning leaves no artefact and exactly that text, and
  track is a function of the file and the diff only, so track after clean reproduces the first
  instrumentation;
* the abstract machine Clean / Instrumented(N) / Dirty that labels the end-to-end operation
  sequences (`e2e sequences` compares exit status class and N with it after every step).
"Compiles" and the C05 tables after every step are end-to-end oracles. -/
namespace GoatSpec.C11
open GoatSpec

/-- run a list of file operations, each required to be admissible where it is applied -/
def runOps (f : FileSt) : List FileOp → FileSt
  | [] => f
  | op :: ops => runOps (fileStep f op) ops

def Admissible : FileSt → List FileOp → Prop
  | _, [] => True
  | f, op :: ops => op.admissible f ∧ Admissible (fileStep f op) ops

/-- **invariant preserved by every operation** -/
theorem inv_step (f : FileSt) (op : FileOp) (hf : f.ok) (ha : op.admissible f) : (fileStep f op).ok :=
  fileStep_ok f op hf ha

/-- **every reachable state satisfies the invariant** — for operation sequences of any length:
    the file is a well-formed arrangement whose non-blank user lines are the user's current text -/
theorem inv_reachable (f : FileSt) (ops : List FileOp) (hf : f.ok) (ha : Admissible f ops) : (runOps f ops).ok := by
  induction ops generalizing f with
  | nil => exact hf
  | cons op rest ih => exact ih (fileStep f op) (inv_step f op hf ha.1) ha.2

/-- **never loses user code, contains no artefact whenever clean**: after any admissible
    sequence, `goat clean` leaves only user items carrying exactly the user's current text -/
theorem clean_after_any_sequence (f : FileSt) (ops : List FileOp) (hf : f.ok) (ha : Admissible f ops) :
    let g := runOps f ops
    (∀ it ∈ (cleanFile g).items, it.kind = none)
    ∧ nonBlank (flatten (cleanFile g).items) = nonBlank g.text :=
  cleanFile_restores _ (inv_reachable f ops hf ha)

/-- **track after clean reproduces the first instrumentation**: on a file without artefacts,
    cleaning the tracked file gives the file back, so a second track with the same diff
    (same insert positions) produces the identical arrangement -/
theorem track_clean_track (f : FileSt) (idxs : List Nat) (hu : ∀ it ∈ f.items, it.kind = none) :
    trackFile (cleanFile (trackFile f idxs)) idxs = trackFile f idxs := by
  have : cleanFile (trackFile f idxs) = f := by
    cases f with
    | mk items text =>
      simp only [cleanFile, trackFile, userItems_insertBlocks]
      rw [userItems_of_all_user items hu]
  rw [this]

/-! ### the abstract machine -/

/-- **`goat track` on an already instrumented tree is refused** and changes nothing -/
theorem track_refused_when_instrumented (s : Abs) (p : Nat) (d : Bool) (h : s.instrumented = true) :
    absStep s (.track p d) = (s, .refused) := by
  simp only [Abs.instrumented, decide_eq_true_eq] at h
  simp [absStep, h]

/-- track is refused exactly when the tree is instrumented or dirty -/
theorem track_refused_iff (s : Abs) (p : Nat) (d : Bool) :
    (absStep s (.track p d)).2 = .refused ↔ (s.n > 0 ∨ d = true) := by
  simp only [absStep]
  by_cases h1 : s.n > 0
  · simp [h1]
  · cases d <;> simp [h1]

/-- patch and clean are never refused in a valid set-up; clean always ends un-instrumented -/
theorem clean_uninstruments (s : Abs) : (absStep s .clean).1.n = 0 ∧ (absStep s .clean).2 = .ok := by
  simp [absStep]

/-- track → clean → discard → track ends in the state of the first track (abstract form of
    "track after clean plus discarding formatting changes reproduces the first instrumentation") -/
theorem track_clean_discard_track (p : Nat) :
    absRun {} [.track p false, .clean, .discard, .track p false] = absRun {} [.track p false] := by
  simp [absRun, absStep]

/-- a refused or no-op step never changes the abstract state -/
theorem refused_keeps_state (s : Abs) (op : Op) (h : (absStep s op).2 = .refused) : (absStep s op).1 = s := by
  cases op with
  | track p d =>
    simp only [absStep] at h ⊢
    by_cases h1 : s.n > 0
    · simp [h1]
    · cases d <;> simp_all
  | patchDelete => simp [absStep] at h
  | patchInsert => simp [absStep] at h
  | patchNoop => simp [absStep] at h
  | clean => simp [absStep] at h
  | userEdit => simp [absStep] at h
  | commit => simp [absStep] at h
  | discard => simp [absStep] at h
  | switchGranularity => simp [absStep] at h

/-- non-vacuity: an admissible three-step sequence on a concrete file -/
example : Admissible ⟨[.user ['a'], .user ['b']], [['a'], ['b']]⟩ [.track [1], .clean, .track [0, 1]] := by
  refine ⟨trivial, trivial, trivial, trivial⟩

example : (⟨[.user ['a'], .user ['b']], [['a'], ['b']]⟩ : FileSt).ok := by
  refine ⟨by decide, by decide⟩

end GoatSpec.C11
