import GoatSpec.Proofs.Walk
import GoatSpec.Proofs.Mono
import GoatSpec.Proofs.FuncScope
/-! # C09 — tracking points appear only where a change justifies them, once.

The theorems are about the bookkeeping fold of `increment.go` (`runEvents`) for **every** event
list and every abstract file, by induction; the abstract file and the fold are tied to the code
by the `marks-stdlib` / `marks-gen` correspondence streams. -/
namespace GoatSpec.C09
open GoatSpec

/-- **no two tracking blocks adjacent, none misplaced** — for every event list, whenever the
    fold terminates normally: the multi-line positions are pairwise distinct, none is on a
    comment-like or blank line (so the code line they precede separates two blocks), each lies
    strictly inside a function body, and `count` equals the number of recorded positions. -/
theorem points_distinct_and_placed (env : Env) (evs : List Ev) (st : MState)
    (h : runEvents env evs = .ok st) :
    st.multi.Nodup ∧ (∀ l ∈ st.multi, env.isComment l = .ok false)
      ∧ (∀ l ∈ st.multi, searchScopes env.funcs l ≠ 0)
      ∧ st.count = st.multi.length + st.singles.length :=
  let i := runEvents_inv env evs st h
  ⟨i.nodup, i.notComment, i.inFunc, i.count⟩

/-- events that pass no changed-line test never change the state -/
theorem step_unchanged (env : Env) (hch : ∀ l b, env.isChanged l = .ok b → b = false)
    (st st' : MState) (ev : Ev) (hf : ev.isForce = false) (h : stepEv env st ev = .ok st') : st' = st := by
  cases ev with
  | force l => simp [Ev.isForce] at hf
  | check l =>
    simp only [stepEv] at h
    split at h
    · cases h
    · cases h; rfl
    · next hc => exact absurd (hch l true hc) (by simp)
  | single l c =>
    simp only [stepEv] at h
    split at h
    · cases h
    · cases h; rfl
    · next hc => exact absurd (hch l true hc) (by simp)

theorem fold_unchanged (env : Env) (hch : ∀ l b, env.isChanged l = .ok b → b = false)
    (evs : List Ev) (hf : ∀ ev ∈ evs, ev.isForce = false) :
    ∀ st st', evs.foldlM (stepEv env) st = .ok st' → st' = st := by
  induction evs with
  | nil => intro st st' h; simp [pure, Except.pure] at h; exact h.symm
  | cons ev rest ih =>
    intro st st' h
    obtain ⟨b', h1, h2⟩ := (foldlM_ok_cons _ _ _ _ _).mp h
    have e1 := step_unchanged env hch st b' ev (hf ev (by simp)) h1
    have e2 := ih (fun e he => hf e (by simp [he])) b' st' h2
    rw [e2, e1]

/-- with the constant-false changed predicate a declaration yields no `force` event -/
theorem declEvents_noForce (d : Decl) : ∀ ev ∈ declEvents (fun _ => false) d, ev.isForce = false := by
  intro ev h
  cases d with
  | funcDecl body =>
    cases body with
    | none => simp [declEvents] at h
    | some b =>
      obtain ⟨lb, rb, first, stmts⟩ := b
      cases first with
      | none => simp [declEvents] at h
      | some p =>
        simp only [declEvents, ctlL_false, List.append_nil] at h
        rcases List.mem_append.mp h with h | h
        · split at h
          · simp at h; subst h; rfl
          · cases h
        · exact evL_noForce stmts ev h
  | genDecl vs =>
    simp only [declEvents] at h
    rcases List.mem_append.mp h with h | h
    · obtain ⟨e, _, he⟩ := List.mem_flatMap.mp h
      cases e with
      | funcLit pl el lb rb first body =>
        simp only [globalLitEvents] at he
        split at he
        · cases he
        · split at he
          · simp at he; subst he; rfl
          · exact evL_noForce body ev he
      | call fn args => simp [globalLitEvents] at he
      | composite typ elts => simp [globalLitEvents] at he
      | keyValue k v => simp [globalLitEvents] at he
      | unary x => simp [globalLitEvents] at he
      | structType fs => simp [globalLitEvents] at he
      | other cs => simp [globalLitEvents] at he
    · obtain ⟨e, _, he⟩ := List.mem_flatMap.mp h
      cases e with
      | funcLit pl el lb rb first body => simp [globalLitCtl, ctlL_false] at he
      | call fn args => simp [globalLitCtl] at he
      | composite typ elts => simp [globalLitCtl] at he
      | keyValue k v => simp [globalLitCtl] at he
      | unary x => simp [globalLitCtl] at he
      | structType fs => simp [globalLitCtl] at he
      | other cs => simp [globalLitCtl] at he

/-- **files without a changed line receive no tracking point** — for every abstract file: when
    no line is reported changed, the fold ends in the initial state (count 0, no positions), so
    `doInsert` returns the original bytes. -/
theorem no_change_no_points (env : Env) (f : File)
    (hch : ∀ l b, env.isChanged l = .ok b → b = false) (st : MState)
    (h : runEvents env (fileEvents (fun _ => false) f) = .ok st) :
    st.multi = [] ∧ st.singles = [] ∧ st.count = 0 := by
  have hf : ∀ ev ∈ fileEvents (fun _ => false) f, ev.isForce = false := by
    intro ev hev
    obtain ⟨d, _, hd⟩ := List.mem_flatMap.mp hev
    exact declEvents_noForce d ev hd
  have := fold_unchanged env hch _ hf {} st h
  subst this
  exact ⟨rfl, rfl, rfl⟩

/-- at **func granularity** every call of `markInsert` is made with the line after the opening
    brace of a function scope that strictly contains the event line; hence every position is
    the first non-comment line of such a function body (its first statement) -/
theorem func_positions (env : Env) (hg : env.gran = .func) (st st' : MState) (line : Nat)
    (hinv : Inv env st) (h : forceMark env st line = .ok st') :
    ∀ l ∈ st'.multi, l ∈ st.multi ∨
      ∃ s e, env.funcs[searchScopes env.funcs line]? = some (s, e) ∧ searchScopes env.funcs line ≠ 0 ∧
        skipComments env (env.comments.size + 1) (s + 1) = .ok l := by
  unfold forceMark at h
  rw [hg] at h
  dsimp only at h
  split at h
  · cases h; intro l hl; exact Or.inl hl
  · next hne =>
    split at h
    · next s e hs =>
      have := (markInsert_spec env st st' (s + 1) hinv h).2.2.2.2.2
      intro l hl
      rcases this l hl with h1 | h1
      · exact Or.inl h1
      · exact Or.inr ⟨s, e, hs, by simpa using hne, h1⟩
    · cases h

/-- where an event on line `l` may put a tracking position: on the first non-comment line at or
    after `l` (line / patch / scope granularity), or on the first non-comment line after the
    opening brace of the function scope that strictly contains `l` (func granularity) -/
def Target (env : Env) (l r : Nat) : Prop :=
  (env.gran ≠ .func ∧ skipComments env (env.comments.size + 1) l = .ok r) ∨
  (env.gran = .func ∧ ∃ s e, env.funcs[searchScopes env.funcs l]? = some (s, e) ∧ searchScopes env.funcs l ≠ 0 ∧
      skipComments env (env.comments.size + 1) (s + 1) = .ok r)

/-- one `forceMark` adds at most the target of its own line -/
theorem forceMark_prov (env : Env) (st st' : MState) (l : Nat) (hinv : Inv env st)
    (h : forceMark env st l = .ok st') : ∀ r ∈ st'.multi, r ∈ st.multi ∨ Target env l r := by
  cases hg : env.gran with
  | func =>
    intro r hr
    rcases func_positions env hg st st' l hinv h r hr with h1 | ⟨s, e, h1, h2, h3⟩
    · exact Or.inl h1
    · exact Or.inr (Or.inr ⟨hg, s, e, h1, h2, h3⟩)
  | line =>
    unfold forceMark at h
    rw [hg] at h
    intro r hr
    rcases (markInsert_spec env st st' l hinv h).2.2.2.2.2 r hr with h1 | h1
    · exact Or.inl h1
    · exact Or.inr (Or.inl ⟨by rw [hg]; decide, h1⟩)
  | scope =>
    unfold forceMark at h
    rw [hg] at h
    simp only at h
    split at h
    · cases h; intro r hr; exact Or.inl hr
    · split at h
      · cases h; intro r hr; exact Or.inl hr
      · next t ht hv =>
        have hinv' : Inv env { st with visitedScopes := t.search l :: st.visitedScopes } :=
          ⟨hinv.nodup, hinv.notComment, hinv.inFunc, hinv.count⟩
        intro r hr
        rcases (markInsert_spec env _ st' l hinv' h).2.2.2.2.2 r hr with h1 | h1
        · exact Or.inl h1
        · exact Or.inr (Or.inl ⟨by rw [hg]; decide, h1⟩)
  | patch =>
    unfold forceMark at h
    rw [hg] at h
    simp only at h
    split at h
    · cases h; intro r hr; exact Or.inl hr
    · next t ht =>
      split at h
      · cases h
      · next ps hps =>
        generalize hst1 : (if (List.lookup (TScope.search l t) st.patch).isNone = true then
            ({ multi := st.multi, singles := st.singles, count := st.count, visitedScopes := st.visitedScopes,
               patch := (TScope.search l t, ps) :: st.patch } : MState) else st) = st1 at h
        have h1 : st1.multi = st.multi ∧ st1.singles = st.singles ∧ st1.count = st.count := by
          rw [← hst1]; split <;> simp
        have hinv1 : Inv env st1 :=
          ⟨h1.1 ▸ hinv.nodup, by rw [h1.1]; exact hinv.notComment, by rw [h1.1]; exact hinv.inFunc,
           by rw [h1.1, h1.2.1, h1.2.2]; exact hinv.count⟩
        split at h
        · cases h
        · cases h; intro r hr; rw [h1.1] at hr; exact Or.inl hr
        · split at h
          · next st2 ps2 hm hpm =>
            cases h
            intro r hr
            rcases (markInsert_spec env st1 st2 l hinv1 hm).2.2.2.2.2 r hr with h2 | h2
            · rw [h1.1] at h2; exact Or.inl h2
            · exact Or.inr (Or.inl ⟨by rw [hg]; decide, h2⟩)
          · cases h
          · cases h

/-- **tracking points only where a change justifies them** — for every event list and every
    granularity, whenever the fold terminates normally: every multi-line position is the target
    (`Target`) of a `check` event whose line is changed or of a `force` event (a changed header);
    nothing else ever becomes a position. Together with `no_change_no_points` (no changed line:
    no event passes) and `points_distinct_and_placed`. -/
theorem points_justified (env : Env) (evs : List Ev) :
    ∀ (st st' : MState), Inv env st → evs.foldlM (stepEv env) st = .ok st' →
      ∀ r ∈ st'.multi, r ∈ st.multi ∨
        ∃ l, ((Ev.check l ∈ evs ∧ env.isChanged l = .ok true) ∨ Ev.force l ∈ evs) ∧ Target env l r := by
  induction evs with
  | nil => intro st st' _ h r hr; simp [pure, Except.pure] at h; cases h; exact Or.inl hr
  | cons ev rest ih =>
    intro st st' hinv h r hr
    obtain ⟨b', h1, h2⟩ := (foldlM_ok_cons _ _ _ _ _).mp h
    have s1 := stepEv_spec env st b' ev hinv h1
    rcases ih b' st' s1.1 h2 r hr with hb | ⟨l, hl, ht⟩
    · -- r was already there after the head event
      cases ev with
      | check l =>
        simp only [stepEv] at h1
        split at h1
        · cases h1
        · cases h1; exact Or.inl hb
        · next hc =>
          rcases forceMark_prov env st b' l hinv h1 r hb with h3 | h3
          · exact Or.inl h3
          · exact Or.inr ⟨l, Or.inl ⟨by simp, hc⟩, h3⟩
      | force l =>
        rcases forceMark_prov env st b' l hinv h1 r hb with h3 | h3
        · exact Or.inl h3
        · exact Or.inr ⟨l, Or.inr (by simp), h3⟩
      | single l c =>
        simp only [stepEv] at h1
        split at h1
        · cases h1
        · cases h1; exact Or.inl hb
        · cases h1; exact Or.inl hb
    · refine Or.inr ⟨l, ?_, ht⟩
      rcases hl with ⟨hm, hc⟩ | hm
      · exact Or.inl ⟨List.mem_cons_of_mem _ hm, hc⟩
      · exact Or.inr (List.mem_cons_of_mem _ hm)

/-- **the number of tracking points never increases from line to patch / scope granularity**:
    for every event list (the events do not depend on the granularity), whenever both folds
    terminate normally, the positions chosen at patch or scope granularity are among those
    chosen at line granularity, the single-line positions are the same, and so
    `count` does not increase. -/
theorem coarser_sub_line (env : Env) (g : Gran) (hg : g ≠ .func) (evs : List Ev) (sC sL : MState)
    (hC : runEvents (env.withGran g) evs = .ok sC) (hL : runEvents (env.withGran .line) evs = .ok sL) :
    (∀ x ∈ sC.multi, x ∈ sL.multi) ∧ sC.singles = sL.singles ∧ sC.count ≤ sL.count := by
  have h := run_sub_line env g hg evs {} sC {} sL (Inv.init _) (Inv.init _) hC hL (by intro x hx; cases hx) rfl
  have iC := runEvents_inv _ evs sC hC
  have iL := runEvents_inv _ evs sL hL
  refine ⟨h.1, h.2, ?_⟩
  rw [iC.count, iL.count, h.2]
  have := List.Nodup.length_le_of_subset iC.nodup (fun x hx => h.1 x hx)
  omega

/-- **… nor from patch to scope granularity**: every scope key's first event inserts at patch
    granularity too (a fresh patch-scope array never blocks), so the scope positions are among
    the patch positions and `count` does not increase. Together with `coarser_sub_line`:
    count(line) ≥ count(patch) ≥ count(scope). -/
theorem scope_sub_patch (env : Env) (evs : List Ev) (sS sP : MState)
    (hS : runEvents (env.withGran .scope) evs = .ok sS) (hP : runEvents (env.withGran .patch) evs = .ok sP) :
    (∀ x ∈ sS.multi, x ∈ sP.multi) ∧ sS.singles = sP.singles ∧ sS.count ≤ sP.count := by
  have h0 : SPRel ({} : MState) ({} : MState) := by
    refine ⟨?_, rfl, ?_⟩
    · intro x hx; cases hx
    · intro key; rfl
  have h := run_scope_patch env evs {} sS {} sP (Inv.init _) (Inv.init _) hS hP h0
  have iS := runEvents_inv _ evs sS hS
  have iP := runEvents_inv _ evs sP hP
  refine ⟨h.sub, h.singles, ?_⟩
  rw [iS.count, iP.count, h.singles]
  have := List.Nodup.length_le_of_subset iS.nodup (fun x hx => h.sub x hx)
  omega

/-- **… nor from scope to func granularity** — the last link of the chain. This one is a counting
    argument, not an inclusion (a func position is the start of the function, a scope position the
    first changed statement of a block): for every event list, whenever both folds terminate
    normally and the two scope structures of the environment are coherent on the active lines
    (`cohOK`: a line inside a function lies in a track scope of that same function; the insert
    position of a keyed line lies inside a function; two lines with the same insert position have
    scope keys of the same function — decidable, evaluated by the harness on every judged input,
    `judge:coh`), the
    func run has no more positions than the scope run, the same single-line positions, and
    `count` does not increase. -/
theorem func_le_scope (env : Env) (evs : List Ev) (sF sS : MState)
    (hF : runEvents (env.withGran .func) evs = .ok sF) (hS : runEvents (env.withGran .scope) evs = .ok sS)
    (hc : cohOK env evs = true) :
    sF.multi.length ≤ sS.multi.length ∧ sF.singles = sS.singles ∧ sF.count ≤ sS.count := by
  obtain ⟨hcoh, hfresh⟩ := cohOK_spec env evs hc
  have h := run_func_scope env (activeLines env evs) evs rfl hcoh evs (fun _ h => h) {} sF {} sS
    (Inv.init _) (Inv.init _) hF hS (FSRel.init env _)
  have iF := runEvents_inv _ evs sF hF
  have iS := runEvents_inv _ evs sS hS
  -- p ~ q: q is the insert position of an active line whose key lies in the function placed at p
  let R : Nat → Nat → Prop := fun p q => ∃ l ∈ activeLines env evs, ∃ k, keyOf env l = some k ∧
    skipOf env l = .ok q ∧ funcPos env (keyFunc env k) = some p
  have h1 : sF.multi.length ≤ sS.multi.length := by
    apply length_le_of_rel R sF.multi sS.multi iF.nodup
    · intro p hp
      obtain ⟨k, hk, hfp⟩ := h.funcs p hp
      obtain ⟨l, hl, hkl, q, hq, hs⟩ := h.keys k hk
      exact ⟨q, hq, l, hl, k, hkl, hs, hfp⟩
    · intro p1 p2 q ⟨l1, hl1, k1, hk1, hs1, hf1⟩ ⟨l2, hl2, k2, hk2, hs2, hf2⟩
      have := hfresh l1 hl1 l2 hl2
      unfold freshPair at this
      rw [hs1, hs2] at this
      simp only [bne_self_eq_false, Bool.false_or, beq_iff_eq, lineFunc, hk1, hk2, Option.map_some,
        Option.some.injEq] at this
      rw [this] at hf1
      rw [hf1] at hf2
      exact Option.some.inj hf2
  refine ⟨h1, h.singles, ?_⟩
  rw [iF.count, iS.count, h.singles]
  omega

/-- **the whole chain for one file**: for every abstract file and changed-line set on which the
    tracker terminates normally at all four granularities (and the scope structures are coherent on
    the active lines, for the last link), the number of tracking points satisfies
    count(func) ≤ count(scope) ≤ count(patch) ≤ count(line). -/
theorem marks_count_chain (f : File) (ranges : List (Nat × Nat)) (mL mP mS mF : Marks)
    (hL : marks f .line ranges = .ok mL) (hP : marks f .patch ranges = .ok mP)
    (hS : marks f .scope ranges = .ok mS) (hF : marks f .func ranges = .ok mF)
    (envS : Env) (henv : mkEnv f .scope ranges = .ok envS)
    (hc : cohOK envS (fileEvents (fun l => envS.changed.getD l false) f) = true) :
    mF.count ≤ mS.count ∧ mS.count ≤ mP.count ∧ mP.count ≤ mL.count := by
  obtain ⟨eL, sL, heL, hrL, hcL⟩ := marks_eq f .line ranges mL hL
  obtain ⟨eP, sP, heP, hrP, hcP⟩ := marks_eq f .patch ranges mP hP
  obtain ⟨eS, sS, heS, hrS, hcS⟩ := marks_eq f .scope ranges mS hS
  obtain ⟨eF, sF, heF, hrF, hcF⟩ := marks_eq f .func ranges mF hF
  rw [henv] at heS; cases heS
  obtain ⟨fs, ch, tr, hfs, hch, rfl, htr⟩ := mkEnv_eq f .scope ranges _ henv
  obtain ⟨fs1, ch1, tr1, hfs1, hch1, rfl, _⟩ := mkEnv_eq f .line ranges _ heL
  obtain ⟨fs2, ch2, tr2, hfs2, hch2, rfl, htr2⟩ := mkEnv_eq f .patch ranges _ heP
  obtain ⟨fs3, ch3, tr3, hfs3, hch3, rfl, _⟩ := mkEnv_eq f .func ranges _ heF
  rw [hfs] at hfs1 hfs2 hfs3; cases hfs1; cases hfs2; cases hfs3
  rw [hch] at hch1 hch2 hch3; cases hch1; cases hch2; cases hch3
  have ht := htr (Or.inr rfl)
  rw [htr2 (Or.inl rfl)] at ht
  simp only [Option.some.injEq, Except.ok.injEq] at ht
  subst ht
  dsimp only at hrL hrP hrS hrF hc
  rw [run_env_irrel .line (Or.inl rfl) _ _ ch _ fs tr1 tr2] at hrL
  rw [run_env_irrel .func (Or.inr rfl) _ _ ch _ fs tr3 tr2] at hrF
  have a := func_le_scope ⟨.scope, _, ch, _, fs, tr2⟩ _ sF sS hrF hrS hc
  have b := scope_sub_patch ⟨.scope, _, ch, _, fs, tr2⟩ _ sS sP hrS hrP
  have c := coarser_sub_line ⟨.scope, _, ch, _, fs, tr2⟩ .patch (by decide) _ sP sL hrP hrL
  rw [hcL, hcP, hcS, hcF]
  exact ⟨a.2.2, b.2.2, c.2.2⟩


def exampleEnv : Env :=
  { gran := .line, n := 6, changed := #[false, false, false, true, false, true, false],
    comments := #[false, false, false, false, false, false, false], funcs := [(1, 7), (2, 6)], trees := [] }

/-- non-vacuity: the fold on a concrete two-event input ends in a state with one position -/
example : (runEvents exampleEnv [.check 3, .check 4]).toOption.map (·.multi) = some [3] := by
  decide

/-- non-vacuity of `func_le_scope`: function block (2, 9) with a child block (4, 7); changed
    statements on lines 5, 6 (child block) and 8 (function block) are coherent, the scope run
    places two calls, the func run one -/
def exampleCohEnv : Env :=
  { gran := .scope, n := 9, changed := #[false, false, false, false, false, true, true, false, true, false],
    comments := #[false, false, false, false, false, false, false, false, false, false],
    funcs := [(1, 10), (2, 9)], trees := [.mk 2 9 [.mk 4 7 []]] }

example : cohOK exampleCohEnv [.check 3, .check 5, .check 6, .check 8] = true := by
  simp [cohOK, activeLines, cohLine, selfKey, keyOf, keyFunc, skipOf, exampleCohEnv, searchTrees, TScope.search,
    searchChildren, skipComments, Env.isComment, searchScopes, TScope.s, TScope.e, List.zipIdx]

end GoatSpec.C09
