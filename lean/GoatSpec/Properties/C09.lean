import GoatSpec.Proofs.Walk
import GoatSpec.Proofs.Mono
/-! # C09 — tracking points appear only where a change justifies them, once.

The theorems are about the bookkeeping fold of `increment.go` (`runEvents`) for **every** event
list and every abstract file, by induction; the abstract file and the fold are tied to the code
by the `marks-stdlib` / `marks-gen` correspondence streams. -/
namespace GoatSpec.C09
open GoatSpec

/-- **no two tracking blocks adjacent, none misplaced** — for every event list, whenever the
    fold terminates normally: the multi-line positions are pairwise distinct, none is on a
    comment-like or blank line (so the code line they precede separates two blocks), each lies
    strictly inside a function body, and `count` equals the number of recorded positions. -/
theorem points_distinct_and_placed (env : Env) (evs : List Ev) (st : MState)
    (h : runEvents env evs = .ok st) :
    st.multi.Nodup ∧ (∀ l ∈ st.multi, env.isComment l = .ok false)
      ∧ (∀ l ∈ st.multi, searchScopes env.funcs l ≠ 0)
      ∧ st.count = st.multi.length + st.singles.length :=
  let i := runEvents_inv env evs st h
  ⟨i.nodup, i.notComment, i.inFunc, i.count⟩

/-- events that pass no changed-line test never change the state -/
theorem step_unchanged (env : Env) (hch : ∀ l b, env.isChanged l = .ok b → b = false)
    (st st' : MState) (ev : Ev) (hf : ev.isForce = false) (h : stepEv env st ev = .ok st') : st' = st := by
  cases ev with
  | force l => simp [Ev.isForce] at hf
  | check l =>
    simp only [stepEv] at h
    split at h
    · cases h
    · cases h; rfl
    · next hc => exact absurd (hch l true hc) (by simp)
  | single l c =>
    simp only [stepEv] at h
    split at h
    · cases h
    · cases h; rfl
    · next hc => exact absurd (hch l true hc) (by simp)

theorem fold_unchanged (env : Env) (hch : ∀ l b, env.isChanged l = .ok b → b = false)
    (evs : List Ev) (hf : ∀ ev ∈ evs, ev.isForce = false) :
    ∀ st st', evs.foldlM (stepEv env) st = .ok st' → st' = st := by
  induction evs with
  | nil => intro st st' h; simp [pure, Except.pure] at h; exact h.symm
  | cons ev rest ih =>
    intro st st' h
    obtain ⟨b', h1, h2⟩ := (foldlM_ok_cons _ _ _ _ _).mp h
    have e1 := step_unchanged env hch st b' ev (hf ev (by simp)) h1
    have e2 := ih (fun e he => hf e (by simp [he])) b' st' h2
    rw [e2, e1]

/-- with the constant-false changed predicate a declaration yields no `force` event -/
theorem declEvents_noForce (d : Decl) : ∀ ev ∈ declEvents (fun _ => false) d, ev.isForce = false := by
  intro ev h
  cases d with
  | funcDecl body =>
    cases body with
    | none => simp [declEvents] at h
    | some b =>
      obtain ⟨lb, rb, first, stmts⟩ := b
      cases first with
      | none => simp [declEvents] at h
      | some p =>
        simp only [declEvents, ctlL_false, List.append_nil] at h
        rcases List.mem_append.mp h with h | h
        · split at h
          · simp at h; subst h; rfl
          · cases h
        · exact evL_noForce stmts ev h
  | genDecl vs =>
    simp only [declEvents] at h
    rcases List.mem_append.mp h with h | h
    · obtain ⟨e, _, he⟩ := List.mem_flatMap.mp h
      cases e with
      | funcLit pl el lb rb first body =>
        simp only [globalLitEvents] at he
        split at he
        · cases he
        · split at he
          · simp at he; subst he; rfl
          · exact evL_noForce body ev he
      | call fn args => simp [globalLitEvents] at he
      | composite typ elts => simp [globalLitEvents] at he
      | keyValue k v => simp [globalLitEvents] at he
      | unary x => simp [globalLitEvents] at he
      | structType fs => simp [globalLitEvents] at he
      | other cs => simp [globalLitEvents] at he
    · obtain ⟨e, _, he⟩ := List.mem_flatMap.mp h
      cases e with
      | funcLit pl el lb rb first body => simp [globalLitCtl, ctlL_false] at he
      | call fn args => simp [globalLitCtl] at he
      | composite typ elts => simp [globalLitCtl] at he
      | keyValue k v => simp [globalLitCtl] at he
      | unary x => simp [globalLitCtl] at he
      | structType fs => simp [globalLitCtl] at he
      | other cs => simp [globalLitCtl] at he

/-- **files without a changed line receive no tracking point** — for every abstract file: when
    no line is reported changed, the fold ends in the initial state (count 0, no positions), so
    `doInsert` returns the original bytes. -/
theorem no_change_no_points (env : Env) (f : File)
    (hch : ∀ l b, env.isChanged l = .ok b → b = false) (st : MState)
    (h : runEvents env (fileEvents (fun _ => false) f) = .ok st) :
    st.multi = [] ∧ st.singles = [] ∧ st.count = 0 := by
  have hf : ∀ ev ∈ fileEvents (fun _ => false) f, ev.isForce = false := by
    intro ev hev
    obtain ⟨d, _, hd⟩ := List.mem_flatMap.mp hev
    exact declEvents_noForce d ev hd
  have := fold_unchanged env hch _ hf {} st h
  subst this
  exact ⟨rfl, rfl, rfl⟩

/-- at **func granularity** every call of `markInsert` is made with the line after the opening
    brace of a function scope that strictly contains the event line; hence every position is
    the first non-comment line of such a function body (its first statement) -/
theorem func_positions (env : Env) (hg : env.gran = .func) (st st' : MState) (line : Nat)
    (hinv : Inv env st) (h : forceMark env st line = .ok st') :
    ∀ l ∈ st'.multi, l ∈ st.multi ∨
      ∃ s e, env.funcs[searchScopes env.funcs line]? = some (s, e) ∧ searchScopes env.funcs line ≠ 0 ∧
        skipComments env (env.comments.size + 1) (s + 1) = .ok l := by
  unfold forceMark at h
  rw [hg] at h
  dsimp only at h
  split at h
  · cases h; intro l hl; exact Or.inl hl
  · next hne =>
    split at h
    · next s e hs =>
      have := (markInsert_spec env st st' (s + 1) hinv h).2.2.2.2.2
      intro l hl
      rcases this l hl with h1 | h1
      · exact Or.inl h1
      · exact Or.inr ⟨s, e, hs, by simpa using hne, h1⟩
    · cases h

/-- **the number of tracking points never increases from line to patch / scope granularity**:
    for every event list (the events do not depend on the granularity), whenever both folds
    terminate normally, the positions chosen at patch or scope granularity are among those
    chosen at line granularity, the single-line positions are the same, and so
    `count` does not increase. -/
theorem coarser_sub_line (env : Env) (g : Gran) (hg : g ≠ .func) (evs : List Ev) (sC sL : MState)
    (hC : runEvents (env.withGran g) evs = .ok sC) (hL : runEvents (env.withGran .line) evs = .ok sL) :
    (∀ x ∈ sC.multi, x ∈ sL.multi) ∧ sC.singles = sL.singles ∧ sC.count ≤ sL.count := by
  have h := run_sub_line env g hg evs {} sC {} sL (Inv.init _) (Inv.init _) hC hL (by intro x hx; cases hx) rfl
  have iC := runEvents_inv _ evs sC hC
  have iL := runEvents_inv _ evs sL hL
  refine ⟨h.1, h.2, ?_⟩
  rw [iC.count, iL.count, h.2]
  have := List.Nodup.length_le_of_subset iC.nodup (fun x hx => h.1 x hx)
  omega

/-- **… nor from patch to scope granularity**: every scope key's first event inserts at patch
    granularity too (a fresh patch-scope array never blocks), so the scope positions are among
    the patch positions and `count` does not increase. Together with `coarser_sub_line`:
    count(line) ≥ count(patch) ≥ count(scope). -/
theorem scope_sub_patch (env : Env) (evs : List Ev) (sS sP : MState)
    (hS : runEvents (env.withGran .scope) evs = .ok sS) (hP : runEvents (env.withGran .patch) evs = .ok sP) :
    (∀ x ∈ sS.multi, x ∈ sP.multi) ∧ sS.singles = sP.singles ∧ sS.count ≤ sP.count := by
  have h0 : SPRel ({} : MState) ({} : MState) := by
    refine ⟨?_, rfl, ?_⟩
    · intro x hx; cases hx
    · intro key; rfl
  have h := run_scope_patch env evs {} sS {} sP (Inv.init _) (Inv.init _) hS hP h0
  have iS := runEvents_inv _ evs sS hS
  have iP := runEvents_inv _ evs sP hP
  refine ⟨h.sub, h.singles, ?_⟩
  rw [iS.count, iP.count, h.singles]
  have := List.Nodup.length_le_of_subset iS.nodup (fun x hx => h.sub x hx)
  omega

def exampleEnv : Env :=
  { gran := .line, n := 6, changed := #[false, false, false, true, false, true, false],
    comments := #[false, false, false, false, false, false, false], funcs := [(1, 7), (2, 6)], trees := [] }

/-- non-vacuity: the fold on a concrete two-event input ends in a state with one position -/
example : (runEvents exampleEnv [.check 3, .check 4]).toOption.map (·.multi) = some [3] := by
  decide

end GoatSpec.C09
