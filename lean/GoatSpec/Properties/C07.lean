import GoatSpec.Proofs.Runtime
/-! # C07 — the generated runtime reports exactly what was executed

Model: `GoatSpec/Runtime.lean` (`Track`, `/track`, `/metrics` of the code rendered from
`increment.Template`, tied to the compiled code by the `runtime-ops` stream). Property predicates:
`GoatSpec/RuntimeSpec.lean` (`statusOK`, `trackOK`, `metricsOK`; the same predicates judge every
answer of the real handlers).

All statements are over *all* call sequences, *all* component structures (empty, overlapping,
unsorted, repeated ids), *all* query strings and *all* interleavings; nothing is bounded.
`#print axioms` of every theorem is audited by the check (⊆ propext, Quot.sound, Classical.choice). -/
namespace GoatSpec.C07
open GoatSpec GoatSpec.Runtime

/-! ## Track -/

/-- **C07 (counters).** After any sequence of `Track` calls on a fresh runtime with ids `1..n`:
    an id in range shows `min 1 (#calls)` in bool mode and `#calls mod 2^32` in count mode — the
    exact number of calls as long as it is below 2^32; every other slot (slot 0, anything outside
    the array) reads 0; the array keeps its length. -/
theorem status_counts (m : Mode) (n : Nat) (ops : List Int) (id : Nat) :
    (1 ≤ id ∧ id ≤ n → get (run m (initStatus n) ops) id
        = match m with
          | .bool => min 1 (occ id ops)
          | .count => occ id ops % W)
    ∧ (1 ≤ id ∧ id ≤ n → m = .count → occ id ops < W → get (run m (initStatus n) ops) id = occ id ops)
    ∧ (¬(1 ≤ id ∧ id ≤ n) → get (run m (initStatus n) ops) id = 0)
    ∧ (run m (initStatus n) ops).length = n + 1 := by
  have h := get_run_init ⟨m, n, []⟩ ops id
  simp only [expStatus] at h
  refine ⟨?_, ?_, ?_, ?_⟩
  · intro hr; rw [h, if_pos hr]; cases m <;> rfl
  · intro hr hm hlt; subst hm; rw [h, if_pos hr]; exact Nat.mod_eq_of_lt hlt
  · intro hr; rw [h, if_neg hr]
  · rw [length_run, length_initStatus]

/-- the same as one equation on the whole array, in the form the judge uses -/
theorem status_judge (cfg : Cfg) (ops : List Int) :
    statusOK cfg (expStatus cfg ops) (run cfg.mode (initStatus cfg.n) ops) = true := by
  simp only [statusOK, run_init_eq, beq_self_eq_true]

/-- a call with an id `≤ 0` or `≥ TRACK_ID_END` changes nothing, whatever the state -/
theorem track_ignores_out_of_range (m : Mode) (st : Status) (id : Int)
    (h : id ≤ 0 ∨ (st.length : Int) ≤ id) : track m st id = st :=
  track_out_of_range m st id h

/-- out-of-range calls can be deleted from any call sequence without changing the final state -/
theorem status_ignores_out_of_range (cfg : Cfg) (ops : List Int) :
    run cfg.mode (initStatus cfg.n) ops
      = run cfg.mode (initStatus cfg.n) (ops.filter (fun i => decide (0 < i ∧ i ≤ (cfg.n : Int)))) := by
  rw [run_init_eq, run_init_eq]
  apply List.map_congr_left
  intro id _
  simp only [expStatus]
  by_cases hr : 1 ≤ id ∧ id ≤ cfg.n
  · rw [if_pos hr, if_pos hr]
    congr 1
    simp only [occ]
    rw [List.count_filter]
    simp only [decide_eq_true_eq]
    omega
  · rw [if_neg hr, if_neg hr]

/-- the driver's closed-form evaluation of bursts (`idxK`) is the plain call sequence -/
theorem bursts_are_calls (cfg : Cfg) (ops : List (Int × Nat)) :
    runN cfg.mode (initStatus cfg.n) ops = run cfg.mode (initStatus cfg.n) (expand ops)
    ∧ expStatusN cfg ops = expStatus cfg (expand ops) :=
  ⟨runN_eq _ _ _, expStatusN_eq _ _⟩

/-! ## /track -/

/-- shape of the answer: an invalid component list is refused, otherwise one result per requested
    component in request order; an invalid `order` is order 0 -/
theorem track_answer (cfg : Cfg) (st : Status) (order component : Str) :
    trackHandler cfg st order component =
      match resolveAll cfg.comps component with
      | none => .invalid
      | some cs => .ok (cs.map (compResult cfg st (parseOrder order))) := by
  unfold trackHandler
  cases resolveAll cfg.comps component <;> rfl

theorem track_invalid_order (cfg : Cfg) (st : Status) (order component : Str)
    (h : atoi order = none ∨ ∃ v, atoi order = some v ∧ (v < 0 ∨ 3 < v)) :
    trackHandler cfg st order component = trackHandler cfg st ['0'] component := by
  have h0 : parseOrder order = 0 := by
    unfold parseOrder
    rcases h with h | ⟨v, hv, hr⟩
    · rw [h]
    · rw [hv]; simp only; rw [if_neg (by omega)]
  have h1 : parseOrder ['0'] = 0 := by decide
  simp only [trackHandler, h0, h1]

/-- **C07 (/track, per component).** For every component structure, call sequence and order the
    reported component has exactly the component's ids (as a multiset: equal keys may come in any
    order) each with the expected count, `total = |ids|`, `covered = #(count > 0)`,
    `rate = covered*100/total` (0 when empty), and the items respect the ordering key. -/
theorem track_report_component (cfg : Cfg) (ops : List Int) (o c : Nat) :
    let r := compResult cfg (run cfg.mode (initStatus cfg.n) ops) o c
    r.id = c ∧ r.name = compName cfg c
    ∧ r.items.Perm ((compIds cfg c).map (fun id => Item.mk id (expStatus cfg ops id)))
    ∧ r.total = (compIds cfg c).length
    ∧ r.covered = coveredCount r.items
    ∧ r.covered = ((compIds cfg c).filter (fun id => decide (expStatus cfg ops id > 0))).length
    ∧ r.rate = (if r.total = 0 then 0 else r.covered * 100 / r.total)
    ∧ sortedBy (keyLE o) r.items = true := by
  intro r
  have h := compResult_ok cfg (run cfg.mode (initStatus cfg.n) ops) (expStatus cfg ops)
    (get_run_init cfg ops) o c
  simp only [resultOK, Bool.and_eq_true, beq_iff_eq, List.isPerm_iff] at h
  obtain ⟨⟨⟨⟨⟨⟨h1, h2⟩, h3⟩, h4⟩, h5⟩, h6⟩, h7⟩ := h
  refine ⟨h1, h2, h3, h4, h5, ?_, h6, h7⟩
  have := (compResult_fields cfg (run cfg.mode (initStatus cfg.n) ops) o c).2.2.1
  rw [this]
  exact coveredOf_eq cfg _ _ (get_run_init cfg ops) c

/-- **C07 (/track).** The property predicate holds on the handler's answer for every component
    structure, call sequence and query (component by name / index / list / invalid, any order
    string). This is the predicate the check evaluates on the real handler's answers. -/
theorem track_report (cfg : Cfg) (ops : List Int) (order component : Str) :
    trackOK cfg (expStatus cfg ops) order component
      (trackHandler cfg (run cfg.mode (initStatus cfg.n) ops) order component) = true :=
  trackHandler_ok cfg _ _ (get_run_init cfg ops) order component

/-! ## /metrics (template after fix_c07.diff) -/

/-- **C07 (/metrics).** For every component structure (components without ids included), call
    sequence and value of `GOAT_CURRENT_COMPONENT`: the handler never panics; an unknown current
    component is refused; otherwise it prints, for all components resp. the current one, the
    totals of `/track` (same `total`, `covered`, `rate` as `compResult`, under any order). -/
theorem metrics_total (cfg : Cfg) (ops : List Int) (cur : Str) (o : Nat) :
    (metrics cfg (run cfg.mode (initStatus cfg.n) ops) cur =
      match targets cfg cur with
      | none => .invalid
      | some ts => .ok (rowsOfResults (ts.map (compResult cfg (run cfg.mode (initStatus cfg.n) ops) o))))
    ∧ (∀ p w, metrics cfg (run cfg.mode (initStatus cfg.n) ops) cur ≠ .panic p w)
    ∧ metricsOK cfg (expStatus cfg ops) cur (metrics cfg (run cfg.mode (initStatus cfg.n) ops) cur) = true := by
  have hst := get_run_init cfg ops
  have he := metrics_eq cfg (run cfg.mode (initStatus cfg.n) ops) cur
  refine ⟨?_, ?_, ?_⟩
  · rw [he]
    cases targets cfg cur with
    | none => rfl
    | some ts => simp only [rowsOfResults_map]
  · intro p w; rw [he]; cases targets cfg cur <;> simp
  · rw [he]
    unfold metricsOK
    cases targets cfg cur with
    | none => rfl
    | some ts =>
      simp only [expRows, metricValue, expRate, coveredOf_eq cfg _ _ hst, beq_iff_eq]
      congr 1
      apply List.map_congr_left; intro c _
      by_cases h : (compIds cfg c).length = 0
      · simp [h]
      · have h' : (compIds cfg c).length > 0 := by omega
        simp [h, h']

/-- `/metrics` refuses exactly an unknown, non-empty current component -/
theorem metrics_refuses_only_unknown (cfg : Cfg) (st : Status) (cur : Str) :
    metrics cfg st cur = .invalid ↔ (cur ≠ [] ∧ lookupName cfg.comps cur = none) := by
  rw [metrics_eq]
  unfold targets
  cases cur with
  | nil => simp
  | cons a r =>
    cases lookupName cfg.comps (a :: r) <;> simp

/-! ## concurrent callers (race: true) -/

/-- **C07 (atomic updates).** With `race: true` every `Track` call is one atomic store / add on
    the status array. Any interleaving of the calls of any number of concurrent callers leaves
    the same final state as running the callers one after the other — the per-id updates commute. -/
theorem atomic_interleave (m : Mode) (st : Status) {ls : List (List Int)} {s : List Int}
    (h : Interleave ls s) : run m st s = run m st ls.flatten :=
  run_perm m h.perm st

/-- hence exact counts for every interleaving -/
theorem atomic_interleave_counts (cfg : Cfg) {ls : List (List Int)} {s : List Int}
    (h : Interleave ls s) (id : Nat) :
    get (run cfg.mode (initStatus cfg.n) s) id = expStatus cfg ls.flatten id := by
  rw [atomic_interleave cfg.mode _ h, get_run_init]

/-- two calls commute on every state (the step behind `atomic_interleave`) -/
theorem track_commutes (m : Mode) (st : Status) (a b : Int) :
    track m (track m st a) b = track m (track m st b) a :=
  track_comm m st a b

/-! ## the pinned template (before fix_c07.diff): witnesses of D-C07-1 / D-C07-2

True statements about `metricsPreFix`, the loop-faithful model of the handler as it was at the
pinned commit (slices sized by the number of target components, indexed by component id;
unguarded division). Both inputs were found by the `runtime-ops` stream on the real code
(`C07_phase1_violation.txt`). -/

def witnessEmpty : Cfg := ⟨.bool, 30, [⟨['-', '1'], []⟩]⟩
def witnessSecond : Cfg := ⟨.bool, 3, [⟨['a'], [3, 1, 2]⟩, ⟨['b'], [2, 2]⟩]⟩

/-- D-C07-1: one component without tracking points, nothing executed, no current component:
    integer divide by zero after two metric lines -/
theorem metricsPreFix_div_zero : metricsPreFix witnessEmpty (initStatus 30) [] = .panic .div0 2 := by decide

/-- D-C07-2: `GOAT_CURRENT_COMPONENT` names the second component: index out of range [1] with
    length 1 before anything is written -/
theorem metricsPreFix_index_oob : metricsPreFix witnessSecond (initStatus 3) ['b'] = .panic (.oob 1 1) 0 := by
  decide

/-- the property predicate rejects both answers, and accepts the fixed handler's -/
theorem metricsPreFix_violates :
    metricsOK witnessEmpty (expStatus witnessEmpty []) [] (metricsPreFix witnessEmpty (initStatus 30) []) = false
    ∧ metricsOK witnessSecond (expStatus witnessSecond []) ['b'] (metricsPreFix witnessSecond (initStatus 3) ['b']) = false
    ∧ metrics witnessEmpty (initStatus 30) [] = .ok [⟨.total, ['-', '1'], 0⟩, ⟨.covered, ['-', '1'], 0⟩, ⟨.ratio, ['-', '1'], 0⟩]
    ∧ metrics witnessSecond (initStatus 3) ['b'] = .ok [⟨.total, ['b'], 2⟩, ⟨.covered, ['b'], 0⟩, ⟨.ratio, ['b'], 0⟩] := by
  decide

/-! ## non-vacuity -/

def demo : Cfg := ⟨.count, 5, [⟨['m'], [1, 2]⟩, ⟨['c', '/', 'x'], []⟩, ⟨['y'], [2, 5]⟩]⟩

/-- counters: in range, out of range, repeated -/
example : run .count (initStatus 5) [1, 1, 5, 9, -1, 0] = [0, 2, 0, 0, 0, 1] := by decide
example : run .bool (initStatus 5) [1, 1, 5, 9, -1, 0] = [0, 1, 0, 0, 0, 1] := by decide
example : occ 1 [1, 1, 5, 9, -1, 0] = 2 ∧ occ 1 [1, 1, 5, 9, -1, 0] < W := by decide
/-- `uint32` wrap-around: one more call on a counter at 2^32-1 gives 0 -/
example : track .count [0, W - 1] 1 = [0, 0] := by decide
example : trackN .count (initStatus 1) 1 (W + 3) = [0, 3] := by decide

/-- `/track?order=3&component=y,0` after `Track(1) Track(1) Track(5) Track(9) Track(-1)`
    (the answer of the compiled runtime for the same input) -/
example : trackHandler demo (run .count (initStatus 5) [1, 1, 5, 9, -1]) ['3'] ['y', ',', '0']
    = .ok [⟨2, ['y'], 2, 1, 50, [⟨5, 1⟩, ⟨2, 0⟩]⟩, ⟨0, ['m'], 2, 1, 50, [⟨2, 0⟩, ⟨1, 2⟩]⟩] := by decide
example : trackHandler demo (initStatus 5) [] ['z'] = .invalid := by decide
example : trackHandler demo (initStatus 5) [] ['3'] = .invalid := by decide
example : resolveAll demo.comps ['1', ',', 'm', ',', '-', '0'] = some [1, 0, 0] := by decide
example : atoi ['a'] = none ∧ atoi ['7'] = some 7 ∧ parseOrder ['7'] = 0 ∧ parseOrder ['+', '2'] = 2 := by decide

/-- `/metrics` with an empty component and with the third component selected -/
example : metrics demo (run .count (initStatus 5) [1, 1, 5]) []
    = .ok [⟨.total, ['m'], 2⟩, ⟨.total, ['c', '/', 'x'], 0⟩, ⟨.total, ['y'], 2⟩,
           ⟨.covered, ['m'], 1⟩, ⟨.covered, ['c', '/', 'x'], 0⟩, ⟨.covered, ['y'], 1⟩,
           ⟨.ratio, ['m'], 50⟩, ⟨.ratio, ['c', '/', 'x'], 0⟩, ⟨.ratio, ['y'], 50⟩] := by decide
example : metrics demo (initStatus 5) ['y'] = .ok [⟨.total, ['y'], 2⟩, ⟨.covered, ['y'], 0⟩, ⟨.ratio, ['y'], 0⟩] := by decide
example : metrics demo (initStatus 5) ['n', 'o'] = .invalid := by decide

/-- an interleaving of three callers that is not a concatenation -/
example : Interleave [[1, 2], [3], [2, 2]] [2, 1, 3, 2, 2] :=
  .step 2 [2] rfl (.step 0 [2] rfl (.step 1 [] rfl (.step 0 [] rfl (.step 2 [] rfl (.done (by simp))))))

end GoatSpec.C07
