import GoatSpec.Properties.C01
/-! # C09 (continued) — where a tracking block may stand at line granularity, on well-formed files.

Kept apart from `Properties/C09.lean` because it needs the layout lemmas of `Proofs/Legal`
(which are stated over `MarkSpec` / `Layout`, above the event-list level of C09.lean). -/
namespace GoatSpec.C09
open GoatSpec

/-- **line_shape (C09, line granularity, on well-formed files): a tracking block stands only
    directly before a changed statement or at the start of a branch.** For every abstract file
    that meets `wfFile`, every changed-line set: each multi-line position `r` at line granularity
    is either the first line of a statement of a block of the file and itself a changed line, or
    the first boundary (first statement, or closing line when empty) of a branch block — the body
    of an if / else / for / range / case / comm clause — forced by a changed header. Nothing else
    ever becomes a position. -/
theorem line_shape (f : File) (hwf : wfFile f = true)
    (ranges : List (Nat × Nat)) (m : Marks) (h : marks f .line ranges = .ok m)
    (env : Env) (henv : mkEnv f .line ranges = .ok env) :
    ∀ r ∈ m.multi,
      (∃ b ∈ fileBlks f, r ∈ b.lines ∧ env.isChanged r = .ok true) ∨
      (∃ b ∈ fileBlks f, b.header ≠ [] ∧ b.lo < b.hi ∧ r = b.firstBoundary) := by
  intro r hr
  unfold marks at h
  rw [henv] at h
  dsimp only at h
  split at h
  · cases h
  · next st hst =>
    cases h
    rw [C03.mem_sortNat] at hr
    have hgran : env.gran = .line := C03.mkEnv_gran f .line ranges env henv
    obtain ⟨hcm, hfs⟩ := C01.mkEnv_fields f .line ranges env henv
    have hinv := runEvents_inv env _ st hst
    simp only [wfFile, Bool.and_eq_true, List.all_eq_true] at hwf
    obtain ⟨⟨hshape, hblks⟩, hone⟩ := hwf
    rcases C09.points_justified env _ {} st (Inv.init env) hst r hr with h0 | ⟨l, hl, ht⟩
    · cases h0
    · have hskip : skipComments env (env.comments.size + 1) l = .ok r := by
        rcases ht with ⟨_, h1⟩ | ⟨h1, _⟩
        · exact h1
        · rw [hgran] at h1; cases h1
      rcases hl with ⟨hev, hchg⟩ | hev
      · obtain ⟨d, hd, hdev⟩ := List.mem_flatMap.mp hev
        rcases decl_check _ d (hshape d hd) l hdev with hc | ⟨lb, rb, first, stmts, rfl, hlr, hin⟩
        · obtain ⟨b, hb, hlb, hm⟩ := hc
          have hbf : b ∈ fileBlks f := List.mem_flatMap.mpr ⟨d, hd, hb⟩
          have hbok := hblks b hbf
          have hlt : b.lo < b.hi := by
            have hle : b.lo ≤ b.hi := by
              have := hbok.1; simp only [blkOK, Bool.and_eq_true, decide_eq_true_eq] at this; exact this.1
            rcases hm with hne | hh
            · omega
            · have := hbok.2
              simp only [forcedOK, Bool.or_eq_true, List.isEmpty_iff, decide_eq_true_eq] at this
              rcases this with h1 | h1
              · exact absurd h1 hh
              · exact h1
          have hrl := check_target_eq env f hcm b hbok.1 hlt l hlb _ r hskip
          subst hrl
          exact Or.inl ⟨b, hbf, hlb, hchg⟩
        · simp only [oneLinersOK, hfs] at hone
          have := (List.all_eq_true.mp hone) _ hd
          simp only [hlr, bne_self_eq_false, Bool.false_or, Bool.and_eq_true, beq_iff_eq, Bool.not_eq_true',
            decide_eq_true_eq, List.all_eq_true] at this
          obtain ⟨⟨⟨⟨hs0, hnc⟩, h1⟩, hsz⟩, hall⟩ := this
          have hl' : l = rb := by simpa [Ev.checkLineIs] using hall _ hin
          rw [hl'] at hskip
          have hcmt := isComment_of_codes env f hcm rb h1 hsz
          rw [hnc] at hcmt
          rw [skipComments_id env _ rb hcmt] at hskip
          cases hskip
          exact absurd hs0 (hinv.inFunc _ hr)
      · obtain ⟨d, hd, hdev⟩ := List.mem_flatMap.mp hev
        obtain ⟨b, hb, hlb, hh⟩ := decl_force _ d (hshape d hd) l hdev
        have hbf : b ∈ fileBlks f := List.mem_flatMap.mpr ⟨d, hd, hb⟩
        have hbok := hblks b hbf
        have hlt : b.lo < b.hi := by
          have := hbok.2
          simp only [forcedOK, Bool.or_eq_true, List.isEmpty_iff, decide_eq_true_eq] at this
          rcases this with h1 | h1
          · exact absurd h1 hh
          · exact h1
        subst hlb
        exact Or.inr ⟨b, hbf, hh, hlt, force_target_eq env f hcm b hbok.1 hlt _ r hskip⟩

end GoatSpec.C09
