import GoatSpec.Diff
import GoatSpec.Proofs.Diff
/-! # C04 — diff analysis never misses an added or modified line

  Theorems about the model of the diff stage (GoatSpec.Diff), for **all** chunk lists, flag
  vectors, commit tables and slot arrays (induction, nothing bounded).  go-git is not modelled:
  A4 (chunks concatenate to the two blobs) is the *shape* of `walk_sound` (old/new are defined as
  those concatenations), A5 enters `walk_bound` as "first and last chunk are Equal", A6 (blame
  faithfulness) is an explicit hypothesis of `blame_sound_ancestry`.  The three assumptions are
  monitored on every generated case by `judge:diff` (streams diff-pairs, diff-histories). -/
namespace GoatSpec.C04
open GoatSpec GoatSpec.Diff

/-- **precision 2/3 never misses a line** — for every chunk list whose chunks are whole lines, with
    `old` = concatenation of the non-Add chunks and `new` = concatenation of the non-Delete chunks:
    the ranges `getLineChange` reports are sorted, pairwise disjoint and inside `1 .. |new|`; the
    unreported lines of `new`, in order, are exactly the lines of the Equal chunks; and those form a
    subsequence of `old`. -/
theorem walk_sound {α : Type} (cs : List (LChunk α)) :
    rangesWF 1 (newOf cs).length (getLineChange true true (num cs)) = true ∧
    unreported (getLineChange true true (num cs)) (newOf cs) = eqOf cs ∧
    (eqOf cs).Sublist (oldOf cs) := by
  refine ⟨?_, ?_, eqOf_sublist_old cs⟩
  · simp only [getLineChange, Bool.not_true, Bool.false_eq_true, if_false]
    exact walk_wf 1 0 _ _ (by omega) (by rw [newLen_num]; omega)
  · simp only [getLineChange, Bool.not_true, Bool.false_eq_true, if_false, unreported]
    exact unreported_walk cs 0

/-- the property's wording: the unreported lines of the new file, in order, occur in the same order
    in the old file — hence no added or modified line is missed -/
theorem walk_never_misses {α : Type} (cs : List (LChunk α)) :
    (unreported (getLineChange true true (num cs)) (newOf cs)).Sublist (oldOf cs) := by
  rw [(walk_sound cs).2.1]; exact (walk_sound cs).2.2

/-- the reported lines are exactly the lines of the Add chunks -/
theorem walk_reports_added {α : Type} (cs : List (LChunk α)) :
    reported (getLineChange true true (num cs)) (newOf cs) = addOf cs := by
  simp only [getLineChange, Bool.not_true, Bool.false_eq_true, if_false, reported]
  exact reported_walk cs 0

/-- **identical ⇒ not reported**: only Equal chunks ⇒ no range at all, the file is dropped by
    `analyzeChange` at precision 2 and 3 -/
theorem walk_identical (cs : List NChunk) (h : ∀ c ∈ cs, c.1 = Kind.eq) (elig : Bool) :
    getLineChange true true cs = [] ∧ analyzeV2 elig true true cs = none ∧ analyzeV3 elig .modify cs = none := by
  have hw : ∀ nl, walk nl cs = [] := by
    induction cs with
    | nil => intro nl; rfl
    | cons c r ih =>
      intro nl
      obtain ⟨k, n⟩ := c
      have hk : k = Kind.eq := h (k, n) (by simp)
      subst hk
      simp only [walk]
      exact ih (fun c hc => h c (by simp [hc])) _
  have hg : getLineChange true true cs = [] := by simp [getLineChange, hw]
  refine ⟨hg, ?_, ?_⟩
  · simp only [analyzeV2, hg]; cases elig <;> simp
  · simp only [analyzeV3, hg]; cases elig <;> simp

/-- **bound**: if the first and the last chunk are Equal (A5: diffmatchpatch trims the common
    leading and trailing lines into them), the number of reported lines is at most
    `|new| − |first| − |last|` -/
theorem walk_bound {α : Type} (first last : List α) (mid : List (LChunk α)) :
    let cs := (Kind.eq, first) :: mid ++ [(Kind.eq, last)]
    rangeLines (getLineChange true true (num cs)) + first.length + last.length ≤ (newOf cs).length := by
  intro cs
  simp only [getLineChange, Bool.not_true, Bool.false_eq_true, if_false]
  rw [rangeLines_walk, newOf_length]
  have : (eqOf cs).length = first.length + (eqOf mid).length + last.length := by
    show (eqOf ((Kind.eq, first) :: (mid ++ [(Kind.eq, last)]))).length = _
    simp [eqOf, sel_append]; omega
  omega

/-- the same bound on the reported lines themselves -/
theorem walk_bound_reported {α : Type} (first last : List α) (mid : List (LChunk α)) :
    let cs := (Kind.eq, first) :: mid ++ [(Kind.eq, last)]
    (reported (getLineChange true true (num cs)) (newOf cs)).length + first.length + last.length ≤ (newOf cs).length := by
  intro cs
  rw [walk_reports_added, newOf_length]
  have : (eqOf cs).length = first.length + (eqOf mid).length + last.length := by
    show (eqOf ((Kind.eq, first) :: (mid ++ [(Kind.eq, last)]))).length = _
    simp [eqOf, sel_append]; omega
  omega

theorem totalNewlines_num {α : Type} (cs : List (LChunk α)) (h : ∀ c ∈ cs, c.1 = Kind.add) :
    totalNewlines (num cs) = (newOf cs).length := by
  induction cs with
  | nil => rfl
  | cons c r ih =>
    obtain ⟨k, ls⟩ := c
    have hk : k = Kind.add := h (k, ls) (by simp)
    subst hk
    have := ih (fun c hc => h c (by simp [hc]))
    simp only [totalNewlines, num, newOf, List.map_map] at this ⊢
    simp [this]

/-- **a file new to the revision is reported in full**: `from = nil` ⇒ one range `(1, |new|)`,
    well-formed, leaving no line unreported -/
theorem newfile_full {α : Type} (cs : List (LChunk α)) (h : ∀ c ∈ cs, c.1 = Kind.add) :
    getLineChange false true (num cs) = [(1, (newOf cs).length)] ∧
    rangesWF 1 (newOf cs).length (getLineChange false true (num cs)) = true ∧
    unreported (getLineChange false true (num cs)) (newOf cs) = [] := by
  have hg : getLineChange false true (num cs) = [(1, (newOf cs).length)] := by
    simp [getLineChange, totalNewlines_num cs h]
  refine ⟨hg, ?_, ?_⟩
  · rw [hg]; simp [rangesWF]; omega
  · rw [hg]
    have := unreportedFrom_inside 1 (newOf cs).length [] 1 (newOf cs) ([] : List α) (Nat.le_refl _) (Nat.le_refl _)
    simpa [unreported, unreportedFrom] using this

/-- **the blame loop outputs exactly the maximal runs of `{i | isNew i}`** — for every flag vector:
    non-empty ranges, sorted, separated by at least one unflagged line, inside `1 .. n`
    (`runsWF`), and line `j` is covered iff its flag is set. -/
theorem blame_runs (flags : List Bool) :
    runsWF 1 flags.length (blameRanges flags) ∧
    rangesWF 1 flags.length (blameRanges flags) = true ∧
    (∀ j, covered (blameRanges flags) j = (decide (1 ≤ j) && flags.getD (j - 1) false)) := by
  obtain ⟨h1, h2⟩ := blameGo_spec flags 0 none trivial
  simp only [ShapeOK, Nat.zero_add] at h2
  refine ⟨h2, runsWF_rangesWF h2, ?_⟩
  intro j
  have := h1 j
  simpa [blameRanges, coveredCur, flagAt] using this

/-- the unreported / reported lines of the blame walk are the lines whose flag is clear / set -/
theorem blame_partition {α : Type} (flags : List Bool) (ls : List α) (h : ls.length = flags.length) :
    unreported (blameRanges flags) ls = pick false ls flags ∧ reported (blameRanges flags) ls = pick true ls flags := by
  have hc : ∀ j, 0 + 1 ≤ j → covered (blameRanges flags) j = flagAt 0 flags j := by
    intro j _
    have := (blameGo_spec flags 0 none trivial).1 j
    simpa [blameRanges, coveredCur] using this
  exact ⟨unreportedFrom_of_flags _ ls 0 flags h hc, reportedFrom_of_flags _ ls 0 flags h hc⟩

/-- **precision 1 never misses a line (fixed rule, under A6)**.  `blame` = the commit go-git blames
    each line of the new file to; every blamed commit is in the table (`loadCommits` loads every
    commit object).  A6, the explicit hypothesis: the lines blamed to the old revision or one of its
    ancestors (`anc` decides reachability through parent links) occur, in order, in the old version
    of the file.  Then the lines precision 1 leaves unreported form a subsequence of the old file. -/
theorem blame_sound_ancestry {α : Type} (t : Table) (old : Nat) (blame : List Nat) (new oldLines : List α)
    (hlen : new.length = blame.length)
    (hknown : ∀ h ∈ blame, (lookup t h).isSome = true)
    (anc : Nat → Bool) (hanc : ∀ h, anc h = true ↔ Reach t old h)
    (A6 : (pick false new (blame.map (fun h => !anc h))).Sublist oldLines) :
    ∀ rs, v1Ranges (isNewAncestry t old) new.length blame = some rs →
      rangesWF 1 new.length rs = true ∧ (unreported rs new).Sublist oldLines := by
  intro rs hrs
  simp only [v1Ranges] at hrs
  have hnlt : ¬ blame.length < new.length := by omega
  simp only [hnlt, if_false, Option.some.injEq] at hrs
  have htake : blame.take new.length = blame := by rw [hlen]; exact List.take_length
  rw [htake] at hrs
  subst hrs
  have hfl : (blame.map (isNewAncestry t old)).length = new.length := by simp [hlen]
  refine ⟨by have := (blame_runs (blame.map (isNewAncestry t old))).2.1; rwa [hfl] at this, ?_⟩
  rw [(blame_partition _ new (by simp [hlen])).1]
  refine (pick_false_sublist new _ _ (by simp) ?_).trans A6
  intro k hk
  -- a line the ancestry rule calls new is not blamed to an ancestor-or-self of old
  by_cases hkl : k < blame.length
  · have e1 : (blame.map (fun h => !anc h)).getD k false = !anc blame[k] := by simp [List.getD, hkl]
    have e2 : (blame.map (isNewAncestry t old)).getD k false = isNewAncestry t old blame[k] := by simp [List.getD, hkl]
    rw [e1] at hk; rw [e2]
    cases hn : isNewAncestry t old blame[k] with
    | true => rfl
    | false =>
      have := not_new_is_ancestor t old blame[k] (hknown _ (List.getElem_mem hkl)) hn
      have := (hanc _).mpr this
      simp [this] at hk
  · have : (blame.map (fun h => !anc h)).getD k false = false := by
      rw [List.getD_eq_getElem?_getD, List.getElem?_eq_none (by simp; omega)]; rfl
    rw [this] at hk; cases hk

/-- *witness*: the rule of the unchanged tree (committer timestamps) calls a merged feature commit
    that is older than the stable tip "old", and so does it with a later commit of the same second;
    the ancestry rule calls both new.  Table of the pull-request history found by diff-histories
    (C04_phase1_violation.txt): 0 ← 1 (feature, t=10), 0 ← 2 (stable tip, t=1100), merge 3 = (2,1). -/
theorem timestamp_rule_misses :
    let t : Table := [⟨0, 0, []⟩, ⟨1, 10, [0]⟩, ⟨2, 1100, [0]⟩, ⟨3, 5100, [2, 1]⟩]
    isNewTimestamp t 2 1100 1 = false ∧ isNewAncestry t 2 1 = true ∧
    (let s : Table := [⟨0, 7, []⟩, ⟨1, 7, [0]⟩]
     isNewTimestamp s 0 7 1 = false ∧ isNewAncestry s 0 1 = true) := by decide

/-- **INIT reports the whole file**: one range `(1, len(strings.Split(content,"\n")))`, in bounds of
    the instrumenter's array, covering every line of the file -/
theorem init_full (content : List Char) {α : Type} (ls : List α) (h : ls.length ≤ (splitNL content).length) :
    rangesWF 1 (splitNL content).length [initRange content] = true ∧ unreported [initRange content] ls = [] := by
  refine ⟨?_, ?_⟩
  · have : 1 + (splitNL content).length ≤ (splitNL content).length + 1 := by omega
    simp [rangesWF, initRange, this]
  have := unreportedFrom_inside 1 (splitNL content).length [] 1 ls ([] : List α) (Nat.le_refl _) (by omega)
  simpa [unreported, unreportedFrom, initRange] using this

/-- `strings.Split(content, "\n")` has one element more than there are newline characters -/
theorem splitNL_length (content : List Char) : (splitNL content).length = (content.filter (· == '\n')).length + 1 := by
  induction content with
  | nil => rfl
  | cons c r ih =>
    simp only [splitNL]
    cases h : splitNL r with
    | nil => rw [h] at ih; simp at ih
    | cons x xs =>
      rw [h] at ih
      by_cases hc : (c == '\n') = true
      · simp [hc] at ih ⊢; omega
      · simp [hc] at ih ⊢; omega

/-- INIT skips the generated file and nothing else among the walked files -/
theorem init_all_files (gen : String) (files : List (String × List Char)) (p : String) (c : List Char)
    (h : (p, c) ∈ files) (hp : p ≠ gen) : (p, [initRange c]) ∈ initChanges gen files := by
  simp only [initChanges, List.mem_map, List.mem_filter]
  exact ⟨(p, c), ⟨h, by simpa using hp⟩, rfl⟩

/-- **compaction keeps exactly the non-nil entries** (as a multiset; the order is not preserved) -/
theorem filter_sound {α : Type} (l : List (Option α)) : (filterValid l).Perm (l.filterMap id) :=
  filterGo_perm l.length l (Nat.le_refl _)

/-- **the executor's sort canonicalises**: two lists with the same entries and pairwise distinct
    paths sort to the same list -/
theorem sort_canonical {β : Type} (l1 l2 : List (String × β)) (hp : l1.Perm l2) (hn : (l1.map (·.1)).Nodup) :
    sortByPath l1 = sortByPath l2 := by
  apply List.Perm.eq_of_pairwise (le := fun a b => a.1 ≤ b.1) _ (sortByPath_sorted l1) (sortByPath_sorted l2)
  · exact (sortByPath_perm l1).trans (hp.trans (sortByPath_perm l2).symm)
  · intro a b ha hb hab hba
    have ha' : a ∈ l1 := (sortByPath_perm l1).subset ha
    have hb' : b ∈ l1 := hp.symm.subset ((sortByPath_perm l2).subset hb)
    exact eq_of_key_eq l1 hn a ha' b hb' (String.le_antisymm hab hba)

/-- **the sorted result is independent of the compaction order**: the swap-to-end compaction
    followed by the sort equals the order-preserving compaction followed by the sort (paths of the
    surviving entries pairwise distinct — go-git lists every path once).  Hence ids (numbered in
    this order, C05) do not depend on which slot a file occupied. -/
theorem numbering_perm {β : Type} (slots : List (Option (String × β)))
    (hn : ((slots.filterMap id).map (·.1)).Nodup) :
    sortByPath (filterValid slots) = sortByPath (slots.filterMap id) := by
  have hp := filter_sound slots
  exact sort_canonical _ _ hp ((hp.map (·.1)).nodup_iff.mpr hn)

/-- **dispatch is total**: `getDiff` chooses INIT exactly for `oldBranch = "INIT"` (whatever the
    precision), otherwise precision 1/2/3, and refuses everything else -/
theorem dispatch_total (old : String) (p : Int) :
    (dispatch old p = .init ↔ old = "INIT") ∧
    (old ≠ "INIT" → (dispatch old p = .v1 ↔ p = 1) ∧ (dispatch old p = .v2 ↔ p = 2) ∧ (dispatch old p = .v3 ↔ p = 3) ∧
      (dispatch old p = .invalid ↔ p ≠ 1 ∧ p ≠ 2 ∧ p ≠ 3)) := by
  constructor
  · simp only [dispatch]
    by_cases h : old = "INIT"
    · simp [h]
    · simp only [beq_iff_eq, h, if_false, iff_false]
      repeat' split
      all_goals simp
  · intro h
    simp only [dispatch, beq_iff_eq, h, if_false]
    by_cases h1 : p = 1
    · subst h1; simp
    · by_cases h2 : p = 2
      · subst h2; simp
      · by_cases h3 : p = 3
        · subst h3; simp
        · simp [h1, h2, h3]

/-- deleted files, ineligible paths and files without a reported line never appear -/
theorem never_appear (cs : List NChunk) (elig hf : Bool) (a : Action) (rs : List Range) :
    analyzeV2 elig hf false cs = none ∧ analyzeV2 false hf true cs = none ∧
    analyzeV3 elig .delete cs = none ∧ analyzeV3 false a cs = none ∧
    analyzeV1 elig .delete rs = none ∧ analyzeV1 false a rs = none := by
  refine ⟨by simp [analyzeV2], by simp [analyzeV2], rfl, by cases a <;> simp [analyzeV3], rfl, by cases a <;> simp [analyzeV1]⟩

/-! ## non-vacuity -/

/-- old = a b c d, new = a X c Y Z d : ranges (2,1) (4,2); unreported a c d ⊑ old -/
example :
    let cs : List (LChunk String) := [(.eq, ["a"]), (.del, ["b"]), (.add, ["X"]), (.eq, ["c"]), (.add, ["Y", "Z"]), (.eq, ["d"])]
    getLineChange true true (num cs) = [(2, 1), (4, 2)] ∧ unreported [(2, 1), (4, 2)] (newOf cs) = ["a", "c", "d"] ∧
    oldOf cs = ["a", "b", "c", "d"] ∧ reported [(2, 1), (4, 2)] (newOf cs) = ["X", "Y", "Z"] := by decide
/-- the Add chunk with 0 newlines (unterminated last line): a range of 0 lines -/
example : getLineChange true true [(.eq, 1), (.del, 0), (.add, 0)] = [(2, 0)] := by decide
example : getLineChange false true [(.add, 0)] = [(1, 0)] := by decide
example : blameRanges [true, true, false, true, false, false, true] = [(1, 2), (4, 1), (7, 1)] := by decide
example : filterValid [none, some "a", none, some "b", some "c", none] = ["c", "a", "b"] := by decide
example : sortByPath [("c", 1), ("a", 2), ("b", 3)] = [("a", 2), ("b", 3), ("c", 1)] := by decide
example : initRange "a\nb\n".toList = (1, 3) := by decide
example : ancestors [⟨0, 0, []⟩, ⟨1, 10, [0]⟩, ⟨2, 1100, [0]⟩, ⟨3, 5100, [2, 1]⟩] 2 = [0, 2] := by decide
example : dispatch "INIT" 9 = .init ∧ dispatch "main" 2 = .v2 ∧ dispatch "main" 0 = .invalid := by decide
/-- the hypotheses of `blame_sound_ancestry` are satisfiable with a reported line -/
example : v1Ranges (isNewAncestry [⟨0, 0, []⟩, ⟨1, 10, [0]⟩, ⟨2, 1100, [0]⟩, ⟨3, 5100, [2, 1]⟩] 2) 3 [0, 1, 2] = some [(2, 1)] := by decide

end GoatSpec.C04
