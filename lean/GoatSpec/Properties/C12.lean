import GoatSpec.Cmd
import GoatSpec.SkelSpec
import GoatSpec.Proofs.Skel
/-! # C12 — refused or failed commands leave the working tree untouched.

The model evaluates the preconditions in the order of the code and only then produces a write
plan, so a refusal carries no write by construction; the theorems state, precondition by
precondition, that its failure is a refusal. The tie is `e2e refusals`: for every scenario the
real command's exit status, the hook's write log, and sha256 of every work-tree file, the git
index, HEAD and refs, compared with this plan. -/
namespace GoatSpec.C12
open GoatSpec

def writesOf (r : Except Refusal (List Write)) : List Write :=
  match r with | .ok ws => ws | .error _ => []

/-- **a refusal writes nothing** -/
theorem refused_no_writes (e : CmdEnv) (c : Cmd) (r : Refusal) (h : plan e c = .error r) :
    writesOf (plan e c) = [] := by
  rw [h]; rfl

/-- not a Go module / not a git repository: every command is refused -/
theorem not_go_module (e : CmdEnv) (c : Cmd) (h : e.goMod = false) : plan e c = .error .notGoModule := by
  cases c <;> simp [plan, preRun, h]

theorem not_git_repo (e : CmdEnv) (c : Cmd) (h1 : e.goMod = true) (h : e.dotGit = false) :
    plan e c = .error .notGitRepo := by
  cases c <;> simp [plan, preRun, h1, h]

/-- missing or invalid configuration: track, patch and clean are refused -/
theorem config_missing (e : CmdEnv) (c : Cmd) (hc : c ≠ .init) (h1 : e.goMod = true) (h2 : e.dotGit = true)
    (h : e.configExists = false) : plan e c = .error .configMissing := by
  cases c <;> simp_all [plan, preRun, loadCfg]

theorem config_invalid (e : CmdEnv) (c : Cmd) (hc : c ≠ .init) (h1 : e.goMod = true) (h2 : e.dotGit = true)
    (h3 : e.configExists = true) (h : (e.configParses && e.configValid) = false) :
    plan e c = .error .configInvalid := by
  have hl : loadCfg e = some .configInvalid := by simp [loadCfg, h3, h]
  cases c with
  | init => exact absurd rfl hc
  | track => simp [plan, preRun, h1, h2, hl]
  | patch => simp [plan, preRun, h1, h2, hl]
  | clean => simp [plan, preRun, h1, h2, hl]

/-- init: an existing configuration without --force, or invalid flags, is refused -/
theorem init_existing (e : CmdEnv) (h1 : e.goMod = true) (h2 : e.dotGit = true)
    (h3 : e.configExists = true) (h4 : e.force = false) : plan e .init = .error .configExists := by
  simp [plan, preRun, h1, h2, h3, h4]

theorem init_invalid (e : CmdEnv) (h1 : e.goMod = true) (h2 : e.dotGit = true)
    (h3 : (e.configExists && !e.force) = false) (h4 : e.initFlagsValid = false) :
    plan e .init = .error .configInvalid := by
  simp only [plan, preRun, h1, h2, h4]
  simp only [Bool.and_eq_false_iff] at h3
  rcases h3 with h | h <;> simp [h] <;> simp_all

/-- track: each remaining precondition, given that the earlier ones hold -/
structure TrackReady (e : CmdEnv) : Prop where
  goMod : e.goMod = true
  dotGit : e.dotGit = true
  cfgE : e.configExists = true
  cfgP : e.configParses = true
  cfgV : e.configValid = true

theorem track_already_instrumented (e : CmdEnv) (r : TrackReady e) (h : e.generatedExists = true) :
    plan e .track = .error .alreadyInstrumented := by
  simp [plan, preRun, loadCfg, r.goMod, r.dotGit, r.cfgE, r.cfgP, r.cfgV, h]

theorem track_uncommitted (e : CmdEnv) (r : TrackReady e) (hg : e.generatedExists = false)
    (h : e.worktreeClean = false) : plan e .track = .error .uncommitted := by
  simp [plan, preRun, loadCfg, r.goMod, r.dotGit, r.cfgE, r.cfgP, r.cfgV, hg, h]

theorem track_old_unresolvable (e : CmdEnv) (r : TrackReady e) (hg : e.generatedExists = false)
    (hw : e.worktreeClean = true) (hi : e.isInit = false) (h : e.oldResolves = false) :
    plan e .track = .error .oldUnresolvable := by
  simp [plan, preRun, loadCfg, r.goMod, r.dotGit, r.cfgE, r.cfgP, r.cfgV, hg, hw, hi, h]

theorem track_new_not_head (e : CmdEnv) (r : TrackReady e) (hg : e.generatedExists = false)
    (hw : e.worktreeClean = true) (hi : e.isInit = false) (ho : e.oldResolves = true)
    (hn : e.newResolves = true) (h : e.newIsHead = false) :
    plan e .track = .error .newNotHead := by
  simp [plan, preRun, loadCfg, r.goMod, r.dotGit, r.cfgE, r.cfgP, r.cfgV, hg, hw, hi, ho, hn, h]

theorem track_no_main (e : CmdEnv) (r : TrackReady e) (hg : e.generatedExists = false)
    (hw : e.worktreeClean = true) (hrev : e.isInit = true ∨ (e.oldResolves = true ∧ e.newResolves = true ∧ e.newIsHead = true))
    (h : e.hasMain = false) : plan e .track = .error .noMain := by
  rcases hrev with hi | ⟨ho, hn, hh⟩
  · simp [plan, preRun, loadCfg, r.goMod, r.dotGit, r.cfgE, r.cfgP, r.cfgV, hg, hw, hi, h]
  · simp [plan, preRun, loadCfg, r.goMod, r.dotGit, r.cfgE, r.cfgP, r.cfgV, hg, hw, ho, hn, hh, h]

theorem track_parse_error (e : CmdEnv) (r : TrackReady e) (hg : e.generatedExists = false)
    (hw : e.worktreeClean = true) (hrev : e.isInit = true ∨ (e.oldResolves = true ∧ e.newResolves = true ∧ e.newIsHead = true))
    (hm : e.hasMain = true) (h : e.changedFilesParse = false) : plan e .track = .error .parseError := by
  rcases hrev with hi | ⟨ho, hn, hh⟩
  · simp [plan, preRun, loadCfg, r.goMod, r.dotGit, r.cfgE, r.cfgP, r.cfgV, hg, hw, hi, hm, h]
  · simp [plan, preRun, loadCfg, r.goMod, r.dotGit, r.cfgE, r.cfgP, r.cfgV, hg, hw, ho, hn, hh, hm, h]

/-- patch and clean: a marked file that does not parse is a refusal (all files are prepared,
    hence parsed, before the first write) -/
theorem patch_clean_parse_error (e : CmdEnv) (r : TrackReady e) (hm : e.hasMain = true)
    (hk : e.hasMarkers = true) (h : e.changedFilesParse = false) :
    plan e .patch = .error .parseError ∧ plan e .clean = .error .parseError := by
  constructor
  · simp [plan, preRun, loadCfg, r.goMod, r.dotGit, r.cfgE, r.cfgP, r.cfgV, hm, hk, h]
  · simp [plan, preRun, loadCfg, r.goMod, r.dotGit, r.cfgE, r.cfgP, r.cfgV, hk, h]

/-- **a successful run that finds nothing to do changes nothing** -/
theorem nothing_to_do_no_writes (e : CmdEnv) (r : TrackReady e) (hm : e.hasMain = true) :
    (e.generatedExists = false → e.worktreeClean = true →
      (e.isInit = true ∨ (e.oldResolves = true ∧ e.newResolves = true ∧ e.newIsHead = true)) →
      e.changedFilesParse = true → e.hasPoints = false → plan e .track = .ok [])
    ∧ (e.hasMarkers = false → plan e .patch = .ok [])
    ∧ (e.hasMarkers = false → plan e .clean = .ok []) := by
  refine ⟨?_, ?_, ?_⟩
  · intro hg hw hrev hp hpts
    rcases hrev with hi | ⟨ho, hn, hh⟩
    · simp [plan, preRun, loadCfg, r.goMod, r.dotGit, r.cfgE, r.cfgP, r.cfgV, hg, hw, hi, hm, hp, hpts]
    · simp [plan, preRun, loadCfg, r.goMod, r.dotGit, r.cfgE, r.cfgP, r.cfgV, hg, hw, ho, hn, hh, hm, hp, hpts]
  · intro h; simp [plan, preRun, loadCfg, r.goMod, r.dotGit, r.cfgE, r.cfgP, r.cfgV, hm, h]
  · intro h; simp [plan, preRun, loadCfg, r.goMod, r.dotGit, r.cfgE, r.cfgP, r.cfgV, h]

/-- non-vacuity: a valid environment in which track writes -/
example : plan ⟨true, true, true, true, true, false, true, false, false, true, true, true, true, true, true, true, false⟩ .track
    = .ok [.generated, .source, .mainEntry] := by simp [plan, preRun, loadCfg]

/-! ## the same structure, read off the source

`vh skeleton` translates /repo's Go source into `Skeleton.bodies` on every run (go/types: static
callees, calls through project interfaces, external calls whose last result is `error`, new
error values, hooks, file-system mutations). The theorems below are evaluated on that
regenerated value, so they are re-proved against what the code says now. Branches are
flattened and loops doubled: "may run after" is over-approximated. -/
section skeleton
open GoatSpec.SkelSpec

/-- the summary table the analyses read is a fixed point of the transfer function over the
    current skeleton (checked in the kernel, one round over every function body) -/
theorem skeleton_table_fixed : isFixedPoint = true := by decide +kernel

/-- **the table is sound**: it lies above every finite unrolling of the transfer function from
    the empty table — hence above the least fixed point the analyses mean — so every "at most"
    fact read off it (the theorems below, and those of C15 / C06 / C10 / C08) holds of the least
    fixed point too. (`Proofs/Skel.iter_le_fixed`: monotonicity of the transfer function by
    mutual structural induction over the skeleton.) -/
theorem skeleton_table_sound : ∀ n, TblLe (iter n bottom) table := by
  have hfix : round table = table := by
    have h : isFixedPoint = true := by decide +kernel
    simp only [isFixedPoint, Bool.and_eq_true, beq_iff_eq] at h
    exact h.1.1
  have hwf : TblWf table := tblWf_of_all table (by decide +kernel)
  exact iter_le_fixed table hfix hwf

/-- **the hooks see every write**: every file-system mutation in the project's non-test source
    (os.WriteFile/Create/OpenFile/Remove/RemoveAll/Rename/Mkdir*/…, io/ioutil, os/exec,
    go-git work-tree operations) is directly preceded by `verifhook.Boundary` — so the write log
    and the tree hashes of `e2e refusals`, and the crash points of `e2e crash`, miss none -/
theorem every_mutation_hooked : unhooked = [] := by decide +kernel

/-- the functions that mutate the file system themselves (everything else writes through them) -/
theorem writer_functions : writers =
    [("pkg/config.InitWithConfig", ["os.Create"]),
     ("pkg/goat.CleanExecutor.clean", ["os.Remove", "os.RemoveAll"]),
     ("pkg/goat.PatchExecutor.apply", ["os.RemoveAll"]),
     ("pkg/maininfo.MainPackageInfo.ApplyMainEntry", ["os.WriteFile", "os.WriteFile"]),
     ("pkg/tracking/increment.Values.Remove", ["os.Remove"]),
     ("pkg/tracking/increment.Values.Save", ["os.MkdirAll", "os.WriteFile"]),
     ("pkg/utils.FormatAndSave", ["os.WriteFile"])] := by decide +kernel

/-- **`goat track`: what can still fail once the first file has been written.** Exactly the
    re-parse / re-print / stat of content the command itself produced (FormatAndSave,
    ApplyMainEntry, AddImport): every precondition, the diff, the parse of every changed file,
    the numbering, the validation and rendering of the generated file come before the first
    mutation. A new fallible step behind a write (a check moved or added too late) lands in this
    list and breaks the theorem. -/
theorem track_late_failures : late "cmd/goat.trackCmd" =
    [("pkg/maininfo.MainPackageInfo.ApplyMainEntry", "go/parser.ParseFile"),
     ("pkg/maininfo.MainPackageInfo.ApplyMainEntry", "os.ReadFile"),
     ("pkg/maininfo.MainPackageInfo.ApplyMainEntry", "os.Stat"),
     ("pkg/utils.AddCodes", "go/printer.Config.Fprint"),
     ("pkg/utils.AddImport", "fmt.Errorf (new error)"),
     ("pkg/utils.FormatAndSave", "os.Stat"),
     ("pkg/utils.FormatAst", "go/printer.Config.Fprint"),
     ("pkg/utils.GetAstTree", "go/parser.ParseFile")] := by decide +kernel

/-- `goat patch`: in addition the generated file is validated and rendered after the sources were
    saved, and the emptied package directory is listed -/
theorem patch_late_failures : late "cmd/goat.patchCmd" =
    [("pkg/config.GetDataType", "fmt.Errorf (new error)"),
     ("pkg/maininfo.MainPackageInfo.ApplyMainEntry", "go/parser.ParseFile"),
     ("pkg/maininfo.MainPackageInfo.ApplyMainEntry", "os.ReadFile"),
     ("pkg/maininfo.MainPackageInfo.ApplyMainEntry", "os.Stat"),
     ("pkg/tracking/increment.Values.Render", "text/template.Template.Parse"),
     ("pkg/tracking/increment.Values.Render", "text/template.Template.Execute"),
     ("pkg/tracking/increment.Values.Validate", "fmt.Errorf (new error)"),
     ("pkg/utils.AddCodes", "go/printer.Config.Fprint"),
     ("pkg/utils.AddImport", "fmt.Errorf (new error)"),
     ("pkg/utils.FormatAndSave", "os.Stat"),
     ("pkg/utils.FormatAst", "go/printer.Config.Fprint"),
     ("pkg/utils.GetAstTree", "go/parser.ParseFile"),
     ("pkg/utils.IsDirEmpty", "os.Open"),
     ("pkg/utils.IsDirEmpty", "os.File.Readdirnames")] := by decide +kernel

theorem clean_late_failures : late "cmd/goat.cleanCmd" =
    [("pkg/utils.FormatAndSave", "os.Stat"),
     ("pkg/utils.FormatAst", "go/printer.Config.Fprint"),
     ("pkg/utils.GetAstTree", "go/parser.ParseFile"),
     ("pkg/utils.IsDirEmpty", "os.Open"),
     ("pkg/utils.IsDirEmpty", "os.File.Readdirnames")] := by decide +kernel

/-- `goat init`: the flag record is validated and the template parsed before the file is created -/
theorem init_late_failures : late "cmd/goat.initCmd" =
    [("pkg/config.InitWithConfig", "text/template.Template.Execute")] := by decide +kernel

/-- the four commands are the functions of these names, and each of them can mutate the tree
    (non-vacuity of the four theorems above) -/
example : (["cmd/goat.trackCmd", "cmd/goat.patchCmd", "cmd/goat.cleanCmd", "cmd/goat.initCmd"].all
    (fun c => known c && mutates c)) = true := by decide +kernel

end skeleton

end GoatSpec.C12
