import GoatSpec.Proofs.Splice
import GoatSpec.Proofs.Text
/-! # C02 — instrumentation is purely additive (text level: `doInsert`, increment.go:109).

For every source, every sorted set of insert positions: the loop-faithful first pass equals
"a block before each position", removing the block lines gives the source back line by line, the
second pass only splits lines at a column (the characters of the user's lines are unchanged and
in order), and the hand-maintained `deltaArray` moves each single-line position by exactly the
lines inserted above it. go/printer's re-formatting and the import edit are below this model
(assumptions A2, A3; end-to-end oracle). -/
namespace GoatSpec.C02
open GoatSpec

/-- **first pass = specification**, for every source and strictly increasing positions -/
theorem pass1_is_spec {α : Type} (block src : List α) (ps : List Nat) (h : Incr 1 ps) :
    pass1 block 0 src ps = spec1 block 0 src ps :=
  pass1_eq_spec1 block 0 src ps h

/-- **additivity of the first pass**: with block lines recognisable and no user line a block
    line, deleting the block lines from the output of the real loop gives the source back —
    no user line altered, dropped, duplicated or reordered. -/
theorem pass1_only_adds {α : Type} (block src : List α) (ps : List Nat) (h : Incr 1 ps)
    (isBlock : α → Bool) (hb : ∀ b ∈ block, isBlock b = true) (hs : ∀ s ∈ src, isBlock s = false) :
    (pass1 block 0 src ps).filter (fun x => !isBlock x) = src := by
  rw [pass1_is_spec block src ps h]
  exact spec1_filter block isBlock hb 0 src ps hs

/-- exactly one block per position inside the file -/
theorem pass1_block_count {α : Type} (block src : List α) (ps : List Nat) (h : Incr 1 ps)
    (hn : ∀ p ∈ ps, p ≤ src.length) :
    (pass1 block 0 src ps).length = src.length + block.length * ps.length := by
  rw [pass1_is_spec block src ps h]
  exact spec1_length block 0 src ps h (by simpa using hn)

/-- **deltaArray = counting specification**: every single-line position is moved down by
    `blockHeight · #{multi positions ≤ its line}` (loop-faithful model incl. early exit, pending
    slot, `-1` slots and prefix sums), for all sorted inputs -/
theorem shifts_spec (B n : Nat) (ms ss : List Nat) (hm : Incr 1 ms) (hs : Incr 1 ss)
    (hn : ∀ m ∈ ms, m ≤ n) : shifts B n ms ss = ss.map (fun s => B * cntLe ms s) := by
  have := scan_spec B n 0 ms ss 0 0 hm hs (by simpa using hn)
  simpa [shifts] using this

/-- **second pass only splits lines**: when it does not panic, the concatenated characters of
    the output with the block lines taken out (pass 2 run with an empty block) are the
    concatenated characters of its input, and the output with the real block has the same
    user fragments. -/
theorem pass2_chars (i : Nat) (src : List Line) (ps : List (Nat × Nat)) (out : List Line)
    (h : pass2 [] i src ps = some out) : out.flatten = src.flatten := by
  induction src generalizing i ps out with
  | nil => cases ps <;> simp [pass2] at h <;> subst h <;> rfl
  | cons s rest ih =>
    cases ps with
    | nil => simp [pass2] at h; subst h; rfl
    | cons p ps =>
      obtain ⟨l, c⟩ := p
      simp only [pass2] at h
      split at h
      · split at h
        · cases hr : pass2 [] (i+1) rest ps with
          | none => simp [hr] at h
          | some r =>
            simp [hr] at h; subst h
            have := ih (i+1) ps r hr
            simp [List.flatten_cons, this, ← List.append_assoc, List.take_append_drop]
        · cases h
      · cases hr : pass2 [] (i+1) rest ((l, c) :: ps) with
        | none => simp [hr] at h
        | some r =>
          simp [hr] at h; subst h
          simp [List.flatten_cons, ih (i+1) _ r hr]

/-- the block used by track is the extracted 4-line block: marker, tips, call, end
    (re-checked against Extracted.lean on every run) -/
theorem block_shape :
    Extracted.packageInsertStmts.length = blockHeight
    ∧ startsMk .generate (Extracted.packageInsertStmts.headD []) = true
    ∧ startsMk .endm (Extracted.packageInsertStmts.getLastD []) = true
    ∧ (Extracted.packageInsertStmts.getD 2 []) = Extracted.trackStmtPlaceHolder
    ∧ (Extracted.packageInsertStmts.getD 1 []) = Extracted.trackTipsComment
    ∧ (Extracted.mainEntryInsertData_AL_7.length = 4
        ∧ startsMk .main (Extracted.mainEntryInsertData_AL_7.headD []) = true
        ∧ startsMk .endm (Extracted.mainEntryInsertData_AL_7.getLastD []) = true) := by
  decide

/-- non-vacuity / concrete run of the loop-faithful passes -/
example : pass1 ["B"] 0 ["a", "b", "c"] [2, 3] = ["a", "B", "b", "B", "c"] := by decide
example : shifts 4 10 [2, 5] [2, 3, 9] = [4, 4, 8] := by decide
example : pass2 [['B']] 0 [['x', 'y', 'z']] [(1, 3)] = some [['x', 'y'], ['B'], ['z']] := by decide

end GoatSpec.C02
