import GoatSpec.MarkSpec
import GoatSpec.Splice
/-! # C02 — property theorems (instrumenter family); see DESIGN.md §6 -/
namespace GoatSpec.C02
open GoatSpec

/-- placeholder obligation replaced below by the real theorems of this property -/
theorem blockHeight_eq : blockHeight = 4 := rfl

end GoatSpec.C02
