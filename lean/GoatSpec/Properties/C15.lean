import GoatSpec.Proofs.Cmd
import GoatSpec.Properties.C06
import GoatSpec.SkelSpec
/-! # C15 — an interrupted track, patch or clean is fully recoverable with goat clean.

Crash granularity is whole-file writes (assumption A8). After `k` writes every file holds
either its old or its new content; both are well-formed arrangements around the same user
text, so `goat clean` leaves no artefact and the user's text — for every command, every `k`,
every number of files. The text-level fact that clean realises `cleanFile` on such arrangements
is `C06.clean_wf`. -/
namespace GoatSpec.C15
open GoatSpec

/-- the files a command rewrites: old states, the operation applied to each -/
def afterOf (before : List FileSt) (ops : List FileOp) : List FileSt :=
  (before.zip ops).map (fun p => fileStep p.1 p.2)

/-- every file of a crash state is an old or a new file -/
theorem crashState_mem (before after : List FileSt) (k : Nat) (g : FileSt)
    (h : g ∈ crashState before after k) : g ∈ before ∨ g ∈ after := by
  rcases List.mem_append.mp h with h | h
  · exact Or.inr (List.mem_of_mem_take h)
  · exact Or.inl (List.mem_of_mem_drop h)

/-- **crash_recoverable**: for every list of well-formed files, every admissible operation per
    file (track / patch / clean / nothing else is written by the commands), and every crash
    point `k`: each file of the interrupted state is still a well-formed arrangement around the
    user's text, and cleaning it leaves only user items carrying exactly that text. -/
theorem crash_recoverable (before : List FileSt) (ops : List FileOp)
    (hok : ∀ f ∈ before, f.ok)
    (hadm : ∀ p ∈ before.zip ops, p.2.admissible p.1) (k : Nat) :
    ∀ g ∈ crashState before (afterOf before ops) k,
      g.ok ∧ (∀ it ∈ (cleanFile g).items, it.kind = none)
        ∧ nonBlank (flatten (cleanFile g).items) = nonBlank g.text := by
  intro g hg
  have hgok : g.ok := by
    rcases crashState_mem _ _ k g hg with h | h
    · exact hok g h
    · simp only [afterOf, List.mem_map] at h
      obtain ⟨p, hp, rfl⟩ := h
      exact fileStep_ok p.1 p.2 (hok p.1 (List.of_mem_zip hp).1) (hadm p hp)
  exact ⟨hgok, cleanFile_restores g hgok⟩

/-- `clean` tolerates a missing generated file / an already clean file: cleaning twice is cleaning once -/
theorem clean_tolerates (f : FileSt) : cleanFile (cleanFile f) = cleanFile f := by
  cases f; simp [cleanFile, userItems_idem]

/-- link to the text level: on the flattened arrangement the five regexp passes compute
    `cleanFile` up to blank lines (this is `C06.clean_wf`) -/
theorem clean_text_realises (f : FileSt) (hf : f.ok) :
    nonBlank (cleanLines (flatten f.items)).2 = nonBlank (flatten (cleanFile f).items) :=
  (C06.clean_wf f.items hf.1).1

/-- non-vacuity: two files, track on the first, crash after the first write -/
example :
    let f1 : FileSt := ⟨[.user ['a'], .user ['b']], [['a'], ['b']]⟩
    let f2 : FileSt := ⟨[.user ['c']], [['c']]⟩
    (crashState [f1, f2] (afterOf [f1, f2] [.track [0], .track [0]]) 1).map (fun g => g.items.length) = [3, 1] := by
  decide

/-! ## crash points, read off the source (`vh skeleton`, regenerated on every run) -/
section skeleton
open GoatSpec.SkelSpec

/-- **the crash points of `e2e crash` are all the points there are**: every file-system mutation
    of the project is directly preceded by the hook at which the harness kills the process, so
    enumerating the hook's boundaries enumerates every whole-file crash state -/
theorem every_mutation_is_a_crash_point : unhooked = [] ∧ isFixedPoint = true := by
  constructor <;> decide +kernel

/-- the mutations happen in these seven functions only -/
theorem mutating_functions : writers.map (·.1) =
    ["pkg/config.InitWithConfig", "pkg/goat.CleanExecutor.clean", "pkg/goat.PatchExecutor.apply",
     "pkg/maininfo.MainPackageInfo.ApplyMainEntry", "pkg/tracking/increment.Values.Remove",
     "pkg/tracking/increment.Values.Save", "pkg/utils.FormatAndSave"] := by decide +kernel

/-- `clean` rewrites the sources first and removes the generated file and the package directory
    afterwards, so an interrupted clean leaves a tree a second clean still recognises -/
theorem clean_order_in_source :
    callOrder "pkg/goat.CleanExecutor.Run" = ["pkg/goat.CleanExecutor.prepare", "pkg/goat.CleanExecutor.clean"]
    ∧ (callOrder "pkg/goat.CleanExecutor.clean").filter (fun f => f ≠ "pkg/config.Config.GoatGeneratedFile") =
      ["pkg/goat.CleanExecutor.cleanContentsSequential", "pkg/goat.CleanExecutor.cleanContentsParallel", "pkg/utils.IsDirEmpty"]
    ∧ mutates "pkg/goat.CleanExecutor.prepare" = false := by
  decide +kernel

end skeleton

end GoatSpec.C15
