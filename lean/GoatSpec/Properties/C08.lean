import GoatSpec.Proofs.Sched
import GoatSpec.SkelSpec
/-! # C08 — results do not depend on thread count, schedule or repetition  (**partial**)

Model: `GoatSpec/Sched.lean` — the worker-pool skeletons of `pkg/goat/{track,patch,clean}.go` and
`pkg/diff/diff_v{1,2,3}.go`. The theorems below are about the tool's *aggregation logic*: given
that every task is a function of its input alone and that each step of the skeleton is executed
atomically, the aggregate does not depend on the completion order. They quantify over **all** task
lists, **all** completion orders / permutations / interleavings; nothing is bounded.

What no theorem here shows (monitored by the end-to-end oracle `threads`, labelled
`assumption_monitor` in the evidence): that the Go implementation *is* such a skeleton — absence
of data races under the Go memory model, go-git's internal mutable state (pack index maps), the
file system. `changed_lost_update` is the model-level witness of the defect D-C08-1 of the pinned
tree (the flag was updated by a non-atomic read-modify-write). -/
namespace GoatSpec.C08
open GoatSpec GoatSpec.Sched

/-! ## results written by index (`trackers[i]`, `fileChanges[idx]`) -/

/-- **pool_by_index.** For every task function, task list and completion order in which every
    task completes (any permutation of the task indices — any number of workers, any schedule),
    the result array is `f` applied to the tasks, slot by slot. -/
theorem pool_by_index {α β : Type} (f : α → β) (tasks : List α) (order : List Nat)
    (h : order.Perm (List.range tasks.length)) :
    poolRun f tasks order = tasks.map (fun t => some (f t)) := by
  apply List.ext_getElem?
  intro j
  by_cases hj : j < tasks.length
  · have hm : j ∈ order := h.mem_iff.mpr (List.mem_range.mpr hj)
    rw [poolRun, foldl_complete_get f tasks order _ j hj (by simp), if_pos hm]
    rw [List.getElem?_map, List.getElem?_eq_getElem hj]
    rfl
  · have h1 : (poolRun f tasks order).length = tasks.length := by
      rw [poolRun, foldl_complete_length]; simp
    rw [List.getElem?_eq_none (by omega), List.getElem?_eq_none (by simp; omega)]

/-- hence the same array for any two completion orders (threads = 1 is the order `0,1,…,n-1`) -/
theorem pool_order_irrelevant {α β : Type} (f : α → β) (tasks : List α) (o₁ o₂ : List Nat)
    (h₁ : o₁.Perm (List.range tasks.length)) (h₂ : o₂.Perm (List.range tasks.length)) :
    poolRun f tasks o₁ = poolRun f tasks o₂ := by
  rw [pool_by_index f tasks o₁ h₁, pool_by_index f tasks o₂ h₂]

/-- the sequential loop is one of these orders -/
theorem pool_sequential {α β : Type} (f : α → β) (tasks : List α) :
    poolRun f tasks (List.range tasks.length) = tasks.map (fun t => some (f t)) :=
  pool_by_index f tasks _ (List.Perm.refl _)

/-! ## the diff stage's output order is not the input order -/

/-- `filterValidFileChanges` returns exactly the non-nil entries, as a multiset … -/
theorem filterValid_perm_valid {α : Type} (l : List (Option α)) : (filterValid l).Perm (l.filterMap id) :=
  filterValid_perm l

/-- … but not in their original order (so the later sort by path is load-bearing) -/
theorem filterValid_reorders : filterValid [none, some 1, some 2] = [2, 1] := by
  rw [filterValid.eq_3]
  split
  · next h => simp at h
  · next last h =>
    have : last = some 2 := by simpa using h.symm
    subst this
    simp [filterValid_some, filterValid_nil]

/-! ## sort by unique path, then number -/

/-- **any** sorting algorithm (`sort.Slice` is unspecified and unstable) yields the same list:
    a permutation of `l` that is sorted by path equals `sortByPath l` when the paths of `l` are
    pairwise distinct (one change per file) -/
theorem sorted_perm_unique {β : Type} (l s : List (String × β)) (nd : (l.map (·.1)).Nodup)
    (hp : s.Perm l) (hs : SortedByPath s) : s = sortByPath l := by
  have p : s.Perm (sortByPath l) := hp.trans (sortByPath_perm l).symm
  have nds : (s.map (·.1)).Nodup := ((hp.map (·.1)).nodup_iff).mpr nd
  exact sorted_perm_eq (fun (a b : String × β) => a.1 ≤ b.1) s (sortByPath l) (path_antisymm s nds) hs (sortByPath_sorted l) p

/-- the sorted list is the same for every permutation of the diff stage's output -/
theorem sort_perm {β : Type} (l₁ l₂ : List (String × β)) (nd : (l₁.map (·.1)).Nodup) (p : l₁.Perm l₂) :
    sortByPath l₁ = sortByPath l₂ := by
  have nd2 : (l₂.map (·.1)).Nodup := ((p.map (·.1)).nodup_iff).mp nd
  exact sorted_perm_unique l₂ (sortByPath l₁) nd2 ((sortByPath_perm l₁).trans p) (sortByPath_sorted l₁)

/-- **numbering_perm.** The id plan (`GoatSpec.number` from 1 over the files in sorted-path order
    with their tracking-point counts) is invariant under any permutation of the diff stage's
    output, for every count function, provided there is one change per path. -/
theorem numbering_perm {β : Type} (count : String × β → Nat) (l₁ l₂ : List (String × β))
    (nd : (l₁.map (·.1)).Nodup) (p : l₁.Perm l₂) :
    plan count l₁ = plan count l₂ := by
  simp only [plan, sort_perm l₁ l₂ nd p]

/-- the whole first half of `track`: diff workers write by index in any completion order, the
    valid entries are filtered (reordering them), sorted by path and numbered — the plan equals
    the plan computed from the results in task order -/
theorem plan_schedule_independent {α β : Type} (f : α → Option (String × β)) (count : String × β → Nat)
    (tasks : List α) (order : List Nat) (h : order.Perm (List.range tasks.length))
    (nd : ((tasks.filterMap f).map (·.1)).Nodup) :
    plan count (filterValid ((poolRun f tasks order).map (fun o => o.bind id)))
      = plan count (tasks.filterMap f) := by
  rw [pool_by_index f tasks order h]
  have hp : (filterValid ((tasks.map (fun t => some (f t))).map (fun o => o.bind id))).Perm (tasks.filterMap f) := by
    refine (filterValid_perm _).trans ?_
    rw [List.map_map, List.filterMap_map]
    exact List.Perm.of_eq (by congr 1)
  have nd1 := ((hp.map (·.1)).nodup_iff).mpr nd
  exact numbering_perm count _ _ nd1 hp

/-! ## results collected from a channel and written as whole files -/

/-- **collect_perm.** Whole-file writes with pairwise distinct paths commute: for every tree and
    every permutation of the collected results the final tree is the same. -/
theorem collect_perm (t : Tree) (ws₁ ws₂ : List (String × String)) (nd : (ws₁.map (·.1)).Nodup)
    (p : ws₁.Perm ws₂) : applyWrites t ws₁ = applyWrites t ws₂ := by
  funext q
  have nd2 : (ws₂.map (·.1)).Nodup := ((p.map (·.1)).nodup_iff).mp nd
  by_cases hq : q ∈ ws₁.map (·.1)
  · obtain ⟨w, hw, hwq⟩ := List.mem_map.mp hq
    have h1 : (q, w.2) ∈ ws₁ := by rw [← hwq]; exact hw
    rw [applyWrites_mem q w.2 ws₁ t nd h1, applyWrites_mem q w.2 ws₂ t nd2 (p.mem_iff.mp h1)]
  · have hq2 : q ∉ ws₂.map (·.1) := fun h => hq ((p.map (·.1)).mem_iff.mpr h)
    rw [applyWrites_not_mem q ws₁ t hq, applyWrites_not_mem q ws₂ t hq2]

/-- the final tree: a written path holds its (unique) new content, every other path is untouched -/
theorem collect_final (t : Tree) (ws : List (String × String)) (nd : (ws.map (·.1)).Nodup) (q : String) :
    (∀ c, (q, c) ∈ ws → applyWrites t ws q = some c) ∧ (q ∉ ws.map (·.1) → applyWrites t ws q = t q) :=
  ⟨fun c h => applyWrites_mem q c ws t nd h, applyWrites_not_mem q ws t⟩

/-! ## the `changed` flag -/

/-- **or_reduce_atomic.** If every update of the flag is one atomic OR-step (an `atomic.Bool` that
    is only ever set, or an OR performed by the single collecting goroutine), then for any number
    of workers with any number of steps each and **any interleaving** the final value is the
    disjunction of the initial value and all contributions. -/
theorem or_reduce_atomic (init : Bool) {ls : List (List Bool)} {s : List Bool} (h : Interleave ls s) :
    orRun init s = (init || ls.flatten.any id) := by
  rw [orRun_eq, any_perm h.perm]

/-- in particular all interleavings agree with the sequential execution of the workers one after
    the other -/
theorem or_reduce_schedule_independent (init : Bool) {ls : List (List Bool)} {s₁ s₂ : List Bool}
    (h₁ : Interleave ls s₁) (h₂ : Interleave ls s₂) : orRun init s₁ = orRun init s₂ := by
  rw [or_reduce_atomic init h₁, or_reduce_atomic init h₂]

/-- **changed_lost_update (witness of D-C08-1).** With the pinned statement
    `p.changed = p.changed || updated`, executed as a read followed by a write by two workers of
    which the first found a marker (`updated = true`), the schedule `0,1,0,1` (both read `false`,
    worker 0 writes `true`, worker 1 writes its stale `false || false`) terminates with
    `changed = false`: `goat patch` reports "no +goat:delete, +goat:insert found" and applies
    nothing. -/
theorem changed_lost_update :
    ∃ sched : List Nat,
      let fin := rmwRun ⟨false, [rmwWorker true, rmwWorker false]⟩ sched
      rmwDone fin = true ∧ fin.changed = false := ⟨[0, 1, 0, 1], by decide⟩

/-- the same two workers one after the other (threads = 1) end with `changed = true` -/
theorem changed_sequential :
    (rmwRun ⟨false, [rmwWorker true, rmwWorker false]⟩ [0, 0, 1, 1]).changed = true := by decide

/-- … so under the non-atomic update the outcome depends on the schedule -/
theorem rmw_schedule_dependent :
    ∃ s₁ s₂ : List Nat,
      rmwDone (rmwRun ⟨false, [rmwWorker true, rmwWorker false]⟩ s₁) = true ∧
      rmwDone (rmwRun ⟨false, [rmwWorker true, rmwWorker false]⟩ s₂) = true ∧
      (rmwRun ⟨false, [rmwWorker true, rmwWorker false]⟩ s₁).changed ≠
        (rmwRun ⟨false, [rmwWorker true, rmwWorker false]⟩ s₂).changed :=
  ⟨[0, 1, 0, 1], [0, 0, 1, 1], by decide⟩

/-! ## shared state of the worker pools, read off the source (`vh skeleton`, regenerated on every run)

The theorems above assume that each per-file task is a function of its input alone. One way to
break that is package-level state touched from the pools. `refsOf f` is the set of package-level
variables of the project that `f` or anything it (transitively) calls mentions. -/
section skeleton
open GoatSpec.SkelSpec

def regexps : List String :=
  ["pkg/config.TrackDeleteEndRegexp", "pkg/config.TrackInsertRegexp", "pkg/config.TrackGenerateEndRegexp",
   "pkg/config.TrackMainEntryEndRegexp", "pkg/config.TrackUserEndRegexp"]

/-- the functions that start goroutines: three diff stages (INIT is sequential) and the six pools of the commands -/
theorem pool_functions : spawners =
    ["pkg/diff.DifferV1.AnalyzeChanges", "pkg/diff.DifferV2.AnalyzeChanges",
     "pkg/diff.DifferV3.AnalyzeChanges", "pkg/goat.CleanExecutor.cleanContentsParallel",
     "pkg/goat.CleanExecutor.prepareContentsParallel", "pkg/goat.PatchExecutor.applyTracksParallel",
     "pkg/goat.PatchExecutor.prepareContentsParallel", "pkg/goat.TrackExecutor.initTracksParallel",
     "pkg/goat.TrackExecutor.saveTracksParallel"] := by decide +kernel

/-- **the goroutines touch no package-level variable except the five compiled regular
    expressions (`*regexp.Regexp`, safe for concurrent use, never assigned after package
    initialisation) and the default printer configuration (read only)**; the diff workers touch
    none at all -/
theorem pools_share_no_package_state :
    spawners.all (fun f => (spawnRefs f).all (fun v => regexps.contains v || v == "pkg/utils.defaultPrinterConfig")) = true
    ∧ (spawners.filter (fun f => spawnRefs f ≠ [])) =
      ["pkg/goat.CleanExecutor.cleanContentsParallel", "pkg/goat.CleanExecutor.prepareContentsParallel",
       "pkg/goat.PatchExecutor.applyTracksParallel", "pkg/goat.PatchExecutor.prepareContentsParallel",
       "pkg/goat.TrackExecutor.initTracksParallel", "pkg/goat.TrackExecutor.saveTracksParallel"] := by
  constructor <;> decide +kernel

end skeleton

end GoatSpec.C08
