import GoatSpec.Properties.C03
import GoatSpec.Properties.C09
import GoatSpec.Proofs.Patch
/-! # C03 at patch granularity: the guard of `scope_guard_partial` carries over

The patch-scope bookkeeping (mark arrays per scope key) only ever suppresses an insertion inside a
scope key that already holds one; the first event of every scope key inserts at patch granularity
exactly as at scope granularity (`C09.scope_sub_patch`: the scope positions are among the patch
positions). So every block that holds a changed statement the walk reaches carries a tracking
block at patch granularity too. -/
namespace GoatSpec.C03
open GoatSpec

/-- what `marks` returns, with the position list -/
theorem marks_eq' (f : File) (g : Gran) (ranges : List (Nat × Nat)) (m : Marks) (h : marks f g ranges = .ok m) :
    ∃ env st, mkEnv f g ranges = .ok env ∧
      runEvents env (fileEvents (fun l => env.changed.getD l false) f) = .ok st ∧ m.multi = sortNat st.multi := by
  unfold marks at h
  split at h
  · cases h
  · next env henv =>
    dsimp only at h
    split at h
    · cases h
    · next st hst => cases h; exact ⟨env, st, henv, hst, rfl⟩

/-- **C03, patch granularity (partial, as for scope granularity).** For every abstract file and
    changed-line set on which the tracker terminates normally at patch and at scope granularity: for
    a marking statement of a declared function's body that the statement walk reaches, whose first
    line `l` is changed and lies in the innermost track scope (block) `key`, the patch run has put a
    tracking block before the comment-adjusted line `r0` of some event line `l0` of that same block
    (or `r0` lies outside every function). -/
theorem patch_guard_partial (f : File) (ranges : List (Nat × Nat)) (mP mS : Marks)
    (hP : marks f .patch ranges = .ok mP) (hS : marks f .scope ranges = .ok mS)
    (lb rb : Nat) (p : Nat × Nat) (stmts : List Stmt)
    (hd : Decl.funcDecl (some (lb, rb, some p, stmts)) ∈ f.decls)
    (l : Nat) (hw : WalkedL l stmts)
    (env : Env) (henv : mkEnv f .scope ranges = .ok env)
    (hch : env.isChanged l = .ok true)
    (t : TScope) (ht : searchTrees env.trees l = some t) :
    ∃ l0 t0 r0, searchTrees env.trees l0 = some t0 ∧ t0.search l0 = t.search l ∧
      skipComments env (env.comments.size + 1) l0 = .ok r0 ∧ (r0 ∈ mP.multi ∨ searchScopes env.funcs r0 = 0) := by
  obtain ⟨l0, t0, r0, h1, h2, h3, h4⟩ := scope_guard_partial f ranges mS hS lb rb p stmts hd l hw env henv hch t ht
  refine ⟨l0, t0, r0, h1, h2, h3, h4.imp ?_ id⟩
  intro hin
  obtain ⟨eP, sP, heP, hrP, hmP⟩ := marks_eq' f .patch ranges mP hP
  obtain ⟨eS, sS, heS, hrS, hmS⟩ := marks_eq' f .scope ranges mS hS
  rw [henv] at heS; cases heS
  obtain ⟨fs, ch, tr, hfs, hch', rfl, htr⟩ := mkEnv_eq f .scope ranges _ henv
  obtain ⟨fs2, ch2, tr2, hfs2, hch2, rfl, htr2⟩ := mkEnv_eq f .patch ranges _ heP
  rw [hfs] at hfs2; cases hfs2
  rw [hch'] at hch2; cases hch2
  have ht' := htr (Or.inr rfl)
  rw [htr2 (Or.inl rfl)] at ht'
  simp only [Option.some.injEq, Except.ok.injEq] at ht'
  subst ht'
  dsimp only at hrP hrS
  have b := C09.scope_sub_patch ⟨.scope, _, ch, _, fs, tr2⟩ _ sS sP hrS hrP
  rw [hmS, mem_sortNat] at hin
  rw [hmP, mem_sortNat]
  exact b.1 r0 hin

/-! ## the patch-specific guarantee: a changed statement is joined to a tracking point of its own
    block by changed / comment lines only -/
open GoatSpec.Patch
set_option linter.unusedVariables false

/-- what is known about one patch scope of a state: marks are non-zero exactly on changed / comment
    lines (inside the array), and every covered line (mark 2) has a witness — an event line `l0`
    of the same scope key whose comment-adjusted line is a tracking position (or lies outside every
    function), joined to the covered line by non-zero marks -/
structure PS (env : Env) (st : MState) (k : Nat × Nat) (p : PatchScope) : Prop where
  init : ∀ x, p.s < x → mkA p.s p.marks x ≠ 0 → flag env x = true
  initC : ∀ x, p.s < x → x - p.s - 1 < p.marks.size → flag env x = true → mkA p.s p.marks x ≠ 0
  vals : ∀ x, p.s < x → mkA p.s p.marks x ≤ 2
  wit : ∀ j, p.s < j → mkA p.s p.marks j = 2 → ∃ l0 t0 r0, searchTrees env.trees l0 = some t0 ∧ t0.search l0 = k ∧ p.s < l0 ∧
      skipComments env (env.comments.size + 1) l0 = .ok r0 ∧ (r0 ∈ st.multi ∨ searchScopes env.funcs r0 = 0) ∧
      ∀ y, (j < y ∧ y < l0) ∨ (l0 < y ∧ y < j) → mkA p.s p.marks y ≠ 0

def PInv (env : Env) (st : MState) : Prop := ∀ k p, st.patch.lookup k = some p → PS env st k p

/-- marks only grow (non-zero stays non-zero, 2 stays 2), positions only grow -/
def PMono (st st' : MState) : Prop :=
  (∀ x ∈ st.multi, x ∈ st'.multi) ∧
  ∀ k p, st.patch.lookup k = some p → ∃ p', st'.patch.lookup k = some p' ∧ p'.s = p.s ∧
    ∀ x, p.s < x → (mkA p.s p.marks x = 2 → mkA p.s p'.marks x = 2) ∧ (mkA p.s p.marks x ≠ 0 → mkA p.s p'.marks x ≠ 0)

theorem PMono.refl (st : MState) : PMono st st :=
  ⟨fun _ h => h, fun k p h => ⟨p, h, rfl, fun _ _ => ⟨id, id⟩⟩⟩

theorem PMono.trans {a b c : MState} (h1 : PMono a b) (h2 : PMono b c) : PMono a c := by
  refine ⟨fun x hx => h2.1 x (h1.1 x hx), fun k p hp => ?_⟩
  obtain ⟨p', hp', hs, hm⟩ := h1.2 k p hp
  obtain ⟨p'', hp'', hs', hm'⟩ := h2.2 k p' hp'
  refine ⟨p'', hp'', by rw [hs', hs], fun x hx => ?_⟩
  have a1 := hm x hx
  have a2 := hm' x (by rw [hs]; exact hx)
  rw [hs] at a2
  exact ⟨fun h => a2.1 (a1.1 h), fun h => a2.2 (a1.2 h)⟩

/-- line `l` of scope key `k` is covered: a line `j0 ≤ l` of the scope's array is marked 2 and every
    line from there up to `l` has a non-zero mark -/
def Cov (st : MState) (k : Nat × Nat) (l : Nat) : Prop :=
  ∃ p, st.patch.lookup k = some p ∧ ∃ j0, p.s < j0 ∧ j0 ≤ l ∧ mkA p.s p.marks j0 = 2 ∧
    ∀ x, j0 < x → x ≤ l → mkA p.s p.marks x ≠ 0

theorem Cov.mono {st st' : MState} {k : Nat × Nat} {l : Nat} (h : Cov st k l) (hm : PMono st st') : Cov st' k l := by
  obtain ⟨p, hp, j0, a, b, c, d⟩ := h
  obtain ⟨p', hp', hs, hmm⟩ := hm.2 k p hp
  refine ⟨p', hp', j0, by rw [hs]; exact a, b, ?_, ?_⟩
  · rw [hs]; exact (hmm j0 a).1 c
  · intro x hx1 hx2; rw [hs]; exact (hmm x (by omega)).2 (d x hx1 hx2)

theorem markInsert_patch (env : Env) (st st' : MState) (line : Nat) (h : markInsert env st line = .ok st') :
    st'.patch = st.patch := by
  unfold markInsert at h
  split at h
  · cases h
  · split at h
    · cases h; rfl
    · split at h <;> (cases h; rfl)

/-- a patch scope carried over to a state with more positions -/
theorem PS.weaken {env : Env} {st st' : MState} {k : Nat × Nat} {p : PatchScope} (h : PS env st k p)
    (hm : ∀ x ∈ st.multi, x ∈ st'.multi) : PS env st' k p := by
  refine ⟨h.init, h.initC, h.vals, fun j hj h2 => ?_⟩
  obtain ⟨l0, t0, r0, a, b, c, d, e, f⟩ := h.wit j hj h2
  exact ⟨l0, t0, r0, a, b, c, d, e.imp (hm r0) id, f⟩

/-- the part of `forceMarkInsert` (patch granularity) after the patch scope of the key is known -/
theorem tail_patch (env : Env) (st st' : MState) (l : Nat) (t : TScope) (ht : searchTrees env.trees l = some t)
    (key : Nat × Nat) (hkey : t.search l = key) (ps : PatchScope) (hlk : st.patch.lookup key = some ps)
    (hinv : PInv env st)
    (h : (match ps.canInsert l with
        | .error e => .error e
        | .ok false => .ok st
        | .ok true =>
          match markInsert env st l, ps.markInserted l with
          | .ok st2, .ok ps2 =>
            .ok { st2 with patch := (key, ps2) :: st2.patch.filter (fun kv => kv.1 != key) }
          | .error e, _ => .error e
          | _, .error e => .error e : Except MarkErr MState) = .ok st') :
    PInv env st' ∧ PMono st st' ∧ (flag env l = true → Cov st' key l) := by
  have hps := hinv key ps hlk
  cases hci : ps.canInsert l with
  | error e => rw [hci] at h; cases h
  | ok b =>
    rw [hci] at h
    cases b with
    | false =>
      simp only at h; cases h
      refine ⟨hinv, PMono.refl _, fun hf => ?_⟩
      obtain ⟨hl, j0, a, b, c, d⟩ := canInsert_false ps l hci
      refine ⟨ps, hlk, j0, a, b, c, fun x hx1 hx2 => ?_⟩
      by_cases hxl : x = l
      · subst hxl
        -- l is inside the array (canInsert read it) and counts for a patch
        unfold PatchScope.canInsert at hci
        cases hg' : ps.get x with
        | error e => rw [hg'] at hci; cases hci
        | ok v => exact hps.initC x hl (get_ok ps x v hg').2.1 hf
      · rw [d x hx1 (by omega)]; decide
    | true =>
      simp only at h
      cases hmi : markInsert env st l with
      | error e => rw [hmi] at h; cases h
      | ok st2 =>
        cases hmd : ps.markInserted l with
        | error e => rw [hmi, hmd] at h; cases h
        | ok ps2 =>
          rw [hmi, hmd] at h
          simp only at h; cases h
          obtain ⟨r, hr, hrin, _, hmono⟩ := markInsert_own env st st2 l hmi
          have hpatch := markInsert_patch env st st2 l hmi
          obtain ⟨hs, he, hsz, hl, hch, hself⟩ := markInserted_spec ps ps2 l hmd
          have keep : ∀ x, ps.s < x → (mkA ps.s ps.marks x = 2 → mkA ps.s ps2.marks x = 2) ∧
              (mkA ps.s ps.marks x ≠ 0 → mkA ps.s ps2.marks x ≠ 0) := by
            intro x hx
            by_cases hne : mkA ps.s ps2.marks x = mkA ps.s ps.marks x
            · rw [hne]; exact ⟨id, id⟩
            · obtain ⟨a, b, _⟩ := hch x hx hne
              rw [a, b]; exact ⟨fun _ => rfl, fun _ => by decide⟩
          have hps2 : PS env ⟨st2.multi, st2.singles, st2.count, st2.visitedScopes,
              (key, ps2) :: st2.patch.filter (fun kv => kv.1 != key)⟩ key ps2 := by
            refine ⟨?_, ?_, ?_, ?_⟩
            · intro x hx hnz
              rw [hs] at hx hnz
              by_cases hne : mkA ps.s ps2.marks x = mkA ps.s ps.marks x
              · rw [hne] at hnz; exact hps.init x hx hnz
              · exact hps.init x hx (by rw [(hch x hx hne).1]; decide)
            · intro x hx hin hf
              rw [hs] at hx hin ⊢; rw [hsz] at hin
              exact (keep x hx).2 (hps.initC x hx hin hf)
            · intro x hx
              rw [hs] at hx ⊢
              by_cases hne : mkA ps.s ps2.marks x = mkA ps.s ps.marks x
              · rw [hne]; exact hps.vals x hx
              · rw [(hch x hx hne).2.1]; decide
            · intro j hj h2
              rw [hs] at hj h2 ⊢
              by_cases hne : mkA ps.s ps2.marks j = mkA ps.s ps.marks j
              · rw [hne] at h2
                obtain ⟨l0, t0, r0, a, b, c, d, e, f⟩ := hps.wit j hj h2
                exact ⟨l0, t0, r0, a, b, c, d, e.imp (hmono r0) id, fun y hy => (keep y (by omega)).2 (f y hy)⟩
              · obtain ⟨_, _, hrun⟩ := hch j hj hne
                refine ⟨l, t, r, ht, hkey, hl, hr, hrin, fun y hy => ?_⟩
                have : mkA ps.s ps.marks y = 1 := hrun y (by omega)
                exact (keep y (by omega)).2 (by rw [this]; decide)
          refine ⟨?_, ⟨hmono, ?_⟩, ?_⟩
          · intro k p hk
            simp only [lookup_cons_filter] at hk
            by_cases hkk : k = key
            · subst hkk
              simp at hk; subst hk; exact hps2
            · have hkk' : (k == key) = false := by simpa using hkk
              simp only [hkk', Bool.false_eq_true, if_false] at hk
              rw [hpatch] at hk
              exact (hinv k p hk).weaken hmono
          · intro k p hk
            simp only [lookup_cons_filter]
            by_cases hkk : k = key
            · subst hkk
              rw [hlk] at hk; cases hk
              exact ⟨ps2, by simp, hs, keep⟩
            · have hkk' : (k == key) = false := by simpa using hkk
              simp only [hkk', Bool.false_eq_true, if_false]
              rw [hpatch]
              exact ⟨p, hk, rfl, fun _ _ => ⟨id, id⟩⟩
          · intro hf
            refine ⟨ps2, by simp, l, by rw [hs]; exact hl, Nat.le_refl _, ?_, fun x a b => by omega⟩
            rw [hs]
            have hin : l - ps.s - 1 < ps.marks.size := by
              unfold PatchScope.markInserted at hmd
              cases hg' : ps.get l with
              | error e => rw [hg'] at hmd; cases hmd
              | ok v => exact (get_ok ps l v hg').2.1
            have hnz := hps.initC l hl hin hf
            by_cases h1 : mkA ps.s ps.marks l = 1
            · exact hself h1
            · by_cases hne : mkA ps.s ps2.marks l = mkA ps.s ps.marks l
              · rw [hne]
                have := hps.vals l hl
                omega
              · exact (hch l hl hne).2.1

/-- **one `forceMarkInsert` at patch granularity** keeps the invariant, lets marks and positions only
    grow, and — when the line counts for a patch (changed or comment) — leaves the line covered -/
theorem forceMark_patch (env : Env) (hg : env.gran = .patch) (st st' : MState) (l : Nat)
    (hinv : PInv env st) (h : forceMark env st l = .ok st') :
    PInv env st' ∧ PMono st st' ∧
    (∀ t, searchTrees env.trees l = some t → flag env l = true → Cov st' (t.search l) l) := by
  unfold forceMark at h
  rw [hg] at h
  simp only at h
  split at h
  · next hn => cases h; exact ⟨hinv, PMono.refl _, fun t ht => by rw [hn] at ht; cases ht⟩
  · next t ht =>
    generalize hkey : t.search l = key at h
    cases hlk : st.patch.lookup key with
    | some ps =>
      rw [hlk] at h
      simp only [Option.isNone_some, Bool.false_eq_true, if_false] at h
      obtain ⟨a, b, c⟩ := tail_patch env st st' l t ht key hkey ps hlk hinv h
      exact ⟨a, b, fun t' ht' hf => by rw [ht] at ht'; cases ht'; rw [hkey]; exact c hf⟩
    | none =>
      rw [hlk] at h
      simp only [Option.isNone_none, if_true] at h
      cases hnp : newPatchScope env t.s t.e with
      | error e => rw [hnp] at h; cases h
      | ok ps =>
        rw [hnp] at h
        simp only at h
        obtain ⟨hs, he, hsz, hmk⟩ := Patch.newPatchScope_spec env t.s t.e ps hnp
        -- the state with the fresh scope registered
        have hlk1 : ({ st with patch := (key, ps) :: st.patch } : MState).patch.lookup key = some ps := by
          simp [List.lookup]
        have hfresh : PS env { st with patch := (key, ps) :: st.patch } key ps := by
          refine ⟨?_, ?_, ?_, ?_⟩
          · intro x hx hnz
            rw [hs] at hx hnz; rw [hmk x hx] at hnz
            by_cases hc : x < t.e ∧ flag env x = true
            · exact hc.2
            · simp [hc] at hnz
          · intro x hx hin hf
            rw [hs] at hx hin ⊢; rw [hsz] at hin
            rw [hmk x hx]
            have : x < t.e := by omega
            simp [this, hf]
          · intro x hx
            rw [hs] at hx ⊢; rw [hmk x hx]; split <;> decide
          · intro j hj h2
            rw [hs] at hj h2; rw [hmk j hj] at h2
            split at h2 <;> cases h2
        have hinv1 : PInv env { st with patch := (key, ps) :: st.patch } := by
          intro k p hk
          by_cases hkk : k = key
          · subst hkk
            simp [List.lookup] at hk; subst hk; exact hfresh
          · have hkk' : (k == key) = false := by simpa using hkk
            simp only [List.lookup, hkk'] at hk
            exact (hinv k p hk).weaken (fun _ hx => hx)
        have hmono1 : PMono st { st with patch := (key, ps) :: st.patch } := by
          refine ⟨fun _ hx => hx, fun k p hk => ?_⟩
          have hkk : k ≠ key := by intro e; subst e; rw [hlk] at hk; cases hk
          have hkk' : (k == key) = false := by simpa using hkk
          exact ⟨p, by simp only [List.lookup, hkk']; exact hk, rfl, fun _ _ => ⟨id, id⟩⟩
        obtain ⟨a, b, c⟩ := tail_patch env _ st' l t ht key hkey ps hlk1 hinv1 h
        exact ⟨a, hmono1.trans b, fun t' ht' hf => by rw [ht] at ht'; cases ht'; rw [hkey]; exact c hf⟩

theorem flag_of_changed (env : Env) (l : Nat) (h : env.isChanged l = .ok true) : flag env l = true := by
  simp [flag, h]

theorem stepEv_patch (env : Env) (hg : env.gran = .patch) (st st' : MState) (ev : Ev)
    (hinv : PInv env st) (h : stepEv env st ev = .ok st') :
    PInv env st' ∧ PMono st st' ∧
    (∀ l, ev = .check l → env.isChanged l = .ok true → ∀ t, searchTrees env.trees l = some t → Cov st' (t.search l) l) := by
  cases ev with
  | check l =>
    simp only [stepEv] at h
    split at h
    · cases h
    · next hc => cases h; exact ⟨hinv, PMono.refl _, fun l' e hch => by cases e; rw [hc] at hch; cases hch⟩
    · obtain ⟨a, b, c⟩ := forceMark_patch env hg st st' l hinv h
      exact ⟨a, b, fun l' e hch t ht => by cases e; exact c t ht (flag_of_changed env l hch)⟩
  | force l =>
    obtain ⟨a, b, _⟩ := forceMark_patch env hg st st' l hinv h
    exact ⟨a, b, fun l' e => by cases e⟩
  | single l c =>
    simp only [stepEv] at h
    split at h
    · cases h
    · cases h; exact ⟨hinv, PMono.refl _, fun l' e => by cases e⟩
    · cases h
      refine ⟨fun k p hk => (hinv k p hk).weaken (fun _ hx => hx), ⟨fun _ hx => hx, fun k p hk => ⟨p, hk, rfl, fun _ _ => ⟨id, id⟩⟩⟩,
        fun l' e => by cases e⟩

theorem events_patch_fold (env : Env) (hg : env.gran = .patch) (evs : List Ev) :
    ∀ (st st' : MState), PInv env st → evs.foldlM (stepEv env) st = .ok st' →
      PInv env st' ∧ PMono st st' ∧
      ∀ l t, Ev.check l ∈ evs → env.isChanged l = .ok true → searchTrees env.trees l = some t → Cov st' (t.search l) l := by
  induction evs with
  | nil =>
    intro st st' hinv h
    simp [pure, Except.pure] at h; cases h
    exact ⟨hinv, PMono.refl _, fun l t hm => by cases hm⟩
  | cons ev rest ih =>
    intro st st' hinv h
    obtain ⟨b', h1, h2⟩ := (foldlM_ok_cons _ _ _ _ _).mp h
    obtain ⟨i1, m1, c1⟩ := stepEv_patch env hg st b' ev hinv h1
    obtain ⟨i2, m2, c2⟩ := ih b' st' i1 h2
    refine ⟨i2, m1.trans m2, fun l t hm hch ht => ?_⟩
    rcases List.mem_cons.mp hm with e | e
    · exact (c1 l e.symm hch t ht).mono m2
    · exact c2 l t e hch ht

/-- **patch granularity, fold level.** For every event list: if the fold terminates normally, then
    for every changed `check` event line `l` (a changed statement the walk reaches) in scope key
    `key` there is an event line `l0` of the same scope key whose comment-adjusted line `r0` is a
    tracking position (or lies outside every function), and every line strictly between `l0` and
    `l` is a changed line or a comment line: `l` and the tracking point of its block lie in one
    patch. (That the point precedes the statement is the order of the walk, judged per input.) -/
theorem events_patch (env : Env) (hg : env.gran = .patch) (evs : List Ev) (st' : MState)
    (h : runEvents env evs = .ok st') (l : Nat) (t : TScope)
    (hm : Ev.check l ∈ evs) (hch : env.isChanged l = .ok true) (ht : searchTrees env.trees l = some t) :
    ∃ l0 t0 r0, searchTrees env.trees l0 = some t0 ∧ t0.search l0 = t.search l ∧
      skipComments env (env.comments.size + 1) l0 = .ok r0 ∧ (r0 ∈ st'.multi ∨ searchScopes env.funcs r0 = 0) ∧
      ∀ y, (l0 < y ∧ y < l) ∨ (l < y ∧ y < l0) → flag env y = true := by
  have h0 : PInv env {} := by intro k p hk; simp [List.lookup] at hk
  obtain ⟨hinv, _, hcov⟩ := events_patch_fold env hg evs {} st' h0 h
  obtain ⟨p, hp, j0, a, b, c, d⟩ := hcov l t hm hch ht
  have hps := hinv _ p hp
  obtain ⟨l0, t0, r0, w1, w2, w3, w4, w5, w6⟩ := hps.wit j0 a c
  refine ⟨l0, t0, r0, w1, w2, w4, w5, fun y hy => ?_⟩
  apply hps.init y (by omega)
  rcases hy with ⟨y1, y2⟩ | ⟨y1, y2⟩
  · -- l0 < y < l
    by_cases hyj : y < j0
    · exact w6 y (Or.inr ⟨y1, hyj⟩)
    · by_cases hyj' : y = j0
      · subst hyj'; rw [c]; decide
      · exact d y (by omega) (by omega)
  · -- l < y < l0 (and j0 ≤ l)
    exact w6 y (Or.inl ⟨by omega, y2⟩)

/-- **C03, patch granularity (partial: statements in the positions the walk enters), the patch itself.**
    For every abstract file and changed-line set on which the tracker terminates normally at patch
    granularity: for a marking statement of a declared function's body that the statement walk
    reaches, whose first line `l` is changed and lies in the innermost track scope `key`, the tracker
    has put a tracking block before the comment-adjusted line `r0` of an event line `l0` of that same
    block, and every line strictly between `l0` and `l` is changed or a comment line — the
    statement and the tracking point lie in one contiguous patch of its block. -/
theorem patch_run_guard_partial (f : File) (ranges : List (Nat × Nat)) (m : Marks)
    (h : marks f .patch ranges = .ok m)
    (lb rb : Nat) (p : Nat × Nat) (stmts : List Stmt)
    (hd : Decl.funcDecl (some (lb, rb, some p, stmts)) ∈ f.decls)
    (l : Nat) (hw : WalkedL l stmts)
    (env : Env) (henv : mkEnv f .patch ranges = .ok env)
    (hch : env.isChanged l = .ok true)
    (t : TScope) (ht : searchTrees env.trees l = some t) :
    ∃ l0 t0 r0, searchTrees env.trees l0 = some t0 ∧ t0.search l0 = t.search l ∧
      skipComments env (env.comments.size + 1) l0 = .ok r0 ∧ (r0 ∈ m.multi ∨ searchScopes env.funcs r0 = 0) ∧
      ∀ y, (l0 < y ∧ y < l) ∨ (l < y ∧ y < l0) → flag env y = true := by
  unfold marks at h
  rw [henv] at h
  simp only at h
  split at h
  · cases h
  · next st hst =>
    cases h
    have hg : env.gran = .patch := mkEnv_gran f .patch ranges env henv
    have hev : Ev.check l ∈ fileEvents (fun l => env.changed.getD l false) f := by
      apply List.mem_flatMap.mpr
      refine ⟨_, hd, ?_⟩
      simp only [declEvents]
      apply List.mem_append.mpr; left
      apply List.mem_append.mpr; right
      exact walkedL_ev hw
    obtain ⟨l0, t0, r0, h1, h2, h3, h4, h5⟩ := events_patch env hg _ st hst l t hev hch ht
    exact ⟨l0, t0, r0, h1, h2, h3, h4.imp (fun hm => (mem_sortNat _ _).mpr hm) id, h5⟩

/-- non-vacuity of `events_patch`: function block (2, 8); changed lines 4, 5 (one patch) and 7
    (line 6 is unchanged: another patch): tracking points at 4 and 7; the statement on line 5 is
    covered by the point of line 4 (no line in between), the one on line 7 by its own -/
def examplePatchEnv : Env :=
  { gran := .patch, n := 8,
    changed := #[false, false, false, false, true, true, false, true, false],
    comments := #[false, false, false, false, false, false, false, false, false],
    funcs := [(1, 9), (2, 8)], trees := [.mk 2 8 []] }

example : (runEvents examplePatchEnv [.check 4, .check 5, .check 7]).toOption.map (·.multi) = some [4, 7] := by
  simp [runEvents, stepEv, forceMark, examplePatchEnv, searchTrees, TScope.search, searchChildren, markInsert,
    skipComments, Env.isChanged, Env.isComment, searchScopes, TScope.s, TScope.e, List.zipIdx, bind, Except.bind,
    Except.toOption, pure, Except.pure, newPatchScope, newPatchScope.fill, PatchScope.canInsert, PatchScope.canInsert.back,
    PatchScope.get, PatchScope.markInserted, PatchScope.markInserted.down, PatchScope.markInserted.up, List.lookup]

end GoatSpec.C03
