import GoatSpec.Properties.C03
import GoatSpec.Properties.C09
/-! # C03 at patch granularity: the guard of `scope_guard_partial` carries over

The patch-scope bookkeeping (mark arrays per scope key) only ever suppresses an insertion inside a
scope key that already holds one; the first event of every scope key inserts at patch granularity
exactly as at scope granularity (`C09.scope_sub_patch`: the scope positions are among the patch
positions). So every block that holds a changed statement the walk reaches carries a tracking
block at patch granularity too. -/
namespace GoatSpec.C03
open GoatSpec

/-- what `marks` returns, with the position list -/
theorem marks_eq' (f : File) (g : Gran) (ranges : List (Nat × Nat)) (m : Marks) (h : marks f g ranges = .ok m) :
    ∃ env st, mkEnv f g ranges = .ok env ∧
      runEvents env (fileEvents (fun l => env.changed.getD l false) f) = .ok st ∧ m.multi = sortNat st.multi := by
  unfold marks at h
  split at h
  · cases h
  · next env henv =>
    dsimp only at h
    split at h
    · cases h
    · next st hst => cases h; exact ⟨env, st, henv, hst, rfl⟩

/-- **C03, patch granularity (partial, as for scope granularity).** For every abstract file and
    changed-line set on which the tracker terminates normally at patch and at scope granularity: for
    a marking statement of a declared function's body that the statement walk reaches, whose first
    line `l` is changed and lies in the innermost track scope (block) `key`, the patch run has put a
    tracking block before the comment-adjusted line `r0` of some event line `l0` of that same block
    (or `r0` lies outside every function). -/
theorem patch_guard_partial (f : File) (ranges : List (Nat × Nat)) (mP mS : Marks)
    (hP : marks f .patch ranges = .ok mP) (hS : marks f .scope ranges = .ok mS)
    (lb rb : Nat) (p : Nat × Nat) (stmts : List Stmt)
    (hd : Decl.funcDecl (some (lb, rb, some p, stmts)) ∈ f.decls)
    (l : Nat) (hw : WalkedL l stmts)
    (env : Env) (henv : mkEnv f .scope ranges = .ok env)
    (hch : env.isChanged l = .ok true)
    (t : TScope) (ht : searchTrees env.trees l = some t) :
    ∃ l0 t0 r0, searchTrees env.trees l0 = some t0 ∧ t0.search l0 = t.search l ∧
      skipComments env (env.comments.size + 1) l0 = .ok r0 ∧ (r0 ∈ mP.multi ∨ searchScopes env.funcs r0 = 0) := by
  obtain ⟨l0, t0, r0, h1, h2, h3, h4⟩ := scope_guard_partial f ranges mS hS lb rb p stmts hd l hw env henv hch t ht
  refine ⟨l0, t0, r0, h1, h2, h3, h4.imp ?_ id⟩
  intro hin
  obtain ⟨eP, sP, heP, hrP, hmP⟩ := marks_eq' f .patch ranges mP hP
  obtain ⟨eS, sS, heS, hrS, hmS⟩ := marks_eq' f .scope ranges mS hS
  rw [henv] at heS; cases heS
  obtain ⟨fs, ch, tr, hfs, hch', rfl, htr⟩ := mkEnv_eq f .scope ranges _ henv
  obtain ⟨fs2, ch2, tr2, hfs2, hch2, rfl, htr2⟩ := mkEnv_eq f .patch ranges _ heP
  rw [hfs] at hfs2; cases hfs2
  rw [hch'] at hch2; cases hch2
  have ht' := htr (Or.inr rfl)
  rw [htr2 (Or.inl rfl)] at ht'
  simp only [Option.some.injEq, Except.ok.injEq] at ht'
  subst ht'
  dsimp only at hrP hrS
  have b := C09.scope_sub_patch ⟨.scope, _, ch, _, fs, tr2⟩ _ sS sP hrS hrP
  rw [hmS, mem_sortNat] at hin
  rw [hmP, mem_sortNat]
  exact b.1 r0 hin

end GoatSpec.C03
