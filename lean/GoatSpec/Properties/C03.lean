import GoatSpec.Proofs.Walk
/-! # C03 — every changed executable statement is guarded by a tracking point.

Proved here for **line granularity** and for the header rule's forced positions, for every
abstract file / event list (induction over the statement tree and over the event list). The
scope / patch / func clauses and the statement positions the walk does not enter (recorded
classes D-C03-1, D-C03-3, D-C03-45) are decided by the `judge:marks` predicate
(`MarkSpec.c03Reasons`) on every implementation answer of the correspondence streams and are
listed as known findings where the unchanged tree violates them; the theorems below carry the
suffix `_partial` for that reason. -/
namespace GoatSpec.C03
open GoatSpec

/-- general form of `markInsert_mem`: the first non-comment line at or after the argument is a
    position afterwards, provided it lies inside a function -/
theorem markInsert_mem_skip (env : Env) (st st' : MState) (line r : Nat)
    (hs : skipComments env (env.comments.size + 1) line = .ok r) (hf : searchScopes env.funcs r ≠ 0)
    (h : markInsert env st line = .ok st') : r ∈ st'.multi := by
  unfold markInsert at h
  rw [hs] at h
  simp only at h
  split at h
  · next h0 => simp at h0; exact absurd h0 hf
  · split at h
    · next hcont => cases h; simpa [List.contains_iff_mem] using hcont
    · cases h; simp

/-- at line granularity, an event that reaches `forceMark` leaves its (comment-adjusted) line marked -/
theorem force_line (env : Env) (hg : env.gran = .line) (st st' : MState) (l r : Nat)
    (hs : skipComments env (env.comments.size + 1) l = .ok r) (hf : searchScopes env.funcs r ≠ 0)
    (h : forceMark env st l = .ok st') : r ∈ st'.multi := by
  unfold forceMark at h
  rw [hg] at h
  exact markInsert_mem_skip env st st' l r hs hf h

/-- **line granularity, fold level.** For every event list: if the fold terminates normally,
    then for every `check l` event whose line is changed, and every `force l` event, the first
    non-comment line `r ≥ l` is a tracking position whenever it lies inside a function. -/
theorem events_marked_line (env : Env) (hg : env.gran = .line) (evs : List Ev) :
    ∀ (st st' : MState), Inv env st → evs.foldlM (stepEv env) st = .ok st' →
    ∀ l r, ((Ev.check l ∈ evs ∧ env.isChanged l = .ok true) ∨ Ev.force l ∈ evs) →
      skipComments env (env.comments.size + 1) l = .ok r → searchScopes env.funcs r ≠ 0 →
      r ∈ st'.multi := by
  induction evs with
  | nil => intro st st' _ _ l r h; rcases h with ⟨h, _⟩ | h <;> cases h
  | cons ev rest ih =>
    intro st st' hinv h l r hev hs hf
    obtain ⟨b', h1, h2⟩ := (foldlM_ok_cons _ _ _ _ _).mp h
    have s1 := stepEv_spec env st b' ev hinv h1
    have s2 := runFrom_spec env rest b' st' s1.1 h2
    -- is the event the head?
    have hhead : (ev = .check l ∧ env.isChanged l = .ok true) ∨ ev = .force l ∨
        ((Ev.check l ∈ rest ∧ env.isChanged l = .ok true) ∨ Ev.force l ∈ rest) := by
      rcases hev with ⟨hm, hc⟩ | hm
      · rcases List.mem_cons.mp hm with e | e
        · exact Or.inl ⟨e.symm, hc⟩
        · exact Or.inr (Or.inr (Or.inl ⟨e, hc⟩))
      · rcases List.mem_cons.mp hm with e | e
        · exact Or.inr (Or.inl e.symm)
        · exact Or.inr (Or.inr (Or.inr e))
    rcases hhead with ⟨e, hc⟩ | e | hrest
    · subst e
      simp only [stepEv, hc] at h1
      exact s2.2.1 r (force_line env hg st b' l r hs hf h1)
    · subst e
      simp only [stepEv] at h1
      exact s2.2.1 r (force_line env hg st b' l r hs hf h1)
    · exact ih b' st' s1.1 h2 l r hrest hs hf

theorem mem_sortNat (x : Nat) (l : List Nat) : x ∈ sortNat l ↔ x ∈ l := by
  unfold sortNat
  induction l with
  | nil => simp
  | cons y ys ih =>
    simp only [List.foldr_cons, List.mem_cons]
    rw [← ih]
    generalize List.foldr _ [] ys = acc
    induction acc with
    | nil => simp [sortNat.ins]
    | cons z zs ihz =>
      simp only [sortNat.ins]
      split
      · simp
      · split
        · next hxy => simp at hxy; subst hxy; simp
        · simp only [List.mem_cons, ihz]
          constructor
          · rintro (h | h | h)
            · exact Or.inr (Or.inl h)
            · exact Or.inl h
            · exact Or.inr (Or.inr h)
          · rintro (h | h | h)
            · exact Or.inr (Or.inl h)
            · exact Or.inl h
            · exact Or.inr (Or.inr h)

theorem mkEnv_gran (f : File) (g : Gran) (ranges : List (Nat × Nat)) (env : Env)
    (h : mkEnv f g ranges = .ok env) : env.gran = g := by
  unfold mkEnv at h
  split at h
  · cases h
  · dsimp only at h
    split at h
    · cases h
    · split at h
      · cases h
      · cases h; rfl

/-- **C03, line granularity (partial: statements in the positions the walk enters).**
    For every abstract file and changed-line set on which the tracker terminates normally: a
    marking statement (assignment, short declaration, var declaration with values, call, send,
    inc/dec, return, go, defer, branch, bare block) of a declared function's body that the
    statement walk reaches — through any nesting of if / else-if / else / for / range / switch /
    type switch / select / case bodies, bare blocks, labels and multi-line function literals in
    the entered expression positions — and whose first line `l` is changed, is not comment-like
    and lies strictly inside a function, has a tracking block directly before it:
    `l ∈ (marks f .line ranges).multi`. -/
theorem line_guard_partial (f : File) (ranges : List (Nat × Nat)) (m : Marks)
    (h : marks f .line ranges = .ok m)
    (lb rb : Nat) (p : Nat × Nat) (stmts : List Stmt)
    (hd : Decl.funcDecl (some (lb, rb, some p, stmts)) ∈ f.decls)
    (l : Nat) (hw : WalkedL l stmts)
    (env : Env) (henv : mkEnv f .line ranges = .ok env)
    (hch : env.isChanged l = .ok true) (hnc : env.isComment l = .ok false)
    (hin : searchScopes env.funcs l ≠ 0) : l ∈ m.multi := by
  unfold marks at h
  rw [henv] at h
  simp only at h
  split at h
  · cases h
  · next st hst =>
    cases h
    rw [mem_sortNat]
    have hg : env.gran = .line := mkEnv_gran f .line ranges env henv
    have hev : Ev.check l ∈ fileEvents (fun l => env.changed.getD l false) f := by
      apply List.mem_flatMap.mpr
      refine ⟨_, hd, ?_⟩
      simp only [declEvents]
      apply List.mem_append.mpr; left
      apply List.mem_append.mpr; right
      exact walkedL_ev hw
    exact events_marked_line env hg _ {} st (Inv.init env) hst l l (Or.inl ⟨hev, hch⟩)
      (skipComments_id env _ l hnc) hin

/-- header rule, line granularity: a changed `if` header forces the line after the opening
    brace of the body (and of a non-empty plain else block) -/
theorem if_header_forces (ch : Nat → Bool) (l e : Nat) (init : List Stmt) (ir cr : ORng) (cond : List Expr)
    (lb rb : Nat) (body els : List Stmt) (hch : ch l = true) :
    Ev.force (lb + 1) ∈ ctlS ch (.ifS l e init ir cr cond lb rb body els) := by
  simp [ctlS, hch]

theorem for_header_forces (ch : Nat → Bool) (l e : Nat) (init : List Stmt) (ir cr pr : ORng) (cond : List Expr)
    (post : List Stmt) (lb rb : Nat) (body : List Stmt) (hch : ch l = true) :
    Ev.force (lb + 1) ∈ ctlS ch (.forS l e init ir cr pr cond post lb rb body) := by
  simp [ctlS, hch]

theorem range_header_forces (ch : Nat → Bool) (l e : Nat) (kr vr xr : ORng) (kvx : List Expr)
    (lb rb : Nat) (body : List Stmt) (hch : ch l = true) :
    Ev.force (lb + 1) ∈ ctlS ch (.rangeS l e kr vr xr kvx lb rb body) := by
  simp [ctlS, hch]

theorem case_header_forces (ch : Nat → Bool) (l e : Nat) (lr : List (Nat × Nat)) (list : List Expr)
    (colon : Nat) (body : List Stmt) (hch : ch l = true) :
    Ev.force (colon + 1) ∈ ctlS ch (.caseC l e lr list colon body) := by
  simp [ctlS, hch]

/-- non-vacuity of `line_guard_partial`'s walk hypothesis: a statement nested in an else-if body
    inside a multi-line function literal on the right of an assignment is reached -/
example : WalkedL 7 [.simple .mark 3 9 [] [.funcLit 3 9 3 9 (some (4, 2))
    [.ifS 4 8 [] none none [] 4 8 [] [.ifS 6 8 [] none none [] 6 8 [.simple .mark 7 7 [] [] []] []]]] []] :=
  .head (.markE (.head (.lit (by decide) (.head (.ifElseIf (by intro a b c h; cases h)
    (.ifB (.head .mark)))))))

end GoatSpec.C03
