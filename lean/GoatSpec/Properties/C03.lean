import GoatSpec.Proofs.Walk
import GoatSpec.Proofs.Legal
import GoatSpec.Proofs.Header
/-! # C03 — every changed executable statement is guarded by a tracking point.

Proved here for **line and func granularity**, for the first event of every scope at **scope
granularity**, and for the header rule's forced positions, for every abstract file / event list
(induction over the statement tree and over the event list). The patch clause, the dominance
reading of the scope clause and the statement positions the walk does not enter (recorded
classes D-C03-1, D-C03-3, D-C03-45) are decided by the `judge:marks` predicate
(`MarkSpec.c03Reasons`) on every implementation answer of the correspondence streams and are
listed as known findings where the unchanged tree violates them; the theorems below carry the
suffix `_partial` for that reason. -/
namespace GoatSpec.C03
open GoatSpec

/-- general form of `markInsert_mem`: the first non-comment line at or after the argument is a
    position afterwards, provided it lies inside a function -/
theorem markInsert_mem_skip (env : Env) (st st' : MState) (line r : Nat)
    (hs : skipComments env (env.comments.size + 1) line = .ok r) (hf : searchScopes env.funcs r ≠ 0)
    (h : markInsert env st line = .ok st') : r ∈ st'.multi := by
  unfold markInsert at h
  rw [hs] at h
  simp only at h
  split at h
  · next h0 => simp at h0; exact absurd h0 hf
  · split at h
    · next hcont => cases h; simpa [List.contains_iff_mem] using hcont
    · cases h; simp

/-- at line granularity, an event that reaches `forceMark` leaves its (comment-adjusted) line marked -/
theorem force_line (env : Env) (hg : env.gran = .line) (st st' : MState) (l r : Nat)
    (hs : skipComments env (env.comments.size + 1) l = .ok r) (hf : searchScopes env.funcs r ≠ 0)
    (h : forceMark env st l = .ok st') : r ∈ st'.multi := by
  unfold forceMark at h
  rw [hg] at h
  exact markInsert_mem_skip env st st' l r hs hf h

/-- **line granularity, fold level.** For every event list: if the fold terminates normally,
    then for every `check l` event whose line is changed, and every `force l` event, the first
    non-comment line `r ≥ l` is a tracking position whenever it lies inside a function. -/
theorem events_marked_line (env : Env) (hg : env.gran = .line) (evs : List Ev) :
    ∀ (st st' : MState), Inv env st → evs.foldlM (stepEv env) st = .ok st' →
    ∀ l r, ((Ev.check l ∈ evs ∧ env.isChanged l = .ok true) ∨ Ev.force l ∈ evs) →
      skipComments env (env.comments.size + 1) l = .ok r → searchScopes env.funcs r ≠ 0 →
      r ∈ st'.multi := by
  induction evs with
  | nil => intro st st' _ _ l r h; rcases h with ⟨h, _⟩ | h <;> cases h
  | cons ev rest ih =>
    intro st st' hinv h l r hev hs hf
    obtain ⟨b', h1, h2⟩ := (foldlM_ok_cons _ _ _ _ _).mp h
    have s1 := stepEv_spec env st b' ev hinv h1
    have s2 := runFrom_spec env rest b' st' s1.1 h2
    -- is the event the head?
    have hhead : (ev = .check l ∧ env.isChanged l = .ok true) ∨ ev = .force l ∨
        ((Ev.check l ∈ rest ∧ env.isChanged l = .ok true) ∨ Ev.force l ∈ rest) := by
      rcases hev with ⟨hm, hc⟩ | hm
      · rcases List.mem_cons.mp hm with e | e
        · exact Or.inl ⟨e.symm, hc⟩
        · exact Or.inr (Or.inr (Or.inl ⟨e, hc⟩))
      · rcases List.mem_cons.mp hm with e | e
        · exact Or.inr (Or.inl e.symm)
        · exact Or.inr (Or.inr (Or.inr e))
    rcases hhead with ⟨e, hc⟩ | e | hrest
    · subst e
      simp only [stepEv, hc] at h1
      exact s2.2.1 r (force_line env hg st b' l r hs hf h1)
    · subst e
      simp only [stepEv] at h1
      exact s2.2.1 r (force_line env hg st b' l r hs hf h1)
    · exact ih b' st' s1.1 h2 l r hrest hs hf

/-- at func granularity, an event inside function scope `idx = (s, e)` leaves the first
    non-comment line after the function's opening brace marked -/
theorem force_func (env : Env) (hg : env.gran = .func) (st st' : MState) (l r s e : Nat)
    (hne : searchScopes env.funcs l ≠ 0) (hfn : env.funcs[searchScopes env.funcs l]? = some (s, e))
    (hs : skipComments env (env.comments.size + 1) (s + 1) = .ok r) (hf : searchScopes env.funcs r ≠ 0)
    (h : forceMark env st l = .ok st') : r ∈ st'.multi := by
  unfold forceMark at h
  rw [hg] at h
  simp only at h
  split at h
  · next h0 => simp at h0; exact absurd h0 hne
  · rw [hfn] at h
    exact markInsert_mem_skip env st st' (s + 1) r hs hf h

/-- **func granularity, fold level.** For every event list: if the fold terminates normally,
    then for every changed `check l` event and every `force l` event whose line lies in the
    function scope `(s, e)`, the first non-comment line after `s` (the line of the function's
    opening brace) is a tracking position whenever it lies inside a function. -/
theorem events_marked_func (env : Env) (hg : env.gran = .func) (evs : List Ev) :
    ∀ (st st' : MState), Inv env st → evs.foldlM (stepEv env) st = .ok st' →
    ∀ l r s e, ((Ev.check l ∈ evs ∧ env.isChanged l = .ok true) ∨ Ev.force l ∈ evs) →
      searchScopes env.funcs l ≠ 0 → env.funcs[searchScopes env.funcs l]? = some (s, e) →
      skipComments env (env.comments.size + 1) (s + 1) = .ok r → searchScopes env.funcs r ≠ 0 →
      r ∈ st'.multi := by
  induction evs with
  | nil => intro st st' _ _ l r s e h; rcases h with ⟨h, _⟩ | h <;> cases h
  | cons ev rest ih =>
    intro st st' hinv h l r s e hev hne hfn hs hf
    obtain ⟨b', h1, h2⟩ := (foldlM_ok_cons _ _ _ _ _).mp h
    have s1 := stepEv_spec env st b' ev hinv h1
    have s2 := runFrom_spec env rest b' st' s1.1 h2
    have hhead : (ev = .check l ∧ env.isChanged l = .ok true) ∨ ev = .force l ∨
        ((Ev.check l ∈ rest ∧ env.isChanged l = .ok true) ∨ Ev.force l ∈ rest) := by
      rcases hev with ⟨hm, hc⟩ | hm
      · rcases List.mem_cons.mp hm with e | e
        · exact Or.inl ⟨e.symm, hc⟩
        · exact Or.inr (Or.inr (Or.inl ⟨e, hc⟩))
      · rcases List.mem_cons.mp hm with e | e
        · exact Or.inr (Or.inl e.symm)
        · exact Or.inr (Or.inr (Or.inr e))
    rcases hhead with ⟨e', hc⟩ | e' | hrest
    · subst e'
      simp only [stepEv, hc] at h1
      exact s2.2.1 r (force_func env hg st b' l r s e hne hfn hs hf h1)
    · subst e'
      simp only [stepEv] at h1
      exact s2.2.1 r (force_func env hg st b' l r s e hne hfn hs hf h1)
    · exact ih b' st' s1.1 h2 l r s e hrest hne hfn hs hf

/-! ## scope granularity: every scope that holds a changed event is visited, and the first
    event that visits a scope leaves its line marked -/

/-- what `markInsert` guarantees about its own line -/
theorem markInsert_own (env : Env) (st st' : MState) (line : Nat) (h : markInsert env st line = .ok st') :
    ∃ r, skipComments env (env.comments.size + 1) line = .ok r ∧ (r ∈ st'.multi ∨ searchScopes env.funcs r = 0)
      ∧ st'.visitedScopes = st.visitedScopes ∧ (∀ x ∈ st.multi, x ∈ st'.multi) := by
  unfold markInsert at h
  split at h
  · cases h
  · next r hr =>
    refine ⟨r, hr, ?_⟩
    split at h
    · next h0 => cases h; simp at h0; exact ⟨Or.inr h0, rfl, fun _ hx => hx⟩
    · split at h
      · next hc => cases h; exact ⟨Or.inl (by simpa [List.contains_iff_mem] using hc), rfl, fun _ hx => hx⟩
      · cases h; exact ⟨Or.inl (by simp), rfl, fun x hx => List.mem_append.mpr (Or.inl hx)⟩

/-- every visited scope key has a witness: an event line of that scope whose comment-adjusted
    line is a tracking position (or lies outside every function, where nothing is inserted) -/
def ScopeWit (env : Env) (st : MState) : Prop :=
  ∀ key ∈ st.visitedScopes, ∃ l0 t0 r0, searchTrees env.trees l0 = some t0 ∧ t0.search l0 = key ∧
    skipComments env (env.comments.size + 1) l0 = .ok r0 ∧ (r0 ∈ st.multi ∨ searchScopes env.funcs r0 = 0)

theorem ScopeWit.mono {env : Env} {st st' : MState} (hw : ScopeWit env st)
    (hv : st'.visitedScopes = st.visitedScopes) (hm : ∀ x ∈ st.multi, x ∈ st'.multi) : ScopeWit env st' := by
  intro key hk
  rw [hv] at hk
  obtain ⟨l0, t0, r0, h1, h2, h3, h4⟩ := hw key hk
  exact ⟨l0, t0, r0, h1, h2, h3, h4.imp (hm r0) id⟩

theorem forceMark_scope (env : Env) (hg : env.gran = .scope) (st st' : MState) (l : Nat)
    (hw : ScopeWit env st) (h : forceMark env st l = .ok st') :
    ScopeWit env st' ∧ (∀ k ∈ st.visitedScopes, k ∈ st'.visitedScopes)
      ∧ (∀ t, searchTrees env.trees l = some t → t.search l ∈ st'.visitedScopes) := by
  unfold forceMark at h
  rw [hg] at h
  simp only at h
  split at h
  · next hn => cases h; exact ⟨hw, fun _ hk => hk, fun t ht => by rw [hn] at ht; cases ht⟩
  · next t ht =>
    split at h
    · next hv =>
      cases h
      refine ⟨hw, fun _ hk => hk, fun t' ht' => ?_⟩
      rw [ht] at ht'; cases ht'
      simpa [List.contains_iff_mem] using hv
    · obtain ⟨r, hr, hin, hvs, hmono⟩ := markInsert_own env _ st' l h
      simp only at hvs hmono
      refine ⟨?_, ?_, ?_⟩
      · intro key hk
        rw [hvs] at hk
        rcases List.mem_cons.mp hk with e | e
        · subst e; exact ⟨l, t, r, ht, rfl, hr, hin⟩
        · obtain ⟨l0, t0, r0, h1, h2, h3, h4⟩ := hw key e
          exact ⟨l0, t0, r0, h1, h2, h3, h4.imp (hmono r0) id⟩
      · intro k hk; rw [hvs]; exact List.mem_cons_of_mem _ hk
      · intro t' ht'; rw [ht] at ht'; cases ht'; rw [hvs]; exact List.mem_cons_self

theorem stepEv_scope (env : Env) (hg : env.gran = .scope) (st st' : MState) (ev : Ev)
    (hw : ScopeWit env st) (h : stepEv env st ev = .ok st') :
    ScopeWit env st' ∧ (∀ k ∈ st.visitedScopes, k ∈ st'.visitedScopes) := by
  cases ev with
  | check l =>
    simp only [stepEv] at h
    split at h
    · cases h
    · cases h; exact ⟨hw, fun _ hk => hk⟩
    · have := forceMark_scope env hg st st' l hw h; exact ⟨this.1, this.2.1⟩
  | force l => have := forceMark_scope env hg st st' l hw h; exact ⟨this.1, this.2.1⟩
  | single l c =>
    simp only [stepEv] at h
    split at h
    · cases h
    · cases h; exact ⟨hw, fun _ hk => hk⟩
    · cases h; exact ⟨hw.mono rfl (fun _ hx => hx), fun _ hk => hk⟩

/-- **scope granularity, fold level.** For every event list: if the fold terminates normally,
    every innermost track scope (block) that holds a changed `check` event or a `force` event is
    visited, and every visited scope has an event line of that very scope whose comment-adjusted
    line is a tracking position — the tracker puts (at least) one call into each block that
    holds a changed statement the walk reaches. That this call precedes the statement is the
    order of the statement walk, judged per input (`MarkSpec.c03Reasons`). -/
theorem events_scope (env : Env) (hg : env.gran = .scope) (evs : List Ev) :
    ∀ (st st' : MState), ScopeWit env st → evs.foldlM (stepEv env) st = .ok st' →
      ScopeWit env st' ∧ (∀ k ∈ st.visitedScopes, k ∈ st'.visitedScopes) ∧
      ∀ l t, ((Ev.check l ∈ evs ∧ env.isChanged l = .ok true) ∨ Ev.force l ∈ evs) →
        searchTrees env.trees l = some t → t.search l ∈ st'.visitedScopes := by
  induction evs with
  | nil =>
    intro st st' hw h
    simp [pure, Except.pure] at h; cases h
    exact ⟨hw, fun _ hk => hk, fun l t h => by rcases h with ⟨h, _⟩ | h <;> cases h⟩
  | cons ev rest ih =>
    intro st st' hw h
    obtain ⟨b', h1, h2⟩ := (foldlM_ok_cons _ _ _ _ _).mp h
    have s1 := stepEv_scope env hg st b' ev hw h1
    have s2 := ih b' st' s1.1 h2
    refine ⟨s2.1, fun k hk => s2.2.1 k (s1.2 k hk), ?_⟩
    intro l t hev ht
    have hhead : (ev = .check l ∧ env.isChanged l = .ok true) ∨ ev = .force l ∨
        ((Ev.check l ∈ rest ∧ env.isChanged l = .ok true) ∨ Ev.force l ∈ rest) := by
      rcases hev with ⟨hm, hc⟩ | hm
      · rcases List.mem_cons.mp hm with e | e
        · exact Or.inl ⟨e.symm, hc⟩
        · exact Or.inr (Or.inr (Or.inl ⟨e, hc⟩))
      · rcases List.mem_cons.mp hm with e | e
        · exact Or.inr (Or.inl e.symm)
        · exact Or.inr (Or.inr (Or.inr e))
    rcases hhead with ⟨e, hc⟩ | e | hrest
    · subst e
      simp only [stepEv, hc] at h1
      exact s2.2.1 _ ((forceMark_scope env hg st b' l hw h1).2.2 t ht)
    · subst e
      simp only [stepEv] at h1
      exact s2.2.1 _ ((forceMark_scope env hg st b' l hw h1).2.2 t ht)
    · exact s2.2.2 l t hrest ht

theorem mem_sortNat (x : Nat) (l : List Nat) : x ∈ sortNat l ↔ x ∈ l := by
  unfold sortNat
  induction l with
  | nil => simp
  | cons y ys ih =>
    simp only [List.foldr_cons, List.mem_cons]
    rw [← ih]
    generalize List.foldr _ [] ys = acc
    induction acc with
    | nil => simp [sortNat.ins]
    | cons z zs ihz =>
      simp only [sortNat.ins]
      split
      · simp
      · split
        · next hxy => simp at hxy; subst hxy; simp
        · simp only [List.mem_cons, ihz]
          constructor
          · rintro (h | h | h)
            · exact Or.inr (Or.inl h)
            · exact Or.inl h
            · exact Or.inr (Or.inr h)
          · rintro (h | h | h)
            · exact Or.inr (Or.inl h)
            · exact Or.inl h
            · exact Or.inr (Or.inr h)

theorem mkEnv_gran (f : File) (g : Gran) (ranges : List (Nat × Nat)) (env : Env)
    (h : mkEnv f g ranges = .ok env) : env.gran = g := by
  unfold mkEnv at h
  split at h
  · cases h
  · dsimp only at h
    split at h
    · cases h
    · split at h
      · cases h
      · cases h; rfl

/-- **C03, line granularity (partial: statements in the positions the walk enters).**
    For every abstract file and changed-line set on which the tracker terminates normally: a
    marking statement (assignment, short declaration, var declaration with values, call, send,
    inc/dec, return, go, defer, branch, bare block) of a declared function's body that the
    statement walk reaches — through any nesting of if / else-if / else / for / range / switch /
    type switch / select / case bodies, bare blocks, labels and multi-line function literals in
    the entered expression positions — and whose first line `l` is changed, is not comment-like
    and lies strictly inside a function, has a tracking block directly before it:
    `l ∈ (marks f .line ranges).multi`. -/
theorem line_guard_partial (f : File) (ranges : List (Nat × Nat)) (m : Marks)
    (h : marks f .line ranges = .ok m)
    (lb rb : Nat) (p : Nat × Nat) (stmts : List Stmt)
    (hd : Decl.funcDecl (some (lb, rb, some p, stmts)) ∈ f.decls)
    (l : Nat) (hw : WalkedL l stmts)
    (env : Env) (henv : mkEnv f .line ranges = .ok env)
    (hch : env.isChanged l = .ok true) (hnc : env.isComment l = .ok false)
    (hin : searchScopes env.funcs l ≠ 0) : l ∈ m.multi := by
  unfold marks at h
  rw [henv] at h
  simp only at h
  split at h
  · cases h
  · next st hst =>
    cases h
    rw [mem_sortNat]
    have hg : env.gran = .line := mkEnv_gran f .line ranges env henv
    have hev : Ev.check l ∈ fileEvents (fun l => env.changed.getD l false) f := by
      apply List.mem_flatMap.mpr
      refine ⟨_, hd, ?_⟩
      simp only [declEvents]
      apply List.mem_append.mpr; left
      apply List.mem_append.mpr; right
      exact walkedL_ev hw
    exact events_marked_line env hg _ {} st (Inv.init env) hst l l (Or.inl ⟨hev, hch⟩)
      (skipComments_id env _ l hnc) hin

/-- fields of an environment built by `mkEnv` (comment flags and function scopes of the file) -/
theorem mkEnv_file (f : File) (g : Gran) (ranges : List (Nat × Nat)) (env : Env)
    (h : mkEnv f g ranges = .ok env) :
    env.comments = commentArray f.lineCodes ∧ functionScopes f = some env.funcs := by
  unfold mkEnv at h
  split at h
  · cases h
  · next fs hfs =>
    dsimp only at h
    split at h
    · cases h
    · split at h
      · cases h
      · cases h; exact ⟨rfl, hfs⟩

/-- **C03, line granularity, on well-formed files: every changed statement the walk reaches is
    guarded — no side condition left.** For every abstract file that meets the layout hypothesis
    (`wfFile`, `linesInFuncOK`: what parsed gofmt output looks like), every changed-line set on
    which the tracker terminates normally, every declared function with a multi-line body: a
    marking statement that the statement walk reaches (through any nesting of if / else / for /
    range / switch / select / case bodies, bare blocks, labels and multi-line function literals
    in the entered expression positions) and whose first line is changed has a tracking block
    directly before it. (`line_guard_partial` with its two side conditions — the line is not
    comment-like and lies inside a function — discharged from the layout hypothesis by `chkL`.) -/
theorem line_guard (f : File) (hwf : wfFile f = true) (hlf : linesInFuncOK f = true)
    (ranges : List (Nat × Nat)) (m : Marks) (h : marks f .line ranges = .ok m)
    (lb rb : Nat) (hne : lb ≠ rb) (p : Nat × Nat) (stmts : List Stmt)
    (hd : Decl.funcDecl (some (lb, rb, some p, stmts)) ∈ f.decls)
    (l : Nat) (hw : WalkedL l stmts)
    (env : Env) (henv : mkEnv f .line ranges = .ok env)
    (hch : env.isChanged l = .ok true) : l ∈ m.multi := by
  obtain ⟨hcm, hfs⟩ := mkEnv_file f .line ranges env henv
  simp only [wfFile, Bool.and_eq_true, List.all_eq_true] at hwf
  obtain ⟨⟨hshape, hblks⟩, _⟩ := hwf
  have hsh : shapeBody stmts = true := by
    have := hshape _ hd; simpa [shapeD] using this
  -- the statement line is a line of a reachable block of the file
  have hcheck : CheckOK (fileBlks f) l := by
    have hb0 : ∀ b ∈ declBlks (.funcDecl (some (lb, rb, some p, stmts))), b ∈ fileBlks f :=
      fun b hb => List.mem_flatMap.mpr ⟨_, hd, hb⟩
    rcases chkL stmts hsh l (walkedL_ev hw) with h1 | h1
    · exact ⟨⟨lb, rb, entriesOf stmts, []⟩, hb0 _ (by simp only [declBlks]; exact List.mem_cons_self ..), h1, Or.inl hne⟩
    · exact h1.mono (fun b hb => hb0 b (by simp only [declBlks]; exact List.mem_cons_of_mem _ hb))
  obtain ⟨b, hb, hlb, hm⟩ := hcheck
  have hbok := hblks b hb
  have hlt : b.lo < b.hi := by
    have hle : b.lo ≤ b.hi := by
      have := hbok.1; simp only [blkOK, Bool.and_eq_true, decide_eq_true_eq] at this; exact this.1
    rcases hm with hne' | hh
    · omega
    · have := hbok.2
      simp only [forcedOK, Bool.or_eq_true, List.isEmpty_iff, decide_eq_true_eq] at this
      rcases this with h1 | h1
      · exact absurd h1 hh
      · exact h1
  obtain ⟨g1, g2, g3⟩ := blk_line_facts f b hbok.1 hlt l hlb
  have hsz := blk_hi_le f b hbok.1 hlt
  have hnc : env.isComment l = .ok false := by
    have := isComment_of_codes env f hcm l (by omega) (by omega)
    rwa [g3] at this
  have hin : searchScopes env.funcs l ≠ 0 := by
    simp only [linesInFuncOK, hfs, List.all_eq_true, Bool.or_eq_true, Bool.not_eq_true', decide_eq_false_iff_not,
      bne_iff_ne, ne_eq] at hlf
    rcases hlf b hb with h1 | h1
    · exact absurd hlt h1
    · exact h1 l hlb
  exact line_guard_partial f ranges m h lb rb p stmts hd l hw env henv hch hnc hin

/-- **C03, header clause in general (line granularity, well-formed files): every forced insert
    reaches its branch.** For every `force` event the control-statement pass emits for the file —
    by `frcS` these are exactly: a changed if / for / range header (body), a changed `if` header
    with a non-empty plain `else` block, a changed switch / type-switch header (every non-empty
    case body), a changed case / comm clause header — the first boundary of the branch block it
    names is a tracking position. -/
theorem forced_branch_guard (f : File) (hwf : wfFile f = true) (hbf : boundariesInFuncOK f = true)
    (ranges : List (Nat × Nat)) (m : Marks) (h : marks f .line ranges = .ok m)
    (env : Env) (henv : mkEnv f .line ranges = .ok env)
    (l : Nat) (hev : Ev.force l ∈ fileEvents (fun l => env.changed.getD l false) f) :
    ∃ b ∈ fileBlks f, l = b.lo + 1 ∧ b.header ≠ [] ∧ b.firstBoundary ∈ m.multi := by
  obtain ⟨hcm, hfs⟩ := mkEnv_file f .line ranges env henv
  simp only [wfFile, Bool.and_eq_true, List.all_eq_true] at hwf
  obtain ⟨⟨hshape, hblks⟩, _⟩ := hwf
  obtain ⟨d, hd, hdev⟩ := List.mem_flatMap.mp hev
  obtain ⟨b, hb, hlb, hh⟩ := decl_force _ d (hshape d hd) l hdev
  have hbf' : b ∈ fileBlks f := List.mem_flatMap.mpr ⟨d, hd, hb⟩
  have hbok := hblks b hbf'
  have hlt : b.lo < b.hi := by
    have := hbok.2
    simp only [forcedOK, Bool.or_eq_true, List.isEmpty_iff, decide_eq_true_eq] at this
    rcases this with h1 | h1
    · exact absurd h1 hh
    · exact h1
  obtain ⟨f1, f2, f3, _⟩ := firstBoundary_facts f b hbok.1 hlt
  have hsz := blk_hi_le f b hbok.1 hlt
  have hfbc : env.isComment b.firstBoundary = .ok false := by
    have := isComment_of_codes env f hcm b.firstBoundary (by omega) (by omega)
    rwa [f3] at this
  have hcsz : env.comments.size = f.lineCodes.size + 1 := by rw [hcm]; simp [commentArray]; omega
  obtain ⟨r, hr⟩ := skipComments_exists env (b.firstBoundary - (b.lo + 1)) (b.lo + 1) (env.comments.size + 1)
    (by omega) (by have : b.lo + 1 + (b.firstBoundary - (b.lo + 1)) = b.firstBoundary := by omega
                   rw [this]; exact hfbc)
  have hreq := force_target_eq env f hcm b hbok.1 hlt _ r hr
  subst hreq
  have hin : searchScopes env.funcs b.firstBoundary ≠ 0 := by
    simp only [boundariesInFuncOK, hfs, List.all_eq_true, Bool.or_eq_true, Bool.not_eq_true', decide_eq_false_iff_not,
      List.isEmpty_iff, bne_iff_ne, ne_eq] at hbf
    rcases hbf b hbf' with (h1 | h1) | h1
    · exact absurd hlt h1
    · exact absurd h1 hh
    · exact h1
  refine ⟨b, hbf', hlb, hh, ?_⟩
  unfold marks at h
  rw [henv] at h
  simp only at h
  split at h
  · cases h
  · next st hst =>
    cases h
    rw [mem_sortNat]
    have hg : env.gran = .line := mkEnv_gran f .line ranges env henv
    rw [hlb] at hev
    exact events_marked_line env hg _ {} st (Inv.init env) hst (b.lo + 1) b.firstBoundary (Or.inr hev) hr hin

/-- **C03, header clause, line granularity, on well-formed files: a changed `if` header guards the
    branch.** For every abstract file that meets the layout hypothesis, every changed-line set on
    which the tracker terminates normally, every declared function with a multi-line body and every
    `if` statement nested ANYWHERE below it (bodies, else branches, clauses, init statements,
    function literals in any expression position — `subL`): when the `if` line or a line of its
    init statement or condition is changed, the first boundary (first statement, or closing brace
    when empty) of a branch block opening on the body's brace line is a tracking position. The
    same proof applies to for / range / case / comm headers (`frcS`). -/
theorem if_header_guard (f : File) (hwf : wfFile f = true) (hbf : boundariesInFuncOK f = true)
    (ranges : List (Nat × Nat)) (m : Marks) (h : marks f .line ranges = .ok m)
    (lb0 rb0 : Nat) (p : Nat × Nat) (stmts : List Stmt)
    (hd : Decl.funcDecl (some (lb0, rb0, some p, stmts)) ∈ f.decls)
    (l e : Nat) (init : List Stmt) (ir cr : ORng) (cond : List Expr) (lb rb : Nat) (body els : List Stmt)
    (ht : Stmt.ifS l e init ir cr cond lb rb body els ∈ subL stmts)
    (env : Env) (henv : mkEnv f .line ranges = .ok env)
    (hch : (env.changed.getD l false || rngChanged (fun l => env.changed.getD l false) ir
            || rngChanged (fun l => env.changed.getD l false) cr) = true) :
    ∃ b ∈ fileBlks f, b.lo = lb ∧ b.header ≠ [] ∧ b.firstBoundary ∈ m.multi := by
  obtain ⟨hcm, hfs⟩ := mkEnv_file f .line ranges env henv
  simp only [wfFile, Bool.and_eq_true, List.all_eq_true] at hwf
  obtain ⟨⟨hshape, hblks⟩, _⟩ := hwf
  -- the force event of the header is an event of the file
  have hf0 : Ev.force (lb + 1) ∈ ctlS (fun l => env.changed.getD l false) (.ifS l e init ir cr cond lb rb body els) := by
    rw [ctlS_if]
    simp only [hch, if_true]
    exact List.mem_append_left _ (List.mem_append_left _ (List.mem_append_left _ (List.mem_append_left _ (List.mem_cons_self ..))))
  have hf1 : Ev.force (lb + 1) ∈ declEvents (fun l => env.changed.getD l false) (.funcDecl (some (lb0, rb0, some p, stmts))) := by
    simp only [declEvents]
    exact List.mem_append_right _ (ctl_subL _ stmts _ ht _ hf0)
  have hev : Ev.force (lb + 1) ∈ fileEvents (fun l => env.changed.getD l false) f :=
    List.mem_flatMap.mpr ⟨_, hd, hf1⟩
  -- … and names a branch block of the file
  obtain ⟨b, hb, hlb, hh⟩ := decl_force _ _ (hshape _ hd) (lb + 1) hf1
  have hbf' : b ∈ fileBlks f := List.mem_flatMap.mpr ⟨_, hd, hb⟩
  have hbok := hblks b hbf'
  have hlt : b.lo < b.hi := by
    have := hbok.2
    simp only [forcedOK, Bool.or_eq_true, List.isEmpty_iff, decide_eq_true_eq] at this
    rcases this with h1 | h1
    · exact absurd h1 hh
    · exact h1
  have hlo : b.lo = lb := by omega
  obtain ⟨f1, f2, f3, _⟩ := firstBoundary_facts f b hbok.1 hlt
  have hsz := blk_hi_le f b hbok.1 hlt
  have hfbc : env.isComment b.firstBoundary = .ok false := by
    have := isComment_of_codes env f hcm b.firstBoundary (by omega) (by omega)
    rwa [f3] at this
  have hcsz : env.comments.size = f.lineCodes.size + 1 := by rw [hcm]; simp [commentArray]; omega
  obtain ⟨r, hr⟩ := skipComments_exists env (b.firstBoundary - (b.lo + 1)) (b.lo + 1) (env.comments.size + 1)
    (by omega) (by have : b.lo + 1 + (b.firstBoundary - (b.lo + 1)) = b.firstBoundary := by omega
                   rw [this]; exact hfbc)
  have hreq := force_target_eq env f hcm b hbok.1 hlt _ r hr
  subst hreq
  have hin : searchScopes env.funcs b.firstBoundary ≠ 0 := by
    simp only [boundariesInFuncOK, hfs, List.all_eq_true, Bool.or_eq_true, Bool.not_eq_true', decide_eq_false_iff_not,
      List.isEmpty_iff, bne_iff_ne, ne_eq] at hbf
    rcases hbf b hbf' with (h1 | h1) | h1
    · exact absurd hlt h1
    · exact absurd h1 hh
    · exact h1
  refine ⟨b, hbf', hlo, hh, ?_⟩
  unfold marks at h
  rw [henv] at h
  simp only at h
  split at h
  · cases h
  · next st hst =>
    cases h
    rw [mem_sortNat]
    have hg : env.gran = .line := mkEnv_gran f .line ranges env henv
    rw [hlb] at hev
    exact events_marked_line env hg _ {} st (Inv.init env) hst (b.lo + 1) b.firstBoundary (Or.inr hev) hr hin

/-- **C03, func granularity (partial: statements in the positions the walk enters).**
    For every abstract file and changed-line set on which the tracker terminates normally: a
    marking statement of a declared function's body that the statement walk reaches and whose
    first line `l` is changed has a tracking block at the start of the function scope `(s, e)`
    that contains `l` (the scope `searchScopes` finds: the innermost declared function or function
    literal) — on the first non-comment line `r` after the line `s` of its opening brace:
    `r ∈ (marks f .func ranges).multi`. -/
theorem func_guard_partial (f : File) (ranges : List (Nat × Nat)) (m : Marks)
    (h : marks f .func ranges = .ok m)
    (lb rb : Nat) (p : Nat × Nat) (stmts : List Stmt)
    (hd : Decl.funcDecl (some (lb, rb, some p, stmts)) ∈ f.decls)
    (l : Nat) (hw : WalkedL l stmts)
    (env : Env) (henv : mkEnv f .func ranges = .ok env)
    (hch : env.isChanged l = .ok true)
    (s e r : Nat) (hin : searchScopes env.funcs l ≠ 0)
    (hfn : env.funcs[searchScopes env.funcs l]? = some (s, e))
    (hs : skipComments env (env.comments.size + 1) (s + 1) = .ok r)
    (hrin : searchScopes env.funcs r ≠ 0) : r ∈ m.multi := by
  unfold marks at h
  rw [henv] at h
  simp only at h
  split at h
  · cases h
  · next st hst =>
    cases h
    rw [mem_sortNat]
    have hg : env.gran = .func := mkEnv_gran f .func ranges env henv
    have hev : Ev.check l ∈ fileEvents (fun l => env.changed.getD l false) f := by
      apply List.mem_flatMap.mpr
      refine ⟨_, hd, ?_⟩
      simp only [declEvents]
      apply List.mem_append.mpr; left
      apply List.mem_append.mpr; right
      exact walkedL_ev hw
    exact events_marked_func env hg _ {} st (Inv.init env) hst l r s e (Or.inl ⟨hev, hch⟩) hin hfn hs hrin

/-- **C03, scope granularity (partial: one call per block that holds a reached changed statement).**
    For every abstract file and changed-line set on which the tracker terminates normally: for a
    marking statement of a declared function's body that the statement walk reaches, whose first
    line `l` is changed and lies in the innermost track scope (block) `key`, the tracker has put a
    tracking block before the comment-adjusted line `r0` of some event line `l0` of that same
    block (or `r0` lies outside every function). Which event comes first — hence that the call
    precedes the statement — is the order of the walk and is judged per input. -/
theorem scope_guard_partial (f : File) (ranges : List (Nat × Nat)) (m : Marks)
    (h : marks f .scope ranges = .ok m)
    (lb rb : Nat) (p : Nat × Nat) (stmts : List Stmt)
    (hd : Decl.funcDecl (some (lb, rb, some p, stmts)) ∈ f.decls)
    (l : Nat) (hw : WalkedL l stmts)
    (env : Env) (henv : mkEnv f .scope ranges = .ok env)
    (hch : env.isChanged l = .ok true)
    (t : TScope) (ht : searchTrees env.trees l = some t) :
    ∃ l0 t0 r0, searchTrees env.trees l0 = some t0 ∧ t0.search l0 = t.search l ∧
      skipComments env (env.comments.size + 1) l0 = .ok r0 ∧ (r0 ∈ m.multi ∨ searchScopes env.funcs r0 = 0) := by
  unfold marks at h
  rw [henv] at h
  simp only at h
  split at h
  · cases h
  · next st hst =>
    cases h
    have hg : env.gran = .scope := mkEnv_gran f .scope ranges env henv
    have hev : Ev.check l ∈ fileEvents (fun l => env.changed.getD l false) f := by
      apply List.mem_flatMap.mpr
      refine ⟨_, hd, ?_⟩
      simp only [declEvents]
      apply List.mem_append.mpr; left
      apply List.mem_append.mpr; right
      exact walkedL_ev hw
    have h0 : ScopeWit env {} := by intro k hk; cases hk
    obtain ⟨hwit, _, hvis⟩ := events_scope env hg _ {} st h0 hst
    obtain ⟨l0, t0, r0, h1, h2, h3, h4⟩ := hwit _ (hvis l t (Or.inl ⟨hev, hch⟩) ht)
    exact ⟨l0, t0, r0, h1, h2, h3, h4.imp (fun hm => (mem_sortNat _ _).mpr hm) id⟩

/-- header rule, line granularity: a changed `if` header forces the line after the opening
    brace of the body (and of a non-empty plain else block) -/
theorem if_header_forces (ch : Nat → Bool) (l e : Nat) (init : List Stmt) (ir cr : ORng) (cond : List Expr)
    (lb rb : Nat) (body els : List Stmt) (hch : ch l = true) :
    Ev.force (lb + 1) ∈ ctlS ch (.ifS l e init ir cr cond lb rb body els) := by
  simp [ctlS, hch]

theorem for_header_forces (ch : Nat → Bool) (l e : Nat) (init : List Stmt) (ir cr pr : ORng) (cond : List Expr)
    (post : List Stmt) (lb rb : Nat) (body : List Stmt) (hch : ch l = true) :
    Ev.force (lb + 1) ∈ ctlS ch (.forS l e init ir cr pr cond post lb rb body) := by
  simp [ctlS, hch]

theorem range_header_forces (ch : Nat → Bool) (l e : Nat) (kr vr xr : ORng) (kvx : List Expr)
    (lb rb : Nat) (body : List Stmt) (hch : ch l = true) :
    Ev.force (lb + 1) ∈ ctlS ch (.rangeS l e kr vr xr kvx lb rb body) := by
  simp [ctlS, hch]

theorem case_header_forces (ch : Nat → Bool) (l e : Nat) (lr : List (Nat × Nat)) (list : List Expr)
    (colon : Nat) (body : List Stmt) (hch : ch l = true) :
    Ev.force (colon + 1) ∈ ctlS ch (.caseC l e lr list colon body) := by
  simp [ctlS, hch]

/-- non-vacuity of `line_guard_partial`'s walk hypothesis: a statement nested in an else-if body
    inside a multi-line function literal on the right of an assignment is reached -/
example : WalkedL 7 [.simple .mark 3 9 [] [.funcLit 3 9 3 9 (some (4, 2))
    [.ifS 4 8 [] none none [] 4 8 [] [.ifS 6 8 [] none none [] 6 8 [.simple .mark 7 7 [] [] []] []]]] []] :=
  .head (.markE (.head (.lit (by decide) (.head (.ifElseIf (by intro a b c h; cases h)
    (.ifB (.head .mark)))))))

/-- non-vacuity of `events_marked_func`: function scope (2, 8); the changed statement on line 5
    is guarded by a call on line 4, the first non-comment line after the brace (line 3 is a comment) -/
def exampleFuncEnv : Env :=
  { gran := .func, n := 8, changed := #[false, false, false, false, false, true, false, false, false],
    comments := #[false, false, false, true, false, false, false, false, false],
    funcs := [(1, 9), (2, 8)], trees := [] }

example : (runEvents exampleFuncEnv [.check 5]).toOption.map (·.multi) = some [4]
    ∧ searchScopes exampleFuncEnv.funcs 5 = 1 ∧ exampleFuncEnv.funcs[1]? = some (2, 8)
    ∧ (skipComments exampleFuncEnv (exampleFuncEnv.comments.size + 1) 3).toOption = some 4 := by decide

/-- non-vacuity of `events_scope`: function block (2, 9) with a child block (4, 7); changed
    statements on lines 5, 6 (child block) and 8 (function block): one call per block, before the
    first changed statement of each -/
def exampleScopeEnv : Env :=
  { gran := .scope, n := 9, changed := #[false, false, false, false, false, true, true, false, true, false],
    comments := #[false, false, false, false, false, false, false, false, false, false],
    funcs := [(1, 10), (2, 9)], trees := [.mk 2 9 [.mk 4 7 []]] }

example : (runEvents exampleScopeEnv [.check 3, .check 5, .check 6, .check 8]).toOption.map
    (fun st => (st.multi, st.visitedScopes)) = some ([5, 8], [(2, 9), (4, 7)]) := by
  simp [runEvents, stepEv, forceMark, exampleScopeEnv, searchTrees, TScope.search, searchChildren, markInsert,
    skipComments, Env.isChanged, Env.isComment, searchScopes, TScope.s, TScope.e, List.zipIdx, bind, Except.bind,
    Except.toOption, pure, Except.pure]

end GoatSpec.C03
