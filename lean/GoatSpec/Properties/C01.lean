import GoatSpec.Properties.C09
import GoatSpec.Proofs.Splice
/-! # C01 — goat track succeeds and the instrumented project still builds.

Lean cannot prove that a Go program compiles (assumption A1, monitored end to end). What is
proved is the part that is goat's own logic: the scope builders are total on body-less
declarations (after the fix of D-C01-1), `count` agrees with the recorded positions for every
event list, the first splice pass writes exactly one block per position, and the second pass
honours at most one position per line — with concrete witnesses of the recorded defect
D-C01-2 (two single-line literals on one line: one block dropped, or a slice-bounds panic).
Legality of every position (a statement boundary of a multi-line function body, outside
comments) is the predicate `MarkSpec.legalReasons`, judged on every implementation answer of
the streams. -/
namespace GoatSpec.C01
open GoatSpec

/-- body-less declarations no longer make the scope builders fail: for every declaration list
    `funcNodes` returns a result (D-C01-1 fixed; before the fix the first body-less FuncDecl
    was a nil dereference) -/
theorem scopes_total (ds : List Decl) : (funcNodes ds).isSome = true := by
  induction ds with
  | nil => rfl
  | cons d r ih =>
    cases d with
    | funcDecl body =>
      cases body with
      | none => simpa [funcNodes] using ih
      | some b =>
        obtain ⟨lb, rb, first, stmts⟩ := b
        simp only [funcNodes, Option.isSome_map]; exact ih
    | genDecl vs => simp only [funcNodes, Option.isSome_map]; exact ih

theorem functionScopes_total (f : File) : (functionScopes f).isSome = true := by
  simp only [functionScopes, Option.isSome_map]; exact scopes_total f.decls

/-- `count` = number of recorded positions, for every event list (so `replaceTracks` finds as
    many placeholders as `Count()` reports whenever every recorded position gets its block) -/
theorem count_is_positions (env : Env) (evs : List Ev) (st : MState) (h : runEvents env evs = .ok st) :
    st.count = st.multi.length + st.singles.length :=
  (C09.points_distinct_and_placed env evs st h).2.2.2

/-- first pass: one block per multi-line position inside the file, nothing else changes length -/
theorem pass1_writes_all {α : Type} (block src : List α) (ps : List Nat) (h : Incr 1 ps)
    (hn : ∀ p ∈ ps, p ≤ src.length) :
    (pass1 block 0 src ps).length = src.length + block.length * ps.length := by
  rw [pass1_eq_spec1 block 0 src ps h]
  exact spec1_length block 0 src ps h (by simpa using hn)

/-- second pass honours at most the given positions -/
theorem pass2Count_le (i : Nat) (lens : List Nat) (ps : List (Nat × Nat)) (n : Nat)
    (h : pass2Count i lens ps = some n) : n ≤ ps.length := by
  induction lens generalizing i ps n with
  | nil => cases ps <;> simp [pass2Count] at h <;> omega
  | cons s rest ih =>
    cases ps with
    | nil => simp [pass2Count] at h; omega
    | cons p ps =>
      obtain ⟨l, c⟩ := p
      simp only [pass2Count] at h
      split at h
      · split at h
        · cases hr : pass2Count (i+1) rest ps with
          | none => simp [hr] at h
          | some r => simp [hr] at h; have := ih (i+1) ps r hr; simp; omega
        · cases h
      · exact ih (i+1) _ n h

/-- *witness* (D-C01-2): two single-line literals on one line — only one block is written
    although `count` is 2, so `replaceTracks` reports expected≠actual and track fails -/
theorem two_singles_one_dropped : pass2Count 0 [60] [(1, 14), (1, 40)] = some 1 := by decide

/-- *witness* (D-C01-2): with a multi-line position above, the second position is shifted onto a
    later, shorter line and `src[:column]` panics (slice bounds out of range) -/
theorem two_singles_panic :
    writtenBlocks [17, 60, 20, 12] [10, 60, 3, 0] [1, 3] [(2, 14), (2, 40)] = none := by decide

/-- non-vacuity: a file with a body-less declaration and a function with a body -/
example : functionScopes ⟨1, 9, #[0,0,0,0,0,0,0,0,0,1], #[], [.funcDecl none,
    .funcDecl (some (3, 8, some (4, 2), []))]⟩ = some [(1, 9), (3, 8)] := by decide

end GoatSpec.C01
