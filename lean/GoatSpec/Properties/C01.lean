import GoatSpec.Properties.C09
import GoatSpec.Proofs.Splice
import GoatSpec.Proofs.Legal
import GoatSpec.Proofs.ScopeBlks
import GoatSpec.Properties.C03
/-! # C01 — goat track succeeds and the instrumented project still builds.

Lean cannot prove that a Go program compiles (assumption A1, monitored end to end). What is
proved is the part that is goat's own logic: the scope builders are total on body-less
declarations (after the fix of D-C01-1), `count` agrees with the recorded positions for every
event list, the first splice pass writes exactly one block per position, and the second pass
honours at most one position per line — with concrete witnesses of the recorded defect
D-C01-2 (two single-line literals on one line: one block dropped, or a slice-bounds panic).
Legality of every position (a statement boundary of a multi-line function body, outside
comments) is the predicate `MarkSpec.legalReasons`, judged on every implementation answer of
the streams. -/
namespace GoatSpec.C01
open GoatSpec

/-- body-less declarations no longer make the scope builders fail: for every declaration list
    `funcNodes` returns a result (D-C01-1 fixed; before the fix the first body-less FuncDecl
    was a nil dereference) -/
theorem scopes_total (ds : List Decl) : (funcNodes ds).isSome = true := by
  induction ds with
  | nil => rfl
  | cons d r ih =>
    cases d with
    | funcDecl body =>
      cases body with
      | none => simpa [funcNodes] using ih
      | some b =>
        obtain ⟨lb, rb, first, stmts⟩ := b
        simp only [funcNodes, Option.isSome_map]; exact ih
    | genDecl vs => simp only [funcNodes, Option.isSome_map]; exact ih

theorem functionScopes_total (f : File) : (functionScopes f).isSome = true := by
  simp only [functionScopes, Option.isSome_map]; exact scopes_total f.decls

/-- `count` = number of recorded positions, for every event list (so `replaceTracks` finds as
    many placeholders as `Count()` reports whenever every recorded position gets its block) -/
theorem count_is_positions (env : Env) (evs : List Ev) (st : MState) (h : runEvents env evs = .ok st) :
    st.count = st.multi.length + st.singles.length :=
  (C09.points_distinct_and_placed env evs st h).2.2.2

/-- first pass: one block per multi-line position inside the file, nothing else changes length -/
theorem pass1_writes_all {α : Type} (block src : List α) (ps : List Nat) (h : Incr 1 ps)
    (hn : ∀ p ∈ ps, p ≤ src.length) :
    (pass1 block 0 src ps).length = src.length + block.length * ps.length := by
  rw [pass1_eq_spec1 block 0 src ps h]
  exact spec1_length block 0 src ps h (by simpa using hn)

/-- second pass honours at most the given positions -/
theorem pass2Count_le (i : Nat) (lens : List Nat) (ps : List (Nat × Nat)) (n : Nat)
    (h : pass2Count i lens ps = some n) : n ≤ ps.length := by
  induction lens generalizing i ps n with
  | nil => cases ps <;> simp [pass2Count] at h <;> omega
  | cons s rest ih =>
    cases ps with
    | nil => simp [pass2Count] at h; omega
    | cons p ps =>
      obtain ⟨l, c⟩ := p
      simp only [pass2Count] at h
      split at h
      · split at h
        · cases hr : pass2Count (i+1) rest ps with
          | none => simp [hr] at h
          | some r => simp [hr] at h; have := ih (i+1) ps r hr; simp; omega
        · cases h
      · exact ih (i+1) _ n h

/-- *witness* (D-C01-2): two single-line literals on one line — only one block is written
    although `count` is 2, so `replaceTracks` reports expected≠actual and track fails -/
theorem two_singles_one_dropped : pass2Count 0 [60] [(1, 14), (1, 40)] = some 1 := by decide

/-- *witness* (D-C01-2): with a multi-line position above, the second position is shifted onto a
    later, shorter line and `src[:column]` panics (slice bounds out of range) -/
theorem two_singles_panic :
    writtenBlocks [17, 60, 20, 12] [10, 60, 3, 0] [1, 3] [(2, 14), (2, 40)] = none := by decide

/-- fields of an environment built by `mkEnv` -/
theorem mkEnv_fields (f : File) (g : Gran) (ranges : List (Nat × Nat)) (env : Env)
    (h : mkEnv f g ranges = .ok env) :
    env.comments = commentArray f.lineCodes ∧ functionScopes f = some env.funcs := by
  unfold mkEnv at h
  split at h
  · cases h
  · next fs hfs =>
    dsimp only at h
    split at h
    · cases h
    · split at h
      · cases h
      · cases h; exact ⟨rfl, hfs⟩

/-- **marks_legal — every tracking block is written at a statement boundary.**
    For every abstract file that meets the layout hypothesis `wfFile` (what gofmt-formatted,
    parsed Go looks like: `Layout.lean`), every changed-line set and the granularities line,
    patch and scope: whenever the tracker terminates normally, each multi-line insert position
    `r` is a statement boundary of a block of a function body — `legalLine f r`: some block of
    the file (function body, bare block, if / else / for / range / case / comm body) has
    `lo < r ≤ hi` and `r` is the first line of one of its statements or its closing line.
    Hence the block lands between two statements, never inside an expression, a header or a
    comment (positions are never comment-like: `C09.points_distinct_and_placed`).
    Proof: `C09.points_justified` (a position is the first non-comment line at or after the line
    of a passing event), `chkL`/`frcL` (mutual induction over the syntax tree: check events name
    statement lines of blocks, force events the line after a branch block's opening line), and
    the line lemmas of `Proofs/Legal` (on a block that meets `blkOK` the skip loop stops at the
    statement line / the first boundary). -/
theorem marks_legal (f : File) (hwf : wfFile f = true) (g : Gran) (hg : g ≠ .func)
    (ranges : List (Nat × Nat)) (m : Marks) (h : marks f g ranges = .ok m) :
    ∀ r ∈ m.multi, legalLine f r = true := by
  intro r hr
  unfold marks at h
  split at h
  · cases h
  · next env henv =>
    dsimp only at h
    split at h
    · cases h
    · next st hst =>
      cases h
      rw [C03.mem_sortNat] at hr
      have hgran : env.gran = g := C03.mkEnv_gran f g ranges env henv
      obtain ⟨hcm, hfs⟩ := mkEnv_fields f g ranges env henv
      have hinv := runEvents_inv env _ st hst
      simp only [wfFile, Bool.and_eq_true, List.all_eq_true] at hwf
      obtain ⟨⟨hshape, hblks⟩, hone⟩ := hwf
      rcases C09.points_justified env _ {} st (Inv.init env) hst r hr with h0 | ⟨l, hl, ht⟩
      · cases h0
      · have hskip : skipComments env (env.comments.size + 1) l = .ok r := by
          rcases ht with ⟨_, h1⟩ | ⟨h1, _⟩
          · exact h1
          · rw [hgran] at h1; exact absurd h1 hg
        rcases hl with ⟨hev, _⟩ | hev
        · -- a check event
          obtain ⟨d, hd, hdev⟩ := List.mem_flatMap.mp hev
          rcases decl_check _ d (hshape d hd) l hdev with hc | ⟨lb, rb, first, stmts, rfl, hlr, hin⟩
          · obtain ⟨b, hb, hlb, hm⟩ := hc
            have hbf : b ∈ fileBlks f := List.mem_flatMap.mpr ⟨d, hd, hb⟩
            have hbok := hblks b hbf
            have hlt : b.lo < b.hi := by
              have hle : b.lo ≤ b.hi := by
                have := hbok.1; simp only [blkOK, Bool.and_eq_true, decide_eq_true_eq] at this; exact this.1
              rcases hm with hne | hh
              · omega
              · have := hbok.2
                simp only [forcedOK, Bool.or_eq_true, List.isEmpty_iff, decide_eq_true_eq] at this
                rcases this with h1 | h1
                · exact absurd h1 hh
                · exact h1
            exact check_target_legal env f hcm b hbf hbok.1 hlt l hlb _ r hskip
          · -- statements of a one-line function declaration: never strictly inside a function
            simp only [oneLinersOK, hfs] at hone
            have := (List.all_eq_true.mp hone) _ hd
            simp only [hlr, bne_self_eq_false, Bool.false_or, Bool.and_eq_true, beq_iff_eq, Bool.not_eq_true',
              decide_eq_true_eq, List.all_eq_true] at this
            obtain ⟨⟨⟨⟨hs0, hnc⟩, h1⟩, hsz⟩, hall⟩ := this
            have hl' : l = rb := by simpa [Ev.checkLineIs] using hall _ hin
            rw [hl'] at hskip
            have hcmt := isComment_of_codes env f hcm rb h1 hsz
            rw [hnc] at hcmt
            rw [skipComments_id env _ rb hcmt] at hskip
            cases hskip
            exact absurd hs0 (hinv.inFunc _ hr)
        · -- a force event
          obtain ⟨d, hd, hdev⟩ := List.mem_flatMap.mp hev
          obtain ⟨b, hb, hlb, hh⟩ := decl_force _ d (hshape d hd) l hdev
          have hbf : b ∈ fileBlks f := List.mem_flatMap.mpr ⟨d, hd, hb⟩
          have hbok := hblks b hbf
          have hlt : b.lo < b.hi := by
            have := hbok.2
            simp only [forcedOK, Bool.or_eq_true, List.isEmpty_iff, decide_eq_true_eq] at this
            rcases this with h1 | h1
            · exact absurd h1 hh
            · exact h1
          subst hlb
          exact force_target_legal env f hcm b hbf hbok.1 hlt _ r hskip

/-- **marks_legal_func — the same at func granularity**: on a well-formed file whose function
    scopes are the brace pairs of its blocks (`scopesOK`), every insert position is the first
    boundary of the body of the function that encloses the line of the passing event — a statement
    boundary again. -/
theorem marks_legal_func (f : File) (hwf : wfFileFunc f = true)
    (ranges : List (Nat × Nat)) (m : Marks) (h : marks f .func ranges = .ok m) :
    ∀ r ∈ m.multi, legalLine f r = true := by
  intro r hr
  unfold marks at h
  split at h
  · cases h
  · next env henv =>
    dsimp only at h
    split at h
    · cases h
    · next st hst =>
      cases h
      rw [C03.mem_sortNat] at hr
      have hgran : env.gran = .func := C03.mkEnv_gran f .func ranges env henv
      obtain ⟨hcm, hfs⟩ := mkEnv_fields f .func ranges env henv
      simp only [wfFileFunc, wfFile, Bool.and_eq_true, List.all_eq_true] at hwf
      obtain ⟨⟨⟨_, hblks⟩, _⟩, hsc⟩ := hwf
      simp only [scopesOK, hfs, List.all_eq_true, List.any_eq_true, Bool.and_eq_true, beq_iff_eq] at hsc
      rcases C09.points_justified env _ {} st (Inv.init env) hst r hr with h0 | ⟨l, _, ht⟩
      · cases h0
      · rcases ht with ⟨h1, _⟩ | ⟨_, s, e, hget, hne, hskip⟩
        · exact absurd hgran h1
        · obtain ⟨p, hp, hlo, hhi⟩ := searchScopes_spec env.funcs l hne
          rw [hget] at hp
          cases hp
          -- the scope is not the first one, hence the brace pair of a block
          have hmem : (s, e) ∈ env.funcs.drop 1 := by
            have hidx : searchScopes env.funcs l = (searchScopes env.funcs l - 1) + 1 := by omega
            rw [hidx] at hget
            have : (env.funcs.drop 1)[searchScopes env.funcs l - 1]? = some (s, e) := by
              rw [List.getElem?_drop]; rw [Nat.add_comm]; exact hget
            exact List.mem_of_getElem? this
          obtain ⟨b, hb, ⟨hbl, hbh⟩⟩ := hsc (s, e) hmem
          have hbok := hblks b hb
          have hbl' : b.lo = s := hbl
          have hbh' : b.hi = e := hbh
          have hlt : b.lo < b.hi := by rw [hbl', hbh']; simp only at hlo hhi; omega
          rw [← hbl'] at hskip
          exact force_target_legal env f hcm b hb hbok.1 hlt _ r hskip

/-- **marks_legal_func, with the scope hypothesis discharged**: that every function scope is the
    brace pair of a block is not an assumption about the input but a consequence of "the file
    scope sorts first" (`headIsFile`: the package clause precedes every function) —
    `Proofs/ScopeBlks.scopesOK_of_headIsFile`: `BlockScopes.Sort` is a permutation, and every
    function node `FunctionScopesOfAST` collects has its body among the blocks of the file
    (mutual structural induction, `litsS` against `blksS`). -/
theorem marks_legal_func' (f : File) (hwf : wfFile f = true) (hh : headIsFile f = true)
    (ranges : List (Nat × Nat)) (m : Marks) (h : marks f .func ranges = .ok m) :
    ∀ r ∈ m.multi, legalLine f r = true :=
  marks_legal_func f (by simp [wfFileFunc, hwf, scopesOK_of_headIsFile f hh]) ranges m h

/-- non-vacuity of `marks_legal`: a well-formed file with an `if` whose header is changed (a
    forced insert that skips a comment line) and a changed statement -/
def legalExample : File :=
  ⟨1, 11, #[0, 1, 0, 0, 2, 0, 0, 0, 0, 0, 1], #[9, 0, 20, 12, 10, 8, 2, 8, 10, 1, 0],
   [.funcDecl (some (3, 10, some (4, 2),
      [.ifS 4 7 [] none (some (4, 4)) [] 4 7 [.simple .mark 6 6 [] [] []] [],
       .simple .mark 8 8 [] [] [], .simple .mark 9 9 [] [] []]))]⟩

example : wfFileFunc legalExample = true := by decide
example : headIsFile legalExample = true := by decide
example : linesInFuncOK legalExample = true := by decide
/-- the hypotheses of `C03.line_guard` are met by the statement on line 6 (inside the `if` body)
    and the one on line 9 of the example -/
example : WalkedL 6 [Stmt.ifS 4 7 [] none (some (4, 4)) [] 4 7 [.simple .mark 6 6 [] [] []] [],
    .simple .mark 8 8 [] [] [], .simple .mark 9 9 [] [] []] := .head (.ifB (.head .mark))
example : WalkedL 9 [Stmt.ifS 4 7 [] none (some (4, 4)) [] 4 7 [.simple .mark 6 6 [] [] []] [],
    .simple .mark 8 8 [] [] [], .simple .mark 9 9 [] [] []] := .tail (.tail (.head .mark))
example : (marks legalExample .line [(4, 1), (9, 1)]).toOption.map (·.multi) = some [6, 9] := by decide +kernel

/-- non-vacuity: a file with a body-less declaration and a function with a body -/
example : functionScopes ⟨1, 9, #[0,0,0,0,0,0,0,0,0,1], #[], [.funcDecl none,
    .funcDecl (some (3, 8, some (4, 2), []))]⟩ = some [(1, 9), (3, 8)] := by decide

end GoatSpec.C01
