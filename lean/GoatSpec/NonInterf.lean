import GoatSpec.Runtime
/-! # GoatSpec.NonInterf — abstract step semantics of an instrumented program

A *program* is a labelled transition system over a user state space `U` with user actions `A`
(`Prog.step`). Nothing is assumed about it: it may be nondeterministic, and `U` may contain the
local states and program counters of any number of goroutines, pending defers, a panic in flight
… — one user step is one step of one of them. An action carries what the step writes to standard
output / the exit status (`Prog.out`).

**Observable semantics of the instrumented build** (`OStep`): states are `U × Status` where
`Status` is the `trackIdStatus` array of `GoatSpec.Runtime`;

* a user step `user a` changes the user component as the program does and neither reads nor
  writes the coverage component;
* a tracking step `track id` leaves the user component alone and updates the coverage component
  exactly as `Runtime.track` (the rendered `Track` function) does. Tracking steps are enabled
  everywhere: the traces of `OStep` are a superset of the traces of *every* placement of tracking
  calls, so the theorems hold for every placement.

**Control-state refinement** (`Instr`): the instrumented program has its own control states `V`
(program counters inside the inserted blocks) with a projection `π : V → U`. The three fields
`user_sim`, `track_stutter`, `lift` are the frame conditions that the other properties establish
about goat's output: the inserted statement is a call with a constant argument and no operand
from user scope (C02 `block_shape`), `Track` touches only `trackIdStatus` (C07 tie), blocks are
added between statements of a function body and nothing else is changed (C01/C02), and `Track`
always returns (it never panics, `track_ignores_out_of_range`).

## What is NOT modelled

* that a Go statement sequence (with goroutines, defers, panics, recover, select …) *is* such a
  transition system, i.e. Go's dynamic semantics and memory model;
* scheduling: fairness and timing — an instrumented build runs extra instructions, so for a
  program whose output depends on the schedule only the *set* of behaviours is preserved
  (`erase_track` / `lift_track`), not which one the scheduler picks; the end-to-end oracle
  therefore uses deterministic programs;
* the service goroutine started in `main` (`log.Fatal` when the port is taken, stderr line
  "Goat track service started"): runs use `GOAT_PORT=0` and compare stdout only;
* resource exhaustion.

These are monitored by the end-to-end oracle `behaviour` (original vs instrumented binaries). -/
namespace GoatSpec.NonInterf
open GoatSpec.Runtime

/-- a program over user states `U`, actions `A`, observable outputs `O` -/
structure Prog (U A O : Type) where
  step : U → A → U → Prop
  out : A → List O

/-- labels of the instrumented system -/
inductive Label (A : Type) where
  | user (a : A)
  | track (id : Int)

/-- finite executions of a labelled transition relation -/
inductive Trace {S L : Type} (step : S → L → S → Prop) : S → List L → S → Prop where
  | nil (s : S) : Trace step s [] s
  | cons {s s₁ s₂ : S} {l : L} {ls : List L} : step s l s₁ → Trace step s₁ ls s₂ → Trace step s (l :: ls) s₂

/-- delete the tracking steps -/
def erase {A : Type} : List (Label A) → List A
  | [] => []
  | .user a :: r => a :: erase r
  | .track _ :: r => erase r

/-- the arguments of the tracking steps, in execution order -/
def trackIds {A : Type} : List (Label A) → List Int
  | [] => []
  | .user _ :: r => trackIds r
  | .track id :: r => id :: trackIds r

/-- what a run prints (and its exit status): the outputs of its user steps in order -/
def outputs {U A O : Type} (P : Prog U A O) (as : List A) : List O := as.flatMap P.out

def outputsI {U A O : Type} (P : Prog U A O) (ls : List (Label A)) : List O :=
  ls.flatMap (fun l => match l with | .user a => P.out a | .track _ => [])

/-- observable semantics of the instrumented build over `UserState × Coverage` -/
inductive OStep {U A O : Type} (P : Prog U A O) (m : Mode) : U × Status → Label A → U × Status → Prop where
  | user {u u' : U} {a : A} (c : Status) : P.step u a u' → OStep P m (u, c) (.user a) (u', c)
  | track (u : U) (c : Status) (id : Int) : OStep P m (u, c) (.track id) (u, track m c id)

/-- the effect of a user action / a tracking call as relations on `UserState × Coverage` -/
def UserEff {U A O : Type} (P : Prog U A O) (a : A) (s s' : U × Status) : Prop := P.step s.1 a s'.1 ∧ s'.2 = s.2
def TrackEff {U : Type} (m : Mode) (id : Int) (s s' : U × Status) : Prop := s'.1 = s.1 ∧ s'.2 = track m s.2 id

/-- an instrumented program with its own control states `V` refining program `P` -/
structure Instr {U A O : Type} (P : Prog U A O) (V : Type) where
  π : V → U
  ustep : V → A → V → Prop
  tstep : V → Int → V → Prop
  /-- user steps are steps of the original program -/
  user_sim : ∀ {v a v'}, ustep v a v' → P.step (π v) a (π v')
  /-- a tracking call does not touch the user state -/
  track_stutter : ∀ {v id v'}, tstep v id v' → π v' = π v
  /-- additivity: whatever the original can do next, the instrumented program can do after
      finitely many tracking calls (`Track` returns) -/
  lift : ∀ {v a u'}, P.step (π v) a u' →
    ∃ (ids : List Int) (v₁ v' : V), Trace tstep v ids v₁ ∧ ustep v₁ a v' ∧ π v' = u'

/-- the instrumented program running with the generated runtime -/
inductive IStep {U A O V : Type} {P : Prog U A O} (I : Instr P V) (m : Mode) : V × Status → Label A → V × Status → Prop where
  | user {v v' : V} {a : A} (c : Status) : I.ustep v a v' → IStep I m (v, c) (.user a) (v', c)
  | track {v v' : V} {id : Int} (c : Status) : I.tstep v id v' → IStep I m (v, c) (.track id) (v', track m c id)

end GoatSpec.NonInterf
