import GoatSpec.MarkSpec
/-! # GoatSpec.Layout — the layout facts of gofmt-formatted Go files that the legality theorem
    (C01 `marks_legal`) assumes, as one decidable predicate `wfFile`.

Nothing here is about goat: the clauses say what a parsed, gofmt-formatted Go file looks like
through the abstraction of `Ast.lean`. The harness evaluates `wfFile` on every file it loads
(request `judge:wf`), so the evidence shows how many inputs meet the hypothesis.

* **shape** (`shapeD`): the tree has the shape of a Go syntax tree — an `else` branch is a block
  or an `if`; the clauses of a `switch` / type switch are case clauses, those of a `select`
  communication clauses, and clauses occur nowhere else; a function literal whose body is on
  one line is on one line altogether (gofmt never leaves `func(\n…\n) { … }`).
* **blocks** (`blkOK`): in every block whose braces (or `case …:` line and the next clause) are
  on different lines, every statement starts on a line of its own strictly after the opening
  line and not after the closing one, those lines and the closing line are not comment-like, and
  every line between the opening line and the first statement (or the closing line of an empty
  block) is comment-like (blank or comment).
* **forced** (`forcedOK`): a block that is the branch of a control statement (if / else / for /
  range / case / comm body) has its delimiters on different lines (gofmt expands them).
* **one-liners** (`oneLinersOK`): a function *declaration* whose body is on one line has its
  statements on that line and is not inside any function body (top-level declarations do not
  nest). A block statement that holds statements has its braces on different lines. -/
namespace GoatSpec

def isClause : Stmt → Bool
  | .caseC .. => true
  | .commC .. => true
  | _ => false

mutual
def shapeE : Expr → Bool
  | .funcLit pl el lb rb _ body => (lb != rb || pl == el) && shapeBody body
  | .call fn args => shapeEs fn && shapeEs args
  | .composite typ elts => shapeEs typ && shapeEs elts
  | .keyValue k v => shapeEs k && shapeEs v
  | .unary x => shapeEs x
  | .structType fs => shapeEs fs
  | .other cs => shapeEs cs
def shapeEs : List Expr → Bool
  | [] => true
  | e :: es => shapeE e && shapeEs es
/-- a statement in body position (never a clause) -/
def shapeS : Stmt → Bool
  | .simple _ _ _ pre ent post => shapeEs pre && shapeEs ent && shapeEs post
  | .block l e body => (body.isEmpty || l != e) && shapeBody body
  | .labeled _ _ inner => shapeS inner
  | .ifS _ _ init _ _ cond _ _ body els => shapeBody init && shapeEs cond && shapeBody body && shapeElse els
  | .forS _ _ init _ _ _ cond post _ _ body => shapeBody init && shapeEs cond && shapeBody post && shapeBody body
  | .rangeS _ _ _ _ _ kvx _ _ body => shapeEs kvx && shapeBody body
  | .switchS _ _ init _ _ tag _ _ cl => shapeBody init && shapeEs tag && shapeCases cl
  | .typeSwitchS _ _ init _ _ asg _ _ cl => shapeBody init && shapeBody asg && shapeCases cl
  | .selectS _ _ _ _ cl => shapeComms cl
  | .caseC .. => false
  | .commC .. => false
/-- `else` is absent, a block, or an `if` -/
def shapeElse : List Stmt → Bool
  | [] => true
  | [s] =>
    match s with
    | .block _ _ b => shapeBody b
    | .ifS l e init ir cr cond lb rb body els => shapeS (.ifS l e init ir cr cond lb rb body els)
    | _ => false
  | _ => false
def shapeCases : List Stmt → Bool
  | [] => true
  | c :: r =>
    (match c with
     | .caseC _ _ _ list _ body => shapeEs list && shapeBody body
     | _ => false) && shapeCases r
def shapeComms : List Stmt → Bool
  | [] => true
  | c :: r =>
    (match c with
     | .commC _ _ _ comm _ body => shapeBody comm && shapeBody body
     | _ => false) && shapeComms r
def shapeBody : List Stmt → Bool
  | [] => true
  | s :: r => shapeS s && shapeBody r
end

def shapeD : Decl → Bool
  | .funcDecl none => true
  | .funcDecl (some (_, _, _, stmts)) => shapeBody stmts
  | .genDecl vs => shapeEs vs

def Blk.lines (b : Blk) : List Nat := b.stmts.map (·.1)

/-- is line `l` comment-like for `markInsert`'s skip loop (blank, `//`, `/*`, `*/` first) -/
def lineComment (f : File) (l : Nat) : Bool := commentLikeCode (codeAt f l)

def blkOK (f : File) (b : Blk) : Bool :=
  b.lo ≤ b.hi && (!(b.lo < b.hi) ||
    (b.lines.all (fun l => b.lo < l && l ≤ b.hi && !lineComment f l)
     && !lineComment f b.hi
     && b.hi ≤ f.lineCodes.size
     && (List.range (b.firstBoundary - (b.lo + 1))).all (fun i => lineComment f (b.lo + 1 + i))))

def forcedOK (b : Blk) : Bool := b.header.isEmpty || b.lo < b.hi

def Ev.checkLineIs (lb : Nat) : Ev → Bool
  | .check l => l == lb
  | _ => true

/-- a function declaration whose body is on one line: its statements are on that line, the line
    is not comment-like, and it is not strictly inside any function scope -/
def oneLinersOK (f : File) : Bool :=
  match functionScopes f with
  | none => false
  | some fs =>
    f.decls.all fun d => match d with
      | .funcDecl (some (lb, rb, _, stmts)) =>
        lb != rb || (searchScopes fs lb == 0 && !lineComment f lb && 1 ≤ lb && lb ≤ f.lineCodes.size
                     && (evL stmts).all (Ev.checkLineIs lb))
      | _ => true

/-- every function scope except the first (the file scope sorts first: the package clause
    precedes every function) is the brace pair of a block of the file -/
def scopesOK (f : File) : Bool :=
  match functionScopes f with
  | none => false
  | some fs => (fs.drop 1).all (fun p => (fileBlks f).any (fun b => b.lo == p.1 && b.hi == p.2))

/-- the statement lines of every multi-line block lie strictly inside a function scope (the scope
    of the function whose body holds the block) -/
def linesInFuncOK (f : File) : Bool :=
  match functionScopes f with
  | none => false
  | some fs => (fileBlks f).all (fun b => !(b.lo < b.hi) || b.lines.all (fun l => searchScopes fs l != 0))

/-- the first boundary of every multi-line branch block lies strictly inside a function scope -/
def boundariesInFuncOK (f : File) : Bool :=
  match functionScopes f with
  | none => false
  | some fs => (fileBlks f).all (fun b => !(b.lo < b.hi) || b.header.isEmpty || searchScopes fs b.firstBoundary != 0)

def wfFile (f : File) : Bool :=
  f.decls.all shapeD && (fileBlks f).all (fun b => blkOK f b && forcedOK b) && oneLinersOK f

/-- the additional hypothesis of the func-granularity clause -/
def wfFileFunc (f : File) : Bool := wfFile f && scopesOK f

/-- which clause fails (for the evidence) -/
def wfReasons (f : File) : List String :=
  (if f.decls.all shapeD then [] else ["shape"]) ++
  (if (fileBlks f).all (blkOK f) then [] else ["blocks"]) ++
  (if (fileBlks f).all forcedOK then [] else ["forced"]) ++
  (if oneLinersOK f then [] else ["one-liners"]) ++
  (if scopesOK f then [] else ["scopes"]) ++
  (if linesInFuncOK f then [] else ["lines-in-func"]) ++
  (if boundariesInFuncOK f then [] else ["boundaries-in-func"])

/-- the statement of C01/C02 about one position: a statement boundary of a block of the file -/
def legalLine (f : File) (m : Nat) : Bool :=
  (fileBlks f).any (fun b => b.lo < m && m ≤ b.hi && (m == b.hi || b.lines.contains m))

end GoatSpec
