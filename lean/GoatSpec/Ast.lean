import GoatSpec.Basic
/-! # GoatSpec.Ast — abstract Go file layouts (what pkg/tracking looks at)

Only what `increment.go` / `types.go` inspect is kept: node kinds, the child slots the two
traversals distinguish, children in `ast.Walk` order, line numbers (and the column of the first
statement of a function body). Expression subtrees that contain no function literal are pruned
by the extractor (they produce no event). -/
namespace GoatSpec

/-- line range `[Pos().Line, End().Line]` of a header part; `none` when the part is absent -/
abbrev ORng := Option (Nat × Nat)

/-- kinds of "simple" statements as `processStatements` sees them -/
inductive SKind where
  | mark        -- assign, return, defer, go, call expression statement, inc/dec, send, branch, empty, bad, …: one check event
  | noMark      -- expression statement that is not a call (receive, parenthesised call): nothing
  | decl (n : Nat)  -- declaration statement: one check event per value spec that has values
deriving Repr, DecidableEq

mutual
inductive Expr where
  /-- `pl el`: Pos().Line / End().Line of the literal (signature included); `lb rb`: body brace
      lines; `first`: position of the first body statement (none = empty body) -/
  | funcLit (pl el lb rb : Nat) (first : Option (Nat × Nat)) (body : List Stmt)
  | call (fn : List Expr) (args : List Expr)            -- fn: 0 or 1 element (pruned when literal-free)
  | composite (typ : List Expr) (elts : List Expr)
  | keyValue (k : List Expr) (v : List Expr)
  | unary (x : List Expr)
  | structType (fieldTypes : List Expr)
  | other (children : List Expr)                        -- every other node, children in Walk order
inductive Stmt where
  /-- `pre`: children only `ast.Inspect` sees, before; `entered`: expression list handed to
      `analyzeAndModifyExpr`; `post`: Inspect-only, after -/
  | simple (k : SKind) (line endLine : Nat) (pre entered post : List Expr)
  | block (line endLine : Nat) (body : List Stmt)
  | labeled (line endLine : Nat) (inner : Stmt)
  /-- `els`: [] none, [ifS …] else-if, [block …] plain else -/
  | ifS (line endLine : Nat) (init : List Stmt) (initR condR : ORng) (cond : List Expr)
        (lb rb : Nat) (body : List Stmt) (els : List Stmt)
  | forS (line endLine : Nat) (init : List Stmt) (initR condR postR : ORng) (cond : List Expr) (post : List Stmt)
        (lb rb : Nat) (body : List Stmt)
  | rangeS (line endLine : Nat) (keyR valR xR : ORng) (kvx : List Expr) (lb rb : Nat) (body : List Stmt)
  | switchS (line endLine : Nat) (init : List Stmt) (initR tagR : ORng) (tag : List Expr)
        (lb rb : Nat) (clauses : List Stmt)
  | typeSwitchS (line endLine : Nat) (init : List Stmt) (initR assignR : ORng) (assign : List Stmt)
        (lb rb : Nat) (clauses : List Stmt)
  | selectS (line endLine : Nat) (lb rb : Nat) (clauses : List Stmt)
  | caseC (line endLine : Nat) (listR : List (Nat × Nat)) (list : List Expr) (colon : Nat) (body : List Stmt)
  | commC (line endLine : Nat) (commR : ORng) (comm : List Stmt) (colon : Nat) (body : List Stmt)
end

inductive Decl where
  /-- `body = none`: body-less declaration. `first`: position of the first body statement. -/
  | funcDecl (body : Option (Nat × Nat × Option (Nat × Nat) × List Stmt))   -- lb, rb, first, stmts
  | genDecl (values : List Expr)

structure File where
  pkgLine : Nat
  endLine : Nat
  /-- one code per element of `strings.Split(content, "\n")`: 0 other, 1 blank, 2 `//`, 3 `/*`, 4 `*/`
      (first characters after `strings.TrimSpace`), plus 5 when the line begins inside a
      multi-line comment -/
  lineCodes : Array Nat
  /-- byte length of each line -/
  lineLens : Array Nat
  decls : List Decl

/-- `utils.IsGoComment` as far as the line code tells -/
def commentLikeCode (c : Nat) : Bool := c % 5 != 0

def insideCommentCode (c : Nat) : Bool := c ≥ 5

def Stmt.line : Stmt → Nat
  | .simple _ l _ _ _ _ => l | .block l _ _ => l | .labeled l _ _ => l
  | .ifS l .. => l | .forS l .. => l | .rangeS l .. => l | .switchS l .. => l
  | .typeSwitchS l .. => l | .selectS l .. => l | .caseC l .. => l | .commC l .. => l

def Stmt.endLine : Stmt → Nat
  | .simple _ _ e _ _ _ => e | .block _ e _ => e | .labeled _ e _ => e
  | .ifS _ e .. => e | .forS _ e .. => e | .rangeS _ e .. => e | .switchS _ e .. => e
  | .typeSwitchS _ e .. => e | .selectS _ e .. => e | .caseC _ e .. => e | .commC _ e .. => e

end GoatSpec
