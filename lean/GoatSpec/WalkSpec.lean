import GoatSpec.GoAst
import GoatSpec.WalkIR
import GoatSpec.Mark
/-! # GoatSpec.WalkSpec — what the translated walkers (`WalkIR`) mean on go/ast nodes (`GoAst`).

`unfold w v` performs ONE element step of a walker on the node `v`: it selects the arm of the type
switch, evaluates guards, loops and paths, and returns the marking events of that step together
with the recursive walker calls it makes (`Item.recS` / `Item.recE`). `expand` replaces each
recursive call by the model's own answer for the abstracted argument (`Mark.evL`, `Mark.evEs`).
`Properties/Walker.lean` proves, against the IR regenerated from the Go source on every run, that
`expand (unfold processStatements g) = evS (abstrS g)` for every statement node `g` (and the same
for expressions): the model's walk equations are what the source says. -/
namespace GoatSpec.WalkSpec
open GoatSpec GoatSpec.GoAst GoatSpec.WalkIR

/-- a value a Go field path can denote -/
inductive GVal where
  | stmt (s : GStmt)
  | stmts (l : List GStmt)
  | expr (e : GExpr)
  | exprs (l : List GExpr)
  | block (lb rb : Nat) (l : List GStmt)      -- a `*ast.BlockStmt` field (`Body`)
  | callOf (fn : GExpr) (args : List GExpr)   -- `DeferStmt.Call` / `GoStmt.Call`
  | genDecl (specs : List GSpec)
  | specs (l : List GSpec)
  | spec (s : GSpec)
  | fieldList (ts : List GExpr)               -- `StructType.Fields`
  | fields (ts : List GExpr)                  -- `Fields.List`
  | field (t : GExpr)                         -- one `*ast.Field` (its Type)
  | nil
  | bad                                       -- no such field: the IR is ill-typed for this node

def ofOS : Option GStmt → GVal | none => .nil | some s => .stmt s
def ofOE : Option GExpr → GVal | none => .nil | some e => .expr e

def getS (s : GStmt) (f : String) : GVal :=
  match s with
  | .assign _ _ _ lhs rhs => if f == "Lhs" then .exprs lhs else if f == "Rhs" then .exprs rhs else .bad
  | .ret _ _ _ rs => if f == "Results" then .exprs rs else .bad
  | .deferS _ _ _ fn args => if f == "Call" then .callOf fn args else .bad
  | .goS _ _ _ fn args => if f == "Call" then .callOf fn args else .bad
  | .exprS _ _ _ x => if f == "X" then .expr x else .bad
  | .declS _ _ _ specs => if f == "Decl" then .genDecl specs else .bad
  | .block _ _ _ list => if f == "List" then .stmts list else .bad
  | .labeled _ _ _ s => if f == "Stmt" then .stmt s else .bad
  | .ifS _ _ _ init cond lb rb body els =>
    if f == "Init" then ofOS init else if f == "Cond" then .expr cond else if f == "Body" then .block lb rb body
    else if f == "Else" then ofOS els else .bad
  | .forS _ _ _ init cond post lb rb body =>
    if f == "Init" then ofOS init else if f == "Cond" then ofOE cond else if f == "Post" then ofOS post
    else if f == "Body" then .block lb rb body else .bad
  | .rangeS _ _ _ key value x lb rb body =>
    if f == "Key" then ofOE key else if f == "Value" then ofOE value else if f == "X" then .expr x
    else if f == "Body" then .block lb rb body else .bad
  | .switchS _ _ _ init tag lb rb cl =>
    if f == "Init" then ofOS init else if f == "Tag" then ofOE tag else if f == "Body" then .block lb rb cl else .bad
  | .typeSwitchS _ _ _ init asg lb rb cl =>
    if f == "Init" then ofOS init else if f == "Assign" then .stmt asg else if f == "Body" then .block lb rb cl else .bad
  | .selectS _ _ _ lb rb cl => if f == "Body" then .block lb rb cl else .bad
  | .caseC _ _ _ list _ body => if f == "List" then .exprs list else if f == "Body" then .stmts body else .bad
  | .commC _ _ _ comm _ body => if f == "Comm" then ofOS comm else if f == "Body" then .stmts body else .bad
  | .otherS .. => .bad

def getE (e : GExpr) (f : String) : GVal :=
  match e with
  | .funcLit _ _ lb rb list => if f == "Body" then .block lb rb list else .bad
  | .call _ _ fn args => if f == "Fun" then .expr fn else if f == "Args" then .exprs args else .bad
  | .composite _ _ typ elts => if f == "Type" then ofOE typ else if f == "Elts" then .exprs elts else .bad
  | .keyValue _ _ k v => if f == "Key" then .expr k else if f == "Value" then .expr v else .bad
  | .unary _ _ x => if f == "X" then .expr x else .bad
  | .structType _ _ fts => if f == "Fields" then .fieldList fts else .bad
  | .other .. => .bad

/-- one selector step; `[0]` is the index expression `x[0]` -/
def GVal.get (v : GVal) (f : String) : GVal :=
  match v with
  | .stmt s => getS s f
  | .expr e => getE e f
  | .block _ _ l => if f == "List" then .stmts l else .bad
  | .callOf fn args => if f == "Fun" then .expr fn else if f == "Args" then .exprs args else .bad
  | .genDecl sp => if f == "Specs" then .specs sp else .bad
  | .spec (.valueSpec typ vs) => if f == "Values" then .exprs vs else if f == "Type" then ofOE typ else .bad
  | .spec (.otherSpec _) => .bad
  | .fieldList ts => if f == "List" then .fields ts else .bad
  | .field t => if f == "Type" then .expr t else .bad
  | .stmts l => if f == "[0]" then (match l with | s :: _ => .stmt s | [] => .bad) else .bad
  | .exprs l => if f == "[0]" then (match l with | e :: _ => .expr e | [] => .bad) else .bad
  | _ => .bad

structure Ctx where
  root : GVal
  vars : List (String × GVal) := []

def resolveFrom (v : GVal) : Path → GVal
  | [] => v
  | f :: r => resolveFrom (v.get f) r

def Ctx.resolve (c : Ctx) : Path → GVal
  | [] => c.root
  | f :: r => if f.startsWith "$" then resolveFrom ((c.vars.lookup f).getD .bad) r else resolveFrom c.root (f :: r)

/-- what a type switch sees -/
def GVal.kind : GVal → String
  | .stmt s => s.kind
  | .expr e => e.kind
  | .block .. => "BlockStmt"
  | .genDecl _ => "GenDecl"
  | .spec (.valueSpec ..) => "ValueSpec"
  | .spec (.otherSpec _) => "?Spec"
  | .callOf .. => "CallExpr"
  | _ => "?"

/-- `x != nil`; a nil slice and an empty slice are not distinguished (both walk nothing) -/
def GVal.nonNil : GVal → Option Bool
  | .nil => some false
  | .bad => none
  | .stmts l => some (!l.isEmpty)
  | .exprs l => some (!l.isEmpty)
  | .specs l => some (!l.isEmpty)
  | .fields l => some (!l.isEmpty)
  | _ => some true

def GVal.len : GVal → Option Nat
  | .stmts l => some l.length
  | .exprs l => some l.length
  | .specs l => some l.length
  | .fields l => some l.length
  | _ => none

def GVal.posLine : GVal → Option Nat
  | .stmt s => some s.line
  | .expr e => some e.rng.1
  | _ => none

def GVal.endLine : GVal → Option Nat
  | .stmt s => some s.endLine
  | .expr e => some e.rng.2
  | _ => none

def evalC (c : Ctx) : Cond → Option Bool
  | .nonNil p => (c.resolve p).nonNil
  | .isNil p => (c.resolve p).nonNil.map (!·)
  | .nonEmpty p => (c.resolve p).len.map (· > 0)
  | .isEmpty p => (c.resolve p).len.map (· == 0)
  | .sameLine p q =>
    match (c.resolve p).posLine, (c.resolve q).endLine with
    | some a, some b => some (a == b)
    | _, _ => none
  | .and a b =>
    match evalC c a with
    | some true => evalC c b
    | r => r
  | .or a b =>
    match evalC c a with
    | some false => evalC c b
    | r => r
  | .not a => (evalC c a).map (!·)

inductive Item where
  | ev (e : Ev)
  | recS (l : List GStmt)      -- t.processStatements(l, fset)
  | recE (l : List GExpr)      -- t.analyzeAndModifyExpr(l, fset)

/-- elements a `range` visits -/
def GVal.elems : GVal → Option (List GVal)
  | .stmts l => some (l.map .stmt)
  | .exprs l => some (l.map .expr)
  | .specs l => some (l.map .spec)
  | .fields l => some (l.map .field)
  | _ => none

/-- results of the iterations of a loop, in order; a `continue` inside a nested loop is not translated -/
def joinRes : List (Option (List Item × Bool)) → Option (List Item × Bool)
  | [] => some ([], false)
  | none :: _ => none
  | some (_, true) :: _ => none
  | some (is, false) :: r =>
    match joinRes r with
    | none => none
    | some (js, b) => some (is ++ js, b)

/-- result: the items produced and whether `continue` was executed; `none`: the IR does not
    type-check on this node (unknown field, `range` over a non-list, …) -/
abbrev Res := Option (List Item × Bool)

mutual
def evalA (c : Ctx) : Act → Res
  | .check p => (c.resolve p).posLine.map fun l => ([.ev (.check l)], false)
  | .single p =>
    match c.resolve p with
    | .stmt s => some ([.ev (.single s.line s.col)], false)
    | _ => none
  | .stmts p =>
    match c.resolve p with
    | .stmts l => some ([.recS l], false)
    | _ => none
  | .stmt1 p =>
    match c.resolve p with
    | .stmt s => some ([.recS [s]], false)
    | _ => none
  | .exprs p =>
    match c.resolve p with
    | .exprs l => some ([.recE l], false)
    | _ => none
  | .expr1 p =>
    match c.resolve p with
    | .expr e => some ([.recE [e]], false)
    | _ => none
  | .guard cd body =>
    match evalC c cd with
    | none => none
    | some false => some ([], false)
    | some true => evalL c body
  | .each p v body =>
    match (c.resolve p).elems with
    | none => none
    | some els => joinRes (els.map fun x => evalL { c with vars := (v, x) :: c.vars } body)
  | .tswitch p arms => evalArms c ((c.resolve p).kind) arms
  | .cont => some ([], true)
def evalL (c : Ctx) : List Act → Res
  | [] => some ([], false)
  | a :: r =>
    match evalA c a with
    | none => none
    | some (is, true) => some (is, true)
    | some (is, false) =>
      match evalL c r with
      | none => none
      | some (js, b) => some (is ++ js, b)
/-- the first arm whose type list names the kind; the translator puts `default` last as the arm `["*"]` -/
def evalArms (c : Ctx) (k : String) : List (List String × List Act) → Res
  | [] => some ([], false)
  | (ks, body) :: r => if ks.contains k || ks.contains "*" then evalL c body else evalArms c k r
end

/-- one element step of a walker: `if x == nil { continue }; switch x.(type) { … }` -/
def unfold (w : Walker) (v : GVal) : Option (List Item) :=
  match v with
  | .nil => some []
  | _ => (evalArms ⟨v, []⟩ v.kind w.arms).map (·.1)

def expandItem : Item → List Ev
  | .ev e => [e]
  | .recS l => evL (abstrL l)
  | .recE l => evEs (abstrEs l)

def expand (is : List Item) : List Ev := is.flatMap expandItem

end GoatSpec.WalkSpec
