import GoatSpec.GoAst
import GoatSpec.WalkIR
import GoatSpec.Mark
/-! # GoatSpec.WalkSpec — what the translated walkers (`WalkIR`) mean on go/ast nodes (`GoAst`).

`unfold w v` performs ONE element step of a walker on the node `v`: it selects the arm of the type
switch, evaluates guards, loops and paths, and returns the marking events of that step together
with the recursive walker calls it makes (`Item.recS` / `Item.recE`). `expand` replaces each
recursive call by the model's own answer for the abstracted argument (`Mark.evL`, `Mark.evEs`).
`Properties/Walker.lean` proves, against the IR regenerated from the Go source on every run, that
`expand (unfold processStatements g) = evS (abstrS g)` for every statement node `g` (and the same
for expressions): the model's walk equations are what the source says. -/
namespace GoatSpec.WalkSpec
open GoatSpec GoatSpec.GoAst GoatSpec.WalkIR

/-- a value a Go field path can denote -/
inductive GVal where
  | stmt (s : GStmt)
  | stmts (l : List GStmt)
  | expr (e : GExpr)
  | exprs (l : List GExpr)
  | block (lb rb : Nat) (l : List GStmt)      -- a `*ast.BlockStmt` field (`Body`)
  | callOf (fn : GExpr) (args : List GExpr)   -- `DeferStmt.Call` / `GoStmt.Call`
  | genDecl (specs : List GSpec)
  | specs (l : List GSpec)
  | spec (s : GSpec)
  | fieldList (ts : List GExpr)               -- `StructType.Fields`
  | fields (ts : List GExpr)                  -- `Fields.List`
  | field (t : GExpr)                         -- one `*ast.Field` (its Type)
  | decl (d : GDecl)                          -- a top-level declaration
  | nil
  | bad                                       -- no such field: the IR is ill-typed for this node

def ofOS : Option GStmt → GVal | none => .nil | some s => .stmt s
def ofOE : Option GExpr → GVal | none => .nil | some e => .expr e

def getS (s : GStmt) (f : String) : GVal :=
  match s with
  | .assign _ _ _ lhs rhs => if f == "Lhs" then .exprs lhs else if f == "Rhs" then .exprs rhs else .bad
  | .ret _ _ _ rs => if f == "Results" then .exprs rs else .bad
  | .deferS _ _ _ fn args => if f == "Call" then .callOf fn args else .bad
  | .goS _ _ _ fn args => if f == "Call" then .callOf fn args else .bad
  | .exprS _ _ _ x => if f == "X" then .expr x else .bad
  | .declS _ _ _ specs => if f == "Decl" then .genDecl specs else .bad
  | .block _ _ _ list => if f == "List" then .stmts list else .bad
  | .labeled _ _ _ s => if f == "Stmt" then .stmt s else .bad
  | .ifS _ _ _ init cond lb rb body els =>
    if f == "Init" then ofOS init else if f == "Cond" then .expr cond else if f == "Body" then .block lb rb body
    else if f == "Else" then ofOS els else .bad
  | .forS _ _ _ init cond post lb rb body =>
    if f == "Init" then ofOS init else if f == "Cond" then ofOE cond else if f == "Post" then ofOS post
    else if f == "Body" then .block lb rb body else .bad
  | .rangeS _ _ _ key value x lb rb body =>
    if f == "Key" then ofOE key else if f == "Value" then ofOE value else if f == "X" then .expr x
    else if f == "Body" then .block lb rb body else .bad
  | .switchS _ _ _ init tag lb rb cl =>
    if f == "Init" then ofOS init else if f == "Tag" then ofOE tag else if f == "Body" then .block lb rb cl else .bad
  | .typeSwitchS _ _ _ init asg lb rb cl =>
    if f == "Init" then ofOS init else if f == "Assign" then .stmt asg else if f == "Body" then .block lb rb cl else .bad
  | .selectS _ _ _ lb rb cl => if f == "Body" then .block lb rb cl else .bad
  | .caseC _ _ _ list _ body => if f == "List" then .exprs list else if f == "Body" then .stmts body else .bad
  | .commC _ _ _ comm _ body => if f == "Comm" then ofOS comm else if f == "Body" then .stmts body else .bad
  | .otherS .. => .bad

def getE (e : GExpr) (f : String) : GVal :=
  match e with
  | .funcLit _ _ lb rb list => if f == "Body" then .block lb rb list else .bad
  | .call _ _ fn args => if f == "Fun" then .expr fn else if f == "Args" then .exprs args else .bad
  | .composite _ _ typ elts => if f == "Type" then ofOE typ else if f == "Elts" then .exprs elts else .bad
  | .keyValue _ _ k v => if f == "Key" then .expr k else if f == "Value" then .expr v else .bad
  | .unary _ _ x => if f == "X" then .expr x else .bad
  | .structType _ _ fts => if f == "Fields" then .fieldList fts else .bad
  | .other .. => .bad

/-- one selector step; `[0]` is the index expression `x[0]` -/
def GVal.get (v : GVal) (f : String) : GVal :=
  match v with
  | .stmt s => getS s f
  | .expr e => getE e f
  | .block _ _ l => if f == "List" then .stmts l else .bad
  | .callOf fn args => if f == "Fun" then .expr fn else if f == "Args" then .exprs args else .bad
  | .genDecl sp => if f == "Specs" then .specs sp else .bad
  | .spec (.valueSpec typ vs) => if f == "Values" then .exprs vs else if f == "Type" then ofOE typ else .bad
  | .spec (.otherSpec _) => .bad
  | .fieldList ts => if f == "List" then .fields ts else .bad
  | .field t => if f == "Type" then .expr t else .bad
  | .decl (.funcDecl (some (lb, rb, list))) => if f == "Body" then .block lb rb list else .bad
  | .decl (.funcDecl none) => if f == "Body" then .nil else .bad
  | .decl (.genDecl sp) => if f == "Specs" then .specs sp else .bad
  | .stmts l => if f == "[0]" then (match l with | s :: _ => .stmt s | [] => .bad) else .bad
  | .exprs l => if f == "[0]" then (match l with | e :: _ => .expr e | [] => .bad) else .bad
  | _ => .bad

structure Ctx where
  root : GVal
  vars : List (String × GVal) := []

def resolveFrom (v : GVal) : Path → GVal
  | [] => v
  | f :: r => resolveFrom (v.get f) r

def Ctx.resolve (c : Ctx) : Path → GVal
  | [] => c.root
  | f :: r => if f.startsWith "$" then resolveFrom ((c.vars.lookup f).getD .bad) r else resolveFrom c.root (f :: r)

/-- what a type switch sees -/
def GVal.kind : GVal → String
  | .stmt s => s.kind
  | .expr e => e.kind
  | .block .. => "BlockStmt"
  | .genDecl _ => "GenDecl"
  | .spec (.valueSpec ..) => "ValueSpec"
  | .spec (.otherSpec _) => "?Spec"
  | .callOf .. => "CallExpr"
  | .decl (.funcDecl _) => "FuncDecl"
  | .decl (.genDecl _) => "GenDecl"
  | _ => "?"

/-- `x != nil`; a nil slice and an empty slice are not distinguished (both walk nothing) -/
def GVal.nonNil : GVal → Option Bool
  | .nil => some false
  | .bad => none
  | .stmts l => some (!l.isEmpty)
  | .exprs l => some (!l.isEmpty)
  | .specs l => some (!l.isEmpty)
  | .fields l => some (!l.isEmpty)
  | _ => some true

def GVal.len : GVal → Option Nat
  | .stmts l => some l.length
  | .exprs l => some l.length
  | .specs l => some l.length
  | .fields l => some l.length
  | _ => none

def GVal.posLine : GVal → Option Nat
  | .stmt s => some s.line
  | .expr e => some e.rng.1
  | _ => none

def GVal.endLine : GVal → Option Nat
  | .stmt s => some s.endLine
  | .expr e => some e.rng.2
  | _ => none

/-- line of a `token.Pos` field -/
def GVal.tokLine (v : GVal) (tok : String) : Option Nat :=
  match v with
  | .stmt (.ifS l ..) => if tok == "If" then some l else none
  | .stmt (.forS l ..) => if tok == "For" then some l else none
  | .stmt (.rangeS l ..) => if tok == "For" then some l else none
  | .stmt (.switchS l ..) => if tok == "Switch" then some l else none
  | .stmt (.typeSwitchS l ..) => if tok == "Switch" then some l else none
  | .stmt (.selectS l ..) => if tok == "Select" then some l else none
  | .stmt (.caseC l _ _ _ colon _) => if tok == "Case" then some l else if tok == "Colon" then some colon else none
  | .stmt (.commC l _ _ _ colon _) => if tok == "Case" then some l else if tok == "Colon" then some colon else none
  | .stmt (.block l ..) => if tok == "Lbrace" then some l else none
  | .block lb rb _ => if tok == "Lbrace" then some lb else if tok == "Rbrace" then some rb else none
  | _ => none

def evalC (c : Ctx) : Cond → Option Bool
  | .nonNil p => (c.resolve p).nonNil
  | .isNil p => (c.resolve p).nonNil.map (!·)
  | .nonEmpty p => (c.resolve p).len.map (· > 0)
  | .isEmpty p => (c.resolve p).len.map (· == 0)
  | .sameLine p q =>
    match (c.resolve p).posLine, (c.resolve q).endLine with
    | some a, some b => some (a == b)
    | _, _ => none
  | .sameTok p a q b =>
    match (c.resolve p).tokLine a, (c.resolve q).tokLine b with
    | some x, some y => some (x == y)
    | _, _ => none
  | .isKind p k => if (c.resolve p).kind == "?" then none else some ((c.resolve p).kind == k)
  | .tt => some true
  | .and a b =>
    match evalC c a with
    | some true => evalC c b
    | r => r
  | .or a b =>
    match evalC c a with
    | some false => evalC c b
    | r => r
  | .not a => (evalC c a).map (!·)

inductive Item where
  | ev (e : Ev)
  | recS (l : List GStmt)      -- t.processStatements(l, fset)
  | recE (l : List GExpr)      -- t.analyzeAndModifyExpr(l, fset)
  | recCtl (l : List GStmt)    -- t.processControlStatements(block, fset)
  | recGSpecs (sp : List GSpec) -- t.processGlobalValueSpecs(specs, fset)
  | recGLits (sp : List GSpec)  -- t.processGlobalFunctionLit(specs, fset)

/-- elements a `range` visits -/
def GVal.elems : GVal → Option (List GVal)
  | .stmts l => some (l.map .stmt)
  | .exprs l => some (l.map .expr)
  | .specs l => some (l.map .spec)
  | .fields l => some (l.map .field)
  | _ => none

/-- results of the iterations of a loop, in order; a `continue` inside a nested loop is not translated -/
def joinRes : List (Option (List Item × Bool)) → Option (List Item × Bool)
  | [] => some ([], false)
  | none :: _ => none
  | some (_, true) :: _ => none
  | some (is, false) :: r =>
    match joinRes r with
    | none => none
    | some (js, b) => some (is ++ js, b)

/-- result: the items produced and whether `continue` was executed; `none`: the IR does not
    type-check on this node (unknown field, `range` over a non-list, …) -/
abbrev Res := Option (List Item × Bool)

mutual
def evalA (c : Ctx) : Act → Res
  | .check p => (c.resolve p).posLine.map fun l => ([.ev (.check l)], false)
  | .single p =>
    match c.resolve p with
    | .stmt s => some ([.ev (.single s.line s.col)], false)
    | _ => none
  | .stmts p =>
    match c.resolve p with
    | .stmts l => some ([.recS l], false)
    | _ => none
  | .stmt1 p =>
    match c.resolve p with
    | .stmt s => some ([.recS [s]], false)
    | _ => none
  | .exprs p =>
    match c.resolve p with
    | .exprs l => some ([.recE l], false)
    | _ => none
  | .expr1 p =>
    match c.resolve p with
    | .expr e => some ([.recE [e]], false)
    | _ => none
  | .guard cd body =>
    match evalC c cd with
    | none => none
    | some false => some ([], false)
    | some true => evalL c body
  | .each p v body =>
    match (c.resolve p).elems with
    | none => none
    | some els => joinRes (els.map fun x => evalL { c with vars := (v, x) :: c.vars } body)
  | .tswitch p arms => evalArms c ((c.resolve p).kind) arms
  | .cont => some ([], true)
  | .ctl p =>
    match c.resolve p with
    | .block _ _ l => some ([.recCtl l], false)
    | _ => none
  | .globalSpecs p =>
    match c.resolve p with
    | .specs sp => some ([.recGSpecs sp], false)
    | _ => none
  | .globalLits p =>
    match c.resolve p with
    | .specs sp => some ([.recGLits sp], false)
    | _ => none
def evalL (c : Ctx) : List Act → Res
  | [] => some ([], false)
  | a :: r =>
    match evalA c a with
    | none => none
    | some (is, true) => some (is, true)
    | some (is, false) =>
      match evalL c r with
      | none => none
      | some (js, b) => some (is ++ js, b)
/-- the first arm whose type list names the kind; the translator puts `default` last as the arm `["*"]` -/
def evalArms (c : Ctx) (k : String) : List (List String × List Act) → Res
  | [] => some ([], false)
  | (ks, body) :: r => if ks.contains k || ks.contains "*" then evalL c body else evalArms c k r
end

/-- one element step of a walker: `if x == nil { continue }; switch x.(type) { … }` -/
def unfold (w : Walker) (v : GVal) : Option (List Item) :=
  match v with
  | .nil => some []
  | _ => (evalArms ⟨v, []⟩ v.kind w.arms).map (·.1)

def expandItem : Item → List Ev
  | .ev e => [e]
  | .recS l => evL (abstrL l)
  | .recE l => evEs (abstrEs l)
  | _ => []

def expand (is : List Item) : List Ev := is.flatMap expandItem

/-- declaration level (`addStmts`): the calls of the control pass and of the two passes over global
    value specs are answered by the model too -/
def expandItemD (ch : Nat → Bool) : Item → List Ev
  | .recCtl l => ctlL ch (abstrL l)
  | .recGSpecs sp => (outerEs (abstrEs (specValues sp))).flatMap globalLitEvents
  | .recGLits sp => (outerEs (abstrEs (specValues sp))).flatMap (globalLitCtl ch)
  | it => expandItem it

def expandD (ch : Nat → Bool) (is : List Item) : List Ev := is.flatMap (expandItemD ch)

/-! ## the control-statement pass (`processControlStatements`, an `ast.Inspect` callback) -/

/-- events, value of `changed` afterwards, `break` executed -/
abbrev CRes := Option (List Ev × Bool × Bool)

/-- iterations of a loop inside an arm: they do not assign `changed` and do not `break` -/
def joinC (changed : Bool) : List CRes → CRes
  | [] => some ([], changed, false)
  | none :: _ => none
  | some (es, ch', br) :: r =>
    if ch' != changed || br then none
    else match joinC changed r with
      | none => none
      | some (fs, c2, b2) => some (es ++ fs, c2, b2)

mutual
def evalCA (ch : Nat → Bool) (c : Ctx) (changed : Bool) : CAct → CRes
  | .breakIf cd => (evalC c cd).map fun b => ([], changed, b)
  | .setLine p tok => ((c.resolve p).tokLine tok).map fun l => ([], ch l, false)
  | .orRange cd p q =>        -- `!changed && cd` is evaluated without the short cut on `changed` (conditions are pure)
    match evalC c cd with
    | none => none
    | some false => some ([], changed, false)
    | some true =>
      match (c.resolve p).posLine, (c.resolve q).endLine with
      | some a, some b => some ([], changed || rngChanged ch (some (a, b)), false)
      | _, _ => none
  | .orAnyRange cd l =>
    match evalC c cd with
    | none => none
    | some false => some ([], changed, false)
    | some true =>
      match c.resolve l with
      | .exprs es => some ([], changed || es.any (fun e => rngChanged ch (some e.rng)), false)
      | _ => none
  | .ifChanged cd body =>      -- the body is evaluated in any case (it is pure); its events count when `changed`
    match evalC c cd with
    | none => none
    | some false => some ([], changed, false)
    | some true =>
      match evalCL ch c changed body with
      | none => none
      | some (es, c2, b2) => some (if changed then es else [], if changed then c2 else changed, changed && b2)
  | .force p tok => ((c.resolve p).tokLine tok).map fun l => ([.force (l + 1)], changed, false)
  | .guard cd body =>
    match evalC c cd with
    | none => none
    | some false => some ([], changed, false)
    | some true => evalCL ch c changed body
  | .each p v body =>
    match (c.resolve p).elems with
    | none => none
    | some els => joinC changed (els.map fun x => evalCL ch { c with vars := (v, x) :: c.vars } changed body)
def evalCL (ch : Nat → Bool) (c : Ctx) (changed : Bool) : List CAct → CRes
  | [] => some ([], changed, false)
  | a :: r =>
    match evalCA ch c changed a with
    | none => none
    | some (es, ch', true) => some (es, ch', true)
    | some (es, ch', false) =>
      match evalCL ch c ch' r with
      | none => none
      | some (fs, c2, b2) => some (es ++ fs, c2, b2)
end

def evalCArms (ch : Nat → Bool) (c : Ctx) (k : String) : List (List String × List CAct) → CRes
  | [] => some ([], false, false)
  | (ks, body) :: r => if ks.contains k || ks.contains "*" then evalCL ch c false body else evalCArms ch c k r

/-- the callback on one node: `var changed bool; switch n := n.(type) { … }; return true` -/
def inspect (w : Inspector) (ch : Nat → Bool) (v : GVal) : Option (List Ev) :=
  match evalCArms ch ⟨v, []⟩ v.kind w.arms with
  | some (es, _, _) => some es
  | none => none

/-! the model's control pass, split into the node's own forced marks and the visit of its children -/

@[simp] theorem rngChanged_none (ch : Nat → Bool) : rngChanged ch none = false := rfl

def elseForce : List Stmt → List Ev
  | [.block bl _ b] => if b.isEmpty then [] else [Ev.force (bl + 1)]
  | _ => []

def ctlHead (ch : Nat → Bool) : Stmt → List Ev
  | .ifS l _ _ initR condR _ lb _ _ els =>
    if ch l || rngChanged ch initR || rngChanged ch condR then Ev.force (lb + 1) :: elseForce els else []
  | .forS l _ _ initR condR postR _ _ lb _ _ =>
    if ch l || rngChanged ch initR || rngChanged ch condR || rngChanged ch postR then [Ev.force (lb + 1)] else []
  | .rangeS l _ keyR valR xR _ lb _ _ =>
    if ch l || rngChanged ch keyR || rngChanged ch valR || rngChanged ch xR then [Ev.force (lb + 1)] else []
  | .switchS l _ _ initR tagR _ _ _ cl => if ch l || rngChanged ch initR || rngChanged ch tagR then clauseForces cl else []
  | .typeSwitchS l _ _ initR asgR _ _ _ cl => if ch l || rngChanged ch initR || rngChanged ch asgR then clauseForces cl else []
  | .caseC l _ listR _ colon _ => if ch l || listR.any (fun r => rngChanged ch (some r)) then [Ev.force (colon + 1)] else []
  | .commC l _ commR _ colon _ => if ch l || rngChanged ch commR then [Ev.force (colon + 1)] else []
  | _ => []

/-- the children in `ast.Walk` order (go/ast's traversal, as the extractor reports it) -/
def ctlKids (ch : Nat → Bool) : Stmt → List Ev
  | .simple _ _ _ pre ent post => ctlEs ch pre ++ ctlEs ch ent ++ ctlEs ch post
  | .block _ _ body => ctlL ch body
  | .labeled _ _ inner => ctlS ch inner
  | .ifS _ _ init _ _ cond _ _ body els => ctlL ch init ++ ctlEs ch cond ++ ctlL ch body ++ ctlL ch els
  | .forS _ _ init _ _ _ cond post _ _ body => ctlL ch init ++ ctlEs ch cond ++ ctlL ch post ++ ctlL ch body
  | .rangeS _ _ _ _ _ kvx _ _ body => ctlEs ch kvx ++ ctlL ch body
  | .switchS _ _ init _ _ tag _ _ cl => ctlL ch init ++ ctlEs ch tag ++ ctlL ch cl
  | .typeSwitchS _ _ init _ _ asg _ _ cl => ctlL ch init ++ ctlL ch asg ++ ctlL ch cl
  | .selectS _ _ _ _ cl => ctlL ch cl
  | .caseC _ _ _ list _ body => ctlEs ch list ++ ctlL ch body
  | .commC _ _ _ comm _ body => ctlL ch comm ++ ctlL ch body

/-! ## passes over global value specs (`processGlobalValueSpecs`, `processGlobalFunctionLit`) -/

/-! outermost function literals of an expression, in `ast.Inspect` order without descending into a literal -/
mutual
def outerG : GExpr → List GExpr
  | .funcLit p e lb rb list => [.funcLit p e lb rb list]
  | .call _ _ fn args => outerG fn ++ outerGs args
  | .composite _ _ typ elts => outerGo typ ++ outerGs elts
  | .keyValue _ _ k v => outerG k ++ outerG v
  | .unary _ _ x => outerG x
  | .structType _ _ fts => outerGs fts
  | .other _ _ cs => outerGs cs
def outerGo : Option GExpr → List GExpr
  | none => []
  | some e => outerG e
def outerGs : List GExpr → List GExpr
  | [] => []
  | e :: es => outerG e ++ outerGs es
end

/-- the arm on each outermost literal, results in order (a `return false` inside the arm ends the arm only) -/
def litPassOn (acts : List Act) : List GExpr → Option (List Item)
  | [] => some []
  | g :: r =>
    match evalL ⟨.expr g, []⟩ acts, litPassOn acts r with
    | some (is, _), some js => some (is ++ js)
    | _, _ => none

def litPass (w : LitPass) (specs : List GSpec) : Option (List Item) :=
  litPassOn w.arm (outerGs (specValues specs))

end GoatSpec.WalkSpec
