import GoatSpec.Ast
/-! # GoatSpec.GoAst — a typed mirror of the go/ast statement and expression nodes that
    pkg/tracking/increment.go distinguishes, and `abstr*`: the Lean mirror of the harness
    extractor `internal/absast` (Go node ↦ abstract layout of `Ast.lean`, without its pruning of
    literal-free expression subtrees, which produce no event).

Fields the parser never leaves nil (`IfStmt.Body`, `FuncLit.Body`, `CallExpr.Fun`, …) are plain
fields; fields that may be nil are `Option`s. `p e` are `Pos().Line` / `End().Line`; statements
also carry the column of `Pos()` (needed for the first statement of a one-line body). -/
namespace GoatSpec.GoAst
open GoatSpec

mutual
inductive GExpr where
  | funcLit (p e lb rb : Nat) (list : List GStmt)           -- Body.Lbrace / Rbrace lines, Body.List
  | call (p e : Nat) (fn : GExpr) (args : List GExpr)
  | composite (p e : Nat) (typ : Option GExpr) (elts : List GExpr)
  | keyValue (p e : Nat) (k v : GExpr)
  | unary (p e : Nat) (x : GExpr)
  | structType (p e : Nat) (fieldTypes : List GExpr)         -- Fields.List[i].Type
  | other (p e : Nat) (children : List GExpr)                -- every other expression node, children in Walk order
inductive GStmt where
  | assign (l c e : Nat) (lhs rhs : List GExpr)
  | ret (l c e : Nat) (results : List GExpr)
  | deferS (l c e : Nat) (fn : GExpr) (args : List GExpr)    -- Call.Fun, Call.Args
  | goS (l c e : Nat) (fn : GExpr) (args : List GExpr)
  | exprS (l c e : Nat) (x : GExpr)
  | declS (l c e : Nat) (specs : List GSpec)                 -- Decl is a *GenDecl
  | block (l c e : Nat) (list : List GStmt)
  | labeled (l c e : Nat) (stmt : GStmt)
  | ifS (l c e : Nat) (init : Option GStmt) (cond : GExpr) (lb rb : Nat) (body : List GStmt) (els : Option GStmt)
  | forS (l c e : Nat) (init : Option GStmt) (cond : Option GExpr) (post : Option GStmt) (lb rb : Nat) (body : List GStmt)
  | rangeS (l c e : Nat) (key value : Option GExpr) (x : GExpr) (lb rb : Nat) (body : List GStmt)
  | switchS (l c e : Nat) (init : Option GStmt) (tag : Option GExpr) (lb rb : Nat) (clauses : List GStmt)
  | typeSwitchS (l c e : Nat) (init : Option GStmt) (assign : GStmt) (lb rb : Nat) (clauses : List GStmt)
  | selectS (l c e : Nat) (lb rb : Nat) (clauses : List GStmt)
  | caseC (l c e : Nat) (list : List GExpr) (colon : Nat) (body : List GStmt)
  | commC (l c e : Nat) (comm : Option GStmt) (colon : Nat) (body : List GStmt)
  | otherS (l c e : Nat) (children : List GExpr)             -- IncDec, Send, Branch, Empty, Bad: the `default:` arm
inductive GSpec where
  | valueSpec (typ : Option GExpr) (values : List GExpr)
  | otherSpec (children : List GExpr)                        -- TypeSpec, ImportSpec
end

/-- top-level declarations as `addStmts` distinguishes them -/
inductive GDecl where
  | funcDecl (body : Option (Nat × Nat × List GStmt))   -- Body: Lbrace line, Rbrace line, List; none = no body
  | genDecl (specs : List GSpec)
  | otherDecl

def GExpr.rng : GExpr → Nat × Nat
  | .funcLit p e .. => (p, e) | .call p e .. => (p, e) | .composite p e .. => (p, e)
  | .keyValue p e .. => (p, e) | .unary p e .. => (p, e) | .structType p e .. => (p, e) | .other p e .. => (p, e)

def GStmt.pos : GStmt → Nat × Nat × Nat
  | .assign l c e .. => (l, c, e) | .ret l c e .. => (l, c, e) | .deferS l c e .. => (l, c, e)
  | .goS l c e .. => (l, c, e) | .exprS l c e .. => (l, c, e) | .declS l c e .. => (l, c, e)
  | .block l c e .. => (l, c, e) | .labeled l c e .. => (l, c, e) | .ifS l c e .. => (l, c, e)
  | .forS l c e .. => (l, c, e) | .rangeS l c e .. => (l, c, e) | .switchS l c e .. => (l, c, e)
  | .typeSwitchS l c e .. => (l, c, e) | .selectS l c e .. => (l, c, e) | .caseC l c e .. => (l, c, e)
  | .commC l c e .. => (l, c, e) | .otherS l c e .. => (l, c, e)

def GStmt.line (s : GStmt) : Nat := s.pos.1
def GStmt.col (s : GStmt) : Nat := s.pos.2.1
def GStmt.endLine (s : GStmt) : Nat := s.pos.2.2
def GStmt.rng (s : GStmt) : Nat × Nat := (s.line, s.endLine)

/-- go/ast type name of a node (what a type switch sees) -/
def GExpr.kind : GExpr → String
  | .funcLit .. => "FuncLit" | .call .. => "CallExpr" | .composite .. => "CompositeLit"
  | .keyValue .. => "KeyValueExpr" | .unary .. => "UnaryExpr" | .structType .. => "StructType" | .other .. => "?Expr"

def GStmt.kind : GStmt → String
  | .assign .. => "AssignStmt" | .ret .. => "ReturnStmt" | .deferS .. => "DeferStmt" | .goS .. => "GoStmt"
  | .exprS .. => "ExprStmt" | .declS .. => "DeclStmt" | .block .. => "BlockStmt" | .labeled .. => "LabeledStmt"
  | .ifS .. => "IfStmt" | .forS .. => "ForStmt" | .rangeS .. => "RangeStmt" | .switchS .. => "SwitchStmt"
  | .typeSwitchS .. => "TypeSwitchStmt" | .selectS .. => "SelectStmt" | .caseC .. => "CaseClause"
  | .commC .. => "CommClause" | .otherS .. => "?Stmt"

def firstPos : List GStmt → Option (Nat × Nat)
  | [] => none
  | s :: _ => some (s.line, s.col)

def countValued : List GSpec → Nat
  | [] => 0
  | .valueSpec _ vs :: r => (if vs.isEmpty then 0 else 1) + countValued r
  | .otherSpec _ :: r => countValued r

/-! ## the extractor's mapping (internal/absast/absast.go), unpruned -/
mutual
def abstrE : GExpr → Expr
  | .funcLit p e lb rb list => .funcLit p e lb rb (firstPos list) (abstrL list)
  | .call _ _ fn args => .call [abstrE fn] (abstrEs args)
  | .composite _ _ typ elts => .composite (abstrOE typ) (abstrEs elts)
  | .keyValue _ _ k v => .keyValue [abstrE k] [abstrE v]
  | .unary _ _ x => .unary [abstrE x]
  | .structType _ _ fts => .structType (abstrEs fts)
  | .other _ _ cs => .other (abstrEs cs)
def abstrOE : Option GExpr → List Expr
  | none => []
  | some e => [abstrE e]
def abstrEs : List GExpr → List Expr
  | [] => []
  | e :: es => abstrE e :: abstrEs es
def abstrSpecs : List GSpec → List Expr
  | [] => []
  | .valueSpec typ vs :: r => .other (abstrOE typ ++ abstrEs vs) :: abstrSpecs r
  | .otherSpec cs :: r => .other (abstrEs cs) :: abstrSpecs r
def abstrS : GStmt → Stmt
  | .assign l _ e lhs rhs => .simple .mark l e (abstrEs lhs) (abstrEs rhs) []
  | .ret l _ e rs => .simple .mark l e [] (abstrEs rs) []
  | .deferS l _ e fn args => .simple .mark l e [] [abstrE fn] (abstrEs args)
  | .goS l _ e fn args => .simple .mark l e [] [abstrE fn] (abstrEs args)
  | .exprS l _ e x =>
    match abstrE x with
    | .call fn args => .simple .mark l e [] (fn ++ args) []
    | ax => .simple .noMark l e [ax] [] []
  | .declS l _ e specs => .simple (.decl (countValued specs)) l e [.other (abstrSpecs specs)] [] []
  | .block l _ e list => .block l e (abstrL list)
  | .labeled l _ e s => .labeled l e (abstrS s)
  | .ifS l _ e init cond lb rb body els =>
    .ifS l e (abstrOS init) (init.map GStmt.rng) (some cond.rng) [abstrE cond] lb rb (abstrL body) (abstrOS els)
  | .forS l _ e init cond post lb rb body =>
    .forS l e (abstrOS init) (init.map GStmt.rng) (cond.map GExpr.rng) (post.map GStmt.rng) (abstrOE cond) (abstrOS post)
      lb rb (abstrL body)
  | .rangeS l _ e key value x lb rb body =>
    .rangeS l e (key.map GExpr.rng) (value.map GExpr.rng) (some x.rng) (abstrOE key ++ abstrOE value ++ [abstrE x]) lb rb (abstrL body)
  | .switchS l _ e init tag lb rb cl =>
    .switchS l e (abstrOS init) (init.map GStmt.rng) (tag.map GExpr.rng) (abstrOE tag) lb rb (abstrL cl)
  | .typeSwitchS l _ e init asg lb rb cl =>
    .typeSwitchS l e (abstrOS init) (init.map GStmt.rng) (some asg.rng) [abstrS asg] lb rb (abstrL cl)
  | .selectS l _ e lb rb cl => .selectS l e lb rb (abstrL cl)
  | .caseC l _ e list colon body => .caseC l e (list.map GExpr.rng) (abstrEs list) colon (abstrL body)
  | .commC l _ e comm colon body => .commC l e (comm.map GStmt.rng) (abstrOS comm) colon (abstrL body)
  | .otherS l _ e cs => .simple .mark l e (abstrEs cs) [] []
def abstrOS : Option GStmt → List Stmt
  | none => []
  | some s => [abstrS s]
def abstrL : List GStmt → List Stmt
  | [] => []
  | s :: ss => abstrS s :: abstrL ss
end

def specValues : List GSpec → List GExpr
  | [] => []
  | .valueSpec _ vs :: r => vs ++ specValues r
  | .otherSpec _ :: r => specValues r

/-- the extractor's mapping of a top-level declaration (`EncodeFile`) -/
def abstrD : GDecl → Decl
  | .funcDecl none => .funcDecl none
  | .funcDecl (some (lb, rb, list)) => .funcDecl (some (lb, rb, firstPos list, abstrL list))
  | .genDecl specs => .genDecl (abstrEs (specValues specs))
  | .otherDecl => .genDecl []

end GoatSpec.GoAst
