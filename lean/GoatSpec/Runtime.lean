import GoatSpec.Basic
/-! # GoatSpec.Runtime — the generated runtime (`pkg/tracking/increment/template.go`)

Executable, total, core-only model of the code rendered from `increment.Template`:

* `trackIdStatus [TRACK_ID_END]uint32` is a `List Nat` of length `N+1` (slot 0 unused) whose
  entries are kept `< 2^32`; `uint32` wrap-around is `% W`.
* `Track(id)`: `0 < id < TRACK_ID_END`, then store 1 (bool mode, `DataType == 1`) or add 1
  (count mode). With `Race` the update is one atomic step (`atomic.StoreUint32` /
  `atomic.AddUint32`), so a `Track` call is one step of the model in either case.
* `/track`: `trackHandler`; `/metrics`: `metrics` (the template after `fix_c07.diff`) and
  `metricsPreFix` (the pinned template: result slices sized by the number of *target* components
  but indexed by component id, unguarded division) with run-time panics as explicit outcomes.

Everything recurses structurally, so concrete instances are closed by `decide`. -/
namespace GoatSpec.Runtime

abbrev Str := List Char

/-- 2^32: `uint32` arithmetic is arithmetic modulo `W` -/
def W : Nat := 4294967296

/-- `DataType`: 1 = bool (store 1), anything else = count (add 1) -/
inductive Mode where
  | bool
  | count
deriving DecidableEq, Repr

/-- `trackIdStatus`: index = track id, length = `TRACK_ID_END` -/
abbrev Status := List Nat

def get (st : Status) (i : Nat) : Nat := st.getD i 0

/-- zero-initialised array of `TRACK_ID_END = n+1` counters -/
def initStatus (n : Nat) : Status := List.replicate (n + 1) 0

/-- `func Track(id trackId)`: `if id > 0 && id < TRACK_ID_END { store / add }` -/
def track (m : Mode) (st : Status) (id : Int) : Status :=
  if 0 < id ∧ id < (st.length : Int) then
    match m with
    | .bool => st.set id.toNat 1
    | .count => st.set id.toNat ((get st id.toNat + 1) % W)
  else st

/-- a sequence of `Track` calls -/
def run (m : Mode) (st : Status) (ops : List Int) : Status := ops.foldl (track m) st

/-- `k` consecutive calls `Track(id)` in closed form (`Proofs/Runtime.lean: run_replicate`);
    lets the driver evaluate bursts of 2^32 calls -/
def trackN (m : Mode) (st : Status) (id : Int) (k : Nat) : Status :=
  if k = 0 then st
  else if 0 < id ∧ id < (st.length : Int) then
    match m with
    | .bool => st.set id.toNat 1
    | .count => st.set id.toNat ((get st id.toNat + k) % W)
  else st

def runN (m : Mode) (st : Status) (ops : List (Int × Nat)) : Status :=
  ops.foldl (fun s o => trackN m s o.1 o.2) st

/-- the flat call sequence denoted by a list of bursts -/
def expand (ops : List (Int × Nat)) : List Int := ops.flatMap (fun o => List.replicate o.2 o.1)

/-! ## configuration rendered into the file -/

structure Comp where
  name : Str
  ids : List Nat
deriving Repr, DecidableEq

/-- `Values`: `TrackIds = 1..n`, `Components[i].ID = i` (the `iota` constants make the value of
    `COMPONENT_x` its position whatever the label), names pairwise distinct (duplicate map keys do
    not compile), every id of a component in `1..n` (otherwise the constant is undeclared). -/
structure Cfg where
  mode : Mode
  n : Nat
  comps : List Comp
deriving Repr

def Cfg.wf (c : Cfg) : Bool :=
  c.comps.all (fun x => x.ids.all (fun i => decide (1 ≤ i) && decide (i ≤ c.n)))
  && (c.comps.map (·.name)).Nodup

def compIds (cfg : Cfg) (c : Nat) : List Nat :=
  match cfg.comps[c]? with
  | some x => x.ids
  | none => []

def compName (cfg : Cfg) (c : Nat) : Str :=
  match cfg.comps[c]? with
  | some x => x.name
  | none => []

/-! ## strconv.Atoi, strings.Split -/

/-- `strconv.Atoi`: optional single sign, at least one digit, ASCII digits only, value must fit
    `int` (64 bit); `none` = `err != nil` -/
def atoi (s : Str) : Option Int :=
  let neg := s.head? == some '-'
  let body := match s with
    | '+' :: r => r
    | '-' :: r => r
    | _ => s
  if body.isEmpty || !body.all (fun c => decide ('0' ≤ c) && decide (c ≤ '9')) then none
  else
    let v := body.foldl (fun a c => a * 10 + (c.toNat - 48)) 0
    if neg then (if v > 9223372036854775808 then none else some (-(v : Int)))
    else (if v ≥ 9223372036854775808 then none else some (v : Int))

/-- `strings.Split(s, ",")` (always at least one field) -/
def splitComma : Str → Str → List Str
  | [], acc => [acc.reverse]
  | c :: r, acc => if c == ',' then acc.reverse :: splitComma r [] else splitComma r (c :: acc)

/-- `order` query parameter: `Atoi` error or outside `0..3` ⇒ 0 -/
def parseOrder (s : Str) : Nat :=
  match atoi s with
  | some v => if 0 ≤ v ∧ v ≤ 3 then v.toNat else 0
  | none => 0

/-- `componentNamesMap[s]` -/
def lookupFrom (s : Str) : List Comp → Nat → Option Nat
  | [], _ => none
  | c :: r, i => if c.name == s then some i else lookupFrom s r (i + 1)

def lookupName (comps : List Comp) (s : Str) : Option Nat := lookupFrom s comps 0

/-- one field of `component=`: name first, then numeric index in `[0, len(components))` -/
def resolve (comps : List Comp) (tok : Str) : Option Nat :=
  match lookupName comps tok with
  | some i => some i
  | none =>
    match atoi tok with
    | some v => if 0 ≤ v ∧ v < (comps.length : Int) then some v.toNat else none
    | none => none

/-- the loop over `componentSlice`; `none` = `http.Error(w, "invalid component", 400)` + return -/
def resolveList (comps : List Comp) : List Str → Option (List Nat)
  | [] => some []
  | t :: r =>
    match resolve comps t with
    | none => none
    | some i =>
      match resolveList comps r with
      | none => none
      | some is => some (i :: is)

/-- `cms`: all components when the parameter is empty -/
def resolveAll (comps : List Comp) (component : Str) : Option (List Nat) :=
  if component.isEmpty then some (List.range comps.length)
  else resolveList comps (splitComma component [])

/-! ## /track -/

structure Item where
  id : Nat
  count : Nat
deriving Repr, DecidableEq

/-- the `less` functions of the four orders as non-strict keys
    (0 count asc, 1 count desc, 2 id asc, 3 id desc) -/
def keyLE (order : Nat) (a b : Item) : Bool :=
  match order with
  | 0 => decide (a.count ≤ b.count)
  | 1 => decide (b.count ≤ a.count)
  | 2 => decide (a.id ≤ b.id)
  | _ => decide (b.id ≤ a.id)

def insertBy (le : Item → Item → Bool) (x : Item) : List Item → List Item
  | [] => [x]
  | y :: r => if le x y then x :: y :: r else y :: insertBy le x r

/-- stable insertion sort. `sort.Slice` is not stable: items with equal keys may come out in any
    order; the model's answer is the canonical one (ties by ascending id, because `Version()` has
    sorted the slice by id before), the harness canonicalises runs of equal keys the same way. -/
def sortBy (le : Item → Item → Bool) (l : List Item) : List Item := l.foldr (insertBy le) []

def coveredCount (items : List Item) : Nat := (items.filter (fun it => decide (it.count > 0))).length

structure CompResult where
  id : Nat
  name : Str
  total : Nat
  covered : Nat
  rate : Nat
  items : List Item
deriving Repr, DecidableEq

/-- body of `for _, component := range cms` -/
def compResult (cfg : Cfg) (st : Status) (order : Nat) (c : Nat) : CompResult :=
  let ids := compIds cfg c
  let items := ids.map (fun id => Item.mk id (get st id))
  let covered := coveredCount items
  -- `items.Version()` sorts the slice by id in place (the hash itself is checked Go-side)
  let items := sortBy (keyLE 2) items
  let items := sortBy (keyLE order) items
  let rate := if ids.length > 0 then covered * 100 / ids.length else 0
  { id := c, name := compName cfg c, total := ids.length, covered := covered, rate := rate, items := items }

inductive TrackResp where
  | invalid                       -- body "invalid component" (the status line stays 200)
  | ok (rs : List CompResult)
deriving Repr, DecidableEq

def trackHandler (cfg : Cfg) (st : Status) (order component : Str) : TrackResp :=
  let o := parseOrder order
  match resolveAll cfg.comps component with
  | none => .invalid
  | some cms => .ok (cms.map (compResult cfg st o))

/-! ## /metrics -/

inductive Ind where
  | total
  | covered
  | ratio
deriving Repr, DecidableEq

structure Row where
  ind : Ind
  name : Str
  value : Nat
deriving Repr, DecidableEq

inductive Panic where
  | oob (idx len : Nat)           -- runtime error: index out of range [idx] with length len
  | div0                          -- runtime error: integer divide by zero
deriving Repr, DecidableEq

inductive MetricsResp where
  | invalid                               -- unknown GOAT_CURRENT_COMPONENT: body "invalid component"
  | ok (rows : List Row)
  | panic (p : Panic) (written : Nat)     -- handler panicked after `written` metric lines
deriving Repr, DecidableEq

/-- `covered` of the inner loop: ids of the component whose counter is > 0 -/
def coveredOf (cfg : Cfg) (st : Status) (c : Nat) : Nat :=
  ((compIds cfg c).filter (fun id => decide (get st id > 0))).length

/-- `targetComponents`; `none` = unknown current component -/
def targets (cfg : Cfg) (cur : Str) : Option (List Nat) :=
  if cur.isEmpty then some (List.range cfg.comps.length)
  else match lookupName cfg.comps cur with
    | some i => some [i]
    | none => none

/-- pinned template, first loop: `coverages[component] = covered; counts[component] = len(ids)`
    on slices of length `len(targetComponents)` -/
def fillPreFix (cfg : Cfg) (st : Status) : List Nat → List Nat → List Nat → Except Panic (List Nat × List Nat)
  | [], cov, cnt => .ok (cov, cnt)
  | c :: r, cov, cnt =>
    if c < cov.length then
      if c < cnt.length then fillPreFix cfg st r (cov.set c (coveredOf cfg st c)) (cnt.set c (compIds cfg c).length)
      else .error (.oob c cnt.length)
    else .error (.oob c cov.length)

/-- pinned template, one metric line (indexing by component id; ratio unguarded) -/
def rowPreFix (cfg : Cfg) (cov cnt : List Nat) (ind : Ind) (c : Nat) : Except Panic Row :=
  match ind with
  | .ratio =>
    match cov[c]?, cnt[c]? with
    | none, _ => .error (.oob c cov.length)
    | some _, none => .error (.oob c cnt.length)
    | some a, some b => if b = 0 then .error .div0 else .ok ⟨ind, compName cfg c, a * 100 / b⟩
  | .total =>
    match cnt[c]? with
    | none => .error (.oob c cnt.length)
    | some b => .ok ⟨ind, compName cfg c, b⟩
  | .covered =>
    match cov[c]? with
    | none => .error (.oob c cov.length)
    | some a => .ok ⟨ind, compName cfg c, a⟩

/-- emit rows one after the other into `out` (reversed); a panic keeps what was written -/
def emit (f : Nat → Except Panic Row) : List Nat → List Row → Except (Panic × Nat) (List Row)
  | [], out => .ok out
  | c :: r, out =>
    match f c with
    | .error p => .error (p, out.length)
    | .ok row => emit f r (row :: out)

/-- the loop over `indicators` (total, covered, ratio), each over all targets -/
def emitAll (f : Ind → Nat → Except Panic Row) (ts : List Nat) : List Ind → List Row → Except (Panic × Nat) (List Row)
  | [], out => .ok out
  | i :: r, out =>
    match emit (f i) ts out with
    | .error e => .error e
    | .ok out' => emitAll f ts r out'

def indicators : List Ind := [.total, .covered, .ratio]

/-- `metricsHandler` of the pinned template (before `fix_c07.diff`) -/
def metricsPreFix (cfg : Cfg) (st : Status) (cur : Str) : MetricsResp :=
  match targets cfg cur with
  | none => .invalid
  | some ts =>
    let z := List.replicate ts.length 0
    match fillPreFix cfg st ts z z with
    | .error p => .panic p 0
    | .ok (cov, cnt) =>
      match emitAll (rowPreFix cfg cov cnt) ts indicators [] with
      | .error (p, n) => .panic p n
      | .ok out => .ok out.reverse

/-- fixed template, first loop: `coverages[i] = covered; counts[i] = len(ids)` for the i-th target -/
def fillFixed (cfg : Cfg) (st : Status) (ts : List Nat) : List Nat × List Nat :=
  (ts.map (coveredOf cfg st), ts.map (fun c => (compIds cfg c).length))

/-- fixed template, one metric line for the target at position `i` (component `c`): slices
    indexed by position, division guarded like `/track` -/
def rowFixed (cfg : Cfg) (cov cnt : List Nat) (ind : Ind) (ic : Nat × Nat) : Except Panic Row :=
  let c := ic.1
  let i := ic.2
  match ind with
  | .ratio =>
    match cov[i]?, cnt[i]? with
    | none, _ => .error (.oob i cov.length)
    | some _, none => .error (.oob i cnt.length)
    | some a, some b => .ok ⟨ind, compName cfg c, if b > 0 then a * 100 / b else 0⟩
  | .total =>
    match cnt[i]? with
    | none => .error (.oob i cnt.length)
    | some b => .ok ⟨ind, compName cfg c, b⟩
  | .covered =>
    match cov[i]? with
    | none => .error (.oob i cov.length)
    | some a => .ok ⟨ind, compName cfg c, a⟩

def emitP (f : Nat × Nat → Except Panic Row) : List (Nat × Nat) → List Row → Except (Panic × Nat) (List Row)
  | [], out => .ok out
  | c :: r, out =>
    match f c with
    | .error p => .error (p, out.length)
    | .ok row => emitP f r (row :: out)

def emitAllP (f : Ind → Nat × Nat → Except Panic Row) (ts : List (Nat × Nat)) : List Ind → List Row → Except (Panic × Nat) (List Row)
  | [], out => .ok out
  | i :: r, out =>
    match emitP (f i) ts out with
    | .error e => .error e
    | .ok out' => emitAllP f ts r out'

/-- `metricsHandler` of the template after `fix_c07.diff` -/
def metrics (cfg : Cfg) (st : Status) (cur : Str) : MetricsResp :=
  match targets cfg cur with
  | none => .invalid
  | some ts =>
    let (cov, cnt) := fillFixed cfg st ts
    match emitAllP (rowFixed cfg cov cnt) ts.zipIdx indicators [] with
    | .error (p, n) => .panic p n
    | .ok out => .ok out.reverse

end GoatSpec.Runtime
