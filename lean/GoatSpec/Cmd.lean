import GoatSpec.TextSpec
/-! # GoatSpec.Cmd — the command layer: abstract state machine (Clean / Instrumented N / Dirty),
    precondition checks in the order of the code, write plans and crash prefixes, and an
    item-level project state for "never loses user code".

`cmd/goat/{main,init,track,patch,clean}.go`, `pkg/goat/{track,patch,clean}.go`,
`pkg/diff/differ.go` (`newRepoInfo`, `checkUncommittedChanges`). -/
namespace GoatSpec

/-! ## 1. abstract machine used to label operation sequences (C11) -/

inductive Op where
  /-- `goat track`; `points` = tracking points this diff yields, `dirty` = git reports uncommitted
      changes to tracked files other than goat.yaml (an input: formatting may or may not differ) -/
  | track (points : Nat) (dirty : Bool)
  | patchDelete                 -- flip one tracking block to +goat:delete, `goat patch`
  | patchInsert                 -- add one +goat:insert marker, `goat patch`
  | patchNoop                   -- `goat patch` without markers
  | clean                       -- `goat clean`
  | userEdit                    -- edit user code outside marker blocks
  | commit                      -- git commit -a (everything incl. instrumentation)
  | discard                     -- git checkout -- . ; git clean (config kept)
  | switchGranularity           -- edit goat.yaml
deriving Repr, DecidableEq

inductive Outcome where | ok | refused
deriving Repr, DecidableEq

/-- `n` = tracking points in the work tree (0 ⇔ Clean, no generated file; n > 0 ⇔ Instrumented n);
    `headN` the same for HEAD's tree -/
structure Abs where
  n : Nat := 0
  headN : Nat := 0
deriving Repr, DecidableEq

def Abs.instrumented (s : Abs) : Bool := s.n > 0

/-- one step; the exit status class and the next abstract state -/
def absStep (s : Abs) : Op → Abs × Outcome
  | .track p dirty =>
    if s.n > 0 then (s, .refused)                       -- "project is already patched"
    else if dirty then (s, .refused)                    -- uncommitted changes
    else ({ s with n := p }, .ok)
  | .patchDelete => ({ s with n := s.n - 1 }, .ok)
  | .patchInsert => ({ s with n := s.n + 1 }, .ok)
  | .patchNoop => (s, .ok)
  | .clean => ({ s with n := 0 }, .ok)
  | .userEdit => (s, .ok)
  | .commit => ({ s with headN := s.n }, .ok)
  | .discard => ({ s with n := s.headN }, .ok)
  | .switchGranularity => (s, .ok)

def absRun (s : Abs) (ops : List Op) : Abs := ops.foldl (fun st op => (absStep st op).1) s

/-! ## 2. preconditions in the order the code evaluates them (C12) -/

/-- facts about the environment a command looks at -/
structure CmdEnv where
  goMod : Bool              -- go.mod exists
  dotGit : Bool             -- .git exists
  configExists : Bool
  configParses : Bool       -- YAML parses
  configValid : Bool        -- Validate() accepts (granularity, precision, data type, printer modes)
  force : Bool              -- init --force
  initFlagsValid : Bool     -- init: Validate() of the flag record
  generatedExists : Bool
  isInit : Bool             -- oldBranch == "INIT"
  worktreeClean : Bool      -- clean, or only untracked files, or only goat.yaml modified
  oldResolves : Bool
  newResolves : Bool
  newIsHead : Bool
  changedFilesParse : Bool  -- every file the command has to rewrite parses
  hasMain : Bool
  hasPoints : Bool          -- the diff yields at least one tracking point
  hasMarkers : Bool         -- patch: a delete/insert marker exists; clean: any artefact exists
deriving Repr

inductive Cmd where | init | track | patch | clean
deriving Repr, DecidableEq

inductive Refusal where
  | notGoModule | notGitRepo | configMissing | configExists | configInvalid | alreadyInstrumented
  | uncommitted | oldUnresolvable | newUnresolvable | newNotHead | parseError | noMain
deriving Repr, DecidableEq

inductive Write where
  | config | generated | source | mainEntry | removeGenerated | removeDir
deriving Repr, DecidableEq

/-- the checks of `PersistentPreRunE` -/
def preRun (e : CmdEnv) : Option Refusal :=
  if !e.goMod then some .notGoModule else if !e.dotGit then some .notGitRepo else none

def loadCfg (e : CmdEnv) : Option Refusal :=
  if !e.configExists then some .configMissing
  else if !(e.configParses && e.configValid) then some .configInvalid else none

/-- what a command does: a refusal (nothing written) or its write plan -/
def plan (e : CmdEnv) : Cmd → Except Refusal (List Write)
  | .init =>
    match preRun e with
    | some r => .error r
    | none =>
      if e.configExists && !e.force then .error .configExists
      else if !e.initFlagsValid then .error .configInvalid
      else .ok [.config]
  | .track =>
    match preRun e with
    | some r => .error r
    | none =>
      match loadCfg e with
      | some r => .error r
      | none =>
        if e.generatedExists then .error .alreadyInstrumented
        else if !e.worktreeClean then .error .uncommitted
        else if !e.isInit && !e.oldResolves then .error .oldUnresolvable
        else if !e.isInit && !e.newResolves then .error .newUnresolvable
        else if !e.isInit && !e.newIsHead then .error .newNotHead
        else if !e.hasMain then .error .noMain
        else if !e.changedFilesParse then .error .parseError
        else if !e.hasPoints then .ok []
        else .ok [.generated, .source, .mainEntry]
  | .patch =>
    match preRun e with
    | some r => .error r
    | none =>
      match loadCfg e with
      | some r => .error r
      | none =>
        if !e.hasMain then .error .noMain
        else if !e.hasMarkers then .ok []
        else if !e.changedFilesParse then .error .parseError      -- a marked file that does not parse: prepare fails before any write
        else .ok [.source, .generated, .mainEntry]
  | .clean =>
    match preRun e with
    | some r => .error r
    | none =>
      match loadCfg e with
      | some r => .error r
      | none =>
        if !e.hasMarkers then .ok []
        else if !e.changedFilesParse then .error .parseError    -- all files are prepared (parsed) before the first write
        else .ok [.source, .removeGenerated, .removeDir]

/-! ## 3. item-level project state (C11 "never loses user code", C15 crash prefixes) -/

/-- one source file: its current arrangement and the user's current text (ghost) -/
structure FileSt where
  items : List Item
  text : List Line          -- the user's lines (what the file must contain once artefacts are removed)

def userItems (items : List Item) : List Item := items.filter (fun it => it.kind.isNone)
def artefactItems (items : List Item) : List Item := items.filter (fun it => it.kind.isSome)

/-- the file is a well-formed arrangement around exactly the user's text -/
def FileSt.ok (f : FileSt) : Prop :=
  (∀ it ∈ f.items, it.wf = true) ∧ nonBlank (flatten (userItems f.items)) = nonBlank f.text

/-- insert tracking blocks before the given item positions (what track / an insert marker does) -/
def insertBlocks : List Nat → Nat → List Item → List Item
  | _, _, [] => []
  | idxs, i, it :: r =>
    (if idxs.contains i then [genBlockItem] else []) ++ it :: insertBlocks idxs (i + 1) r

/-- `goat clean` on a file -/
def cleanFile (f : FileSt) : FileSt := { f with items := userItems f.items }

/-- `goat patch` on a file after the user turned some blocks into delete blocks / added insert
    markers (`edited` = the arrangement after those edits, same user items) -/
def patchFile (isMain : Bool) (f : FileSt) (edited : List Item) : FileSt :=
  { f with items := patchExpected isMain edited }

/-- `goat track` on a file -/
def trackFile (f : FileSt) (idxs : List Nat) : FileSt := { f with items := insertBlocks idxs 0 f.items }

inductive FileOp where
  | track (idxs : List Nat)
  | patch (isMain : Bool) (edited : List Item)
  | clean
  | userEdit (newItems : List Item) (newText : List Line)

/-- a file operation is admissible when the user's edits respect the blocks -/
def FileOp.admissible (f : FileSt) : FileOp → Prop
  | .track _ => True
  | .patch _ edited => (∀ it ∈ edited, it.wf = true) ∧ userItems edited = userItems f.items
  | .clean => True
  | .userEdit newItems newText =>
    (∀ it ∈ newItems, it.wf = true) ∧ artefactItems newItems = artefactItems f.items
      ∧ nonBlank (flatten (userItems newItems)) = nonBlank newText

def fileStep (f : FileSt) : FileOp → FileSt
  | .track idxs => trackFile f idxs
  | .patch m edited => patchFile m f edited
  | .clean => cleanFile f
  | .userEdit ni nt => { items := ni, text := nt }

/-- whole-file write plan of a command over the files it rewrites, and its crash prefixes:
    after `k` writes the first `k` files have their new content, the others the old one -/
def crashState (before after : List FileSt) (k : Nat) : List FileSt :=
  after.take k ++ before.drop k

end GoatSpec
