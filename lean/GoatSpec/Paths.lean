import GoatSpec.Basic
/-! # GoatSpec.Paths — file eligibility (pkg/config/config.go IsTargetDir / IsTargetFile,
    pkg/utils IsGoFile) and the directory walkers built on it (prepareFiles, the INIT differ,
    the main-package scan), over path *segments*. The project root is `[]`. -/
namespace GoatSpec

abbrev Path := List String

structure PathCfg where
  /-- ignore entries, each split into segments (never empty) -/
  ignores : List Path
  skipNested : Bool
  /-- directories below the root that contain a go.mod -/
  nestedRoots : List Path

def isGoFileName (n : String) : Bool := n.endsWith ".go" && !n.endsWith "_test.go"

/-- `Config.IsTargetDir` -/
def isTargetDir (c : PathCfg) (dir : Path) : Bool :=
  !(dir.head? == some "vendor" || dir.head? == some "node_modules")
  && !dir.contains "testdata"
  && !c.ignores.any (fun e => e.isPrefixOf dir)
  && !(c.skipNested && !dir.isEmpty && c.nestedRoots.any (fun r => r.isPrefixOf dir))

/-- `Config.IsTargetFile` on `dir ++ [name]` -/
def isTargetFile (c : PathCfg) (dir : Path) (name : String) : Bool :=
  !c.ignores.any (fun e => e.isPrefixOf (dir ++ [name]))
  && isTargetDir c dir && isGoFileName name

/-- a directory tree -/
inductive Tree where
  | file (name : String)
  | dir (name : String) (children : List Tree)

/-! `filepath.Walk` with `SkipDir` on non-target directories, collecting target files
    (`prepareFiles`, `DifferInit`, `analyzeMainPackages`) -/
mutual
def walk (c : PathCfg) (at_ : Path) : Tree → List Path
  | .file n => if isTargetFile c at_ n then [at_ ++ [n]] else []
  | .dir n cs => if isTargetDir c (at_ ++ [n]) then walkL c (at_ ++ [n]) cs else []
def walkL (c : PathCfg) (at_ : Path) : List Tree → List Path
  | [] => []
  | t :: ts => walk c at_ t ++ walkL c at_ ts
end

/-! every file of the tree with its directory -/
mutual
def allFiles (at_ : Path) : Tree → List (Path × String)
  | .file n => [(at_, n)]
  | .dir n cs => allFilesL (at_ ++ [n]) cs
def allFilesL (at_ : Path) : List Tree → List (Path × String)
  | [] => []
  | t :: ts => allFiles at_ t ++ allFilesL at_ ts
end

/-- the selection rule the differs apply to changed paths (no walk, no pruning) -/
def selectFiles (c : PathCfg) (fs : List (Path × String)) : List Path :=
  (fs.filter (fun p => isTargetFile c p.1 p.2)).map (fun p => p.1 ++ [p.2])

/-! ## the nested-module test with its cache (`Config.IsBelongNestedModule`, config.go:550)

The Go code answers from a `sync.Map` keyed by directory, consults the entries of the ancestors
(a cached `true` of an ancestor settles it), and otherwise walks up the directories below the
project root looking for a go.mod. The cache makes the answer depend on the queries made before,
unless it is transparent — which is the theorem `C13.nested_cache_transparent`. -/

/-- stateless specification: the directory or one of its ancestors below the project root holds a go.mod -/
def specNested (nested : List Path) (dir : Path) : Bool :=
  !dir.isEmpty && nested.any (fun r => r.isPrefixOf dir)

/-- the directory itself, its parent, …, the project root `[]` -/
def ancestorsOrSelf (p : Path) : List Path :=
  ((List.range (p.length + 1)).map (fun k => p.take k)).reverse

abbrev NCache := List (Path × Bool)

/-- `isBelongUncached`: walk up from the directory, stop at the project root -/
def uncachedNested (nested : List Path) (dir : Path) : Bool :=
  (ancestorsOrSelf dir).any (fun a => !a.isEmpty && nested.contains a)

/-- one call of `IsBelongNestedModule` -/
def queryNested (nested : List Path) (cache : NCache) (dir : Path) : Bool × NCache :=
  match cache.lookup dir with
  | some b => (b, cache)
  | none =>
    if (ancestorsOrSelf dir).any (fun a => cache.lookup a == some true) then (true, (dir, true) :: cache)
    else
      let r := uncachedNested nested dir
      (r, (dir, r) :: cache)

/-- a sequence of calls on one configuration: the answers in order -/
def runNested (nested : List Path) : NCache → List Path → List Bool
  | _, [] => []
  | cache, q :: qs =>
    let r := queryNested nested cache q
    r.1 :: runNested nested r.2 qs

end GoatSpec
