/-! # GoatSpec.Basic — shared helpers (core Lean only) -/
namespace GoatSpec

/-- a source line without its terminating newline -/
abbrev Line := List Char

/-- Go regexp `\s` without the newline (lines are already split at `\n`): `[\t\f\r ]` -/
def isWs (c : Char) : Bool := c == ' ' || c == '\t' || c == '\x0c' || c == '\r'

/-- `strings.TrimSpace` white space restricted to what can occur inside one line:
    Go's unicode.IsSpace for ASCII is `\t \n \v \f \r ' '` plus U+0085, U+00A0 -/
def isGoSpace (c : Char) : Bool :=
  c == ' ' || c == '\t' || c == '\x0b' || c == '\x0c' || c == '\r' || c == '\u0085' || c == ' '

def ltrim (l : Line) : Line := l.dropWhile isWs

def isBlank (l : Line) : Bool := l.all isWs

/-- strictly increasing list of naturals, all ≥ lo -/
def Incr : Nat → List Nat → Prop
  | _, [] => True
  | lo, p :: ps => lo ≤ p ∧ Incr (p+1) ps

instance : (lo : Nat) → (ps : List Nat) → Decidable (Incr lo ps)
  | _, [] => isTrue trivial
  | lo, p :: ps =>
    match Nat.decLe lo p, instDecidableIncr (p+1) ps with
    | isTrue h1, isTrue h2 => isTrue ⟨h1, h2⟩
    | isFalse h1, _ => isFalse (fun h => h1 h.1)
    | _, isFalse h2 => isFalse (fun h => h2 h.2)

theorem Incr.mono {lo lo' : Nat} {ps : List Nat} (h : Incr lo ps) (hl : lo' ≤ lo) : Incr lo' ps := by
  cases ps with
  | nil => trivial
  | cons p ps => exact ⟨Nat.le_trans hl h.1, h.2⟩

theorem Incr.ge {lo : Nat} {ps : List Nat} (h : Incr lo ps) {x : Nat} (hx : x ∈ ps) : lo ≤ x := by
  induction ps generalizing lo with
  | nil => cases hx
  | cons p ps ih =>
    rcases List.mem_cons.mp hx with rfl | hx'
    · exact h.1
    · have := ih h.2 hx'; have := h.1; omega

theorem Incr.not_mem {lo : Nat} {ps : List Nat} (h : Incr lo ps) {x : Nat} (hx : x < lo) : x ∉ ps := by
  intro hm; have := h.ge hm; omega

end GoatSpec
