import GoatSpec.Basic
/-! # GoatSpec.Proto — token encoding of the line protocol (driver side).
    A token never contains a space. `~` is the empty string; bytes outside the safe set are
    `%XX` (two hex digits, code points < 256) or `%u<hex>;`. -/
namespace GoatSpec.Proto

def hexVal (c : Char) : Nat :=
  if '0' ≤ c ∧ c ≤ '9' then c.toNat - '0'.toNat
  else if 'a' ≤ c ∧ c ≤ 'f' then c.toNat - 'a'.toNat + 10
  else if 'A' ≤ c ∧ c ≤ 'F' then c.toNat - 'A'.toNat + 10 else 0

def hexDigit (n : Nat) : Char :=
  if n < 10 then Char.ofNat ('0'.toNat + n) else Char.ofNat ('a'.toNat + n - 10)

def isSafe (c : Char) : Bool :=
  c.isAlphanum || c == '_' || c == '-' || c == '.' || c == '/' || c == ':' || c == '+' ||
  c == ',' || c == '(' || c == ')' || c == '{' || c == '}' || c == '=' || c == '*' || c == '<' ||
  c == '>' || c == '[' || c == ']' || c == ';' || c == '!' || c == '&' || c == '|' || c == '"' || c == '\''

partial def decodeChars : List Char → List Char
  | [] => []
  | '%' :: 'u' :: r =>
    let ds := r.takeWhile (· != ';')
    let rest := (r.dropWhile (· != ';')).drop 1
    Char.ofNat (ds.foldl (fun a d => a * 16 + hexVal d) 0) :: decodeChars rest
  | '%' :: a :: b :: r => Char.ofNat (hexVal a * 16 + hexVal b) :: decodeChars r
  | c :: r => c :: decodeChars r

def decodeTok (s : String) : List Char :=
  if s == "~" then [] else decodeChars s.toList

def encodeChar (c : Char) : List Char :=
  if isSafe c then [c]
  else if c.toNat < 256 then ['%', hexDigit (c.toNat / 16), hexDigit (c.toNat % 16)]
  else
    let rec hex (n : Nat) (fuel : Nat) (acc : List Char) : List Char :=
      match fuel with
      | 0 => acc
      | f+1 => if n = 0 then acc else hex (n / 16) f (hexDigit (n % 16) :: acc)
    ['%', 'u'] ++ hex c.toNat 8 [] ++ [';']

def encodeTok (l : List Char) : String :=
  if l.isEmpty then "~" else String.ofList (l.flatMap encodeChar)

def encodeLines (ls : List (List Char)) : String :=
  " ".intercalate (ls.map encodeTok)

def natList (l : List Nat) : String := " ".intercalate (l.map toString)

def b2s (b : Bool) : String := if b then "1" else "0"

end GoatSpec.Proto
