import GoatSpec.Mark
/-! # GoatSpec.Coherence — the decidable hypothesis of `C09.func_le_scope`: the two scope
    structures of a marking environment (`funcs`: function scopes, `trees`: track-scope trees)
    agree on the lines that reach `forceMarkInsert`. Evaluated by the driver on every judged
    input (`judge:coh`); proved sufficient in `Proofs/FuncScope.lean`. -/
namespace GoatSpec

/-- lines of the events that reach `forceMarkInsert`: forced lines, and checked lines that are changed -/
def activeLines (env : Env) : List Ev → List Nat
  | [] => []
  | .check l :: r => if env.changed.getD l false then l :: activeLines env r else activeLines env r
  | .force l :: r => l :: activeLines env r
  | .single _ _ :: r => activeLines env r

/-- the scope key of a line (`TrackScopes.Search` then `TrackScope.Search`) -/
def keyOf (env : Env) (l : Nat) : Option (Nat × Nat) := (searchTrees env.trees l).map (fun t => t.search l)

/-- the function a scope key lies in: the function of the first line strictly inside the key -/
def keyFunc (env : Env) (k : Nat × Nat) : Nat := searchScopes env.funcs (k.1 + 1)

def skipOf (env : Env) (l : Nat) : Except MarkErr Nat := skipComments env (env.comments.size + 1) l

/-- coherence on one active line: a line inside a function lies in a track scope of that same
    function, and the insert position of a line that has a scope key lies inside a function -/
def cohLine (env : Env) (l : Nat) : Bool :=
  match keyOf env l with
  | none => searchScopes env.funcs l == 0
  | some k => keyFunc env k == searchScopes env.funcs l &&
      (match skipOf env l with
       | .ok r => searchScopes env.funcs r != 0
       | .error _ => true)

/-- the function index of the scope key of a line -/
def lineFunc (env : Env) (l : Nat) : Option Nat := (keyOf env l).map (keyFunc env)

/-- two active lines with the same insert position have scope keys of the same function
    (e.g. a comment line directly after `case x:` — the forced line and the first statement of
    the clause share their insert position but lie in different track scopes of one function) -/
def freshPair (env : Env) (l1 l2 : Nat) : Bool :=
  match skipOf env l1, skipOf env l2 with
  | .ok r1, .ok r2 => r1 != r2 || lineFunc env l1 == lineFunc env l2
  | _, _ => true

/-- linear sufficient condition for `freshPair`: the insert position of the line has the line's key -/
def selfKey (env : Env) (l : Nat) : Bool :=
  match skipOf env l with
  | .ok r => keyOf env r == keyOf env l
  | .error _ => true

def cohOK (env : Env) (evs : List Ev) : Bool :=
  let a := activeLines env evs
  a.all (cohLine env) && (a.all (selfKey env) || a.all (fun l1 => a.all (freshPair env l1)))

end GoatSpec
