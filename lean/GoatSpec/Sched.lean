import GoatSpec.Basic
import GoatSpec.Ids
/-! # GoatSpec.Sched — the worker-pool skeletons of `goat track / patch / clean`

What is modelled (pkg/goat/{track,patch,clean}.go, pkg/diff/diff_v{1,2,3}.go):

* **results written by index** (`trackers[i] = tracker`, `fileChanges[idx] = fc`): `poolRun` — the
  tasks complete in some order (`order : List Nat`, a list of task indices); completion of task
  `i` stores `f tasks[i]` into slot `i` of a pre-sized array.
* **`filterValidFileChanges`**: the two-pointer loop that swaps `nil` entries to the end — it does
  *not* keep the order of the remaining entries (`filterValid`).
* **sort by path** (`sort.Slice(changes, …Path <…)`) before ids are handed out: `sortByPath`
  (insertion sort; theorem `sorted_perm_unique` shows that *any* sorting algorithm gives this list
  when paths are pairwise distinct) followed by `GoatSpec.number`.
* **results collected from a channel** (`fileChan`, `goatFilesChan`) in completion order and then
  written as whole files: `applyWrites` on a tree `path → content`.
* **OR-reduction of a flag**: atomic steps (`orRun`, what `atomic.Bool.Store(true)` / an OR in the
  collecting goroutine does) versus the pinned `p.changed = p.changed || updated`, a non-atomic
  read-modify-write executed by several workers: small-step semantics `rmwRun` over a schedule.

What is NOT modelled: the Go memory model (a data race is undefined behaviour, not merely a lost
update), go-git's internal state, the file system. Those are monitored end to end (e2e `threads`). -/
namespace GoatSpec.Sched

/-! ## results written by index -/

/-- completion of task `i`: `results[i] = f(tasks[i])` -/
def complete {α β : Type} (f : α → β) (tasks : List α) (res : List (Option β)) (i : Nat) : List (Option β) :=
  match tasks[i]? with
  | some t => res.set i (some (f t))
  | none => res

/-- the pool: `results := make([]T, len(tasks))`, then the tasks complete in `order` -/
def poolRun {α β : Type} (f : α → β) (tasks : List α) (order : List Nat) : List (Option β) :=
  order.foldl (complete f tasks) (List.replicate tasks.length none)

/-- `filterValidFileChanges`: `i, j := 0, len-1; for i <= j { if a[i] == nil { swap a[i], a[j]; j-- } else { i++ } }; a[:i]`.
    The list is the window `a[i..j]`; the result is the prefix collected so far. -/
def filterValid {α : Type} (l : List (Option α)) : List α :=
  match l with
  | [] => []
  | some x :: r => x :: filterValid r
  | none :: r =>
    match h : r.getLast? with
    | none => []
    | some last => filterValid (last :: r.dropLast)
termination_by l.length
decreasing_by
  · simp
  · cases r with
    | nil => simp at h
    | cons a t => simp

/-! ## sort by unique path, then number -/

def insertByPath {β : Type} (x : String × β) : List (String × β) → List (String × β)
  | [] => [x]
  | y :: ys => if x.1 ≤ y.1 then x :: y :: ys else y :: insertByPath x ys

/-- `sort.Slice(changes, func(i, j) bool { return changes[i].Path < changes[j].Path })` -/
def sortByPath {β : Type} (l : List (String × β)) : List (String × β) := l.foldr insertByPath []

/-- sorted by path (non-strict; with distinct paths this is the strict order of `sort.Slice`) -/
def SortedByPath {β : Type} (l : List (String × β)) : Prop := l.Pairwise (fun a b => a.1 ≤ b.1)

/-- the id plan of `track`: sort the diff stage's output by path, count the tracking points of
    each file (`count`, a function of the file change alone) and number from 1 -/
def plan {β : Type} (count : String × β → Nat) (diffOut : List (String × β)) : List (String × Nat × Nat) :=
  number 1 ((sortByPath diffOut).map (fun c => (c.1, count c)))

/-! ## whole-file writes collected from a channel -/

/-- working tree: path → content -/
abbrev Tree := String → Option String

/-- `os.WriteFile(path, content)` -/
def write (t : Tree) (w : String × String) : Tree := fun p => if p = w.1 then some w.2 else t p

/-- the writes are applied in the order in which the results arrived -/
def applyWrites (t : Tree) (ws : List (String × String)) : Tree := ws.foldl write t

/-! ## interleavings -/

/-- `s` is an interleaving of the step lists `ls` of the workers -/
inductive Interleave {α : Type} : List (List α) → List α → Prop where
  | done {ls : List (List α)} : (∀ l ∈ ls, l = []) → Interleave ls []
  | step {ls : List (List α)} {x : α} {s : List α} (i : Nat) (rest : List α) :
      ls[i]? = some (x :: rest) → Interleave (ls.set i rest) s → Interleave ls (x :: s)

/-- atomic OR-steps on the flag: each step is `changed = changed || u` executed as one step -/
def orRun (init : Bool) (steps : List Bool) : Bool := steps.foldl (fun c u => c || u) init

/-! ## the pinned read-modify-write `p.changed = p.changed || updated` -/

/-- the two memory accesses of the statement -/
inductive Op where
  | read   -- load p.changed into the worker's register
  | write  -- store (register || updated)
deriving DecidableEq, Repr

/-- one worker: its private `updated`, its register and the accesses it still has to perform -/
structure Worker where
  updated : Bool
  reg : Bool
  pc : List Op
deriving DecidableEq, Repr

structure RmwState where
  changed : Bool
  workers : List Worker
deriving DecidableEq, Repr

/-- worker `i` performs its next access (no-op when it has finished or does not exist) -/
def rmwStep (s : RmwState) (i : Nat) : RmwState :=
  match s.workers[i]? with
  | none => s
  | some w =>
    match w.pc with
    | [] => s
    | .read :: r => { s with workers := s.workers.set i { w with reg := s.changed, pc := r } }
    | .write :: r => { changed := w.reg || w.updated, workers := s.workers.set i { w with pc := r } }

/-- a schedule is the sequence of worker indices that take a step -/
def rmwRun (s : RmwState) (sched : List Nat) : RmwState := sched.foldl rmwStep s

/-- a worker that executes the statement once -/
def rmwWorker (updated : Bool) : Worker := ⟨updated, false, [.read, .write]⟩

def rmwDone (s : RmwState) : Bool := s.workers.all (fun w => w.pc.isEmpty)

end GoatSpec.Sched
