import GoatSpec.Basic
/-! # GoatSpec.Diff — the diff stage (pkg/diff, pkg/goat/goat.go getDiff, track.go initChanges)

  * `walk` / `getLineChange`   — differ.go:275-311, the chunk walk of precision 2 and 3
  * `blameGo` / `isNew…`       — diff_v1.go:117-182, the blame walk of precision 1 and its new/old rule
  * `initRange`                — diff_init.go:66-75
  * `filterValid`, `sortByPath`— differ.go:253-264 (swap-to-end compaction), track.go:106-108
  * `dispatch`                 — goat.go:20-46

  go-git (tree diff, rename detection, diffmatchpatch chunks, blame) is *not* modelled: chunk lists,
  blame vectors and the commit table are inputs.  Everything is core Lean, total, structural or
  fuelled (so closed terms reduce under `decide`). -/
namespace GoatSpec.Diff

/-- go-git `diff.Operation` -/
inductive Kind | eq | add | del
  deriving DecidableEq, Repr

/-- `LineChange{Start, Lines}` -/
abbrev Range := Nat × Nat

/-- a chunk as `getLineChange` sees it: operation and `len(strings.Split(content,"\n")) - 1`,
    i.e. the number of newline characters of its content -/
abbrev NChunk := Kind × Nat

/-! ## chunk walk (precision 2/3) -/

/-- the loop of `getLineChange` for `from ≠ nil`.  State: `newLineNo` (`originLineNo` is
    maintained by the Go code but never read).  An Add chunk always appends a range, also when
    it has 0 newlines (an unterminated last line). -/
def walk : Nat → List NChunk → List Range
  | _, [] => []
  | nl, (.add, n) :: r => (nl + 1, n) :: walk (nl + n) r
  | nl, (.eq, n) :: r => walk (nl + n) r
  | nl, (.del, _) :: r => walk nl r

/-- `getLinesFromChunks` -/
def totalNewlines (cs : List NChunk) : Nat := (cs.map (·.2)).sum

/-- `getLineChange`; Go's `nil` and the empty slice are both `[]` (every caller only tests `len`).
    `from = nil ∧ to ≠ nil` ⇒ exactly one range `(1, Σ newlines)`, also when that is 0. -/
def getLineChange (hasFrom hasTo : Bool) (cs : List NChunk) : List Range :=
  if !hasTo then []
  else if !hasFrom then [(1, totalNewlines cs)]
  else walk 0 cs

/-- `DifferV2.analyzeChange` + the `len(fc.LineChanges) > 0` test of `AnalyzeChanges`;
    `elig` = `cfg.IsTargetFile(to.Path())` (modelled in GoatSpec.Paths). `none` = slot stays nil. -/
def analyzeV2 (elig hasFrom hasTo : Bool) (cs : List NChunk) : Option (List Range) :=
  if !hasTo then none
  else if !elig then none
  else
    let lc := getLineChange hasFrom hasTo cs
    if lc.isEmpty then none else some lc

/-- merkletrie action of a tree change without rename detection -/
inductive Action | insert | modify | delete
  deriving DecidableEq, Repr

/-- `DifferV3.analyzeChange`/`handleInsert`: only insert/modify; `insert` ⇒ `from = nil`.
    (The rename test `From.Name ≠ To.Name` never fires: `DiffTree` runs without rename detection.) -/
def analyzeV3 (elig : Bool) (a : Action) (cs : List NChunk) : Option (List Range) :=
  match a with
  | .delete => none
  | .insert => if !elig then none else
      let lc := getLineChange false true cs
      if lc.isEmpty then none else some lc
  | .modify => if !elig then none else
      let lc := getLineChange true true cs
      if lc.isEmpty then none else some lc

/-! ## blame walk (precision 1) -/

/-- the loop of `DifferV1.getLineChanges` over the per-line flags `isNewLine`, emission order kept.
    `i` = 0-based loop index, `cur` = `currentChange`. -/
def blameGo : Nat → Option Range → List Bool → List Range
  | _, none, [] => []
  | _, some c, [] => [c]
  | i, none, true :: r => blameGo (i + 1) (some (i + 1, 1)) r
  | i, some (s, n), true :: r =>
      if s + n == i + 1 then blameGo (i + 1) (some (s, n + 1)) r
      else (s, n) :: blameGo (i + 1) (some (i + 1, 1)) r
  | i, none, false :: r => blameGo (i + 1) none r
  | i, some c, false :: r => c :: blameGo (i + 1) none r

def blameRanges (flags : List Bool) : List Range := blameGo 0 none flags

/-- abstract commit object: id (hash), committer time, parent ids -/
structure Commit where
  id : Nat
  time : Nat
  parents : List Nat
  deriving Repr

/-- `repoInfo.commits` (hash → commit) -/
abbrev Table := List Commit

def lookup (t : Table) (h : Nat) : Option Commit := t.find? (·.id == h)

/-- `isCommitAfterStable` of the **unchanged** tree (diff_v1.go:171-182):
    hash ≠ old ∧ hash known ∧ old.Committer.When.Before(commit.Committer.When) -/
def isNewTimestamp (t : Table) (old oldTime : Nat) (h : Nat) : Bool :=
  if h == old then false
  else match lookup t h with
    | none => false
    | some c => oldTime < c.time

/-- commits reachable from the stack through parent links (depth-first, `seen` set), fuelled -/
def reachFrom (t : Table) : Nat → List Nat → List Nat → List Nat
  | 0, _, seen => seen
  | _, [], seen => seen
  | f + 1, h :: st, seen =>
      if seen.contains h then reachFrom t f st seen
      else match lookup t h with
        | some c => reachFrom t f (c.parents ++ st) (h :: seen)
        | none => reachFrom t f st (h :: seen)

/-- enough fuel for `reachFrom`: every pop consumes one stack entry, pushes are bounded by the
    number of parent links -/
def reachFuel (t : Table) : Nat := (t.map (fun c => c.parents.length + 1)).sum + 2

/-- the ancestors-or-self of `old` (what the fixed `NewDifferV1` precomputes) -/
def ancestors (t : Table) (old : Nat) : List Nat := reachFrom t (reachFuel t) [old] []

/-- `isCommitAfterStable` of the **fixed** tree: hash ≠ old ∧ hash known ∧ hash is not an
    ancestor of old -/
def isNewAncestry (t : Table) (old : Nat) (h : Nat) : Bool :=
  if h == old then false
  else match lookup t h with
    | none => false
    | some _ => !(ancestors t old).contains h

/-- `DifferV1.getLineChanges`: `nLines` = `len(file.Lines())`, `blame` = `blame.Lines[i].Hash`;
    `none` = index out of range (`blame.Lines` shorter than the file) -/
def v1Ranges (isNew : Nat → Bool) (nLines : Nat) (blame : List Nat) : Option (List Range) :=
  if blame.length < nLines then none
  else some (blameRanges ((blame.take nLines).map isNew))

/-- `DifferV1.analyzeChange`/`handleInsert` + the `len > 0` test -/
def analyzeV1 (elig : Bool) (a : Action) (ranges : List Range) : Option (List Range) :=
  match a with
  | .delete => none
  | _ => if !elig then none else if ranges.isEmpty then none else some ranges

/-! ## INIT -/

/-- `strings.Split(content, "\n")` -/
def splitNL : List Char → List (List Char)
  | [] => [[]]
  | c :: r =>
    match splitNL r with
    | [] => [[]]
    | h :: t => if c == '\n' then [] :: h :: t else (c :: h) :: t

/-- `DifferInit`: one range `(1, len(strings.Split(content,"\n")))` -/
def initRange (content : List Char) : Range := (1, (splitNL content).length)

/-- INIT over the files the pruned walk selects (GoatSpec.Paths), the generated file skipped -/
def initChanges (gen : String) (files : List (String × List Char)) : List (String × List Range) :=
  (files.filter (fun f => f.1 != gen)).map (fun f => (f.1, [initRange f.2]))

/-! ## compaction and the executor's sort -/

/-- `filterValidFileChanges`: two indices `i` (front) and `j` (back); a nil at `i` is swapped with
    the element at `j` and `j` decreases; otherwise `i` advances.  On lists: a leading `none` is
    replaced by the last element (the rest keeps its order), the result is the prefix `[:i]`.
    Fuel = length. -/
def filterGo {α : Type} : Nat → List (Option α) → List α
  | 0, _ => []
  | _, [] => []
  | f + 1, some a :: r => a :: filterGo f r
  | f + 1, none :: r =>
    match r.reverse with
    | [] => []
    | x :: m => filterGo f (x :: m.reverse)

def filterValid {α : Type} (l : List (Option α)) : List α := filterGo l.length l

/-- insertion by path (`sort.Slice(changes, Path <)`; paths are unique, so the unstable sort has
    one possible outcome) -/
def insertByPath {β : Type} (x : String × β) : List (String × β) → List (String × β)
  | [] => [x]
  | y :: ys => if x.1 ≤ y.1 then x :: y :: ys else y :: insertByPath x ys

def sortByPath {β : Type} (l : List (String × β)) : List (String × β) := l.foldr insertByPath []

/-! ## dispatch -/

inductive Mode | init | v1 | v2 | v3 | invalid
  deriving DecidableEq, Repr

/-- `getDiff`: `cfg.IsNewRepository()` (`OldBranch == "INIT"`) first, then the precision switch -/
def dispatch (oldBranch : String) (precision : Int) : Mode :=
  if oldBranch == "INIT" then .init
  else if precision == 1 then .v1
  else if precision == 2 then .v2
  else if precision == 3 then .v3
  else .invalid

/-! ## property predicates (decidable; evaluated by `judge:diff` on implementation answers and
      proved of the model in Properties/C04.lean) -/

/-- sorted, pairwise disjoint, every range inside `lo .. hi` (`start + lines − 1 ≤ hi`) -/
def rangesWF : Nat → Nat → List Range → Bool
  | _, _, [] => true
  | lo, hi, (s, n) :: r => decide (lo ≤ s) && decide (s + n ≤ hi + 1) && rangesWF (s + n) hi r

/-- line `i` (1-based) is reported -/
def covered (rs : List Range) (i : Nat) : Bool := rs.any (fun r => decide (r.1 ≤ i) && decide (i < r.1 + r.2))

/-- the lines not reported, in order; first line has number `i` -/
def unreportedFrom {α : Type} (rs : List Range) : Nat → List α → List α
  | _, [] => []
  | i, l :: r => if covered rs i then unreportedFrom rs (i + 1) r else l :: unreportedFrom rs (i + 1) r

/-- the reported lines, in order -/
def reportedFrom {α : Type} (rs : List Range) : Nat → List α → List α
  | _, [] => []
  | i, l :: r => if covered rs i then l :: reportedFrom rs (i + 1) r else reportedFrom rs (i + 1) r

def unreported {α : Type} (rs : List Range) (ls : List α) : List α := unreportedFrom rs 1 ls
def reported {α : Type} (rs : List Range) (ls : List α) : List α := reportedFrom rs 1 ls

def commonPrefixLen {α : Type} [DecidableEq α] : List α → List α → Nat
  | a :: as, b :: bs => if a = b then commonPrefixLen as bs + 1 else 0
  | _, _ => 0

/-- common leading part, then common trailing part of what is left (so they never overlap) -/
def commonEnds {α : Type} [DecidableEq α] (old new : List α) : Nat × Nat :=
  let p := commonPrefixLen old new
  (p, commonPrefixLen (old.drop p).reverse (new.drop p).reverse)

end GoatSpec.Diff
