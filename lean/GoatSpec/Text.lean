import GoatSpec.Basic
import GoatSpec.Extracted
/-! # GoatSpec.Text — line-level model of the marker regular expressions and of the
    clean / patch text passes (pkg/config/config.go regexps, pkg/goat/{goat,clean,patch}.go).

A text is `lines` (each terminated by `\n` in the real file) plus an unterminated `tail`
(what follows the last newline; `""` for a newline-terminated file). Every marker regexp has
the shape `(?m)^\s*MARK[^\n]*\n` or `(?m)^\s*MARK[^\n]*\n(?:.*\n)*?\s*END[^\n]*\n`; both can only
match whole newline-terminated lines, so the tail never takes part in a match. -/
namespace GoatSpec

/-- the marker kinds a line can start (after `^\s*`) -/
inductive Mk where | generate | delete | main | user | insert | endm
deriving DecidableEq, Repr

def Mk.text : Mk → Line
  | .generate => Extracted.trackGenerateComment
  | .delete => Extracted.trackDeleteComment
  | .main => Extracted.trackMainEntryComment
  | .user => Extracted.trackUserComment
  | .insert => Extracted.trackInsertComment
  | .endm => Extracted.trackEndComment

/-- the line, after `\s*`, starts with the marker text (prefix test: `[^\n]*` follows) -/
def startsMk (k : Mk) (l : Line) : Bool := (k.text).isPrefixOf (ltrim l)

/-- `afterEnd r` = the lines after the first end-marker line of `r` (lazy `(?:.*\n)*?\s*END[^\n]*\n`) -/
def afterEnd : List Line → Option (List Line)
  | [] => none
  | x :: r => if startsMk .endm x then some r else afterEnd r

/-- A match of the block regexp of kind `k` anchored at the start of the first line:
    `\s*` runs over blank lines, then a `k` start line, then lazily up to the first end line.
    Returns the remaining lines. -/
def matchBlock (k : Mk) : List Line → Option (List Line)
  | [] => none
  | x :: r =>
    if isBlank x then matchBlock k r
    else if startsMk k x then afterEnd r
    else none

/-- A match of the single-line regexp `(?m)^\s*MARK[^\n]*\n` anchored at the first line. -/
def matchLine (k : Mk) : List Line → Option (List Line)
  | [] => none
  | x :: r =>
    if isBlank x then matchLine k r
    else if startsMk k x then some r
    else none

/-- which regexp: block kinds have an end, `insert` is a single line -/
def matchAt (k : Mk) (l : List Line) : Option (List Line) :=
  match k with
  | .insert => matchLine k l
  | _ => matchBlock k l

theorem afterEnd_len {l r : List Line} (h : afterEnd l = some r) : r.length < l.length := by
  induction l with
  | nil => simp [afterEnd] at h
  | cons x t ih =>
    simp only [afterEnd] at h
    split at h
    · cases h; simp
    · have := ih h; simp; omega

theorem matchBlock_len {k : Mk} {l r : List Line} (h : matchBlock k l = some r) : r.length < l.length := by
  induction l with
  | nil => simp [matchBlock] at h
  | cons x t ih =>
    simp only [matchBlock] at h
    split at h
    · have := ih h; simp; omega
    · split at h
      · have := afterEnd_len h; simp; omega
      · cases h

theorem matchLine_len {k : Mk} {l r : List Line} (h : matchLine k l = some r) : r.length < l.length := by
  induction l with
  | nil => simp [matchLine] at h
  | cons x t ih =>
    simp only [matchLine] at h
    split at h
    · have := ih h; simp; omega
    · split at h
      · cases h; simp
      · cases h

theorem matchAt_len {k : Mk} {l r : List Line} (h : matchAt k l = some r) : r.length < l.length := by
  unfold matchAt at h
  split at h
  · exact matchLine_len h
  · exact matchBlock_len h

/-- `ReplaceAllStringFunc(re_k, text, _ ↦ repl)` together with the `FindAllString` count:
    leftmost, non-overlapping matches; the scan resumes after each match. -/
def pass (k : Mk) (repl : List Line) (l : List Line) : Nat × List Line :=
  match l with
  | [] => (0, [])
  | x :: r =>
    match h : matchAt k (x :: r) with
    | some rest => let p := pass k repl rest; (p.1 + 1, repl ++ p.2)
    | none => let p := pass k repl r; (p.1, x :: p.2)
termination_by l.length
decreasing_by
  · exact matchAt_len h
  · simp

/-- the tracking block written by `goat patch` for an insert marker and on reset:
    `GetPackageInsertDataString()` -/
def insertBlock : List Line := Extracted.packageInsertStmts

/-- `CleanExecutor.prepareContent` up to the import removal: the five passes in the code's
    order. Returns (changed, lines). -/
def cleanLines (l : List Line) : Bool × List Line :=
  let p1 := pass .delete [] l
  let p2 := pass .insert [] p1.2
  let p3 := pass .generate [] p2.2
  let p4 := pass .main [] p3.2
  let p5 := pass .user [] p4.2
  (p1.1 > 0 || p2.1 > 0 || p3.1 > 0 || p4.1 > 0 || p5.1 > 0, p5.2)

/-- does the generate regexp match anywhere (`FindAllStringIndex ≠ []`) -/
def hasGenerate (l : List Line) : Bool := (pass .generate [] l).1 > 0

/-- what the patch passes decide about the tracking import of one file -/
inductive ImportAct where | keep | add | delete
deriving DecidableEq, Repr

structure PatchFile where
  updated : Bool          -- the file is kept for renumbering / rewriting
  changed : Bool          -- contributes to PatchExecutor.changed
  lines : List Line
  /-- import actions in order (delete after the delete pass, add after the insert pass,
      delete after the main reset) -/
  imports : List ImportAct
deriving Repr

/-- `PatchExecutor.prepareContent` at line level (import edits recorded, not performed). -/
def patchLines (isMainEntry : Bool) (l : List Line) : PatchFile :=
  let p1 := pass .delete [] l
  let a1 := if p1.1 > 0 && !hasGenerate p1.2 then [ImportAct.delete] else []
  let p2 := pass .insert insertBlock p1.2
  let a2 := if p2.1 > 0 then [ImportAct.add] else []
  let p3 := pass .generate insertBlock p2.2
  let p4 := if isMainEntry then pass .main [] p3.2 else (0, p3.2)
  let a4 := if isMainEntry && p4.1 > 0 && !hasGenerate p4.2 then [ImportAct.delete] else []
  { updated := p1.1 > 0 || p2.1 > 0 || p3.1 > 0 || p4.1 > 0
    changed := p1.1 > 0 || p2.1 > 0
    lines := p4.2
    imports := a1 ++ a2 ++ a4 }

/-- number of tracking-call placeholders `utils.Replace` finds in the file (one per line
    that contains the placeholder text; the block writes it on a line of its own) -/
def isPlaceholderLine (l : Line) : Bool := ltrim l == Extracted.trackStmtPlaceHolder

end GoatSpec
