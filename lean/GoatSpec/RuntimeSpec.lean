import GoatSpec.Runtime
/-! # GoatSpec.RuntimeSpec — what C07 demands of the generated runtime, as decidable predicates.

The predicates speak about *executions* (how often `Track(id)` was called), not about the
model's state: `expStatus` is defined from the number of occurrences of an id in the call
sequence. They are evaluated by the driver on the *implementation's* answers (`judge:rt:*`) and
are the conclusions of the theorems in `Properties/C07.lean`. -/
namespace GoatSpec.Runtime

/-- how often `Track(id)` was called -/
def occ (id : Nat) (ops : List Int) : Nat := ops.count (id : Int)

/-- what an id executed `k` times must show: bool mode 0/1, count mode the exact number (`uint32`) -/
def expCount (m : Mode) (k : Nat) : Nat :=
  match m with
  | .bool => min 1 k
  | .count => k % W

/-- expected `trackIdStatus[id]` after the calls `ops`; ids outside `1..n` never count -/
def expStatus (cfg : Cfg) (ops : List Int) (id : Nat) : Nat :=
  if 1 ≤ id ∧ id ≤ cfg.n then expCount cfg.mode (occ id ops) else 0

/-- the same for a burst-encoded call sequence (driver side, `expStatusN_eq`) -/
def occN (id : Nat) (ops : List (Int × Nat)) : Nat :=
  ops.foldr (fun o a => (if o.1 = (id : Int) then o.2 else 0) + a) 0

def expStatusN (cfg : Cfg) (ops : List (Int × Nat)) (id : Nat) : Nat :=
  if 1 ≤ id ∧ id ≤ cfg.n then expCount cfg.mode (occN id ops) else 0

/-- C07, state level: the status array is exactly the expected one (slot 0 and nothing else) -/
def statusOK (cfg : Cfg) (exp : Nat → Nat) (st : List Nat) : Bool :=
  st == (List.range (cfg.n + 1)).map exp

def sortedBy (le : Item → Item → Bool) : List Item → Bool
  | [] => true
  | [_] => true
  | a :: b :: r => le a b && sortedBy le (b :: r)

def expRate (total covered : Nat) : Nat := if total = 0 then 0 else covered * 100 / total

/-- one component of a `/track` answer: exactly the component's ids (as a multiset — equal
    keys may come in any order) with the expected counts, totals consistent with the items,
    ordering key respected -/
def resultOK (cfg : Cfg) (exp : Nat → Nat) (order c : Nat) (r : CompResult) : Bool :=
  r.id == c && r.name == compName cfg c
  && r.items.isPerm ((compIds cfg c).map (fun id => Item.mk id (exp id)))
  && r.total == (compIds cfg c).length
  && r.covered == coveredCount r.items
  && r.rate == expRate r.total r.covered
  && sortedBy (keyLE order) r.items

def resultsOK (cfg : Cfg) (exp : Nat → Nat) (order : Nat) : List Nat → List CompResult → Bool
  | [], [] => true
  | c :: cs, r :: rs => resultOK cfg exp order c r && resultsOK cfg exp order cs rs
  | _, _ => false

/-- C07, `/track`: an invalid component list is refused; otherwise one result per requested
    component, in request order, each `resultOK` under the requested order (invalid ⇒ 0) -/
def trackOK (cfg : Cfg) (exp : Nat → Nat) (order component : Str) (resp : TrackResp) : Bool :=
  match resolveAll cfg.comps component, resp with
  | none, .invalid => true
  | some cs, .ok rs => resultsOK cfg exp (parseOrder order) cs rs
  | _, _ => false

def expCovered (cfg : Cfg) (exp : Nat → Nat) (c : Nat) : Nat :=
  ((compIds cfg c).filter (fun id => decide (exp id > 0))).length

def expRows (cfg : Cfg) (exp : Nat → Nat) (ts : List Nat) : List Row :=
  ts.map (fun c => ⟨.total, compName cfg c, (compIds cfg c).length⟩)
  ++ ts.map (fun c => ⟨.covered, compName cfg c, expCovered cfg exp c⟩)
  ++ ts.map (fun c => ⟨.ratio, compName cfg c, expRate (compIds cfg c).length (expCovered cfg exp c)⟩)

/-- C07, `/metrics`: never panics; for every target component (all, or the current one) the
    same total / covered / rate as `/track`; only an unknown current component is refused -/
def metricsOK (cfg : Cfg) (exp : Nat → Nat) (cur : Str) (resp : MetricsResp) : Bool :=
  match targets cfg cur, resp with
  | none, .invalid => true
  | some ts, .ok rows => rows == expRows cfg exp ts
  | _, _ => false

/-- the rows `/metrics` must print, read off a `/track` answer for the same components -/
def rowsOfResults (rs : List CompResult) : List Row :=
  rs.map (fun r => ⟨.total, r.name, r.total⟩)
  ++ rs.map (fun r => ⟨.covered, r.name, r.covered⟩)
  ++ rs.map (fun r => ⟨.ratio, r.name, r.rate⟩)

end GoatSpec.Runtime
