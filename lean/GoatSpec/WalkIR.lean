/-! # GoatSpec.WalkIR — the intermediate representation that `vh walker` translates the
    statement / expression walkers of pkg/tracking/increment.go into (`GoatSpec/Walker.lean`,
    generated on every run). The translator is purely syntactic: it renders what the Go source
    *says* (type-switch arms, guards, loops, calls of the four marking methods, with Go field
    paths as strings); what those constructs *mean* is defined in Lean (`WalkSpec.lean`) over a
    typed mirror of go/ast (`GoAst.lean`). -/
namespace GoatSpec.WalkIR

/-- a Go selector path from the switch variable: `["Body", "List"]` is `s.Body.List`;
    a first segment `$v` names the variable of an enclosing `for _, v := range …` -/
abbrev Path := List String

inductive Cond where
  | nonNil (p : Path)                 -- p != nil
  | isNil (p : Path)                  -- p == nil
  | nonEmpty (p : Path)               -- len(p) > 0
  | isEmpty (p : Path)                -- len(p) == 0
  | sameLine (p q : Path)             -- fset.Position(p.Pos()).Line == fset.Position(q.End()).Line
  | and (a b : Cond)
  | or (a b : Cond)
  | not (a : Cond)
deriving Repr, DecidableEq

inductive Act where
  | check (p : Path)                  -- t.checkAndMarkInsert(fset.Position(p.Pos()).Line)
  | single (p : Path)                 -- t.insertSingleLineStmt(fset.Position(p.Pos()))
  | stmts (p : Path)                  -- t.processStatements(p, fset)
  | stmt1 (p : Path)                  -- t.processStatements([]ast.Stmt{p}, fset)
  | exprs (p : Path)                  -- t.analyzeAndModifyExpr(p, fset)
  | expr1 (p : Path)                  -- t.analyzeAndModifyExpr([]ast.Expr{p}, fset)
  | guard (c : Cond) (body : List Act)                         -- if c { body }   (no else)
  | each (p : Path) (v : String) (body : List Act)             -- for _, v := range p { body }
  | tswitch (p : Path) (arms : List (List String × List Act))   -- switch p.(type); `default` is the last arm, named ["*"]
  | cont                              -- continue (leaves the element of the outermost loop)

/-- one walker: `for _, x := range list { if x == nil { continue }; switch x.(type) { arms… } }`
    (`default` is the last arm, named `["*"]`) -/
structure Walker where
  arms : List (List String × List Act)

end GoatSpec.WalkIR
