/-! # GoatSpec.WalkIR — the intermediate representation that `vh walker` translates the
    statement / expression walkers of pkg/tracking/increment.go into (`GoatSpec/Walker.lean`,
    generated on every run). The translator is purely syntactic: it renders what the Go source
    *says* (type-switch arms, guards, loops, calls of the four marking methods, with Go field
    paths as strings); what those constructs *mean* is defined in Lean (`WalkSpec.lean`) over a
    typed mirror of go/ast (`GoAst.lean`). -/
namespace GoatSpec.WalkIR

/-- a Go selector path from the switch variable: `["Body", "List"]` is `s.Body.List`;
    a first segment `$v` names the variable of an enclosing `for _, v := range …` -/
abbrev Path := List String

inductive Cond where
  | nonNil (p : Path)                 -- p != nil
  | isNil (p : Path)                  -- p == nil
  | nonEmpty (p : Path)               -- len(p) > 0
  | isEmpty (p : Path)                -- len(p) == 0
  | sameLine (p q : Path)             -- fset.Position(p.Pos()).Line == fset.Position(q.End()).Line
  | isKind (p : Path) (k : String)    -- `_, ok := p.(*ast.k)` … ok
  | sameTok (p : Path) (a : String) (q : Path) (b : String)   -- fset.Position(p.a).Line == fset.Position(q.b).Line (token.Pos fields)
  | tt
  | and (a b : Cond)
  | or (a b : Cond)
  | not (a : Cond)
deriving Repr, DecidableEq

inductive Act where
  | check (p : Path)                  -- t.checkAndMarkInsert(fset.Position(p.Pos()).Line)
  | single (p : Path)                 -- t.insertSingleLineStmt(fset.Position(p.Pos()))
  | stmts (p : Path)                  -- t.processStatements(p, fset)
  | stmt1 (p : Path)                  -- t.processStatements([]ast.Stmt{p}, fset)
  | exprs (p : Path)                  -- t.analyzeAndModifyExpr(p, fset)
  | expr1 (p : Path)                  -- t.analyzeAndModifyExpr([]ast.Expr{p}, fset)
  | guard (c : Cond) (body : List Act)                         -- if c { body }   (no else)
  | each (p : Path) (v : String) (body : List Act)             -- for _, v := range p { body }
  | tswitch (p : Path) (arms : List (List String × List Act))   -- switch p.(type); `default` is the last arm, named ["*"]
  | cont                              -- continue (leaves the element of the outermost loop)
  | ctl (p : Path)                    -- t.processControlStatements(p, fset)
  | globalSpecs (p : Path)            -- t.processGlobalValueSpecs(p, fset)
  | globalLits (p : Path)             -- t.processGlobalFunctionLit(p, fset)

/-- one walker: `for _, x := range list { if x == nil { continue }; switch x.(type) { arms… } }`
    (`default` is the last arm, named `["*"]`) -/
structure Walker where
  arms : List (List String × List Act)

/-- actions of one arm of the `ast.Inspect` callback of `processControlStatements`; `tok` names a
    `token.Pos` field (`If`, `Switch`, `Case`, `For`, `Lbrace`, `Colon`) of the node at `p` -/
inductive CAct where
  | breakIf (c : Cond)                               -- if c { break }   (leaves the arm)
  | setLine (p : Path) (tok : String)                -- changed = t.isLineChanged(fset.Position(p.tok).Line)
  | orRange (c : Cond) (p q : Path)                  -- if !changed && c { changed = t.isLineChangedRange(line(p.Pos()), line(q.End())) }
  | orAnyRange (c : Cond) (l : Path)                 -- if !changed && c { for _, e := range l { changed = t.isLineChangedRange(line(e.Pos()), line(e.End())); if changed { break } } }
  | ifChanged (c : Cond) (body : List CAct)          -- if changed && c { body }
  | force (p : Path) (tok : String)                  -- t.forceMarkInsert(fset.Position(p.tok).Line + 1)
  | guard (c : Cond) (body : List CAct)              -- if c { body }
  | each (p : Path) (v : String) (body : List CAct)  -- for _, v := range p { body }

/-- `ast.Inspect(node, func(n ast.Node) bool { if n == nil { return false }; var changed bool;
    switch n := n.(type) { arms… }; return true })` -/
structure Inspector where
  arms : List (List String × List CAct)

/-- a pass over the initialisers of global value specs:
    `for _, spec := range specs { switch spec := spec.(type) { case *ast.ValueSpec: for _, value := range spec.Values {
       ast.Inspect(value, func(n ast.Node) bool { if n == nil { return false }; switch n := n.(type) { case *ast.FuncLit: arm…; return false }; return true }) } } }`
    — `arm` runs on every OUTERMOST function literal of every value (`return false` inside it is `cont`) -/
structure LitPass where
  arm : List Act

end GoatSpec.WalkIR
