import GoatSpec.TextSpec
/-! # Lemmas about the text passes (helper file; the property theorems are in Properties/) -/
namespace GoatSpec

/-! ## facts about the extracted marker texts (re-checked whenever Extracted.lean changes) -/

def firstNonWs (l : Line) : Bool := match l with | c :: _ => !isWs c | [] => false

theorem marker_nonempty_nonws : ∀ k ∈ allMk, firstNonWs k.text = true := by
  decide

theorem markers_not_prefix : ∀ k ∈ allMk, ∀ k' ∈ allMk, k ≠ k' → (k.text).isPrefixOf (k'.text) = false := by
  decide

theorem mem_allMk (k : Mk) : k ∈ allMk := by cases k <;> simp [allMk]

theorem ltrim_blank {l : Line} (h : isBlank l = true) : ltrim l = [] := by
  unfold ltrim isBlank at *
  induction l with
  | nil => rfl
  | cons c t ih =>
    simp only [List.all_cons, Bool.and_eq_true] at h
    simp [List.dropWhile, h.1, ih h.2]

theorem startsMk_not_blank {k : Mk} {l : Line} (h : startsMk k l = true) : isBlank l = false := by
  cases hb : isBlank l with
  | false => rfl
  | true =>
    have hm := marker_nonempty_nonws k (mem_allMk k)
    unfold firstNonWs at hm
    split at hm
    · next c r hk => simp [startsMk, ltrim_blank hb, hk] at h
    · cases hm

theorem isPrefixOf_both {a b l : List Char} (ha : a.isPrefixOf l = true) (hb : b.isPrefixOf l = true) :
    a.isPrefixOf b = true ∨ b.isPrefixOf a = true := by
  rcases List.prefix_or_prefix_of_prefix (List.isPrefixOf_iff_prefix.mp ha) (List.isPrefixOf_iff_prefix.mp hb) with h | h
  · exact Or.inl (List.isPrefixOf_iff_prefix.mpr h)
  · exact Or.inr (List.isPrefixOf_iff_prefix.mpr h)

theorem startsMk_unique {k k' : Mk} {l : Line} (h : startsMk k l = true) (h' : startsMk k' l = true) : k = k' := by
  by_cases hk : k = k'
  · exact hk
  · exfalso
    rcases isPrefixOf_both h h' with hp | hp
    · have := markers_not_prefix k (mem_allMk k) k' (mem_allMk k') hk
      rw [this] at hp; cases hp
    · have := markers_not_prefix k' (mem_allMk k') k (mem_allMk k) (Ne.symm hk)
      rw [this] at hp; cases hp

theorem plain_not_starts {l : Line} (h : plain l = true) (k : Mk) : startsMk k l = false := by
  unfold plain at h
  rw [List.all_eq_true] at h
  have := h k (mem_allMk k)
  simpa using this

/-! ## matching at the head of a flattened arrangement -/

theorem afterEnd_plain_body (body : List Line) (e : Line) (rest : List Line)
    (hb : body.all plain = true) (he : startsMk .endm e = true) :
    afterEnd (body ++ e :: rest) = some rest := by
  induction body with
  | nil => simp [afterEnd, he]
  | cons b t ih =>
    simp only [List.all_cons, Bool.and_eq_true] at hb
    simp [afterEnd, plain_not_starts hb.1 .endm, ih hb.2]

/-- no match at the head when, after blank lines, a non-blank line follows that does not start `k` -/
theorem matchBlock_none (k : Mk) (bs : List Line) (y : Line) (rest : List Line)
    (hbs : bs.all isBlank = true) (hy : isBlank y = false) (hk : startsMk k y = false) :
    matchBlock k (bs ++ y :: rest) = none := by
  induction bs with
  | nil => simp [matchBlock, hy, hk]
  | cons b t ih =>
    simp only [List.all_cons, Bool.and_eq_true] at hbs
    simp [matchBlock, hbs.1, ih hbs.2]

theorem matchLine_none (k : Mk) (bs : List Line) (y : Line) (rest : List Line)
    (hbs : bs.all isBlank = true) (hy : isBlank y = false) (hk : startsMk k y = false) :
    matchLine k (bs ++ y :: rest) = none := by
  induction bs with
  | nil => simp [matchLine, hy, hk]
  | cons b t ih =>
    simp only [List.all_cons, Bool.and_eq_true] at hbs
    simp [matchLine, hbs.1, ih hbs.2]

theorem matchAt_none (k : Mk) (bs : List Line) (y : Line) (rest : List Line)
    (hbs : bs.all isBlank = true) (hy : isBlank y = false) (hk : startsMk k y = false) :
    matchAt k (bs ++ y :: rest) = none := by
  unfold matchAt
  split
  · exact matchLine_none _ bs y rest hbs hy hk
  · exact matchBlock_none _ bs y rest hbs hy hk

theorem matchBlock_blanks_only (k : Mk) (bs : List Line) (hbs : bs.all isBlank = true) :
    matchBlock k bs = none := by
  induction bs with
  | nil => simp [matchBlock]
  | cons b t ih =>
    simp only [List.all_cons, Bool.and_eq_true] at hbs
    simp [matchBlock, hbs.1, ih hbs.2]

theorem matchLine_blanks_only (k : Mk) (bs : List Line) (hbs : bs.all isBlank = true) :
    matchLine k bs = none := by
  induction bs with
  | nil => simp [matchLine]
  | cons b t ih =>
    simp only [List.all_cons, Bool.and_eq_true] at hbs
    simp [matchLine, hbs.1, ih hbs.2]

theorem matchAt_blanks_only (k : Mk) (bs : List Line) (hbs : bs.all isBlank = true) :
    matchAt k bs = none := by
  unfold matchAt
  split
  · exact matchLine_blanks_only _ bs hbs
  · exact matchBlock_blanks_only _ bs hbs

/-- blanks, then a complete block of kind `k`: the match covers the blanks and the block -/
theorem matchAt_block (k : Mk) (hk : k ≠ .insert) (bs : List Line) (s : Line) (body : List Line) (e : Line)
    (rest : List Line) (hbs : bs.all isBlank = true) (hs : startsMk k s = true)
    (hb : body.all plain = true) (he : startsMk .endm e = true) :
    matchAt k (bs ++ s :: (body ++ e :: rest)) = some rest := by
  have hnb := startsMk_not_blank hs
  have : matchBlock k (bs ++ s :: (body ++ e :: rest)) = some rest := by
    induction bs with
    | nil => simp [matchBlock, hnb, hs, afterEnd_plain_body body e rest hb he]
    | cons b t ih =>
      simp only [List.all_cons, Bool.and_eq_true] at hbs
      simp [matchBlock, hbs.1, ih hbs.2]
  unfold matchAt
  cases k <;> first | exact this | exact absurd rfl hk

theorem matchAt_ins (bs : List Line) (x : Line) (rest : List Line)
    (hbs : bs.all isBlank = true) (hx : startsMk .insert x = true) :
    matchAt .insert (bs ++ x :: rest) = some rest := by
  have hnb := startsMk_not_blank hx
  show matchLine .insert (bs ++ x :: rest) = some rest
  induction bs with
  | nil => simp [matchLine, hnb, hx]
  | cons b t ih =>
    simp only [List.all_cons, Bool.and_eq_true] at hbs
    simp [matchLine, hbs.1, ih hbs.2]

/-! ## unfolding `pass` -/

theorem pass_nil (k : Mk) (repl : List Line) : pass k repl [] = (0, []) := by
  unfold pass; rfl

theorem pass_cons_none (k : Mk) (repl : List Line) (x : Line) (r : List Line)
    (h : matchAt k (x :: r) = none) :
    pass k repl (x :: r) = ((pass k repl r).1, x :: (pass k repl r).2) := by
  rw [pass]; split
  · next rest hm => rw [h] at hm; cases hm
  · rfl

theorem pass_cons_some (k : Mk) (repl : List Line) (x : Line) (r rest : List Line)
    (h : matchAt k (x :: r) = some rest) :
    pass k repl (x :: r) = ((pass k repl rest).1 + 1, repl ++ (pass k repl rest).2) := by
  rw [pass]; split
  · next rest' hm => rw [h] at hm; cases hm; rfl
  · next hm => rw [h] at hm; cases hm

/-- lines that cannot start a match are copied: a run `xs` of lines none of which starts `k`,
    followed by a non-blank line `y` that does not start `k` -/
theorem pass_copy (k : Mk) (repl : List Line) (xs : List Line) (y : Line) (rest : List Line)
    (hxs : ∀ x ∈ xs, startsMk k x = false) (hy : isBlank y = false) (hk : startsMk k y = false) :
    pass k repl (xs ++ y :: rest) = ((pass k repl rest).1, xs ++ y :: (pass k repl rest).2) := by
  induction xs with
  | nil =>
    have := matchAt_none k [] y rest (by simp) hy hk
    simp only [List.nil_append] at this ⊢
    rw [pass_cons_none k repl y rest this]
  | cons x t ih =>
    have ht : ∀ x ∈ t, startsMk k x = false := fun z hz => hxs z (by simp [hz])
    have hx : startsMk k x = false := hxs x (by simp)
    -- no match at x: find the first non-blank line in x :: t ++ [y]
    have hnone : matchAt k (x :: (t ++ y :: rest)) = none := by
      -- split x :: t into leading blanks and the remainder
      have key : ∀ (l : List Line), (∀ z ∈ l, startsMk k z = false) →
          matchAt k (l ++ y :: rest) = none := by
        intro l hl
        induction l with
        | nil => simpa using matchAt_none k [] y rest (by simp) hy hk
        | cons z l' ihl =>
          have hz : startsMk k z = false := hl z (by simp)
          have hl' : ∀ w ∈ l', startsMk k w = false := fun w hw => hl w (by simp [hw])
          cases hzb : isBlank z with
          | false => simpa using matchAt_none k [] z (l' ++ y :: rest) (by simp) hzb hz
          | true =>
            have := ihl hl'
            unfold matchAt at this ⊢
            split
            · simp only [List.cons_append, matchLine, hzb, if_true]; simpa using this
            · next hk' =>
              simp only [List.cons_append, matchBlock, hzb, if_true]
              cases k <;> simp_all
      exact key (x :: t) hxs
    simp only [List.cons_append]
    rw [pass_cons_none k repl x _ hnone, ih ht]

/-! ## the item-level image of one pass -/

/-- item-level pass with pending blank user lines `pend` (in order) -/
def passI (k : Mk) (rit : List Item) : List Item → List Item → List Item
  | pend, [] => pend
  | pend, it :: r =>
    if it.isBlankUser then passI k rit (pend ++ [it]) r
    else if isK k it then rit ++ passI k rit [] r
    else pend ++ it :: passI k rit [] r

theorem flatten_nil : flatten [] = [] := rfl

theorem flatten_append (a b : List Item) : flatten (a ++ b) = flatten a ++ flatten b := by
  simp [flatten]

theorem flatten_cons (it : Item) (r : List Item) : flatten (it :: r) = it.lines ++ flatten r := by
  simp [flatten]

theorem flatten_blankUsers (pend : List Item) (h : ∀ it ∈ pend, it.isBlankUser = true) :
    (flatten pend).all isBlank = true := by
  induction pend with
  | nil => rfl
  | cons it t ih =>
    have h1 := h it (by simp)
    have h2 := ih (fun z hz => h z (by simp [hz]))
    cases it with
    | user x => simp [flatten_cons, Item.lines, Item.isBlankUser] at h1 ⊢; exact ⟨h1, by simpa using h2⟩
    | block k s b e => simp [Item.isBlankUser] at h1
    | ins x => simp [Item.isBlankUser] at h1

/-- blank lines that are followed only by blank lines or nothing are copied -/
theorem pass_blanks (k : Mk) (repl : List Line) (bs : List Line) (hbs : bs.all isBlank = true) :
    pass k repl bs = (0, bs) := by
  induction bs with
  | nil => exact pass_nil k repl
  | cons b t ih =>
    have ht : t.all isBlank = true := by simp only [List.all_cons, Bool.and_eq_true] at hbs; exact hbs.2
    rw [pass_cons_none k repl b t (matchAt_blanks_only k (b :: t) hbs), ih ht]

/-- a line that starts a marker of kind k' does not start kind k ≠ k' -/
theorem startsMk_other {k k' : Mk} {l : Line} (h : startsMk k' l = true) (hne : k ≠ k') : startsMk k l = false := by
  cases hk : startsMk k l with
  | false => rfl
  | true => exact absurd (startsMk_unique hk h) hne

theorem blockKind_ne_insert {k : Mk} (h : blockKind k = true) : k ≠ .insert := by
  intro hk; subst hk; simp [blockKind] at h

/-- Main lemma: the text pass on a flattened well-formed arrangement is the item-level pass. -/
theorem pass_flatten (k : Mk) (hk : k ≠ .endm) (rit : List Item) (items : List Item)
    (hwf : ∀ it ∈ items, it.wf = true) :
    ∀ (pend : List Item), (∀ it ∈ pend, it.isBlankUser = true) →
      pass k (flatten rit) (flatten pend ++ flatten items)
        = (cntK k items, flatten (passI k rit pend items)) := by
  induction items with
  | nil =>
    intro pend hp
    simp only [flatten, List.flatMap_nil, List.append_nil, passI, cntK, List.filter_nil, List.length_nil]
    exact pass_blanks k _ _ (by simpa [flatten] using flatten_blankUsers pend hp)
  | cons it rest ih =>
    intro pend hp
    have hwf' : ∀ it ∈ rest, it.wf = true := fun i hi => hwf i (by simp [hi])
    have hit := hwf it (by simp)
    have hpb := flatten_blankUsers pend hp
    cases hbu : it.isBlankUser with
    | true =>
      -- joins the pending run
      have hp' : ∀ i ∈ pend ++ [it], i.isBlankUser = true := by
        intro i hi; rcases List.mem_append.mp hi with h | h
        · exact hp i h
        · simp at h; subst h; exact hbu
      have := ih hwf' (pend ++ [it]) hp'
      have hnk : isK k it = false := by
        cases it <;> simp [Item.isBlankUser, isK, Item.kind] at hbu ⊢
      simp only [passI, hbu, if_true, cntK, List.filter_cons, hnk]
      simp only [flatten_append, flatten_cons, List.append_assoc] at this ⊢
      simpa [flatten, cntK] using this
    | false =>
      cases hik : isK k it with
      | true =>
        -- a k item: blanks + item are replaced
        have hrest := ih hwf' [] (by simp)
        simp only [flatten_nil, List.nil_append] at hrest
        simp only [passI, hbu, hik, if_true, cntK, List.filter_cons, List.length_cons]
        cases it with
        | user x => simp [isK, Item.kind] at hik
        | block k' s body e =>
          have hkk : k' = k := by simpa [isK, Item.kind] using hik
          subst hkk
          simp only [Item.wf, Bool.and_eq_true] at hit
          obtain ⟨⟨⟨hbk, hs⟩, hb⟩, he⟩ := hit
          have hm := matchAt_block k' (blockKind_ne_insert hbk) (flatten pend) s body e (flatten rest) hpb hs hb he
          have hshape : flatten pend ++ flatten (Item.block k' s body e :: rest)
              = flatten pend ++ s :: (body ++ e :: flatten rest) := by
            simp [flatten_cons, Item.lines]
          rw [hshape]
          cases hfp : flatten pend ++ s :: (body ++ e :: flatten rest) with
          | nil => cases flatten pend <;> simp at hfp
          | cons y ys =>
            rw [hfp] at hm
            rw [pass_cons_some k' _ y ys _ hm]
            rw [hrest]; simp [flatten_append, cntK]
        | ins x =>
          have hkk : k = .insert := by
            simp [isK, Item.kind] at hik; first | exact hik | exact hik.symm
          subst hkk
          simp only [Item.wf] at hit
          have hm := matchAt_ins (flatten pend) x (flatten rest) hpb hit
          have hshape : flatten pend ++ flatten (Item.ins x :: rest) = flatten pend ++ x :: flatten rest := by
            simp [flatten_cons, Item.lines]
          rw [hshape]
          cases hfp : flatten pend ++ x :: flatten rest with
          | nil => cases flatten pend <;> simp at hfp
          | cons y ys =>
            rw [hfp] at hm
            rw [pass_cons_some .insert _ y ys _ hm]
            rw [hrest]; simp [flatten_append, cntK]
      | false =>
        -- a non-blank item of another kind: pending blanks and the item's lines are copied
        have hrest := ih hwf' [] (by simp)
        simp only [flatten_nil, List.nil_append] at hrest
        simp only [passI, hbu, hik, cntK, List.filter_cons]
        have hpk : ∀ x ∈ flatten pend, startsMk k x = false := by
          intro x hx
          have := List.all_eq_true.mp hpb x hx
          cases hsk : startsMk k x with
          | false => rfl
          | true => rw [startsMk_not_blank hsk] at this; cases this
        cases it with
        | user x =>
          simp only [Item.isBlankUser] at hbu
          simp only [Item.wf] at hit
          have := pass_copy k (flatten rit) (flatten pend) x (flatten rest) hpk hbu (plain_not_starts hit k)
          simp only [flatten_cons, flatten_append, Item.lines, List.singleton_append, Bool.false_eq_true, if_false] at this ⊢
          rw [this]
          rw [hrest]; simp [cntK]
        | block k' s body e =>
          have hne : k ≠ k' := by
            intro h; subst h; simp [isK, Item.kind] at hik
          simp only [Item.wf, Bool.and_eq_true] at hit
          obtain ⟨⟨⟨hbk, hs⟩, hb⟩, he⟩ := hit
          -- copy pend ++ s :: body up to e
          have hxs : ∀ x ∈ flatten pend ++ s :: body, startsMk k x = false := by
            intro x hx
            rcases List.mem_append.mp hx with h | h
            · exact hpk x h
            · rcases List.mem_cons.mp h with h | h
              · subst h; exact startsMk_other hs hne
              · exact plain_not_starts (List.all_eq_true.mp hb x h) k
          have := pass_copy k (flatten rit) (flatten pend ++ s :: body) e (flatten rest) hxs
            (startsMk_not_blank he) (startsMk_other he hk)
          simp only [flatten_cons, flatten_append, Item.lines, List.append_assoc, List.cons_append,
            Bool.false_eq_true, if_false, List.nil_append] at this ⊢
          rw [this]
          rw [hrest]; simp [cntK]
        | ins x =>
          have hne : k ≠ .insert := by
            intro h; subst h; simp [isK, Item.kind] at hik
          simp only [Item.wf] at hit
          have := pass_copy k (flatten rit) (flatten pend) x (flatten rest) hpk
            (startsMk_not_blank hit) (startsMk_other hit hne)
          simp only [flatten_cons, flatten_append, Item.lines, List.singleton_append, Bool.false_eq_true, if_false] at this ⊢
          rw [this]
          rw [hrest]; simp [cntK]

end GoatSpec

namespace GoatSpec

/-! ## structure of the item-level pass -/

theorem dBU_append (a b : List Item) : dBU (a ++ b) = dBU a ++ dBU b := by simp [dBU]

theorem dBU_blank (pend : List Item) (h : ∀ it ∈ pend, it.isBlankUser = true) : dBU pend = [] := by
  simp only [dBU, List.filter_eq_nil_iff]
  intro a ha; simp [h a ha]

theorem replaceK_cons (k : Mk) (rit : List Item) (it : Item) (r : List Item) :
    replaceK k rit (it :: r) = (if isK k it then rit else [it]) ++ replaceK k rit r := by
  simp [replaceK]

theorem dBU_passI (k : Mk) (rit : List Item) (hrit : dBU rit = rit) (items : List Item) :
    ∀ pend, (∀ it ∈ pend, it.isBlankUser = true) →
      dBU (passI k rit pend items) = replaceK k rit (dBU items) := by
  induction items with
  | nil => intro pend hp; rw [passI, dBU_blank pend hp]; rfl
  | cons it r ih =>
    intro pend hp
    cases hbu : it.isBlankUser with
    | true =>
      have hp' : ∀ i ∈ pend ++ [it], i.isBlankUser = true := by
        intro i hi; rcases List.mem_append.mp hi with h | h
        · exact hp i h
        · simp at h; subst h; exact hbu
      simp only [passI, hbu, if_true]
      rw [ih _ hp']; simp [dBU, hbu]
    | false =>
      have hd : dBU (it :: r) = it :: dBU r := by simp [dBU, hbu]
      cases hik : isK k it with
      | true =>
        simp only [passI, hbu, hik, if_true, Bool.false_eq_true, if_false]
        rw [dBU_append, hrit, ih [] (by simp), hd, replaceK_cons, hik]; simp
      | false =>
        simp only [passI, hbu, hik, Bool.false_eq_true, if_false]
        rw [dBU_append, dBU_blank pend hp, hd, replaceK_cons, hik]
        simp only [List.nil_append, Bool.false_eq_true, if_false, List.singleton_append]
        have h2 : dBU (it :: passI k rit [] r) = it :: dBU (passI k rit [] r) := by simp [dBU, hbu]
        rw [h2, ih [] (by simp)]

theorem wf_passI (k : Mk) (rit : List Item) (hrit : ∀ it ∈ rit, it.wf = true) (items : List Item)
    (hwf : ∀ it ∈ items, it.wf = true) :
    ∀ pend, (∀ it ∈ pend, it.wf = true) → ∀ it ∈ passI k rit pend items, it.wf = true := by
  induction items with
  | nil => intro pend hp it hit; simpa [passI] using hp it (by simpa [passI] using hit)
  | cons x r ih =>
    intro pend hp it hit
    have hr : ∀ it ∈ r, it.wf = true := fun i hi => hwf i (by simp [hi])
    have hx := hwf x (by simp)
    simp only [passI] at hit
    split at hit
    · exact ih hr (pend ++ [x]) (by
        intro i hi; rcases List.mem_append.mp hi with h | h
        · exact hp i h
        · simp at h; subst h; exact hx) it hit
    · split at hit
      · rcases List.mem_append.mp hit with h | h
        · exact hrit it h
        · exact ih hr [] (by simp) it h
      · rcases List.mem_append.mp hit with h | h
        · exact hp it h
        · rcases List.mem_cons.mp h with h | h
          · subst h; exact hx
          · exact ih hr [] (by simp) it h

theorem nonBlank_append (a b : List Line) : nonBlank (a ++ b) = nonBlank a ++ nonBlank b := by
  simp [nonBlank]

/-- blank user lines do not show in the non-blank lines -/
theorem nonBlank_flatten_dBU (items : List Item) : nonBlank (flatten (dBU items)) = nonBlank (flatten items) := by
  induction items with
  | nil => rfl
  | cons it r ih =>
    cases hbu : it.isBlankUser with
    | true =>
      have : dBU (it :: r) = dBU r := by simp [dBU, hbu]
      rw [this, ih, flatten_cons, nonBlank_append]
      cases it with
      | user x => simp [Item.isBlankUser] at hbu; simp [Item.lines, nonBlank, hbu]
      | block k s b e => simp [Item.isBlankUser] at hbu
      | ins x => simp [Item.isBlankUser] at hbu
    | false =>
      have : dBU (it :: r) = it :: dBU r := by simp [dBU, hbu]
      rw [this, flatten_cons, flatten_cons, nonBlank_append, nonBlank_append, ih]

theorem cntK_dBU (k : Mk) (items : List Item) : cntK k (dBU items) = cntK k items := by
  induction items with
  | nil => rfl
  | cons it r ih =>
    cases hbu : it.isBlankUser with
    | true =>
      have h1 : dBU (it :: r) = dBU r := by simp [dBU, hbu]
      have h2 : isK k it = false := by cases it <;> simp [Item.isBlankUser, isK, Item.kind] at hbu ⊢
      rw [h1, ih]; simp [cntK, h2]
    | false =>
      have h1 : dBU (it :: r) = it :: dBU r := by simp [dBU, hbu]
      rw [h1]; simp only [cntK, List.filter_cons] at ih ⊢
      split <;> simp [ih]

theorem replaceK_nil_eq_filter (k : Mk) (items : List Item) :
    replaceK k [] items = items.filter (fun it => !isK k it) := by
  induction items with
  | nil => rfl
  | cons it r ih =>
    rw [replaceK_cons, ih]
    cases h : isK k it <;> simp [h]

end GoatSpec
