import GoatSpec.Proofs.Mark
/-! # Granularity monotonicity of the marking fold: the same events at patch granularity yield
    a subset of the positions of line granularity (helper for C09). Two runs over the same
    event list are simulated side by side. -/
namespace GoatSpec

/-- the first non-comment line at or after the argument is a position afterwards, provided it
    lies inside a function -/
theorem markInsert_mem_skip (env : Env) (st st' : MState) (line r : Nat)
    (hs : skipComments env (env.comments.size + 1) line = .ok r) (hf : searchScopes env.funcs r ≠ 0)
    (h : markInsert env st line = .ok st') : r ∈ st'.multi := by
  unfold markInsert at h
  rw [hs] at h
  simp only at h
  split at h
  · next h0 => simp at h0; exact absurd h0 hf
  · split at h
    · next hcont => cases h; simpa [List.contains_iff_mem] using hcont
    · cases h; simp

/-- at every granularity except func, a position that appears during `forceMark line` is the
    first non-comment line at or after `line` -/
theorem forceMark_new (env : Env) (hg : env.gran ≠ .func) (st st' : MState) (line : Nat) (hinv : Inv env st)
    (h : forceMark env st line = .ok st') :
    ∀ x ∈ st'.multi, x ∈ st.multi ∨ skipComments env (env.comments.size + 1) line = .ok x := by
  unfold forceMark at h
  split at h
  all_goals try dsimp only at h
  · exact (markInsert_spec env st st' line hinv h).2.2.2.2.2
  · next hgf => exact absurd hgf hg
  · split at h
    · cases h; intro x hx; exact Or.inl hx
    · split at h
      · cases h; intro x hx; exact Or.inl hx
      · next t ht hv =>
        have hinv' : Inv env { st with visitedScopes := t.search line :: st.visitedScopes } :=
          ⟨hinv.nodup, hinv.notComment, hinv.inFunc, hinv.count⟩
        exact (markInsert_spec env _ st' line hinv' h).2.2.2.2.2
  · split at h
    · cases h; intro x hx; exact Or.inl hx
    · next t ht =>
      split at h
      · cases h
      · next ps hps =>
        generalize hst1 : (if (List.lookup (TScope.search line t) st.patch).isNone = true then
            ({ multi := st.multi, singles := st.singles, count := st.count, visitedScopes := st.visitedScopes,
               patch := (TScope.search line t, ps) :: st.patch } : MState) else st) = st1 at h
        have h1 : st1.multi = st.multi ∧ st1.singles = st.singles ∧ st1.count = st.count := by
          rw [← hst1]; split <;> simp
        have hinv1 : Inv env st1 :=
          ⟨h1.1 ▸ hinv.nodup, by rw [h1.1]; exact hinv.notComment, by rw [h1.1]; exact hinv.inFunc,
           by rw [h1.1, h1.2.1, h1.2.2]; exact hinv.count⟩
        split at h
        · cases h
        · cases h; intro x hx; rw [h1.1] at hx; exact Or.inl hx
        · split at h
          · next st2 ps2 hm hpm =>
            cases h
            have := (markInsert_spec env st1 st2 line hinv1 hm).2.2.2.2.2
            intro x hx
            rcases this x hx with h2 | h2
            · rw [h1.1] at h2; exact Or.inl h2
            · exact Or.inr h2
          · cases h
          · cases h

/-- environments that differ only in the granularity -/
def Env.withGran (env : Env) (g : Gran) : Env := { env with gran := g }

theorem withGran_isChanged (env : Env) (g : Gran) (l : Nat) : (env.withGran g).isChanged l = env.isChanged l := rfl
theorem withGran_skip (env : Env) (g : Gran) (fuel l : Nat) :
    skipComments (env.withGran g) fuel l = skipComments env fuel l := by
  induction fuel generalizing l with
  | zero => rfl
  | succ f ih =>
    simp only [skipComments]
    have : (env.withGran g).isComment l = env.isComment l := rfl
    rw [this]
    split <;> simp_all

/-- one event, two runs: finer run `stL` at line granularity, coarser run `stC` at granularity
    `g ∈ {patch, scope}`; positions and single positions of the coarse run stay included -/
theorem step_sub_line (env : Env) (g : Gran) (hg : g ≠ .func) (stC stC' stL stL' : MState) (ev : Ev)
    (hiC : Inv (env.withGran g) stC) (hiL : Inv (env.withGran .line) stL)
    (hC : stepEv (env.withGran g) stC ev = .ok stC') (hL : stepEv (env.withGran .line) stL ev = .ok stL')
    (hsub : ∀ x ∈ stC.multi, x ∈ stL.multi) (hsing : stC.singles = stL.singles) :
    (∀ x ∈ stC'.multi, x ∈ stL'.multi) ∧ stC'.singles = stL'.singles := by
  have keyForce : ∀ l, forceMark (env.withGran g) stC l = .ok stC' → forceMark (env.withGran .line) stL l = .ok stL' →
      (∀ x ∈ stC'.multi, x ∈ stL'.multi) ∧ stC'.singles = stL'.singles := by
    intro l hc hl
    have sC := forceMark_spec _ stC stC' l hiC hc
    have sL := forceMark_spec _ stL stL' l hiL hl
    refine ⟨?_, by rw [sC.2.2, sL.2.2, hsing]⟩
    intro x hx
    rcases forceMark_new _ (by simpa [Env.withGran] using hg) stC stC' l hiC hc x hx with h1 | h1
    · exact sL.2.1 x (hsub x h1)
    · -- x = first non-comment line after l, inside a function: the line run inserts it
      have hf : searchScopes env.funcs x ≠ 0 := sC.1.inFunc x hx
      have hl' : markInsert (env.withGran .line) stL l = .ok stL' := by
        simpa [forceMark, Env.withGran] using hl
      have hs : skipComments (env.withGran .line) ((env.withGran .line).comments.size + 1) l = .ok x := by
        rw [withGran_skip]; rw [withGran_skip] at h1; exact h1
      exact markInsert_mem_skip _ stL stL' l x hs hf hl'
  cases ev with
  | force l => exact keyForce l hC hL
  | check l =>
    simp only [stepEv, withGran_isChanged] at hC hL
    cases hch : env.isChanged l with
    | error e => simp [hch] at hC
    | ok b =>
      cases b with
      | false => simp [hch] at hC hL; subst hC; subst hL; exact ⟨hsub, hsing⟩
      | true => simp [hch] at hC hL; exact keyForce l hC hL
  | single l c =>
    simp only [stepEv, withGran_isChanged] at hC hL
    cases hch : env.isChanged l with
    | error e => simp [hch] at hC
    | ok b =>
      cases b with
      | false => simp [hch] at hC hL; subst hC; subst hL; exact ⟨hsub, hsing⟩
      | true =>
        simp [hch] at hC hL; subst hC; subst hL
        exact ⟨hsub, by simp [hsing]⟩

theorem run_sub_line (env : Env) (g : Gran) (hg : g ≠ .func) (evs : List Ev) :
    ∀ (stC stC' stL stL' : MState), Inv (env.withGran g) stC → Inv (env.withGran .line) stL →
      evs.foldlM (stepEv (env.withGran g)) stC = .ok stC' → evs.foldlM (stepEv (env.withGran .line)) stL = .ok stL' →
      (∀ x ∈ stC.multi, x ∈ stL.multi) → stC.singles = stL.singles →
      (∀ x ∈ stC'.multi, x ∈ stL'.multi) ∧ stC'.singles = stL'.singles := by
  induction evs with
  | nil =>
    intro stC stC' stL stL' _ _ hC hL hsub hsing
    simp [pure, Except.pure] at hC hL; subst hC; subst hL; exact ⟨hsub, hsing⟩
  | cons ev rest ih =>
    intro stC stC' stL stL' hiC hiL hC hL hsub hsing
    obtain ⟨c1, hc1, hc2⟩ := (foldlM_ok_cons _ _ _ _ _).mp hC
    obtain ⟨l1, hl1, hl2⟩ := (foldlM_ok_cons _ _ _ _ _).mp hL
    have s := step_sub_line env g hg stC c1 stL l1 ev hiC hiL hc1 hl1 hsub hsing
    exact ih c1 stC' l1 stL' (stepEv_spec _ stC c1 ev hiC hc1).1 (stepEv_spec _ stL l1 ev hiL hl1).1 hc2 hl2 s.1 s.2

end GoatSpec

namespace GoatSpec

/-! ## scope ⊆ patch: the first event of a scope key always inserts at patch granularity -/

theorem searchTrees_fold (line : Nat) (ts : List TScope) :
    ∀ (init : Option TScope), (∀ u, init = some u → u.s < line ∧ line < u.e) →
      ∀ t, ts.foldl (fun r t => if t.s < line && line < t.e then some t else r) init = some t → t.s < line ∧ line < t.e := by
  induction ts with
  | nil => intro init hi t ht; simp at ht; exact hi t ht
  | cons a r ih =>
    intro init hi t ht
    simp only [List.foldl_cons] at ht
    refine ih _ ?_ t ht
    intro u hu
    split at hu
    · next hc =>
      cases hu
      simpa using hc
    · exact hi u hu

theorem searchTrees_some (ts : List TScope) (line : Nat) (t : TScope) (h : searchTrees ts line = some t) :
    t.s < line ∧ line < t.e :=
  searchTrees_fold line ts none (by intro u hu; cases hu) t h

/-- `fill` appends `fuel` entries, each 0 or 1 -/
theorem fill_spec (env : Env) (s : Nat) : ∀ (fuel i : Nat) (acc m : Array Nat),
    newPatchScope.fill env s i fuel acc = .ok m →
    m.size = acc.size + fuel ∧ (∀ k (hk : k < m.size), (∀ (hka : k < acc.size), acc[k] ≤ 1) → m[k] ≤ 1) := by
  intro fuel
  induction fuel with
  | zero =>
    intro i acc m h
    simp [newPatchScope.fill] at h; subst h
    exact ⟨rfl, fun k hk hacc => hacc hk⟩
  | succ f ih =>
    intro i acc m h
    simp only [newPatchScope.fill] at h
    split at h
    · next a b ha hb =>
      have := ih (i + 1) _ m h
      refine ⟨by rw [this.1, Array.size_push]; omega, ?_⟩
      intro k hk hacc
      apply this.2 k hk
      intro hka
      rw [Array.getElem_push]
      split
      · next hlt => exact hacc hlt
      · split <;> omega
    · cases h
    · cases h

theorem newPatchScope_spec (env : Env) (s e : Nat) (ps : PatchScope) (h : newPatchScope env s e = .ok ps) :
    ps.s = s ∧ ps.e = e ∧ ps.marks.size = e - s - 1 ∧ ∀ k (hk : k < ps.marks.size), ps.marks[k] ≤ 1 := by
  unfold newPatchScope at h
  dsimp only at h
  split at h
  · cases h
  · next m hm =>
    cases h
    have := fill_spec env s (e - s - 1) 0 #[] m hm
    refine ⟨rfl, rfl, by simpa using this.1, ?_⟩
    intro k hk
    exact this.2 k hk (by intro hka; simp at hka)

theorem get_fresh (ps : PatchScope) (hsz : ps.marks.size = ps.e - ps.s - 1)
    (h01 : ∀ k (hk : k < ps.marks.size), ps.marks[k] ≤ 1) (j : Nat) (h1 : ps.s < j) (h2 : j < ps.e) :
    ∃ v, ps.get j = .ok v ∧ v ≤ 1 := by
  unfold PatchScope.get
  have hn : ¬ j ≤ ps.s := by omega
  have hi : j - ps.s - 1 < ps.marks.size := by omega
  simp only [hn, if_false, hi, dite_true]
  exact ⟨_, rfl, h01 _ hi⟩

theorem back_fresh (ps : PatchScope) (hsz : ps.marks.size = ps.e - ps.s - 1)
    (h01 : ∀ k (hk : k < ps.marks.size), ps.marks[k] ≤ 1) :
    ∀ (fuel j : Nat), j < ps.e → PatchScope.canInsert.back ps j fuel = .ok true := by
  intro fuel
  induction fuel with
  | zero => intro j _; simp [PatchScope.canInsert.back]
  | succ f ih =>
    intro j hj
    simp only [PatchScope.canInsert.back]
    split
    · rfl
    · next hjs =>
      obtain ⟨v, hv, hle⟩ := get_fresh ps hsz h01 j (by omega) hj
      rw [hv]
      have : v = 0 ∨ v = 1 := by omega
      rcases this with rfl | rfl
      · simp
      · simp only; exact ih (j - 1) (by omega)

/-- a fresh patch scope lets any line strictly inside it insert -/
theorem canInsert_fresh (env : Env) (s e : Nat) (ps : PatchScope) (h : newPatchScope env s e = .ok ps)
    (line : Nat) (h1 : s < line) (h2 : line < e) : ps.canInsert line = .ok true := by
  obtain ⟨hs, he, hsz, h01⟩ := newPatchScope_spec env s e ps h
  have hsz' : ps.marks.size = ps.e - ps.s - 1 := by rw [hs, he]; exact hsz
  unfold PatchScope.canInsert
  obtain ⟨v, hv, hle⟩ := get_fresh ps hsz' h01 line (by omega) (by omega)
  rw [hv]
  have : v = 0 ∨ v = 1 := by omega
  rcases this with rfl | rfl
  · simp only; exact back_fresh ps hsz' h01 line (line - 1) (by omega)
  · simp only; exact back_fresh ps hsz' h01 line (line - 1) (by omega)

end GoatSpec

namespace GoatSpec

abbrev Key := Nat × Nat

theorem lookup_filter_ne (key key' : Key) (l : List (Key × PatchScope)) :
    (List.lookup key' (l.filter (fun kv => kv.1 != key))).isSome
      = (!(key' == key) && (List.lookup key' l).isSome) := by
  induction l with
  | nil => simp
  | cons kv r ih =>
    obtain ⟨k, v⟩ := kv
    by_cases hk : k = key
    · subst hk
      simp only [List.filter_cons, bne_self_eq_false, Bool.false_eq_true, if_false, List.lookup_cons]
      rw [ih]
      by_cases h2 : key' = k
      · subst h2; simp
      · have : (key' == k) = false := by simpa using h2
        simp [this]
    · have hne : (k != key) = true := by simpa using hk
      simp only [List.filter_cons, hne, if_true, List.lookup_cons]
      by_cases h2 : key' = k
      · subst h2
        have : (key' == key) = false := by simpa using hk
        simp [this]
      · have : (key' == k) = false := by simpa using h2
        simp only [this]
        exact ih

/-- relation between a scope-granularity run and a patch-granularity run over the same events -/
structure SPRel (stS stP : MState) : Prop where
  sub : ∀ x ∈ stS.multi, x ∈ stP.multi
  singles : stS.singles = stP.singles
  keys : ∀ key, stS.visitedScopes.contains key = (List.lookup key stP.patch).isSome

theorem bor_key (a : Bool) (key' key : Key) (h : key' ≠ key) : (a || key' == key) = a := by
  have : (key' == key) = false := by simpa using h
  simp [this]

theorem force_scope_patch (env : Env) (stS stS' stP stP' : MState) (l : Nat)
    (hiS : Inv (env.withGran .scope) stS) (hiP : Inv (env.withGran .patch) stP)
    (hS : forceMark (env.withGran .scope) stS l = .ok stS') (hP : forceMark (env.withGran .patch) stP l = .ok stP')
    (hr : SPRel stS stP) : SPRel stS' stP' := by
  have sP := forceMark_spec _ stP stP' l hiP hP
  unfold forceMark at hS hP
  have gS : (env.withGran .scope).gran = .scope := rfl
  have gP : (env.withGran .patch).gran = .patch := rfl
  have tS : (env.withGran .scope).trees = env.trees := rfl
  have tP : (env.withGran .patch).trees = env.trees := rfl
  simp only [gS, tS] at hS
  simp only [gP, tP] at hP
  cases hst : searchTrees env.trees l with
  | none =>
    simp only [hst] at hS hP
    cases hS; cases hP; exact hr
  | some t =>
    simp only [hst] at hS hP
    have hin := searchTrees_some env.trees l t hst
    generalize hkey : TScope.search l t = key at hS hP
    -- table after the patch step: the key is present, other keys unchanged
    have htable : ∀ key', (List.lookup key' stP'.patch).isSome = ((List.lookup key' stP.patch).isSome || key' == key) := by
      intro key'
      split at hP
      · cases hP
      · next ps hps =>
        generalize hst1 : (if (List.lookup key stP.patch).isNone = true then
            ({ multi := stP.multi, singles := stP.singles, count := stP.count, visitedScopes := stP.visitedScopes,
               patch := (key, ps) :: stP.patch } : MState) else stP) = st1 at hP
        have ht1 : (List.lookup key' st1.patch).isSome = ((List.lookup key' stP.patch).isSome || key' == key) := by
          rw [← hst1]
          cases hlk : List.lookup key stP.patch with
          | none =>
            show (List.lookup key' ((key, ps) :: stP.patch)).isSome = _
            rw [List.lookup_cons]
            by_cases h2 : key' = key
            · subst h2; simp
            · have hne : (key' == key) = false := by simpa using h2
              rw [hne, Bool.or_false]
          | some p =>
            show (List.lookup key' stP.patch).isSome = _
            by_cases h2 : key' = key
            · subst h2; rw [hlk]; simp
            · have hne : (key' == key) = false := by simpa using h2
              rw [hne, Bool.or_false]
        have hinv1 : Inv (env.withGran .patch) st1 := by
          have h1 : st1.multi = stP.multi ∧ st1.singles = stP.singles ∧ st1.count = stP.count := by
            rw [← hst1]; split <;> simp
          exact ⟨h1.1 ▸ hiP.nodup, by rw [h1.1]; exact hiP.notComment, by rw [h1.1]; exact hiP.inFunc,
            by rw [h1.1, h1.2.1, h1.2.2]; exact hiP.count⟩
        split at hP
        · cases hP
        · cases hP; exact ht1
        · split at hP
          · next st2 ps2 hm hpm =>
            cases hP
            have hp2 : st2.patch = st1.patch := (markInsert_spec _ st1 st2 l hinv1 hm).2.2.2.2.1
            by_cases h2 : key' = key
            · subst h2; simp [List.lookup_cons]
            · have hne : (key' == key) = false := by simpa using h2
              simp only [List.lookup_cons, hne]
              rw [lookup_filter_ne, hp2, ht1, hne]; simp
          · cases hP
          · cases hP
    by_cases hv : stS.visitedScopes.contains key = true
    · -- key already visited: the scope run does nothing
      simp only [hv, if_true] at hS
      cases hS
      refine ⟨fun x hx => sP.2.1 x (hr.sub x hx), by rw [sP.2.2]; exact hr.singles, ?_⟩
      intro key'
      rw [htable key', ← hr.keys key']
      by_cases h2 : key' = key
      · subst h2; rw [hv]; simp
      · rw [bor_key _ _ _ h2]
    · -- first event of this key: both runs call markInsert on the same line
      have hvf : stS.visitedScopes.contains key = false := by
        cases h : stS.visitedScopes.contains key with
        | false => rfl
        | true => exact absurd h hv
      simp only [hvf, Bool.false_eq_true, if_false] at hS
      have hlk : List.lookup key stP.patch = none := by
        have := hr.keys key; rw [hvf] at this
        cases h : List.lookup key stP.patch with
        | none => rfl
        | some p => rw [h] at this; cases this
      simp only [hlk] at hP
      cases hps : newPatchScope (env.withGran .patch) t.s t.e with
      | error e => simp only [hps] at hP; cases hP
      | ok ps =>
        simp only [hps, Option.isNone_none, if_true] at hP
        rw [canInsert_fresh (env.withGran .patch) t.s t.e ps hps l hin.1 hin.2] at hP
        simp only at hP
        split at hP
        · next st2 ps2 hm hpm =>
          cases hP
          have hinv1 : Inv (env.withGran .patch)
              { multi := stP.multi, singles := stP.singles, count := stP.count, visitedScopes := stP.visitedScopes,
                patch := (key, ps) :: stP.patch } :=
            ⟨hiP.nodup, hiP.notComment, hiP.inFunc, hiP.count⟩
          have mP := markInsert_spec _ _ st2 l hinv1 hm
          have hiS1 : Inv (env.withGran .scope)
              { multi := stS.multi, singles := stS.singles, count := stS.count, visitedScopes := key :: stS.visitedScopes,
                patch := stS.patch } :=
            ⟨hiS.nodup, hiS.notComment, hiS.inFunc, hiS.count⟩
          have mS := markInsert_spec _ _ stS' l hiS1 hS
          refine ⟨?_, ?_, ?_⟩
          · intro x hx
            rcases mS.2.2.2.2.2 x hx with h1 | h1
            · exact mP.2.1 x (hr.sub x h1)
            · have hf : searchScopes env.funcs x ≠ 0 := mS.1.inFunc x hx
              have hs : skipComments (env.withGran .patch) ((env.withGran .patch).comments.size + 1) l = .ok x := by
                rw [withGran_skip]; rw [withGran_skip] at h1; exact h1
              exact markInsert_mem_skip _ _ st2 l x hs hf hm
          · show stS'.singles = st2.singles
            rw [mS.2.2.1, mP.2.2.1]; exact hr.singles
          · intro key'
            have hvs : stS'.visitedScopes = key :: stS.visitedScopes := mS.2.2.2.1
            rw [htable key', hvs, ← hr.keys key']
            by_cases h2 : key' = key
            · subst h2; simp
            · rw [bor_key _ _ _ h2]
              have hne : (key' == key) = false := by simpa using h2
              rw [List.contains_cons, hne, Bool.false_or]
        · cases hP
        · cases hP

end GoatSpec

namespace GoatSpec

theorem step_scope_patch (env : Env) (stS stS' stP stP' : MState) (ev : Ev)
    (hiS : Inv (env.withGran .scope) stS) (hiP : Inv (env.withGran .patch) stP)
    (hS : stepEv (env.withGran .scope) stS ev = .ok stS') (hP : stepEv (env.withGran .patch) stP ev = .ok stP')
    (hr : SPRel stS stP) : SPRel stS' stP' := by
  cases ev with
  | force l => exact force_scope_patch env stS stS' stP stP' l hiS hiP hS hP hr
  | check l =>
    simp only [stepEv, withGran_isChanged] at hS hP
    cases hch : env.isChanged l with
    | error e => simp [hch] at hS
    | ok b =>
      cases b with
      | false => simp [hch] at hS hP; subst hS; subst hP; exact hr
      | true => simp [hch] at hS hP; exact force_scope_patch env stS stS' stP stP' l hiS hiP hS hP hr
  | single l c =>
    simp only [stepEv, withGran_isChanged] at hS hP
    cases hch : env.isChanged l with
    | error e => simp [hch] at hS
    | ok b =>
      cases b with
      | false => simp [hch] at hS hP; subst hS; subst hP; exact hr
      | true =>
        simp [hch] at hS hP; subst hS; subst hP
        exact ⟨hr.sub, by simp [hr.singles], hr.keys⟩

theorem run_scope_patch (env : Env) (evs : List Ev) :
    ∀ (stS stS' stP stP' : MState), Inv (env.withGran .scope) stS → Inv (env.withGran .patch) stP →
      evs.foldlM (stepEv (env.withGran .scope)) stS = .ok stS' → evs.foldlM (stepEv (env.withGran .patch)) stP = .ok stP' →
      SPRel stS stP → SPRel stS' stP' := by
  induction evs with
  | nil =>
    intro stS stS' stP stP' _ _ hS hP hr
    simp [pure, Except.pure] at hS hP; subst hS; subst hP; exact hr
  | cons ev rest ih =>
    intro stS stS' stP stP' hiS hiP hS hP hr
    obtain ⟨s1, hs1, hs2⟩ := (foldlM_ok_cons _ _ _ _ _).mp hS
    obtain ⟨p1, hp1, hp2⟩ := (foldlM_ok_cons _ _ _ _ _).mp hP
    exact ih s1 stS' p1 stP' (stepEv_spec _ stS s1 ev hiS hs1).1 (stepEv_spec _ stP p1 ev hiP hp1).1 hs2 hp2
      (step_scope_patch env stS s1 stP p1 ev hiS hiP hs1 hp1 hr)

end GoatSpec
