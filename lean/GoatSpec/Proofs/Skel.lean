import GoatSpec.SkelSpec
/-! # Soundness of reading facts off a fixed point of the skeleton transfer function

`SkelSpec.table` is the table the translator hands over; the kernel checks that it is a fixed
point of `round` (`isFixedPoint`). This file proves the abstract-interpretation fact that makes
a fixed point enough: the transfer function is monotone, hence **every fixed point whose
entries satisfy `late ⊆ all` lies above every finite unrolling `iter n ⊥`** (`iter_le_fixed`) —
in particular above the least fixed point the analyses are meant to compute. All facts the
property theorems draw from the table are upper bounds (at most these late steps, at most these
variables, no unhooked write, effect-free callees), so they hold of the least fixed point too. -/
namespace GoatSpec.SkelSpec
open GoatSpec.Skeleton

/-- bit-mask inclusion -/
def Sub (a b : Nat) : Prop := ∀ i, a.testBit i = true → b.testBit i = true

theorem Sub.refl (a : Nat) : Sub a a := fun _ h => h
theorem Sub.trans {a b c : Nat} (h1 : Sub a b) (h2 : Sub b c) : Sub a c := fun i h => h2 i (h1 i h)
theorem Sub.zero (a : Nat) : Sub 0 a := by intro i h; simp at h
theorem Sub.lor {a b c d : Nat} (h1 : Sub a b) (h2 : Sub c d) : Sub (a ||| c) (b ||| d) := by
  intro i h
  rw [Nat.testBit_or, Bool.or_eq_true] at h ⊢
  rcases h with h | h
  · exact Or.inl (h1 i h)
  · exact Or.inr (h2 i h)
theorem Sub.lor_left (a b : Nat) : Sub a (a ||| b) := by
  intro i h; rw [Nat.testBit_or, Bool.or_eq_true]; exact Or.inl h
theorem Sub.lor_right (a b : Nat) : Sub b (a ||| b) := by
  intro i h; rw [Nat.testBit_or, Bool.or_eq_true]; exact Or.inr h
theorem Sub.lor_le {a b c : Nat} (h1 : Sub a c) (h2 : Sub b c) : Sub (a ||| b) c := by
  intro i h
  rw [Nat.testBit_or, Bool.or_eq_true] at h
  rcases h with h | h
  · exact h1 i h
  · exact h2 i h

/-- order on scan states, including the invariant `late ⊆ all` of the larger one -/
structure StLe (s t : St) : Prop where
  w : s.written = true → t.written = true
  all : Sub s.all t.all
  late : Sub s.late t.late
  refs : Sub s.refs t.refs

def StWf (s : St) : Prop := Sub s.late s.all

structure SumLe (a b : Sum) : Prop where
  w : a.w = true → b.w = true
  all : Sub a.all b.all
  late : Sub a.late b.late
  refs : Sub a.refs b.refs

def SumWf (a : Sum) : Prop := Sub a.late a.all

/-- pointwise order on tables (through `getD`, so tables of different length compare too) -/
def TblLe (t1 t2 : List Sum) : Prop := ∀ f, SumLe (t1.getD f {}) (t2.getD f {})
def TblWf (t : List Sum) : Prop := ∀ f, SumWf (t.getD f {})

theorem callSum_mono {t1 t2 : List Sum} (ht : TblLe t1 t2) (hw2 : TblWf t2) {s1 s2 : St} (hs : StLe s1 s2)
    (hwf : StWf s2) (f : Nat) : StLe (callSum t1 s1 f) (callSum t2 s2 f) ∧ StWf (callSum t2 s2 f) := by
  have hc := ht f
  have hcw := hw2 f
  refine ⟨⟨?_, ?_, ?_, ?_⟩, ?_⟩
  · intro h
    simp only [callSum, Bool.or_eq_true] at h ⊢
    rcases h with h | h
    · exact Or.inl (hs.w h)
    · exact Or.inr (hc.w h)
  · simp only [callSum]; exact Sub.lor hs.all hc.all
  · simp only [callSum]
    apply Sub.lor hs.late
    by_cases h1 : s1.written = true
    · have h2 := hs.w h1
      simp only [h1, h2, if_true]; exact hc.all
    · have h1' : s1.written = false := by simpa using h1
      by_cases h2 : s2.written = true
      · simp only [h1', h2, if_true]
        exact Sub.trans hc.late hcw
      · have h2' : s2.written = false := by simpa using h2
        simp only [h1', h2']; exact hc.late
  · simp only [callSum]; exact Sub.lor hs.refs hc.refs
  · simp only [StWf, callSum]
    apply Sub.lor_le
    · exact Sub.trans hwf (Sub.lor_left _ _)
    · by_cases h2 : s2.written = true
      · simp only [h2, if_true]; exact Sub.lor_right _ _
      · have h2' : s2.written = false := by simpa using h2
        simp only [h2']; exact Sub.trans hcw (Sub.lor_right _ _)

theorem foldl_callSum_mono {t1 t2 : List Sum} (ht : TblLe t1 t2) (hw2 : TblWf t2) :
    ∀ (fs : List Nat) {s1 s2 : St}, StLe s1 s2 → StWf s2 →
      StLe (fs.foldl (callSum t1) s1) (fs.foldl (callSum t2) s2) ∧ StWf (fs.foldl (callSum t2) s2) := by
  intro fs
  induction fs with
  | nil => intro s1 s2 hs hwf; exact ⟨hs, hwf⟩
  | cons f r ih =>
    intro s1 s2 hs hwf
    obtain ⟨h1, h2⟩ := callSum_mono ht hw2 hs hwf f
    exact ih h1 h2

mutual
theorem stepSk_mono {t1 t2 : List Sum} (ht : TblLe t1 t2) (hw2 : TblWf t2) (x : Sk) :
    ∀ {s1 s2 : St}, StLe s1 s2 → StWf s2 → StLe (stepSk t1 s1 x) (stepSk t2 s2 x) ∧ StWf (stepSk t2 s2 x) := by
  cases x with
  | call f => intro s1 s2 hs hwf; simp only [stepSk]; exact callSum_mono ht hw2 hs hwf f
  | icall fs => intro s1 s2 hs hwf; simp only [stepSk]; exact foldl_callSum_mono ht hw2 fs hs hwf
  | ext k =>
    intro s1 s2 hs hwf
    simp only [stepSk]
    refine ⟨⟨hs.w, Sub.lor hs.all (Sub.refl _), ?_, hs.refs⟩, ?_⟩
    · by_cases h1 : s1.written = true
      · have h2 := hs.w h1
        simp only [h1, h2, if_true]; exact Sub.lor hs.late (Sub.refl _)
      · have h1' : s1.written = false := by simpa using h1
        by_cases h2 : s2.written = true
        · simp only [h1', h2, if_true]; exact Sub.trans hs.late (Sub.lor_left _ _)
        · have h2' : s2.written = false := by simpa using h2
          simp only [h1', h2']; exact hs.late
    · simp only [StWf]
      by_cases h2 : s2.written = true
      · simp only [h2, if_true]; exact Sub.lor hwf (Sub.refl _)
      · have h2' : s2.written = false := by simpa using h2
        simp only [h2']; exact Sub.trans hwf (Sub.lor_left _ _)
  | hook op => intro s1 s2 hs hwf; simp only [stepSk]; exact ⟨hs, hwf⟩
  | write p =>
    intro s1 s2 hs hwf
    simp only [stepSk]
    exact ⟨⟨fun _ => rfl, hs.all, hs.late, hs.refs⟩, hwf⟩
  | ref v =>
    intro s1 s2 hs hwf
    simp only [stepSk]
    exact ⟨⟨hs.w, hs.all, hs.late, Sub.lor hs.refs (Sub.refl _)⟩, hwf⟩
  | loop body =>
    intro s1 s2 hs hwf
    simp only [stepSk]
    obtain ⟨h1, h2⟩ := stepL_mono ht hw2 body hs hwf
    exact stepL_mono ht hw2 body h1 h2
  | spawn body =>
    intro s1 s2 hs hwf
    simp only [stepSk]
    exact stepL_mono ht hw2 body hs hwf
theorem stepL_mono {t1 t2 : List Sum} (ht : TblLe t1 t2) (hw2 : TblWf t2) (xs : List Sk) :
    ∀ {s1 s2 : St}, StLe s1 s2 → StWf s2 → StLe (stepL t1 s1 xs) (stepL t2 s2 xs) ∧ StWf (stepL t2 s2 xs) := by
  cases xs with
  | nil => intro s1 s2 hs hwf; simp only [stepL]; exact ⟨hs, hwf⟩
  | cons x r =>
    intro s1 s2 hs hwf
    simp only [stepL]
    obtain ⟨h1, h2⟩ := stepSk_mono ht hw2 x hs hwf
    exact stepL_mono ht hw2 r h1 h2
end

theorem StLe.init : StLe {} {} := ⟨fun h => h, Sub.refl _, Sub.refl _, Sub.refl _⟩
theorem StWf.init : StWf {} := Sub.refl _

theorem sumOf_mono {t1 t2 : List Sum} (ht : TblLe t1 t2) (hw2 : TblWf t2) (body : List Sk) :
    SumLe (sumOf t1 body) (sumOf t2 body) ∧ SumWf (sumOf t2 body) := by
  obtain ⟨h1, h2⟩ := stepL_mono ht hw2 body StLe.init StWf.init
  exact ⟨⟨h1.w, h1.all, h1.late, h1.refs⟩, h2⟩

theorem SumLe.bot (a : Sum) : SumLe {} a := ⟨fun h => Bool.noConfusion h, Sub.zero _, Sub.zero _, Sub.zero _⟩

theorem getD_map_sumOf (t : List Sum) (bs : List (List Sk)) (f : Nat) :
    (bs.map (sumOf t)).getD f {} = if f < bs.length then sumOf t (bs.getD f []) else {} := by
  simp only [List.getD_eq_getElem?_getD, List.getElem?_map]
  by_cases h : f < bs.length
  · simp [h]
  · simp [h, List.getElem?_eq_none (Nat.le_of_not_lt h)]

/-- `round` is monotone and produces well-formed entries -/
theorem round_mono {t1 t2 : List Sum} (ht : TblLe t1 t2) (hw2 : TblWf t2) :
    TblLe (round t1) (round t2) ∧ TblWf (round t2) := by
  constructor
  · intro f
    simp only [round, getD_map_sumOf]
    split
    · exact (sumOf_mono ht hw2 _).1
    · exact SumLe.bot _
  · intro f
    simp only [round, getD_map_sumOf]
    split
    · exact (sumOf_mono ht hw2 _).2
    · exact Sub.refl _

def bottom : List Sum := bodies.map (fun _ => {})

theorem bottom_le (t : List Sum) : TblLe bottom t := by
  intro f
  have : bottom.getD f {} = ({} : Sum) := by
    simp only [bottom, List.getD_eq_getElem?_getD, List.getElem?_map]
    cases bodies[f]? <;> rfl
  rw [this]; exact SumLe.bot _

/-- **every well-formed fixed point of the transfer function lies above every finite unrolling
    from the empty table** — hence above the least fixed point -/
theorem iter_le_fixed (t : List Sum) (hfix : round t = t) (hwf : TblWf t) : ∀ n, TblLe (iter n bottom) t := by
  have key : ∀ n (s : List Sum), TblLe s t → TblLe (iter n s) t := by
    intro n
    induction n with
    | zero => intro s hs; exact hs
    | succ k ih =>
      intro s hs
      simp only [iter]
      apply ih
      have := (round_mono hs hwf).1
      rw [hfix] at this
      exact this
  intro n
  exact key n bottom (bottom_le t)

theorem sub_of_and_eq {a b : Nat} (h : a &&& b = a) : Sub a b := by
  intro i hi
  have : (a &&& b).testBit i = true := by rw [h]; exact hi
  rw [Nat.testBit_and, Bool.and_eq_true] at this
  exact this.2

theorem tblWf_of_all (t : List Sum) (h : t.all (fun s => s.late &&& s.all == s.late) = true) : TblWf t := by
  intro f
  simp only [List.getD_eq_getElem?_getD]
  cases hf : t[f]? with
  | none => exact Sub.refl _
  | some s =>
    have hm : s ∈ t := List.mem_of_getElem? hf
    have := (List.all_eq_true.mp h) s hm
    exact sub_of_and_eq (by simpa using this)

end GoatSpec.SkelSpec
